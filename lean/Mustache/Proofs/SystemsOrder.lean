import Mustache.Model.Systems
import Mustache.Proofs.SystemsSpec
/-!
`reorderSystems` (model `reorder`) against the specification: the computed order is a permutation,
respects every constraint, is priority-greedy; it fails exactly on cyclic constraint relations.
-/
namespace Mustache.Systems

abbrev Entry := Node × List Name

/-! ### keys -/

theorem keyLe_refl (a : Node) : keyLe a a = true := by
  simp [keyLe]

theorem keyLe_trans {a b c : Node} (h1 : keyLe a b = true) (h2 : keyLe b c = true) :
    keyLe a c = true := by
  simp only [keyLe, Bool.or_eq_true, Bool.and_eq_true, decide_eq_true_eq] at *
  omega

theorem keyLe_total (a b : Node) : (keyLe a b || keyLe b a) = true := by
  simp only [keyLe, Bool.or_eq_true, Bool.and_eq_true, decide_eq_true_eq]
  omega

theorem keyGe_trans (a b c : Entry) (h1 : keyGe a b = true) (h2 : keyGe b c = true) :
    keyGe a c = true := keyLe_trans h2 h1

theorem keyGe_total (a b : Entry) : (keyGe a b || keyGe b a) = true := keyLe_total b.1 a.1

/-! ### `pick` -/

theorem pick_some {unp : List Name} : ∀ {rem : List Entry} {p : Entry} {rest : List Entry},
    pick unp rem = some (p, rest) →
    ∃ l1 l2, rem = l1 ++ p :: l2 ∧ rest = l1 ++ l2 ∧ canPlace unp p = true ∧
      ∀ q ∈ l1, canPlace unp q = false := by
  intro rem
  induction rem with
  | nil => intro p rest h; simp [pick] at h
  | cons x xs ih =>
    intro p rest h
    simp only [pick] at h
    by_cases hx : canPlace unp x = true
    · simp only [hx, if_true, Option.some.injEq, Prod.mk.injEq] at h
      rcases h with ⟨rfl, rfl⟩
      exact ⟨[], xs, rfl, rfl, hx, by simp⟩
    · simp only [hx] at h
      cases hp : pick unp xs with
      | none => simp [hp] at h
      | some qr =>
        rcases qr with ⟨q, r⟩
        simp only [hp] at h
        rcases h with ⟨rfl, rfl⟩
        rcases ih hp with ⟨l1, l2, rfl, rfl, hc, hall⟩
        refine ⟨x :: l1, l2, rfl, rfl, hc, ?_⟩
        intro y hy
        rcases List.mem_cons.mp hy with rfl | hy
        · simpa using hx
        · exact hall y hy

theorem pick_none {unp : List Name} : ∀ {rem : List Entry},
    pick unp rem = none → ∀ q ∈ rem, canPlace unp q = false := by
  intro rem
  induction rem with
  | nil => intro _ q hq; cases hq
  | cons x xs ih =>
    intro h q hq
    simp only [pick] at h
    by_cases hx : canPlace unp x = true
    · simp [hx] at h
    · simp only [hx] at h
      cases hp : pick unp xs with
      | none =>
        rcases List.mem_cons.mp hq with rfl | hq
        · simpa using hx
        · exact ih hp q hq
      | some qr => simp [hp] at h

theorem canPlace_iff (rem : List Entry) (p : Entry) :
    canPlace (rem.map (·.1.name)) p = true ↔ ∀ q ∈ rem, q.1.name ∉ p.2 := by
  unfold canPlace
  rw [List.all_eq_true]
  constructor
  · intro h q hq hmem
    have h1 := h _ hmem
    have h2 : (rem.map (·.1.name)).contains q.1.name = true :=
      List.contains_iff_mem.mpr (List.mem_map_of_mem (f := fun x : Entry => x.1.name) hq)
    rw [h2] at h1; cases h1
  · intro h d hd
    cases hc : (rem.map (·.1.name)).contains d
    · rfl
    · rcases List.mem_map.mp (List.contains_iff_mem.mp hc) with ⟨q, hq, rfl⟩
      exact absurd hd (h q hq)

/-! ### `placeLoop` -/

/-- unfolding of one iteration -/
theorem placeLoop_some {fuel : Nat} {x : Entry} {xs : List Entry} {o : List Node}
    (h : placeLoop (fuel + 1) (x :: xs) = some o) :
    ∃ p l1 l2 o', x :: xs = l1 ++ p :: l2 ∧ placeLoop fuel (l1 ++ l2) = some o' ∧ o = p.1 :: o' ∧
      canPlace ((x :: xs).map (·.1.name)) p = true ∧
      ∀ q ∈ l1, canPlace ((x :: xs).map (·.1.name)) q = false := by
  rw [placeLoop] at h
  split at h
  · cases h
  · rename_i p rest hp
    split at h
    · cases h
    · rename_i o' hl
      simp only [Option.some.injEq] at h
      rcases pick_some hp with ⟨l1, l2, h1, rfl, hc, hall⟩
      exact ⟨p, l1, l2, o', h1, hl, h.symm, hc, hall⟩

theorem placeLoop_perm : ∀ (fuel : Nat) (rem : List Entry) (o : List Node),
    placeLoop fuel rem = some o → o.Perm (rem.map (·.1)) := by
  intro fuel
  induction fuel with
  | zero =>
    intro rem o h
    cases rem with
    | nil => simp [placeLoop] at h; subst h; exact List.Perm.refl _
    | cons x xs => simp [placeLoop] at h
  | succ fuel ih =>
    intro rem o h
    cases rem with
    | nil => simp [placeLoop] at h; subst h; exact List.Perm.refl _
    | cons x xs =>
      rcases placeLoop_some h with ⟨p, l1, l2, o', hsplit, hl, rfl, _, _⟩
      rw [hsplit]
      have := ih _ _ hl
      simp only [List.map_append, List.map_cons]
      exact (List.Perm.cons p.1 (by simpa using this)).trans List.perm_middle.symm

/-- the dependency lists of the entries describe `mustPrecede` among the entries -/
def DepsOk (rem : List Entry) : Prop :=
  ∀ p ∈ rem, ∀ q ∈ rem, (q.1.name ∈ p.2 ↔ mustPrecede q.1 p.1 = true)

theorem DepsOk.sub {rem rest : List Entry} (h : DepsOk rem) (hs : ∀ x ∈ rest, x ∈ rem) : DepsOk rest :=
  fun p hp q hq => h p (hs p hp) q (hs q hq)

theorem placeLoop_respects : ∀ (fuel : Nat) (rem : List Entry) (o : List Node), DepsOk rem →
    placeLoop fuel rem = some o →
    ∀ pre a post, o = pre ++ a :: post → ∀ q ∈ rem, mustPrecede q.1 a = true → q.1 ∈ pre := by
  intro fuel
  induction fuel with
  | zero =>
    intro rem o _ h
    cases rem with
    | nil => simp [placeLoop] at h; subst h; intro pre a post hs; simp at hs
    | cons x xs => simp [placeLoop] at h
  | succ fuel ih =>
    intro rem o hd h
    cases rem with
    | nil => simp [placeLoop] at h; subst h; intro pre a post hs; simp at hs
    | cons x xs =>
      rcases placeLoop_some h with ⟨p, l1, l2, o', hsplit, hl, rfl, hc, _⟩
      intro pre a post hs q hq hm
      have hp : p ∈ x :: xs := by rw [hsplit]; simp
      cases pre with
      | nil =>
        simp only [List.nil_append, List.cons.injEq] at hs
        rcases hs with ⟨rfl, rfl⟩
        have h1 := (canPlace_iff (x :: xs) p).mp hc q hq
        exact absurd ((hd p hp q hq).mpr hm) h1
      | cons y ys =>
        simp only [List.cons_append, List.cons.injEq] at hs
        rcases hs with ⟨rfl, rfl⟩
        rw [hsplit] at hq
        have hq' : q = p ∨ q ∈ l1 ++ l2 := by
          simp only [List.mem_append, List.mem_cons] at hq ⊢
          rcases hq with h | h | h
          · exact Or.inr (Or.inl h)
          · exact Or.inl h
          · exact Or.inr (Or.inr h)
        rcases hq' with rfl | hq'
        · exact List.mem_cons_self ..
        · have hsub : ∀ z ∈ l1 ++ l2, z ∈ x :: xs := by
            intro z hz; rw [hsplit]
            simp only [List.mem_append, List.mem_cons] at hz ⊢
            rcases hz with h | h
            · exact Or.inl h
            · exact Or.inr (Or.inr h)
          exact List.mem_cons_of_mem _ (ih _ _ (hd.sub hsub) hl ys a post rfl q hq' hm)

theorem placeLoop_priority : ∀ (fuel : Nat) (rem : List Entry) (o : List Node), DepsOk rem →
    (rem.map (·.1)).Nodup → rem.Pairwise (fun a b => keyGe a b = true) →
    placeLoop fuel rem = some o →
    ∀ pre c post, o = pre ++ c :: post → ∀ q ∈ rem, q.1 ∉ pre →
      (∀ q' ∈ rem, mustPrecede q'.1 q.1 = true → q'.1 ∈ pre) → keyLe q.1 c = true := by
  intro fuel
  induction fuel with
  | zero =>
    intro rem o _ _ _ h
    cases rem with
    | nil => simp [placeLoop] at h; subst h; intro pre a post hs; simp at hs
    | cons x xs => simp [placeLoop] at h
  | succ fuel ih =>
    intro rem o hd hnd hsorted h
    cases rem with
    | nil => simp [placeLoop] at h; subst h; intro pre a post hs; simp at hs
    | cons x xs =>
      rcases placeLoop_some h with ⟨p, l1, l2, o', hsplit, hl, rfl, hc, hl1⟩
      intro pre c post hs q hq hqpre havail
      have hsub : ∀ z ∈ l1 ++ l2, z ∈ x :: xs := by
        intro z hz; rw [hsplit]
        simp only [List.mem_append, List.mem_cons] at hz ⊢
        rcases hz with h | h
        · exact Or.inl h
        · exact Or.inr (Or.inr h)
      cases pre with
      | nil =>
        simp only [List.nil_append, List.cons.injEq] at hs
        rcases hs with ⟨rfl, rfl⟩
        -- q is placeable, hence not among the entries skipped before p
        have hqc : canPlace ((x :: xs).map (·.1.name)) q = true := by
          apply (canPlace_iff (x :: xs) q).mpr
          intro q' hq' hmem
          have := havail q' hq' ((hd q hq q' hq').mp hmem)
          cases this
        rw [hsplit] at hq hsorted
        simp only [List.mem_append, List.mem_cons] at hq
        rcases hq with hq | rfl | hq
        · have := hl1 q hq; rw [hqc] at this; cases this
        · exact keyLe_refl _
        · have h2 := (List.pairwise_append.mp hsorted).2.1
          exact (List.pairwise_cons.mp h2).1 q hq
      | cons y ys =>
        simp only [List.cons_append, List.cons.injEq] at hs
        rcases hs with ⟨rfl, rfl⟩
        have hnd' : ((l1 ++ p :: l2).map (·.1)).Nodup := by rw [← hsplit]; exact hnd
        have hpnot : p.1 ∉ (l1 ++ l2).map (·.1) := by
          simp only [List.map_append, List.map_cons] at hnd'
          have h3 := List.nodup_append.mp hnd'
          have h4 := List.nodup_cons.mp h3.2.1
          simp only [List.map_append, List.mem_append]
          rintro (h5 | h5)
          · exact h3.2.2 _ h5 _ (List.mem_cons_self ..) rfl
          · exact h4.1 h5
        have hqne : q.1 ≠ p.1 := fun e => hqpre (e ▸ List.mem_cons_self ..)
        have hq' : q ∈ l1 ++ l2 := by
          rw [hsplit] at hq
          simp only [List.mem_append, List.mem_cons] at hq ⊢
          rcases hq with h | rfl | h
          · exact Or.inl h
          · exact absurd rfl hqne
          · exact Or.inr h
        have hnd2 : ((l1 ++ l2).map (·.1)).Nodup := by
          simp only [List.map_append, List.map_cons] at hnd' ⊢
          have h3 := List.nodup_append.mp hnd'
          refine List.nodup_append.mpr ⟨h3.1, (List.nodup_cons.mp h3.2.1).2, ?_⟩
          intro a ha b hb
          exact h3.2.2 a ha b (List.mem_cons_of_mem _ hb)
        have hsorted2 : (l1 ++ l2).Pairwise (fun a b => keyGe a b = true) := by
          rw [hsplit] at hsorted
          exact hsorted.sublist (List.Sublist.append (List.Sublist.refl _) (List.sublist_cons_self ..))
        refine ih _ _ (hd.sub hsub) hnd2 hsorted2 hl ys c post rfl q hq' ?_ ?_
        · exact fun hmem => hqpre (List.mem_cons_of_mem _ hmem)
        · intro q' hq'' hm
          have := havail q' (hsub q' hq'') hm
          rcases List.mem_cons.mp this with e | hmem
          · exact absurd (e ▸ List.mem_map_of_mem (f := (·.1)) hq'') hpnot
          · exact hmem

theorem placeLoop_none : ∀ (fuel : Nat) (rem : List Entry), rem.length ≤ fuel →
    placeLoop fuel rem = none →
    ∃ R : List Entry, R ≠ [] ∧ (∀ x ∈ R, x ∈ rem) ∧ ∀ p ∈ R, ∃ q ∈ R, q.1.name ∈ p.2 := by
  intro fuel
  induction fuel with
  | zero =>
    intro rem hlen h
    cases rem with
    | nil => simp [placeLoop] at h
    | cons x xs => simp at hlen
  | succ fuel ih =>
    intro rem hlen h
    cases rem with
    | nil => simp [placeLoop] at h
    | cons x xs =>
      rw [placeLoop] at h
      split at h
      · rename_i hp
        refine ⟨x :: xs, by simp, fun _ hx => hx, ?_⟩
        intro p hpm
        have hc := pick_none hp p hpm
        apply Classical.byContradiction
        intro hne
        have : canPlace ((x :: xs).map (·.1.name)) p = true := by
          apply (canPlace_iff (x :: xs) p).mpr
          intro q hq hmem
          exact hne ⟨q, hq, hmem⟩
        rw [hc] at this; cases this
      · rename_i p rest hp
        split at h
        · rename_i hl
          rcases pick_some hp with ⟨l1, l2, hsplit, rfl, _, _⟩
          have hlen' : (l1 ++ l2).length ≤ fuel := by
            have : (x :: xs).length = (l1 ++ p :: l2).length := by rw [hsplit]
            simp only [List.length_append, List.length_cons] at this hlen ⊢
            omega
          rcases ih _ hlen' hl with ⟨R, hne, hsub, hR⟩
          refine ⟨R, hne, ?_, hR⟩
          intro z hz
          have := hsub z hz
          rw [hsplit]
          simp only [List.mem_append, List.mem_cons] at this ⊢
          rcases this with h | h
          · exact Or.inl h
          · exact Or.inr (Or.inr h)
        · cases h

/-! ### folding `update_before`, sorting -/

theorem eq_of_name_eq {ns : List Node} (hnd : (ns.map (·.name)).Nodup) {a b : Node}
    (ha : a ∈ ns) (hb : b ∈ ns) (h : a.name = b.name) : a = b := by
  induction ns with
  | nil => cases ha
  | cons x xs ih =>
    simp only [List.map_cons, List.nodup_cons, List.mem_map, not_exists, not_and] at hnd
    rcases List.mem_cons.mp ha with rfl | ha' <;> rcases List.mem_cons.mp hb with rfl | hb'
    · rfl
    · exact absurd h.symm (hnd.1 b hb')
    · exact absurd h (hnd.1 a ha')
    · exact ih hnd.2 ha' hb'

theorem nodup_of_names {ns : List Node} (hnd : (ns.map (·.name)).Nodup) : ns.Nodup := by
  induction ns with
  | nil => exact List.nodup_nil
  | cons x xs ih =>
    simp only [List.map_cons, List.nodup_cons, List.mem_map, not_exists, not_and] at hnd
    exact List.nodup_cons.mpr ⟨fun hx => hnd.1 x hx rfl, ih hnd.2⟩

theorem mem_effAfter_iff {ns : List Node} (hnd : (ns.map (·.name)).Nodup) {b n : Node} (hb : b ∈ ns) :
    b.name ∈ effAfter ns n ↔ mustPrecede b n = true := by
  simp only [effAfter, mustPrecede, List.mem_append, List.mem_map, List.mem_filter, Bool.or_eq_true,
    List.contains_iff_mem]
  constructor
  · rintro (h | ⟨p, ⟨hp, hpb⟩, hname⟩)
    · exact Or.inl h
    · have : p = b := eq_of_name_eq hnd hp hb hname
      subst this
      exact Or.inr hpb
  · rintro (h | h)
    · exact Or.inl h
    · exact Or.inr ⟨b, ⟨hb, h⟩, rfl⟩

theorem insertDesc_perm (x : Entry) : ∀ l : List Entry, (insertDesc x l).Perm (x :: l) := by
  intro l
  induction l with
  | nil => exact List.Perm.refl _
  | cons y ys ih =>
    simp only [insertDesc]
    split
    · exact List.Perm.refl _
    · exact (List.Perm.cons y ih).trans (List.Perm.swap x y ys)

theorem sortDesc_perm : ∀ l : List Entry, (sortDesc l).Perm l := by
  intro l
  induction l with
  | nil => exact List.Perm.refl _
  | cons x xs ih => exact (insertDesc_perm x _).trans (List.Perm.cons x ih)

theorem insertDesc_sorted (x : Entry) : ∀ l : List Entry, l.Pairwise (fun a b => keyGe a b = true) →
    (insertDesc x l).Pairwise (fun a b => keyGe a b = true) := by
  intro l
  induction l with
  | nil => intro _; simp [insertDesc]
  | cons y ys ih =>
    intro h
    have hy := List.pairwise_cons.mp h
    simp only [insertDesc]
    split
    · rename_i hxy
      refine List.pairwise_cons.mpr ⟨?_, h⟩
      intro z hz
      rcases List.mem_cons.mp hz with rfl | hz
      · exact hxy
      · exact keyGe_trans _ _ _ hxy (hy.1 z hz)
    · rename_i hxy
      refine List.pairwise_cons.mpr ⟨?_, ih hy.2⟩
      intro z hz
      have hz' := (insertDesc_perm x ys).mem_iff.mp hz
      rcases List.mem_cons.mp hz' with rfl | hz'
      · have := keyGe_total z y
        simp only [Bool.or_eq_true] at this
        rcases this with h1 | h1
        · exact absurd h1 hxy
        · exact h1
      · exact hy.1 z hz'

theorem sortDesc_sorted : ∀ l : List Entry, (sortDesc l).Pairwise (fun a b => keyGe a b = true) := by
  intro l
  induction l with
  | nil => exact List.Pairwise.nil
  | cons x xs ih => exact insertDesc_sorted x _ ih

/-- the sorted, folded copy `reorderSystems` consumes -/
def sortedCopy (ns : List Node) : List Entry := sortDesc (foldBefore ns)

theorem sortedCopy_perm (ns : List Node) : (sortedCopy ns).Perm (foldBefore ns) :=
  sortDesc_perm _

theorem mem_sortedCopy {ns : List Node} {e : Entry} :
    e ∈ sortedCopy ns ↔ e.1 ∈ ns ∧ e.2 = effAfter ns e.1 := by
  rw [(sortedCopy_perm ns).mem_iff]
  simp only [foldBefore, List.mem_map]
  constructor
  · rintro ⟨n, hn, rfl⟩; exact ⟨hn, rfl⟩
  · rintro ⟨h1, h2⟩; exact ⟨e.1, h1, by rw [← h2]⟩

theorem sortedCopy_fst (ns : List Node) : ((sortedCopy ns).map (·.1)).Perm ns := by
  have h := (sortedCopy_perm ns).map (·.1)
  have h2 : (foldBefore ns).map (·.1) = ns := by
    simp [foldBefore, List.map_map, Function.comp_def]
  rw [h2] at h
  exact h

theorem sortedCopy_sorted (ns : List Node) :
    (sortedCopy ns).Pairwise (fun a b => keyGe a b = true) :=
  sortDesc_sorted _

theorem sortedCopy_depsOk {ns : List Node} (hnd : (ns.map (·.name)).Nodup) :
    DepsOk (sortedCopy ns) := by
  intro p hp q hq
  rcases mem_sortedCopy.mp hp with ⟨_, hp2⟩
  rcases mem_sortedCopy.mp hq with ⟨hq1, _⟩
  rw [hp2]
  exact mem_effAfter_iff hnd hq1

theorem sortedCopy_length (ns : List Node) : (sortedCopy ns).length = ns.length := by
  simpa using (sortedCopy_fst ns).length_eq

/-! ### `reorder` -/

theorem reorder_perm' {ns o : List Node} (h : reorder ns = some o) : o.Perm ns :=
  (placeLoop_perm _ _ _ h).trans (sortedCopy_fst ns)

theorem reorder_respects' {ns o : List Node} (hnd : (ns.map (·.name)).Nodup)
    (h : reorder ns = some o) : Respects ns o := by
  intro pre a post hs b hb hm
  have hmem : (b, effAfter ns b) ∈ sortedCopy ns := mem_sortedCopy.mpr ⟨hb, rfl⟩
  exact placeLoop_respects _ _ _ (sortedCopy_depsOk hnd) h pre a post hs _ hmem hm

theorem reorder_priority' {ns o : List Node} (hnd : (ns.map (·.name)).Nodup)
    (h : reorder ns = some o) : PriorityGreedy ns o := by
  intro pre c post hs m hm
  rcases hm with ⟨hm1, hm2, hm3⟩
  have hmem : (m, effAfter ns m) ∈ sortedCopy ns := mem_sortedCopy.mpr ⟨hm1, rfl⟩
  have hnd2 : ((sortedCopy ns).map (·.1)).Nodup :=
    (sortedCopy_fst ns).nodup_iff.mpr (nodup_of_names hnd)
  refine placeLoop_priority _ _ _ (sortedCopy_depsOk hnd) hnd2 (sortedCopy_sorted ns) h
    pre c post hs _ hmem hm2 ?_
  intro q' hq' hmq
  exact hm3 q'.1 (mem_sortedCopy.mp hq').1 hmq

theorem reorder_valid {ns o : List Node} (hnd : (ns.map (·.name)).Nodup)
    (h : reorder ns = some o) : ValidOrder ns o :=
  ⟨reorder_perm' h, reorder_respects' hnd h, reorder_priority' hnd h⟩

theorem reorder_none_cyclic {ns : List Node} (hnd : (ns.map (·.name)).Nodup)
    (h : reorder ns = none) : Cyclic ns := by
  have hlen : (sortedCopy ns).length ≤ ns.length := by rw [sortedCopy_length]; exact Nat.le_refl _
  rcases placeLoop_none _ _ hlen h with ⟨R, hne, hsub, hR⟩
  have hpred : ∀ y ∈ R, ∃ x ∈ R, (fun (x y : Entry) => mustPrecede x.1 y.1 = true) x y := by
    intro y hy
    rcases hR y hy with ⟨x, hx, hxy⟩
    exact ⟨x, hx, (sortedCopy_depsOk hnd y (hsub y hy) x (hsub x hx)).mp hxy⟩
  rcases exists_cycle R _ hne hpred with ⟨a, ha⟩
  have h1 : RPath (fun b a => mustPrecede b a = true) (R.map (·.1)) a.1 a.1 :=
    RPath.map (r' := fun b a => mustPrecede b a = true) (fun e : Entry => e.1) (fun _ _ h => h) ha
  refine ⟨a.1, h1.mono ?_⟩
  intro x hx
  rcases List.mem_map.mp hx with ⟨e, he, rfl⟩
  exact (mem_sortedCopy.mp (hsub e he)).1

theorem reorder_cyclic_none {ns : List Node} (hnd : (ns.map (·.name)).Nodup)
    (hc : Cyclic ns) : reorder ns = none := by
  cases h : reorder ns with
  | none => rfl
  | some o =>
    have hp := reorder_perm' h
    exact absurd hc (not_cyclic_of_respects hp (hp.nodup_iff.mpr (nodup_of_names hnd))
      (reorder_respects' hnd h))

end Mustache.Systems

import Mustache.Model.Systems
/-!
Calls on one system (`Run.call`): effect on states, on the per-object traces, and preservation of the
correspondence "state of the object ↔ last callback it saw" together with legality of every trace.
-/
namespace Mustache.Systems

/-! ### traces -/

theorem traceOf_append (u : Nat) (a b : List Ev) : traceOf u (a ++ b) = traceOf u a ++ traceOf u b := by
  simp [traceOf, List.filter_append]

theorem traceOf_mk_self (u : Nat) (cbs : List Cb) : traceOf u (cbs.map (Ev.mk u)) = cbs := by
  induction cbs with
  | nil => rfl
  | cons c cs ih =>
    simp only [traceOf, List.map_cons, List.filter_cons, beq_self_eq_true, if_true, List.cons.injEq, true_and]
    exact ih

theorem traceOf_mk_other {u v : Nat} (h : v ≠ u) (cbs : List Cb) : traceOf v (cbs.map (Ev.mk u)) = [] := by
  induction cbs with
  | nil => rfl
  | cons c cs ih =>
    have : (u == v) = false := by simpa using fun e : u = v => h e.symm
    simp only [traceOf, List.map_cons, List.filter_cons, this] at ih ⊢
    exact ih

theorem legalFrom_append (l : Option Cb) (a b : List Cb) :
    legalFrom l (a ++ b) = (legalFrom l a && legalFrom (lastCb l a) b) := by
  induction a generalizing l with
  | nil => simp [legalFrom, lastCb]
  | cons c cs ih => simp [legalFrom, lastCb, ih, Bool.and_assoc]

theorem lastCb_append (l : Option Cb) (a b : List Cb) : lastCb l (a ++ b) = lastCb (lastCb l a) b := by
  induction a generalizing l with
  | nil => rfl
  | cons c cs ih => simp [lastCb, ih]

/-! ### state ↔ last callback -/

/-- the state an object is in, given the last callback it saw -/
def corrB : St → Option Cb → Bool
  | .uninit, none => true
  | .uninit, some .destroy => true
  | .inited, some .create => true
  | .configured, some .configure => true
  | .active, some .start => true
  | .active, some .update => true
  | .active, some .resume => true
  | .paused, some .pause => true
  | .stopped, some .stop => true
  | _, _ => false

/-- Every guarded transition of `ASystem` emits callbacks that are legal after the last one, and ends in
the state matching its last callback. `destroy` has no guard: it is legal unless the object is `uninit`. -/
theorem apply_legal (t : Tr) (s : St) (l : Option Cb) (s' : St) (cbs : List Cb)
    (h : s.apply t = some (s', cbs)) (hc : corrB s l = true) (hsafe : t = .destroy → s ≠ .uninit)
    (hfresh : t = .create → l = none) :
    legalFrom l cbs = true ∧ corrB s' (lastCb l cbs) = true := by
  rcases l with _ | c
  all_goals (try cases c)
  all_goals (cases t <;> cases s <;>
    simp only [St.apply, Option.some.injEq, Prod.mk.injEq, reduceCtorEq] at h)
  all_goals (obtain ⟨rfl, rfl⟩ := h)
  all_goals (simp_all [corrB, legalFrom, lastCb, allowedNext])

theorem apply_ne_uninit {t : Tr} {s s' : St} {cbs : List Cb} (h : s.apply t = some (s', cbs))
    (ht : t ≠ .destroy) : s' ≠ .uninit := by
  cases t <;> cases s <;> simp_all [St.apply] <;> (rcases h with ⟨rfl, _⟩; simp)

def St.started : St → Bool
  | .active | .paused | .stopped => true
  | _ => false

/-- pause / resume / stop only move between started states -/
theorem apply_ext_started {t : ExtTr} {s s' : St} {cbs : List Cb} (h : s.apply t.toTr = some (s', cbs)) :
    s.started = true ∧ s'.started = true := by
  cases t <;> cases s <;> simp_all [St.apply, ExtTr.toTr, St.started] <;> (rcases h with ⟨rfl, _⟩; rfl)

theorem apply_create_configure_not_started {t : Tr} {s s' : St} {cbs : List Cb}
    (h : s.apply t = some (s', cbs)) (ht : t = .create ∨ t = .configure) : s'.started = false := by
  rcases ht with rfl | rfl <;> cases s <;> simp_all [St.apply] <;> (rcases h with ⟨rfl, _⟩; rfl)

/-! ### `stateOf`, `applyAt` -/

theorem stateOf_nil (u : Nat) : stateOf [] u = none := rfl

theorem stateOf_cons (s : SysInfo) (ss : List SysInfo) (u : Nat) :
    stateOf (s :: ss) u = if s.uid = u then some s.st else stateOf ss u := by
  unfold stateOf
  rw [List.find?_cons]
  by_cases h : s.uid = u
  · simp [h]
  · have : (s.uid == u) = false := by simpa using h
    simp [this, h]

theorem stateOf_eq_none_iff {ss : List SysInfo} {u : Nat} :
    stateOf ss u = none ↔ u ∉ ss.map (·.uid) := by
  induction ss with
  | nil => simp [stateOf_nil]
  | cons s ss ih =>
    rw [stateOf_cons]
    by_cases h : s.uid = u
    · simp [h]
    · simp only [h, if_false, ih, List.map_cons, List.mem_cons, not_or]
      exact ⟨fun h' => ⟨fun e => h e.symm, h'⟩, fun h' => h'.2⟩

theorem stateOf_of_mem {ss : List SysInfo} (hnd : (ss.map (·.uid)).Nodup) {s : SysInfo} (hs : s ∈ ss) :
    stateOf ss s.uid = some s.st := by
  induction ss with
  | nil => cases hs
  | cons x xs ih =>
    rw [stateOf_cons]
    simp only [List.map_cons, List.nodup_cons, List.mem_map, not_exists, not_and] at hnd
    rcases List.mem_cons.mp hs with rfl | hs'
    · simp
    · have : x.uid ≠ s.uid := fun e => hnd.1 s hs' e.symm
      simp only [this, if_false]
      exact ih hnd.2 hs'

theorem stateOf_some_mem {ss : List SysInfo} {u : Nat} {st : St} (h : stateOf ss u = some st) :
    ∃ s ∈ ss, s.uid = u ∧ s.st = st := by
  induction ss with
  | nil => simp [stateOf_nil] at h
  | cons x xs ih =>
    rw [stateOf_cons] at h
    by_cases hx : x.uid = u
    · simp only [hx, if_true, Option.some.injEq] at h
      exact ⟨x, List.mem_cons_self .., hx, h⟩
    · simp only [hx, if_false] at h
      rcases ih h with ⟨s, hs, h1, h2⟩
      exact ⟨s, List.mem_cons_of_mem _ hs, h1, h2⟩

theorem stateOf_append_fresh {ss : List SysInfo} {s : SysInfo} (hf : stateOf ss s.uid = none) (v : Nat) :
    stateOf (ss ++ [s]) v = if v = s.uid then some s.st else stateOf ss v := by
  induction ss with
  | nil =>
    simp only [List.nil_append, stateOf_cons, stateOf_nil]
    by_cases h : s.uid = v
    · simp [h]
    · have : v ≠ s.uid := fun e => h e.symm
      simp [h, this]
  | cons x xs ih =>
    rw [stateOf_cons] at hf
    by_cases hx : x.uid = s.uid
    · simp [hx] at hf
    · simp only [hx, if_false] at hf
      simp only [List.cons_append, stateOf_cons]
      by_cases hxv : x.uid = v
      · have : v ≠ s.uid := fun e => hx (hxv.trans e)
        simp [hxv, this]
      · simp only [hxv, if_false]
        exact ih hf

theorem stateOf_filter_ne (ss : List SysInfo) (u v : Nat) :
    stateOf (ss.filter (fun s => decide (s.uid ≠ u))) v = if v = u then none else stateOf ss v := by
  induction ss with
  | nil => simp [stateOf_nil]
  | cons x xs ih =>
    by_cases hx : x.uid = u
    · have : decide (x.uid ≠ u) = false := by simp [hx]
      rw [List.filter_cons, this]
      simp only [Bool.false_eq_true, if_false, ih, stateOf_cons]
      by_cases hv : v = u
      · simp [hv]
      · have : x.uid ≠ v := fun e => hv (e.symm.trans hx)
        simp [hv, this]
    · have : decide (x.uid ≠ u) = true := by simp [hx]
      rw [List.filter_cons, this]
      simp only [if_true, stateOf_cons, ih]
      by_cases hv : v = u
      · subst hv
        simp [hx]
      · simp [hv]

/-- what `applyAt` does, by the state of the addressed object -/
theorem applyAt_spec (u : Nat) (t : Tr) : ∀ ss : List SysInfo,
    match stateOf ss u with
    | none => applyAt u t ss = some (ss, [])
    | some s =>
      match s.apply t with
      | none => applyAt u t ss = none
      | some (s', cbs) =>
        ∃ ss', applyAt u t ss = some (ss', cbs.map (Ev.mk u)) ∧ stateOf ss' u = some s' ∧
          (∀ v, v ≠ u → stateOf ss' v = stateOf ss v) ∧
          ss'.map (·.uid) = ss.map (·.uid) ∧ ss'.map (·.name) = ss.map (·.name) := by
  intro ss
  induction ss with
  | nil => simp [stateOf_nil, applyAt]
  | cons x xs ih =>
    rw [stateOf_cons]
    by_cases hx : x.uid = u
    · simp only [hx, if_true, applyAt]
      cases ha : x.st.apply t with
      | none => simp
      | some r =>
        rcases r with ⟨s', cbs⟩
        simp only
        have key : ∀ x' : SysInfo, x'.uid = x.uid → x'.name = x.name → x'.st = s' →
            stateOf (x' :: xs) u = some s' ∧
            (∀ v, v ≠ u → stateOf (x' :: xs) v = stateOf (x :: xs) v) ∧
            (x' :: xs).map (·.uid) = (x :: xs).map (·.uid) ∧
            (x' :: xs).map (·.name) = (x :: xs).map (·.name) := by
          intro x' h1 h2 h3
          refine ⟨?_, ?_, by simp [h1], by simp [h2]⟩
          · rw [stateOf_cons]; simp [h1, hx, h3]
          · intro v hv
            have : x.uid ≠ v := fun e => hv (e.symm.trans hx)
            rw [stateOf_cons, stateOf_cons]
            simp [h1, this]
        refine ⟨_, rfl, ?_⟩
        apply key <;> split <;> simp [hx]
    · simp only [hx, if_false, applyAt]
      cases hs : stateOf xs u with
      | none =>
        simp only [hs] at ih
        simp [ih]
      | some s =>
        simp only [hs] at ih
        cases ha : s.apply t with
        | none =>
          simp only [ha] at ih
          simp [ih, ha]
        | some r =>
          rcases r with ⟨s', cbs⟩
          simp only [ha] at ih
          rcases ih with ⟨ss', h1, h2, h3, h4, h5⟩
          simp only [ha]
          refine ⟨x :: ss', by simp [h1], ?_, ?_, by simp [h4], by simp [h5]⟩
          · rw [stateOf_cons]; simp [hx, h2]
          · intro v hv
            rw [stateOf_cons, stateOf_cons, h3 v hv]

/-! ### `Run.call` -/

theorem call_not_ok {r : Run} (h : r.ok = false) (u : Nat) (t : Tr) : r.call u t = r := by
  simp [Run.call, h]

/-- effect of one call that does not throw -/
structure CallEffect (r r' : Run) (u : Nat) (s s' : St) (cbs : List Cb) : Prop where
  ok : r'.ok = true
  evs : r'.evs = r.evs ++ cbs.map (Ev.mk u)
  same : stateOf r'.ss u = some s'
  other : ∀ v, v ≠ u → stateOf r'.ss v = stateOf r.ss v
  uids : r'.ss.map (·.uid) = r.ss.map (·.uid)
  names : r'.ss.map (·.name) = r.ss.map (·.name)

theorem call_cases (r : Run) (hok : r.ok = true) (u : Nat) (t : Tr) :
    (stateOf r.ss u = none ∧ r.call u t = r) ∨
    (∃ s, stateOf r.ss u = some s ∧ s.apply t = none ∧ r.call u t = { r with ok := false }) ∨
    (∃ s s' cbs, stateOf r.ss u = some s ∧ s.apply t = some (s', cbs) ∧
      CallEffect r (r.call u t) u s s' cbs) := by
  have hspec := applyAt_spec u t r.ss
  cases hs : stateOf r.ss u with
  | none =>
    simp only [hs] at hspec
    left
    refine ⟨rfl, ?_⟩
    cases r with
    | mk ss evs ok => simp_all [Run.call]
  | some s =>
    simp only [hs] at hspec
    right
    cases ha : s.apply t with
    | none =>
      simp only [ha] at hspec
      left
      exact ⟨s, rfl, ha, by simp [Run.call, hok, hspec]⟩
    | some p =>
      rcases p with ⟨s', cbs⟩
      simp only [ha] at hspec
      rcases hspec with ⟨ss', h1, h2, h3, h4, h5⟩
      right
      refine ⟨s, s', cbs, rfl, ha, ?_⟩
      have hc : r.call u t = { r with ss := ss', evs := r.evs ++ cbs.map (Ev.mk u) } := by
        simp [Run.call, hok, h1]
      rw [hc]
      exact ⟨hok, rfl, h2, h3, h4, h5⟩

theorem call_uids (r : Run) (u : Nat) (t : Tr) : (r.call u t).ss.map (·.uid) = r.ss.map (·.uid) := by
  cases hok : r.ok with
  | false => rw [call_not_ok hok]
  | true =>
    rcases call_cases r hok u t with ⟨_, h⟩ | ⟨_, _, _, h⟩ | ⟨_, _, _, _, _, h⟩
    · rw [h]
    · rw [h]
    · exact h.uids

theorem call_names (r : Run) (u : Nat) (t : Tr) : (r.call u t).ss.map (·.name) = r.ss.map (·.name) := by
  cases hok : r.ok with
  | false => rw [call_not_ok hok]
  | true =>
    rcases call_cases r hok u t with ⟨_, h⟩ | ⟨_, _, _, h⟩ | ⟨_, _, _, _, _, h⟩
    · rw [h]
    · rw [h]
    · exact h.names

theorem call_other (r : Run) (u : Nat) (t : Tr) {v : Nat} (hv : v ≠ u) :
    stateOf (r.call u t).ss v = stateOf r.ss v := by
  cases hok : r.ok with
  | false => rw [call_not_ok hok]
  | true =>
    rcases call_cases r hok u t with ⟨_, h⟩ | ⟨_, _, _, h⟩ | ⟨_, _, _, _, _, h⟩
    · rw [h]
    · rw [h]
    · exact h.other v hv

/-- the events of a call are appended, and they concern a registered object -/
theorem call_evs (r : Run) (u : Nat) (t : Tr) :
    ∃ cbs, (r.call u t).evs = r.evs ++ cbs.map (Ev.mk u) ∧ (cbs ≠ [] → stateOf r.ss u ≠ none) := by
  cases hok : r.ok with
  | false => rw [call_not_ok hok]; exact ⟨[], by simp, fun h => absurd rfl h⟩
  | true =>
    rcases call_cases r hok u t with ⟨_, h⟩ | ⟨_, _, _, h⟩ | ⟨s, _, cbs, hs, _, h⟩
    · rw [h]; exact ⟨[], by simp, fun h => absurd rfl h⟩
    · rw [h]; exact ⟨[], by simp, fun h => absurd rfl h⟩
    · exact ⟨cbs, h.evs, fun _ => by rw [hs]; simp⟩

/-! ### legality of the traces -/

/-- every object's trace is legal and every registered object is in the state its last callback implies -/
structure Good (tr : List Ev) (ss : List SysInfo) : Prop where
  legal : ∀ u, legalFrom none (traceOf u tr) = true
  corr : ∀ u s, stateOf ss u = some s → corrB s (lastCb none (traceOf u tr)) = true

theorem call_good {tr0 : List Ev} {r : Run} (hg : Good (tr0 ++ r.evs) r.ss) (u : Nat) (t : Tr)
    (hsafe : t = .destroy → stateOf r.ss u ≠ some .uninit)
    (hfresh : t = .create → traceOf u (tr0 ++ r.evs) = []) :
    Good (tr0 ++ (r.call u t).evs) (r.call u t).ss := by
  cases hok : r.ok with
  | false => rw [call_not_ok hok]; exact hg
  | true =>
    rcases call_cases r hok u t with ⟨_, h⟩ | ⟨_, _, _, h⟩ | ⟨s, s', cbs, hs, ha, h⟩
    · rw [h]; exact hg
    · rw [h]; exact hg
    · have hl := apply_legal t s _ s' cbs ha (hg.corr u s hs)
        (fun e hu => hsafe e (by rw [hs, hu])) (fun e => by rw [hfresh e]; rfl)
      rw [h.evs, ← List.append_assoc]
      constructor
      · intro v
        rw [traceOf_append, legalFrom_append, hg.legal v]
        by_cases hv : v = u
        · subst hv; rw [traceOf_mk_self]; simpa using hl.1
        · rw [traceOf_mk_other hv]; rfl
      · intro v sv hsv
        rw [traceOf_append, lastCb_append]
        by_cases hv : v = u
        · subst hv
          rw [traceOf_mk_self]
          rw [h.same] at hsv
          cases hsv
          exact hl.2
        · rw [traceOf_mk_other hv]
          rw [h.other v hv] at hsv
          exact hg.corr v sv hsv

end Mustache.Systems

import Mustache.Spec.Systems
/-!
Facts about the C14 specification itself: `validOrderB` decides `ValidOrder`; a finite relation in
which every element has a predecessor has a cycle; an order that respects the constraints excludes cycles.
-/
namespace Mustache.Systems

/-! ### `validOrderB` decides `ValidOrder` -/

theorem depsPlacedB_iff (ns pre : List Node) (m : Node) :
    depsPlacedB ns pre m = true ↔ ∀ b ∈ ns, mustPrecede b m = true → b ∈ pre := by
  simp only [depsPlacedB, List.all_eq_true, Bool.or_eq_true, Bool.not_eq_true', List.contains_iff_mem]
  constructor
  · intro h b hb hm
    rcases h b hb with h' | h'
    · rw [h'] at hm; cases hm
    · exact h'
  · intro h b hb
    cases hm : mustPrecede b m
    · exact Or.inl rfl
    · exact Or.inr (h b hb hm)

theorem availableB_iff (ns pre : List Node) (m : Node) :
    availableB ns pre m = true ↔ Available ns pre m := by
  simp only [availableB, Available, Bool.and_eq_true, Bool.not_eq_true', List.contains_iff_mem,
    depsPlacedB_iff, and_assoc]
  constructor
  · rintro ⟨h1, h2, h3⟩
    refine ⟨h1, ?_, h3⟩
    intro hm
    have : pre.contains m = true := List.contains_iff_mem.mpr hm
    rw [h2] at this; cases this
  · rintro ⟨h1, h2, h3⟩
    refine ⟨h1, ?_, h3⟩
    cases hc : pre.contains m
    · rfl
    · exact absurd (List.contains_iff_mem.mp hc) h2

theorem greedyB_iff (ns pre : List Node) (c : Node) :
    (ns.all fun m => !availableB ns pre m || keyLe m c) = true ↔
      ∀ m, Available ns pre m → keyLe m c = true := by
  simp only [List.all_eq_true, Bool.or_eq_true, Bool.not_eq_true']
  constructor
  · intro h m hm
    rcases h m hm.1 with h' | h'
    · rw [(availableB_iff ns pre m).mpr hm] at h'; cases h'
    · exact h'
  · intro h m _
    cases ha : availableB ns pre m
    · exact Or.inl rfl
    · exact Or.inr (h m ((availableB_iff ns pre m).mp ha))

theorem validFromB_iff (ns : List Node) : ∀ (rest pre : List Node),
    validFromB ns pre rest = true ↔
      ∀ p c q, rest = p ++ c :: q →
        (∀ b ∈ ns, mustPrecede b c = true → b ∈ pre ++ p) ∧
        (∀ m, Available ns (pre ++ p) m → keyLe m c = true) := by
  intro rest
  induction rest with
  | nil =>
    intro pre
    simp [validFromB]
  | cons x xs ih =>
    intro pre
    simp only [validFromB, Bool.and_eq_true, depsPlacedB_iff, greedyB_iff, ih]
    constructor
    · rintro ⟨⟨h1, h2⟩, h3⟩ p c q hsplit
      cases p with
      | nil =>
        simp only [List.nil_append, List.cons.injEq] at hsplit
        rcases hsplit with ⟨rfl, rfl⟩
        simpa using ⟨h1, h2⟩
      | cons y ys =>
        simp only [List.cons_append, List.cons.injEq] at hsplit
        rcases hsplit with ⟨rfl, rfl⟩
        have := h3 ys c q rfl
        simpa [List.append_assoc] using this
    · intro h
      refine ⟨?_, ?_⟩
      · have := h [] x xs rfl
        simpa using this
      · intro p c q hsplit
        have := h (x :: p) c q (by simp [hsplit])
        simpa [List.append_assoc] using this

theorem validOrderB_iff (ns o : List Node) : validOrderB ns o = true ↔ ValidOrder ns o := by
  simp only [validOrderB, Bool.and_eq_true, List.isPerm_iff, validFromB_iff, List.nil_append]
  constructor
  · rintro ⟨hp, h⟩
    exact ⟨hp, fun pre a post hs b hb hm => (h pre a post hs).1 b hb hm,
      fun pre c post hs m hm => (h pre c post hs).2 m hm⟩
  · rintro ⟨hp, hr, hg⟩
    exact ⟨hp, fun p c q hs => ⟨fun b hb hm => hr p c q hs b hb hm, fun m hm => hg p c q hs m hm⟩⟩

instance (ns o : List Node) : Decidable (ValidOrder ns o) :=
  decidable_of_iff _ (validOrderB_iff ns o)

/-- an observation accepted by the search is a `ValidUpdate` -/
theorem validUpdateB_sound {ns : List Node} {act : Node → Bool} {us : List Node}
    (h : validUpdateB ns act us = true) : ValidUpdate ns act us := by
  unfold validUpdateB at h
  split at h
  · rename_i o _
    simp only [Bool.and_eq_true, beq_iff_eq] at h
    exact ⟨o, (validOrderB_iff ns o).mp h.1, h.2⟩
  · cases h

/-! ### paths and cycles -/

theorem RPath.mono {α : Type} {r : α → α → Prop} {R S : List α} (hsub : ∀ x ∈ R, x ∈ S) {a b : α}
    (h : RPath r R a b) : RPath r S a b := by
  induction h with
  | single ha hb hr => exact RPath.single (hsub _ ha) (hsub _ hb) hr
  | cons ha hr _ ih => exact RPath.cons (hsub _ ha) hr ih

theorem RPath.map {α β : Type} {r : α → α → Prop} {r' : β → β → Prop} (f : α → β) {R : List α}
    (hr : ∀ x y, r x y → r' (f x) (f y)) {a b : α} (h : RPath r R a b) :
    RPath r' (R.map f) (f a) (f b) := by
  induction h with
  | single ha hb h => exact RPath.single (List.mem_map_of_mem ha) (List.mem_map_of_mem hb) (hr _ _ h)
  | cons ha h _ ih => exact RPath.cons (List.mem_map_of_mem ha) (hr _ _ h) ih

theorem RPath.start_mem {α : Type} {r : α → α → Prop} {R : List α} {a b : α} (h : RPath r R a b) :
    a ∈ R := by
  cases h with
  | single ha _ _ => exact ha
  | cons ha _ _ => exact ha

/-- contracting the head `m` of the carrier: a path of the contracted relation expands to a path of `r`. -/
theorem RPath.expand {α : Type} {r : α → α → Prop} {m : α} {R : List α} {a b : α}
    (hm : m ∈ m :: R)
    (h : RPath (fun x y => r x y ∨ (r x m ∧ r m y)) R a b) : RPath r (m :: R) a b := by
  induction h with
  | single ha hb h =>
    rcases h with h | ⟨h1, h2⟩
    · exact RPath.single (List.mem_cons_of_mem _ ha) (List.mem_cons_of_mem _ hb) h
    · exact RPath.cons (List.mem_cons_of_mem _ ha) h1 (RPath.single hm (List.mem_cons_of_mem _ hb) h2)
  | cons ha h _ ih =>
    rcases h with h | ⟨h1, h2⟩
    · exact RPath.cons (List.mem_cons_of_mem _ ha) h ih
    · exact RPath.cons (List.mem_cons_of_mem _ ha) h1 (RPath.cons hm h2 ih)

/-- In a non-empty finite carrier where every element has a predecessor there is a cycle. -/
theorem exists_cycle {α : Type} : ∀ (R : List α) (r : α → α → Prop), R ≠ [] →
    (∀ y ∈ R, ∃ x ∈ R, r x y) → ∃ a, RPath r R a a := by
  intro R
  induction R with
  | nil => intro r h; exact absurd rfl h
  | cons m R ih =>
    intro r _ hpred
    by_cases hmm : r m m
    · exact ⟨m, RPath.single (List.mem_cons_self ..) (List.mem_cons_self ..) hmm⟩
    · by_cases hR : R = []
      · subst hR
        rcases hpred m (List.mem_cons_self ..) with ⟨x, hx, hxm⟩
        have : x = m := by simpa using hx
        subst this
        exact absurd hxm hmm
      · have hpred' : ∀ y ∈ R, ∃ x ∈ R, (fun x y => r x y ∨ (r x m ∧ r m y)) x y := by
          intro y hy
          rcases hpred y (List.mem_cons_of_mem _ hy) with ⟨x, hx, hxy⟩
          by_cases hxm : x = m
          · subst hxm
            rcases hpred x (List.mem_cons_self ..) with ⟨z, hz, hzx⟩
            have hzne : z ≠ x := by intro e; subst e; exact hmm hzx
            have hzR : z ∈ R := by
              rcases List.mem_cons.mp hz with e | h
              · exact absurd e hzne
              · exact h
            exact ⟨z, hzR, Or.inr ⟨hzx, hxy⟩⟩
          · have hxR : x ∈ R := by
              rcases List.mem_cons.mp hx with e | h
              · exact absurd e hxm
              · exact h
            exact ⟨x, hxR, Or.inl hxy⟩
        rcases ih _ hR hpred' with ⟨a, ha⟩
        exact ⟨a, RPath.expand (List.mem_cons_self ..) ha⟩

/-- Along a path every element stands strictly before the end of the path in a respecting order. -/
theorem RPath.before_of_respects {ns o : List Node} (hr : Respects ns o) {a b : Node}
    (h : RPath (fun b a => mustPrecede b a = true) ns a b) :
    ∀ pre post, o = pre ++ b :: post → a ∈ pre := by
  induction h with
  | single ha _ h => intro pre post hs; exact hr pre _ post hs _ ha h
  | @cons a b c ha h _ ih =>
    intro pre post hs
    have hb : b ∈ pre := ih pre post hs
    rcases List.append_of_mem hb with ⟨p1, p2, rfl⟩
    have : a ∈ p1 := hr p1 b (p2 ++ c :: post) (by simp [hs]) a ha h
    exact List.mem_append_left _ this

/-- A duplicate-free order of the present systems that respects the constraints excludes a cycle. -/
theorem not_cyclic_of_respects {ns o : List Node} (hperm : o.Perm ns) (hnd : o.Nodup)
    (hr : Respects ns o) : ¬ Cyclic ns := by
  rintro ⟨a, hp⟩
  have ha : a ∈ o := hperm.mem_iff.mpr hp.start_mem
  rcases List.append_of_mem ha with ⟨pre, post, rfl⟩
  have : a ∈ pre := hp.before_of_respects hr pre post rfl
  have hnd' := List.nodup_append.mp hnd
  exact hnd'.2.2 a this a (List.mem_cons_self ..) rfl

end Mustache.Systems

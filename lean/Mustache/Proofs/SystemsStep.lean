import Mustache.Proofs.SystemsMgr
/-!
Every manager operation preserves the invariant `Inv` (all histories, no well-formedness needed).
-/
namespace Mustache.Systems

theorem step_dead {m : Mgr} (hd : m.dead = true) (op : Op) : step m op = (m, .aborted, []) := by
  cases op <;> simp [step, hd]

theorem inv_same {m : Mgr} {tr : List Ev} (hi : Inv m tr) :
    Inv m (tr ++ []) ∧ ∀ e ∈ ([] : List Ev), e.uid ∈ m.systems.map (·.uid) := by
  refine ⟨by simpa using hi, by simp⟩

/-! ### add -/

/-- the registered object right after its `onCreate` (called by the user or by `addSystem`) -/
theorem add_created {m : Mgr} {tr : List Ev} (hi : Inv m tr) (hd : m.dead = false)
    (name : Name) (pre : Bool) (decl : Config) :
    RInv tr (m.systems.map (·.uid) ++ [m.nextUid]) (m.systems.map (·.name) ++ [name]) m.ordered
      (addRun m name pre decl) := by
  let u := m.nextUid
  let s : SysInfo := { uid := u, name := name, decl := decl, config := Config.default, st := .uninit }
  let r0 : Run := { ss := m.systems ++ [s] }
  let r1 := if pre then r0.call u .create else r0
  show RInv tr _ _ _ (if stateOf r1.ss u = some .uninit then r1.call u .create else r1)
  generalize hr2 : (if stateOf r1.ss u = some .uninit then r1.call u .create else r1) = r2
  have hfresh : stateOf m.systems u = none :=
    stateOf_eq_none_iff.mpr (fun h => Nat.lt_irrefl _ (hi.uidsLt u h))
  have hst0 : ∀ v, stateOf r0.ss v = if v = u then some .uninit else stateOf m.systems v :=
    fun v => stateOf_append_fresh (s := s) hfresh v
  have htr : traceOf u tr = [] := by
    simp only [traceOf, List.map_eq_nil_iff, List.filter_eq_nil_iff, beq_iff_eq]
    intro e he h
    exact Nat.lt_irrefl _ (h ▸ hi.trLt e he)
  have hevs0 : tr ++ r0.evs = tr := List.append_nil tr
  have hg0 : Good (tr ++ r0.evs) r0.ss := by
    rw [hevs0]
    constructor
    · intro v; exact hi.good.legal v
    · intro v sv hsv
      rw [hst0 v] at hsv
      by_cases hv : v = u
      · simp only [hv, if_true, Option.some.injEq] at hsv
        subst hsv
        rw [hv]
        simp [htr, lastCb, corrB]
      · simp only [hv, if_false] at hsv
        exact hi.good.corr v sv hsv
  -- the one create call
  have hu0 : stateOf r0.ss u = some .uninit := by rw [hst0 u]; simp
  rcases call_cases r0 rfl u .create with ⟨h, _⟩ | ⟨s1, h, ha, _⟩ | ⟨s1, s', cbs, h, ha, heff⟩
  · rw [hu0] at h; cases h
  · rw [hu0] at h; cases h; simp [St.apply] at ha
  · rw [hu0] at h; cases h
    simp only [St.apply, Option.some.injEq, Prod.mk.injEq] at ha
    rcases ha with ⟨rfl, rfl⟩
    have hr2' : r2 = r0.call u .create := by
      rw [← hr2]
      simp only [r1]
      cases pre
      · simp [hu0]
      · simp [heff.same]
    rw [hr2']
    refine ⟨?_, ?_, ?_, ?_, ?_, ?_⟩
    · rw [heff.uids]; simp [r0, s, u]
    · rw [heff.names]; simp [r0, s]
    · exact call_good hg0 u .create (by simp) (fun _ => by rw [hevs0]; exact htr)
    · intro e he
      rw [heff.evs] at he
      simp only [r0, List.nil_append, List.map_cons, List.map_nil, List.mem_singleton] at he
      subst he
      simp [u]
    · intro v
      by_cases hv : v = u
      · rw [hv, heff.same]; simp
      · rw [heff.other v hv, hst0 v]
        simp only [hv, if_false]
        exact hi.noUninit hd v
    · intro v sv hsv hstarted
      by_cases hv : v = u
      · rw [hv, heff.same] at hsv
        cases hsv
        cases hstarted
      · rw [heff.other v hv, hst0 v] at hsv
        simp only [hv, if_false] at hsv
        exact hi.started hd v sv hsv hstarted

theorem step_add_inv {m : Mgr} {tr : List Ev} (hi : Inv m tr) (name : Name) (pre : Bool) (decl : Config) :
    Inv (step m (.add name pre decl)).1 (tr ++ (step m (.add name pre decl)).2.2) ∧
      ∀ e ∈ (step m (.add name pre decl)).2.2, e.uid ∈ (step m (.add name pre decl)).1.systems.map (·.uid) := by
  cases hd : m.dead with
  | true => rw [step_dead hd]; exact inv_same hi
  | false =>
    have hc := add_created hi hd name pre decl
    simp only [step, hd, Bool.false_eq_true, if_false]
    generalize addRun m name pre decl = r2 at hc ⊢
    -- facts shared by all branches
    have hdom : (m.systems.map (·.uid) ++ [m.nextUid]).Nodup := by
      refine List.nodup_append.mpr ⟨hi.uidsNodup, by simp, ?_⟩
      intro a ha b hb
      simp only [List.mem_singleton] at hb
      subst hb
      exact fun e => Nat.lt_irrefl _ (e ▸ hi.uidsLt a ha)
    have hlt : ∀ v ∈ m.systems.map (·.uid) ++ [m.nextUid], v < m.nextUid + 1 := by
      intro v hv
      rcases List.mem_append.mp hv with hv | hv
      · exact Nat.lt_succ_of_lt (hi.uidsLt v hv)
      · simp only [List.mem_singleton] at hv; omega
    have htr : ∀ e ∈ tr, e.uid < m.nextUid + 1 := fun e he => Nat.lt_succ_of_lt (hi.trLt e he)
    have hbn : ∀ p ∈ setAssoc name m.nextUid m.byName, p.2 < m.nextUid + 1 := by
      intro p hp
      rcases mem_setAssoc hp with rfl | hp
      · exact Nat.lt_succ_self _
      · exact Nat.lt_succ_of_lt (hi.byNameLt p hp)
    have hrl : ∀ v ∈ m.removed, v < m.nextUid + 1 := fun v hv => Nat.lt_succ_of_lt (hi.removedLt v hv)
    have hra : ∀ v ∈ m.removed, v ∉ m.systems.map (·.uid) ++ [m.nextUid] := by
      intro v hv h
      rcases List.mem_append.mp h with h | h
      · exact hi.removedAbsent v hv h
      · simp only [List.mem_singleton] at h
        exact Nat.lt_irrefl _ (h ▸ hi.removedLt v hv)
    cases hw : m.wasInit with
    | false =>
      simp only [Bool.not_false, if_true]
      exact inv_build hc hi.orderedNodup _ rfl rfl hdom hlt htr hbn hrl hra
    | true =>
      simp only [Bool.not_true, Bool.false_eq_true, if_false]
      have hc3 := call_rinv hc m.nextUid (t := .configure) (by simp) (by simp)
        (Or.inr (Or.inr (Or.inl rfl)))
      cases hok : (r2.call m.nextUid .configure).ok with
      | false =>
        simp only [Bool.not_false, if_true]
        exact inv_build hc3 hi.orderedNodup _ rfl rfl hdom hlt htr hbn hrl hra
      | true =>
        simp only [Bool.not_true, Bool.false_eq_true, if_false]
        split
        · exact inv_build hc3 hi.orderedNodup _ rfl rfl hdom hlt htr hbn hrl hra
        · rename_i m3 h3
          have hperm := mgr_reorder_ordered h3
          simp only at hperm
          rw [hc3.uids] at hperm
          rcases mgr_reorder_some h3 with ⟨o, _, rfl⟩
          exact inv_build (hc3.changeO (fun v hv => hperm.mem_iff.mpr hv))
            (hperm.nodup_iff.mpr hdom) _ rfl rfl hdom hlt htr hbn hrl hra

/-! ### remove -/

theorem uids_filter (ss : List SysInfo) (u : Nat) :
    (ss.filter (fun s => decide (s.uid ≠ u))).map (·.uid) = (ss.map (·.uid)).filter (fun v => decide (v ≠ u)) := by
  rw [List.filter_map]; rfl

/-- erasing object `u` from the registered systems -/
theorem remove_rinv {m : Mgr} {tr : List Ev} (hi : Inv m tr) (hd : m.dead = false) (u : Nat) :
    RInv tr ((m.systems.filter (fun s => decide (s.uid ≠ u))).map (·.uid))
      ((m.systems.filter (fun s => decide (s.uid ≠ u))).map (·.name))
      (m.ordered.filter (fun v => decide (v ≠ u)))
      { ss := m.systems.filter (fun s => decide (s.uid ≠ u)) } := by
  refine ⟨rfl, rfl, ?_, by simp, ?_, ?_⟩
  · simp only [List.append_nil]
    refine ⟨hi.good.legal, ?_⟩
    intro v sv hsv
    rw [stateOf_filter_ne] at hsv
    split at hsv
    · cases hsv
    · exact hi.good.corr v sv hsv
  · intro v
    show stateOf (m.systems.filter _) v ≠ _
    rw [stateOf_filter_ne]
    split
    · simp
    · exact hi.noUninit hd v
  · intro v sv hsv hst
    change stateOf (m.systems.filter _) v = _ at hsv
    rw [stateOf_filter_ne] at hsv
    split at hsv
    · cases hsv
    · rename_i hv
      exact List.mem_filter.mpr ⟨hi.started hd v sv hsv hst, by simpa using hv⟩

theorem step_remove_inv {m : Mgr} {tr : List Ev} (hi : Inv m tr) (name : Name) :
    Inv (step m (.remove name)).1 (tr ++ (step m (.remove name)).2.2) ∧
      ∀ e ∈ (step m (.remove name)).2.2, e.uid ∈ (step m (.remove name)).1.systems.map (·.uid) := by
  cases hd : m.dead with
  | true => rw [step_dead hd]; exact inv_same hi
  | false =>
    simp only [step, hd, Bool.false_eq_true, if_false]
    cases hl : m.byName.lookup name with
    | none => exact inv_same hi
    | some u =>
      simp only
      have hr := remove_rinv hi hd u
      have hult : u < m.nextUid := hi.byNameLt _ (mem_of_lookup hl)
      have hsub : ∀ v ∈ (m.systems.filter (fun s => decide (s.uid ≠ u))).map (·.uid),
          v ∈ m.systems.map (·.uid) ∧ v ≠ u := by
        intro v hv
        rw [uids_filter] at hv
        have := List.mem_filter.mp hv
        exact ⟨this.1, by simpa using this.2⟩
      have hdom : ((m.systems.filter (fun s => decide (s.uid ≠ u))).map (·.uid)).Nodup := by
        rw [uids_filter]; exact hi.uidsNodup.sublist (List.filter_sublist ..)
      have hlt : ∀ v ∈ (m.systems.filter (fun s => decide (s.uid ≠ u))).map (·.uid), v < m.nextUid :=
        fun v hv => hi.uidsLt v (hsub v hv).1
      have hbn : ∀ p ∈ eraseAssoc name m.byName, p.2 < m.nextUid :=
        fun p hp => hi.byNameLt p (mem_eraseAssoc hp)
      have hrl : ∀ v ∈ u :: m.removed, v < m.nextUid := by
        intro v hv
        rcases List.mem_cons.mp hv with rfl | hv
        · exact hult
        · exact hi.removedLt v hv
      have hra : ∀ v ∈ u :: m.removed,
          v ∉ (m.systems.filter (fun s => decide (s.uid ≠ u))).map (·.uid) := by
        intro v hv h
        rcases List.mem_cons.mp hv with rfl | hv
        · exact (hsub v h).2 rfl
        · exact hi.removedAbsent v hv (hsub v h).1
      have hond : (m.ordered.filter (fun v => decide (v ≠ u))).Nodup :=
        hi.orderedNodup.sublist (List.filter_sublist ..)
      split
      · have := inv_build hr hond
          { m with ordered := m.ordered.filter (fun v => decide (v ≠ u)),
                   systems := m.systems.filter (fun s => decide (s.uid ≠ u)),
                   byName := eraseAssoc name m.byName, removed := u :: m.removed, dead := true }
          rfl rfl hdom hlt hi.trLt hbn hrl hra
        simpa using this
      · rename_i m2 h2
        have hperm := mgr_reorder_ordered h2
        simp only at hperm
        rcases mgr_reorder_some h2 with ⟨o, _, rfl⟩
        have := inv_build (hr.changeO (fun v hv => hperm.mem_iff.mpr hv))
          (hperm.nodup_iff.mpr hdom) _ rfl rfl hdom hlt hi.trLt hbn hrl hra
        simpa using this

/-! ### init, update, setGroup, ext, teardown -/

theorem step_init_inv {m : Mgr} {tr : List Ev} (hi : Inv m tr) :
    Inv (step m .init).1 (tr ++ (step m .init).2.2) ∧
      ∀ e ∈ (step m .init).2.2, e.uid ∈ (step m .init).1.systems.map (·.uid) := by
  cases hd : m.dead with
  | true => rw [step_dead hd]; exact inv_same hi
  | false =>
    simp only [step, hd, Bool.false_eq_true, if_false]
    cases hw : m.wasInit with
    | true => exact inv_same hi
    | false =>
      simp only [Bool.false_eq_true, if_false]
      have hr := configureAll_rinv (hi.toRInv hd)
      generalize configureAll { ss := m.systems } = r at hr ⊢
      cases hok : r.ok with
      | false =>
        simp only [Bool.not_false, if_true]
        exact inv_of_rinv hi hr hi.orderedNodup rfl rfl rfl rfl rfl
      | true =>
        simp only [Bool.not_true, Bool.false_eq_true, if_false]
        split
        · exact inv_of_rinv hi hr hi.orderedNodup rfl rfl rfl rfl rfl
        · rename_i m2 h2
          have hperm := mgr_reorder_ordered h2
          simp only at hperm
          rw [hr.uids] at hperm
          rcases mgr_reorder_some h2 with ⟨o, _, rfl⟩
          have hr2 := startAll_rinv (hr.changeO (O' := o.map (·.id)) (fun v hv => hperm.mem_iff.mpr hv))
          exact inv_of_rinv hi hr2 (hperm.nodup_iff.mpr hi.uidsNodup) rfl rfl rfl rfl rfl

theorem step_update_inv {m : Mgr} {tr : List Ev} (hi : Inv m tr) :
    Inv (step m .update).1 (tr ++ (step m .update).2.2) ∧
      ∀ e ∈ (step m .update).2.2, e.uid ∈ (step m .update).1.systems.map (·.uid) := by
  cases hd : m.dead with
  | true => rw [step_dead hd]; exact inv_same hi
  | false =>
    simp only [step, hd, Bool.false_eq_true, if_false]
    cases hw : m.wasInit with
    | false => exact inv_same hi
    | true =>
      simp only [Bool.not_true, Bool.false_eq_true, if_false]
      exact inv_of_rinv hi (updateAll_rinv (hi.toRInv hd)) hi.orderedNodup rfl rfl rfl rfl rfl

theorem step_setGroup_inv {m : Mgr} {tr : List Ev} (hi : Inv m tr) (g : Nat) (p : Int) :
    Inv (step m (.setGroup g p)).1 (tr ++ (step m (.setGroup g p)).2.2) ∧
      ∀ e ∈ (step m (.setGroup g p)).2.2, e.uid ∈ (step m (.setGroup g p)).1.systems.map (·.uid) := by
  cases hd : m.dead with
  | true => rw [step_dead hd]; exact inv_same hi
  | false =>
    simp only [step, hd, Bool.false_eq_true, if_false, List.append_nil]
    exact ⟨⟨hi.good, hi.uidsNodup, hi.uidsLt, hi.trLt, hi.byNameLt, hi.removedLt, hi.removedAbsent,
      hi.orderedNodup, fun _ => hi.noUninit hd, fun _ => hi.started hd⟩, by simp⟩

theorem step_ext_inv {m : Mgr} {tr : List Ev} (hi : Inv m tr) (name : Name) (t : ExtTr) :
    Inv (step m (.ext name t)).1 (tr ++ (step m (.ext name t)).2.2) ∧
      ∀ e ∈ (step m (.ext name t)).2.2, e.uid ∈ (step m (.ext name t)).1.systems.map (·.uid) := by
  cases hd : m.dead with
  | true => rw [step_dead hd]; exact inv_same hi
  | false =>
    simp only [step, hd, Bool.false_eq_true, if_false]
    cases hl : m.byName.lookup name with
    | none => exact inv_same hi
    | some u =>
      simp only
      have hr := call_rinv (hi.toRInv hd) u (t := t.toTr) (by cases t <;> simp [ExtTr.toTr])
        (by cases t <;> simp [ExtTr.toTr]) (Or.inr (Or.inr (Or.inr ⟨t, rfl⟩)))
      exact inv_of_rinv hi hr hi.orderedNodup rfl rfl rfl rfl rfl

theorem step_teardown_inv {m : Mgr} {tr : List Ev} (hi : Inv m tr) :
    Inv (step m .teardown).1 (tr ++ (step m .teardown).2.2) ∧
      ∀ e ∈ (step m .teardown).2.2, e.uid ∈ (step m .teardown).1.systems.map (·.uid) := by
  cases hd : m.dead with
  | true => rw [step_dead hd]; exact inv_same hi
  | false =>
    simp only [step, hd, Bool.false_eq_true, if_false]
    have h0 := hi.toRInv hd
    rcases destroyAll_good (tr0 := tr) (dom := m.systems.map (·.uid)) m.ordered { ss := m.systems }
      hi.orderedNodup h0.good (fun v _ => hi.noUninit hd v) rfl (by simp) with ⟨hg, hu, hp⟩
    generalize destroyAll m.ordered { ss := m.systems } = r at hg hu hp ⊢
    refine ⟨?_, by rw [hu]; exact hp⟩
    refine ⟨hg, by simp only; rw [hu]; exact hi.uidsNodup, by simp only; rw [hu]; exact hi.uidsLt, ?_,
      hi.byNameLt, hi.removedLt, by simp only; rw [hu]; exact hi.removedAbsent, hi.orderedNodup,
      fun h => by simp at h, fun h => by simp at h⟩
    intro e he
    rcases List.mem_append.mp he with he | he
    · exact hi.trLt e he
    · exact hi.uidsLt _ (hp e he)

theorem step_inv {m : Mgr} {tr : List Ev} (hi : Inv m tr) (op : Op) :
    Inv (step m op).1 (tr ++ (step m op).2.2) ∧
      ∀ e ∈ (step m op).2.2, e.uid ∈ (step m op).1.systems.map (·.uid) := by
  cases op with
  | add name pre decl => exact step_add_inv hi name pre decl
  | remove name => exact step_remove_inv hi name
  | init => exact step_init_inv hi
  | update => exact step_update_inv hi
  | setGroup g p => exact step_setGroup_inv hi g p
  | ext name t => exact step_ext_inv hi name t
  | teardown => exact step_teardown_inv hi

/-! ### histories -/

theorem run_cons (m : Mgr) (op : Op) (ops : List Op) :
    run m (op :: ops) = ((run (step m op).1 ops).1, ((step m op).2.1, (step m op).2.2) :: (run (step m op).1 ops).2) := by
  simp only [run]

theorem run_inv : ∀ (ops : List Op) {m : Mgr} {tr : List Ev}, Inv m tr →
    Inv (run m ops).1 (tr ++ allEvents (run m ops).2) := by
  intro ops
  induction ops with
  | nil => intro m tr hi; simpa [run, allEvents] using hi
  | cons op ops ih =>
    intro m tr hi
    rw [run_cons]
    have := ih (step_inv hi op).1
    simpa [allEvents, List.append_assoc] using this

end Mustache.Systems

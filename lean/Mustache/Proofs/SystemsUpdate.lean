import Mustache.Proofs.SystemsStep
/-!
One manager update: which systems receive `onUpdate`, in which sequence; the ordering invariant `OInv`
over well-formed histories.
-/
namespace Mustache.Systems

theorem updatesOf_append (a b : List Ev) : updatesOf (a ++ b) = updatesOf a ++ updatesOf b := by
  simp [updatesOf, List.filter_append]

theorem call_effect {r : Run} (hok : r.ok = true) {u : Nat} {t : Tr} {s s' : St} {cbs : List Cb}
    (hs : stateOf r.ss u = some s) (ha : s.apply t = some (s', cbs)) :
    CallEffect r (r.call u t) u s s' cbs := by
  rcases call_cases r hok u t with ⟨h, _⟩ | ⟨s1, h, ha1, _⟩ | ⟨s1, s1', cbs1, h, ha1, heff⟩
  · rw [hs] at h; cases h
  · rw [hs] at h; cases h; rw [ha] at ha1; cases ha1
  · rw [hs] at h; cases h; rw [ha] at ha1; cases ha1; exact heff

/-- one iteration of the update loop -/
def updateBody (r : Run) (u : Nat) : Run :=
  let r1 := if stateOf r.ss u = some .configured then r.call u .start else r
  if stateOf r1.ss u = some .active then r1.call u .update else r1

theorem updateAll_eq (us : List Nat) (r : Run) : updateAll us r = us.foldl updateBody r := rfl

theorem updateBody_spec (r : Run) (hok : r.ok = true) (u : Nat) :
    (updateBody r u).ok = true ∧
    (∀ v, v ≠ u → stateOf (updateBody r u).ss v = stateOf r.ss v) ∧
    updatesOf (updateBody r u).evs =
      updatesOf r.evs ++ (if stateOf (updateBody r u).ss u = some .active then [u] else []) := by
  unfold updateBody
  cases hs : stateOf r.ss u with
  | none => simp [hs, hok]
  | some s =>
    cases s with
    | configured =>
      have h1 := call_effect hok hs (t := .start) rfl
      simp only [if_true]
      have h2 := call_effect h1.ok h1.same (t := .update) rfl
      simp only [h1.same, if_true]
      refine ⟨h2.ok, fun v hv => by rw [h2.other v hv, h1.other v hv], ?_⟩
      rw [h2.same, h2.evs, h1.evs]
      simp [updatesOf]
    | active =>
      have h2 := call_effect hok hs (t := .update) rfl
      simp only [reduceCtorEq, Option.some.injEq, if_false, hs, if_true]
      refine ⟨h2.ok, fun v hv => by rw [h2.other v hv], ?_⟩
      rw [h2.same, h2.evs]
      simp [updatesOf]
    | uninit => simp [hs, hok]
    | inited => simp [hs, hok]
    | stopped => simp [hs, hok]
    | paused => simp [hs, hok]

theorem updateAll_spec : ∀ (us : List Nat) (r : Run), us.Nodup → r.ok = true →
    (updateAll us r).ok = true ∧
    (∀ v, v ∉ us → stateOf (updateAll us r).ss v = stateOf r.ss v) ∧
    updatesOf (updateAll us r).evs =
      updatesOf r.evs ++ us.filter (fun u => decide (stateOf (updateAll us r).ss u = some .active)) := by
  intro us
  induction us with
  | nil => intro r _ hok; simp [updateAll_eq, hok]
  | cons x xs ih =>
    intro r hnd hok
    have hnd' := List.nodup_cons.mp hnd
    rw [updateAll_eq, List.foldl_cons, ← updateAll_eq]
    rcases updateBody_spec r hok x with ⟨hok1, hoth1, hup1⟩
    rcases ih (updateBody r x) hnd'.2 hok1 with ⟨hok2, hoth2, hup2⟩
    refine ⟨hok2, ?_, ?_⟩
    · intro v hv
      simp only [List.mem_cons, not_or] at hv
      rw [hoth2 v hv.2, hoth1 v hv.1]
    · rw [hup2, hup1, List.filter_cons, hoth2 x hnd'.1, List.append_assoc]
      congr 1
      split <;> simp_all

/-! ### the ordering invariant (needs unique names) -/

structure OInv (m : Mgr) : Prop where
  namesNodup : (m.systems.map (·.name)).Nodup
  snapValid : ValidOrder m.snapSrc m.snap
  orderedSnap : m.dead = false → m.ordered = m.snap.map (·.id)

theorem oinv_empty : OInv Mgr.empty :=
  ⟨List.nodup_nil, ⟨List.Perm.refl _, fun pre a post h => by simp [Mgr.empty] at h,
    fun pre a post h => by simp [Mgr.empty] at h⟩, fun _ => rfl⟩

theorem mgr_reorder_valid {m m' : Mgr} (h : m.reorder = some m') (hn : (m.systems.map (·.name)).Nodup) :
    ValidOrder m'.snapSrc m'.snap ∧ m'.ordered = m'.snap.map (·.id) := by
  rcases mgr_reorder_some h with ⟨o, ho, rfl⟩
  exact ⟨reorder_valid (by rw [nodes_name]; exact hn) ho, rfl⟩

theorem step_oinv {m : Mgr} {tr : List Ev} (hi : Inv m tr) (ho : OInv m) (op : Op) (hwf : opWf m op = true) :
    OInv (step m op).1 := by
  cases hd : m.dead with
  | true => rw [step_dead hd]; exact ho
  | false =>
    cases op with
    | add name pre decl =>
      have hc := add_created hi hd name pre decl
      have hnn : (m.systems.map (·.name) ++ [name]).Nodup := by
        refine List.nodup_append.mpr ⟨ho.namesNodup, by simp, ?_⟩
        intro a ha b hb
        simp only [List.mem_singleton] at hb
        subst hb
        intro e
        subst e
        simp only [opWf, Bool.not_eq_true', List.contains_eq_mem, decide_eq_false_iff_not] at hwf
        exact hwf ha
      simp only [step, hd, Bool.false_eq_true, if_false]
      generalize addRun m name pre decl = r2 at hc ⊢
      cases hw : m.wasInit with
      | false =>
        simp only [Bool.not_false, if_true]
        exact ⟨by simp only; rw [hc.names]; exact hnn, ho.snapValid, fun _ => ho.orderedSnap hd⟩
      | true =>
        simp only [Bool.not_true, Bool.false_eq_true, if_false]
        have hc3 := call_rinv hc m.nextUid (t := .configure) (by simp) (by simp)
          (Or.inr (Or.inr (Or.inl rfl)))
        cases hok : (r2.call m.nextUid .configure).ok with
        | false =>
          simp only [Bool.not_false, if_true]
          exact ⟨by simp only; rw [hc3.names]; exact hnn, ho.snapValid, fun _ => ho.orderedSnap hd⟩
        | true =>
          simp only [Bool.not_true, Bool.false_eq_true, if_false]
          split
          · exact ⟨by simp only; rw [hc3.names]; exact hnn, ho.snapValid, fun _ => ho.orderedSnap hd⟩
          · rename_i m3 h3
            have hv := mgr_reorder_valid h3 (by simp only; rw [hc3.names]; exact hnn)
            rcases mgr_reorder_some h3 with ⟨o, _, rfl⟩
            exact ⟨by simp only; rw [hc3.names]; exact hnn, hv.1, fun _ => hv.2⟩
    | remove name =>
      simp only [step, hd, Bool.false_eq_true, if_false]
      cases hl : m.byName.lookup name with
      | none => exact ho
      | some u =>
        simp only
        have hnn : ((m.systems.filter (fun s => decide (s.uid ≠ u))).map (·.name)).Nodup :=
          ho.namesNodup.sublist ((List.filter_sublist ..).map _)
        split
        · exact ⟨hnn, ho.snapValid, fun h => by simp at h⟩
        · rename_i m2 h2
          have hv := mgr_reorder_valid h2 hnn
          rcases mgr_reorder_some h2 with ⟨o, _, rfl⟩
          exact ⟨hnn, hv.1, fun _ => hv.2⟩
    | init =>
      simp only [step, hd, Bool.false_eq_true, if_false]
      cases hw : m.wasInit with
      | true => exact ho
      | false =>
        simp only [Bool.false_eq_true, if_false]
        have hr := configureAll_rinv (hi.toRInv hd)
        generalize configureAll { ss := m.systems } = r at hr ⊢
        cases hok : r.ok with
        | false =>
          simp only [Bool.not_false, if_true]
          exact ⟨by simp only; rw [hr.names]; exact ho.namesNodup, ho.snapValid, fun _ => ho.orderedSnap hd⟩
        | true =>
          simp only [Bool.not_true, Bool.false_eq_true, if_false]
          split
          · exact ⟨by simp only; rw [hr.names]; exact ho.namesNodup, ho.snapValid,
              fun _ => ho.orderedSnap hd⟩
          · rename_i m2 h2
            have hv := mgr_reorder_valid h2 (by simp only; rw [hr.names]; exact ho.namesNodup)
            have hperm := mgr_reorder_ordered h2
            simp only at hperm
            rw [hr.uids] at hperm
            rcases mgr_reorder_some h2 with ⟨o, _, rfl⟩
            have hr2 := startAll_rinv (hr.changeO (O' := o.map (·.id)) (fun v hv => hperm.mem_iff.mpr hv))
            exact ⟨by simp only; rw [hr2.names]; exact ho.namesNodup, hv.1, fun _ => hv.2⟩
    | update =>
      simp only [step, hd, Bool.false_eq_true, if_false]
      cases hw : m.wasInit with
      | false => exact ho
      | true =>
        simp only [Bool.not_true, Bool.false_eq_true, if_false]
        have hr := updateAll_rinv (hi.toRInv hd)
        exact ⟨by simp only; rw [hr.names]; exact ho.namesNodup, ho.snapValid, fun _ => ho.orderedSnap hd⟩
    | setGroup g p =>
      simp only [step, hd, Bool.false_eq_true, if_false]
      exact ⟨ho.namesNodup, ho.snapValid, fun _ => ho.orderedSnap hd⟩
    | ext name t =>
      simp only [step, hd, Bool.false_eq_true, if_false]
      cases hl : m.byName.lookup name with
      | none => exact ho
      | some u =>
        simp only
        exact ⟨by simp only; rw [call_names]; exact ho.namesNodup, ho.snapValid, fun _ => ho.orderedSnap hd⟩
    | teardown =>
      simp only [step, hd, Bool.false_eq_true, if_false]
      refine ⟨?_, ho.snapValid, fun h => by simp at h⟩
      simp only [destroyAll]
      apply foldl_inv (fun r : Run => (r.ss.map (·.name)).Nodup) _ _ _ ho.namesNodup
      intro b a _ hb
      rw [call_names]; exact hb

theorem wfFrom_cons (m : Mgr) (op : Op) (ops : List Op) :
    wfFrom m (op :: ops) = (opWf m op && wfFrom (step m op).1 ops) := rfl

theorem run_oinv : ∀ (ops : List Op) {m : Mgr} {tr : List Ev}, Inv m tr → OInv m → wfFrom m ops = true →
    OInv (run m ops).1 := by
  intro ops
  induction ops with
  | nil => intro m tr _ ho _; simpa [run] using ho
  | cons op ops ih =>
    intro m tr hi ho hwf
    rw [wfFrom_cons, Bool.and_eq_true] at hwf
    rw [run_cons]
    exact ih (step_inv hi op).1 (step_oinv hi ho op hwf.1) hwf.2

end Mustache.Systems

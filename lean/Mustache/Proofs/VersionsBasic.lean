import Mustache.Model.Versions
import Mustache.Proofs.VersionsBlocks
/-!
# Characterisation lemmas for the primitives of the version model

Rows and stamps after `push`, `swapRemove`, `stampComp`, `runJob`; soundness of the entity / archetype
lookups; membership in the processed list.
-/
namespace Mustache.Versions

/-! ## lists -/

theorem modify_get_self {α} {l : List α} {ai : Nat} {a : α} (f : α → α) (h : l[ai]? = some a) :
    (l.modify ai f)[ai]? = some (f a) := by
  rw [List.getElem?_modify, h]; simp

theorem modify_get_ne {α} {l : List α} {ai x : Nat} (f : α → α) (h : x ≠ ai) :
    (l.modify ai f)[x]? = l[x]? := by
  rw [List.getElem?_modify]
  cases l[x]? with
  | none => rfl
  | some a => simp [Ne.symm h]

theorem getElem?_lt {α} {l : List α} {i : Nat} {x : α} (h : l[i]? = some x) : i < l.length :=
  (List.getElem?_eq_some_iff.mp h).1

theorem ne_nil_of_get {α} {l : List α} {i : Nat} {x : α} (h : l[i]? = some x) : l ≠ [] := by
  intro hn; subst hn; simp at h

/-! ## lookups -/

theorem posIn_sound : ∀ {l : List Ent} {e : Ent} {i : Nat}, posIn l e = some i → l[i]? = some e
  | [], _, _, h => by simp [posIn] at h
  | x :: xs, e, i, h => by
    unfold posIn at h
    by_cases hx : x = e
    · simp only [hx, if_true, Option.some.injEq] at h
      subst h; simp [hx]
    · simp only [hx, if_false, Option.map_eq_some_iff] at h
      obtain ⟨i', hi', rfl⟩ := h
      simpa using posIn_sound hi'

theorem locate_sound : ∀ {as : List Arch} {e : Ent} {ai i : Nat},
    locate as e = some (ai, i) → ∃ a, as[ai]? = some a ∧ a.ents[i]? = some e
  | [], _, _, _, h => by simp [locate] at h
  | a :: r, e, ai, i, h => by
    unfold locate at h
    cases hp : posIn a.ents e with
    | some i' =>
      simp only [hp, Option.some.injEq, Prod.mk.injEq] at h
      obtain ⟨rfl, rfl⟩ := h
      exact ⟨a, by simp, posIn_sound hp⟩
    | none =>
      simp only [hp, Option.map_eq_some_iff] at h
      obtain ⟨⟨ai', i'⟩, hl, heq⟩ := h
      simp only [Prod.mk.injEq] at heq
      obtain ⟨rfl, rfl⟩ := heq
      obtain ⟨a', h1, h2⟩ := locate_sound hl
      exact ⟨a', by simpa using h1, h2⟩

/-! ## stamps of the archetype primitives -/

@[simp] theorem stampChunk_ents (a : Arch) (k v) : (a.stampChunk k v).ents = a.ents := rfl
@[simp] theorem stampChunk_cs (a : Arch) (k v) : (a.stampChunk k v).cs = a.cs := rfl
@[simp] theorem stampChunk_mask (a : Arch) (k v) : (a.stampChunk k v).mask = a.mask := rfl
@[simp] theorem stampChunk_gst (a : Arch) (k v c) : (a.stampChunk k v).gst c = v := rfl
@[simp] theorem stampChunk_cst (a : Arch) (k v k' c) :
    (a.stampChunk k v).cst k' c = if k' = k then v else a.cst k' c := rfl

@[simp] theorem stampComp_ents (a : Arch) (k c v) : (a.stampComp k c v).ents = a.ents := rfl
@[simp] theorem stampComp_cs (a : Arch) (k c v) : (a.stampComp k c v).cs = a.cs := rfl
@[simp] theorem stampComp_mask (a : Arch) (k c v) : (a.stampComp k c v).mask = a.mask := rfl
@[simp] theorem stampComp_gst (a : Arch) (k c v c') :
    (a.stampComp k c v).gst c' = if c' = c then v else a.gst c' := rfl
@[simp] theorem stampComp_cst (a : Arch) (k c v k' c') :
    (a.stampComp k c v).cst k' c' = if k' = k ∧ c' = c then v else a.cst k' c' := rfl

@[simp] theorem push_ents (a : Arch) (e v) : (a.push e v).ents = a.ents ++ [e] := rfl
@[simp] theorem push_cs (a : Arch) (e v) : (a.push e v).cs = a.cs := rfl
@[simp] theorem push_mask (a : Arch) (e v) : (a.push e v).mask = a.mask := rfl
@[simp] theorem push_gst (a : Arch) (e v c) : (a.push e v).gst c = v := rfl
@[simp] theorem push_cst (a : Arch) (e v k c) :
    (a.push e v).cst k c = if k = a.ents.length / a.cs then v else a.cst k c := rfl

theorem push_row {a : Arch} {e v} {k : Nat} {y : Ent} :
    (a.push e v).ents[k]? = some y ↔ a.ents[k]? = some y ∨ (k = a.ents.length ∧ y = e) := by
  rw [push_ents]
  by_cases hk : k < a.ents.length
  · rw [List.getElem?_append_left hk]
    constructor
    · intro h; exact Or.inl h
    · rintro (h | ⟨h, _⟩)
      · exact h
      · omega
  · rw [List.getElem?_append_right (by omega)]
    have hnone : a.ents[k]? = none := by simp; omega
    rw [hnone]
    by_cases hk2 : k = a.ents.length
    · subst hk2; simp [eq_comm]
    · have : k - a.ents.length ≠ 0 := by omega
      constructor
      · intro h
        cases hkk : k - a.ents.length with
        | zero => omega
        | succ n => rw [hkk] at h; simp at h
      · rintro (h | ⟨h, _⟩)
        · cases h
        · exact absurd h hk2

/-- rows, stamps and shape after `Archetype::remove` of an existing row -/
theorem swapRemove_spec {a : Arch} {i : Nat} {e : Ent} (v : Ver) (hi : a.ents[i]? = some e) :
    (a.swapRemove i v).cs = a.cs ∧ (a.swapRemove i v).mask = a.mask ∧
    (a.swapRemove i v).ents.length = a.ents.length - 1 ∧
    (∀ c, (a.swapRemove i v).gst c = v) ∧
    (∀ k c, (a.swapRemove i v).cst k c =
        if k = i / a.cs ∨ k = (a.ents.length - 1) / a.cs then v else a.cst k c) ∧
    (∀ k y, (a.swapRemove i v).ents[k]? = some y ↔
        k < a.ents.length - 1 ∧
          ((k = i ∧ a.ents[a.ents.length - 1]? = some y) ∨ (k ≠ i ∧ a.ents[k]? = some y))) := by
  have hlen := getElem?_lt hi
  unfold Arch.swapRemove
  by_cases hil : i = a.ents.length - 1
  · simp only [hil, if_true]
    refine ⟨rfl, rfl, by simp, fun _ => rfl, ?_, ?_⟩
    · intro k c
      simp only [stampChunk_cst, or_self]
    · intro k y
      simp only [List.getElem?_dropLast]
      constructor
      · intro h
        by_cases hk : k < a.ents.length - 1
        · simp only [hk, if_true] at h
          exact ⟨hk, Or.inr ⟨by omega, h⟩⟩
        · simp only [hk, if_false] at h; cases h
      · rintro ⟨hk, h | h⟩
        · omega
        · simp only [hk, if_true]; exact h.2
  · simp only [hil, if_false]
    have hl : a.ents.length - 1 < a.ents.length := by omega
    obtain ⟨x, hx⟩ : ∃ x, a.ents[a.ents.length - 1]? = some x :=
      ⟨a.ents[a.ents.length - 1], by simp [hl]⟩
    rw [hx]
    refine ⟨rfl, rfl, by simp, fun _ => rfl, ?_, ?_⟩
    · intro k c
      simp only [stampChunk_cst]
      by_cases h1 : k = i / a.cs
      · simp [h1]
      · by_cases h2 : k = (a.ents.length - 1) / a.cs
        · simp [h2]
        · simp [h1, h2]
    · intro k y
      simp only [List.getElem?_dropLast, List.length_set]
      by_cases hk : k < a.ents.length - 1
      · simp only [hk, if_true, true_and]
        rw [List.getElem?_set]
        by_cases hki : i = k
        · subst hki
          simp only [if_true, hlen]
          constructor
          · intro h; exact Or.inl ⟨trivial, h⟩
          · rintro (⟨_, h⟩ | ⟨h, _⟩)
            · exact h
            · exact absurd rfl h
        · simp only [hki, if_false]
          constructor
          · intro h; exact Or.inr ⟨fun h' => hki h'.symm, h⟩
          · rintro (⟨h, _⟩ | ⟨_, h⟩)
            · exact absurd h.symm hki
            · exact h
      · simp only [hk, if_false, false_and]
        constructor
        · intro h; cases h
        · intro h; exact h.elim

/-! ## the job filter on one archetype -/

@[simp] theorem runJob_ents (a : Arch) (J cur) : (a.runJob J cur).ents = a.ents := by
  unfold Arch.runJob; split <;> rfl
@[simp] theorem runJob_cs (a : Arch) (J cur) : (a.runJob J cur).cs = a.cs := by
  unfold Arch.runJob; split <;> rfl
@[simp] theorem runJob_mask (a : Arch) (J cur) : (a.runJob J cur).mask = a.mask := by
  unfold Arch.runJob; split <;> rfl

theorem procChunk_active {a : Arch} {J : Job} {k : Nat} (h : a.procChunk J k = true) :
    a.active J = true := by
  unfold Arch.procChunk at h
  simp only [Bool.and_eq_true] at h
  exact h.1.1

theorem runJob_gst (a : Arch) (J : Job) (cur : Ver) (c : Comp) :
    (a.runJob J cur).gst c =
      if a.active J = true ∧ (a.fmask J.upd).contains c = true then cur else a.gst c := by
  unfold Arch.runJob
  by_cases h : a.active J = true
  · simp only [h, if_true, true_and]
  · simp only [h]
    rfl

theorem runJob_cst (a : Arch) (J : Job) (cur : Ver) (k : Nat) (c : Comp) :
    (a.runJob J cur).cst k c =
      if a.procChunk J k = true ∧ (a.fmask J.upd).contains c = true then cur else a.cst k c := by
  unfold Arch.runJob
  by_cases h : a.active J = true
  · simp only [h, if_true, Bool.and_eq_true]
  · have : a.procChunk J k = false := by
      cases hp : a.procChunk J k with
      | false => rfl
      | true => exact absurd (procChunk_active hp) h
    simp only [h, this]
    simp

theorem mem_fmask {a : Arch} {m : List Comp} {c : Comp} : c ∈ a.fmask m ↔ c ∈ m ∧ c ∈ a.mask := by
  unfold Arch.fmask
  rw [List.mem_filter, List.contains_iff_mem]

/-- An entity is selected in an archetype iff one of its rows lies in a processed version chunk. -/
theorem mem_processed {a : Arch} {J : Job} (hcs : 0 < a.cs) (e : Ent) :
    e ∈ a.processed J ↔ ∃ i, a.ents[i]? = some e ∧ a.procChunk J (i / a.cs) = true := by
  unfold Arch.processed
  rw [List.mem_filterMap]
  unfold Arch.blocksOf
  by_cases hact : a.active J = true
  · simp only [hact, if_true]
    constructor
    · rintro ⟨i, hi, he⟩
      have hsz : 0 < a.ents.length := by have := getElem?_lt he; omega
      rw [mem_blocks_iff hcs hsz] at hi
      refine ⟨i, he, ?_⟩
      unfold Arch.procChunk
      simp only [hact, hi.2, Bool.true_and, Bool.and_true, decide_eq_true_eq]
      have := Nat.div_mul_le_self i a.cs
      omega
    · rintro ⟨i, he, hp⟩
      have hlt := getElem?_lt he
      refine ⟨i, ?_, he⟩
      rw [mem_blocks_iff hcs (by omega)]
      unfold Arch.procChunk at hp
      simp only [Bool.and_eq_true] at hp
      exact ⟨hlt, hp.2⟩
  · simp only [hact]
    constructor
    · rintro ⟨i, hi, _⟩
      simp [blockIdx] at hi
    · rintro ⟨i, _, hp⟩
      exact absurd (procChunk_active hp) hact

/-- A processed chunk contains at least one row. -/
theorem procChunk_has_row {a : Arch} {J : Job} {k : Nat} (hcs : 0 < a.cs)
    (h : a.procChunk J k = true) : ∃ e, e ∈ a.processed J := by
  have hr : k * a.cs < a.ents.length := by
    unfold Arch.procChunk at h
    simp only [Bool.and_eq_true, decide_eq_true_eq] at h
    exact h.1.2
  obtain ⟨e, he⟩ : ∃ e, a.ents[k * a.cs]? = some e := ⟨a.ents[k * a.cs], by simp [hr]⟩
  refine ⟨e, (mem_processed hcs e).mpr ⟨k * a.cs, he, ?_⟩⟩
  rw [Nat.mul_div_cancel _ hcs]; exact h

theorem matchSt_of_lt {J : Job} {fc : List Comp} {st : Comp → Ver} {c : Comp} (hc : c ∈ fc)
    (h : ∀ L, J.last = some L → L < st c) : J.matchSt fc st = true := by
  unfold Job.matchSt
  cases hl : J.last with
  | none => rfl
  | some L =>
    simp only [Bool.or_eq_true, List.any_eq_true, decide_eq_true_eq]
    exact Or.inr ⟨c, hc, h L hl⟩

theorem matchSt_some {J : Job} {fc : List Comp} {st : Comp → Ver} {L : Ver} (hl : J.last = some L)
    (h : J.matchSt fc st = true) : fc = [] ∨ ∃ c ∈ fc, L < st c := by
  unfold Job.matchSt at h
  rw [hl] at h
  simp only [Bool.or_eq_true, List.any_eq_true, decide_eq_true_eq, List.isEmpty_iff] at h
  exact h

end Mustache.Versions

import Mustache.Model.Versions
/-!
# The block list built by `filterArchetype` covers exactly the matching version chunks

`mem_blocks_iff`: for a positive chunk size and a non-empty archetype, a row index lies in one of the
blocks iff it is below the population and its version chunk passed the check.
-/
namespace Mustache.Versions

theorem mem_blockIdx {bs : List (Nat × Nat)} {i : Nat} :
    i ∈ blockIdx bs ↔ ∃ p ∈ bs, p.1 ≤ i ∧ i < p.2 := by
  unfold blockIdx
  rw [List.mem_flatMap]
  constructor
  · rintro ⟨p, hp, hi⟩
    rw [List.mem_range'_1] at hi
    exact ⟨p, hp, hi.1, by omega⟩
  · rintro ⟨p, hp, h1, h2⟩
    refine ⟨p, hp, ?_⟩
    rw [List.mem_range'_1]
    omega

/-- rows covered by a loop state -/
def LoopCov (prev : Bool) (b e : Nat) (acc : List (Nat × Nat)) (i : Nat) : Prop :=
  (∃ p ∈ acc, p.1 ≤ i ∧ i < p.2) ∨ (prev = true ∧ b ≤ i ∧ i < e)

theorem chunk_of_mem {cs k i : Nat} (hcs : 0 < cs) (h1 : k * cs ≤ i) (h2 : i < (k + 1) * cs) :
    i / cs = k := by
  rw [Nat.div_eq_iff hcs]
  rw [Nat.add_mul] at h2
  omega

theorem blkLoop_spec (cs : Nat) (hcs : 0 < cs) (m : Nat → Bool) :
    ∀ (n k : Nat) (prev : Bool) (b e : Nat) (acc : List (Nat × Nat)),
      (prev = true → e = k * cs ∧ b ≤ e) →
      (∀ p ∈ acc, p.2 + cs ≤ k * cs) →
      match blkLoop cs m n k prev b e acc with
      | (prev', b', e', acc') =>
        (prev' = true → e' = (k + n) * cs ∧ b' ≤ e') ∧
        (∀ p ∈ acc', p.2 + cs ≤ (k + n) * cs) ∧
        (∀ i, LoopCov prev' b' e' acc' i ↔
          (LoopCov prev b e acc i ∨ (k * cs ≤ i ∧ i < (k + n) * cs ∧ m (i / cs) = true))) := by
  intro n
  induction n with
  | zero =>
    intro k prev b e acc hp hacc
    simp only [blkLoop, Nat.add_zero]
    refine ⟨hp, hacc, fun i => ?_⟩
    constructor
    · intro h; exact Or.inl h
    · rintro (h | ⟨h1, h2, _⟩)
      · exact h
      · omega
  | succ n ih =>
    intro k prev b e acc hp hacc
    have hk1 : (k + 1) * cs = k * cs + cs := by rw [Nat.add_mul]; omega
    have hkn : (k + 1 + n) * cs = (k + (n + 1)) * cs := by
      congr 1; omega
    have hmono : (k + 1) * cs ≤ (k + (n + 1)) * cs := Nat.mul_le_mul_right cs (by omega)
    unfold blkLoop
    by_cases hm : m k = true
    · simp only [hm, if_true]
      have hp' : (true = true → (k + 1) * cs = (k + 1) * cs ∧ (if prev = true then b else k * cs) ≤ (k + 1) * cs) := by
        intro _
        refine ⟨rfl, ?_⟩
        by_cases hprev : prev = true
        · simp only [hprev, if_true]
          have := hp hprev
          omega
        · simp only [hprev]
          simp; omega
      have hacc' : ∀ p ∈ acc, p.2 + cs ≤ (k + 1) * cs := by
        intro p hpm; have := hacc p hpm; omega
      have := ih (k + 1) true (if prev = true then b else k * cs) ((k + 1) * cs) acc hp' hacc'
      revert this
      generalize blkLoop cs m n (k + 1) true (if prev = true then b else k * cs) ((k + 1) * cs) acc = r
      obtain ⟨prev', b', e', acc'⟩ := r
      simp only
      rintro ⟨h1, h2, h3⟩
      rw [hkn] at h1 h2
      refine ⟨h1, h2, fun i => ?_⟩
      rw [h3 i, hkn]
      constructor
      · rintro (h | ⟨ha, hb, hc⟩)
        · rcases h with h | ⟨_, hb1, hb2⟩
          · exact Or.inl (Or.inl h)
          · by_cases hprev : prev = true
            · simp only [hprev, if_true] at hb1
              have := hp hprev
              by_cases hlt : i < e
              · exact Or.inl (Or.inr ⟨hprev, hb1, hlt⟩)
              · refine Or.inr ⟨by omega, ?_, ?_⟩
                · omega
                · have : i / cs = k := chunk_of_mem hcs (by omega) hb2
                  rw [this]; exact hm
            · simp only [hprev] at hb1
              simp at hb1
              refine Or.inr ⟨hb1, ?_, ?_⟩
              · omega
              · have : i / cs = k := chunk_of_mem hcs hb1 hb2
                rw [this]; exact hm
        · exact Or.inr ⟨by omega, hb, hc⟩
      · rintro (h | ⟨ha, hb, hc⟩)
        · rcases h with h | ⟨hprev, hb1, hb2⟩
          · exact Or.inl (Or.inl h)
          · have := hp hprev
            refine Or.inl (Or.inr ⟨rfl, ?_, by omega⟩)
            simp only [hprev, if_true]; exact hb1
        · by_cases hlt : i < (k + 1) * cs
          · refine Or.inl (Or.inr ⟨rfl, ?_, hlt⟩)
            by_cases hprev : prev = true
            · simp only [hprev, if_true]
              have := hp hprev; omega
            · simp only [hprev]; simp; exact ha
          · exact Or.inr ⟨by omega, hb, hc⟩
    · simp only [hm]
      simp only [Bool.false_eq_true, if_false]
      have hp' : (false = true → e = (k + 1) * cs ∧ b ≤ e) := by intro h; cases h
      have hacc' : ∀ p ∈ (if prev = true ∧ b < e then acc ++ [(b, e)] else acc), p.2 + cs ≤ (k + 1) * cs := by
        intro p hpm
        by_cases hc : prev = true ∧ b < e
        · simp only [hc, and_self, if_true] at hpm
          rw [List.mem_append, List.mem_singleton] at hpm
          rcases hpm with hpm | rfl
          · have := hacc p hpm; omega
          · have := hp hc.1; simp only; omega
        · simp only [hc, if_false] at hpm
          have := hacc p hpm; omega
      have := ih (k + 1) false b e (if prev = true ∧ b < e then acc ++ [(b, e)] else acc) hp' hacc'
      revert this
      generalize blkLoop cs m n (k + 1) false b e (if prev = true ∧ b < e then acc ++ [(b, e)] else acc) = r
      obtain ⟨prev', b', e', acc'⟩ := r
      simp only
      rintro ⟨h1, h2, h3⟩
      rw [hkn] at h1 h2
      refine ⟨h1, h2, fun i => ?_⟩
      rw [h3 i, hkn]
      have hcov : LoopCov false b e (if prev = true ∧ b < e then acc ++ [(b, e)] else acc) i ↔
          LoopCov prev b e acc i := by
        unfold LoopCov
        by_cases hc : prev = true ∧ b < e
        · rw [if_pos hc]
          constructor
          · rintro (⟨p, hpm, hx⟩ | ⟨hf, _⟩)
            · rw [List.mem_append, List.mem_singleton] at hpm
              rcases hpm with hpm | rfl
              · exact Or.inl ⟨p, hpm, hx⟩
              · exact Or.inr ⟨hc.1, hx.1, hx.2⟩
            · cases hf
          · rintro (⟨p, hpm, hx⟩ | ⟨_, hx1, hx2⟩)
            · exact Or.inl ⟨p, List.mem_append_left _ hpm, hx⟩
            · exact Or.inl ⟨(b, e), List.mem_append_right _ (List.mem_singleton.mpr rfl), hx1, hx2⟩
        · rw [if_neg hc]
          constructor
          · rintro (h | ⟨hf, _⟩)
            · exact Or.inl h
            · cases hf
          · rintro (h | ⟨hprev, hx1, hx2⟩)
            · exact Or.inl h
            · exact absurd ⟨hprev, by omega⟩ hc
      rw [hcov]
      constructor
      · rintro (h | ⟨ha, hb, hc⟩)
        · exact Or.inl h
        · exact Or.inr ⟨by omega, hb, hc⟩
      · rintro (h | ⟨ha, hb, hc⟩)
        · exact Or.inl h
        · by_cases hlt : i < (k + 1) * cs
          · have : i / cs = k := chunk_of_mem hcs ha hlt
            rw [this] at hc
            exact absurd hc hm
          · exact Or.inr ⟨by omega, hb, hc⟩

/-- The rows selected in one archetype are exactly the rows of the version chunks that passed the check. -/
theorem mem_blocks_iff {cs size : Nat} (hcs : 0 < cs) (hsz : 0 < size) (m : Nat → Bool) (i : Nat) :
    i ∈ blockIdx (blocks cs size m) ↔ i < size ∧ m (i / cs) = true := by
  rw [mem_blockIdx]
  unfold blocks
  have spec := blkLoop_spec cs hcs m ((size - 1) / cs + 1) 0 false 0 0 []
    (by intro h; cases h) (by intro p hp; cases hp)
  revert spec
  generalize blkLoop cs m ((size - 1) / cs + 1) 0 false 0 0 [] = r
  obtain ⟨prev', b', e', acc'⟩ := r
  simp only [Nat.zero_add, Nat.zero_mul, Nat.zero_le, true_and]
  rintro ⟨h1, h2, h3⟩
  have hN1 : (size - 1) / cs * cs ≤ size - 1 := Nat.div_mul_le_self _ _
  have hN2 : size - 1 < cs * ((size - 1) / cs + 1) := Nat.lt_mul_div_succ _ hcs
  have hN : ((size - 1) / cs + 1) * cs = (size - 1) / cs * cs + cs := by rw [Nat.add_mul]; omega
  rw [Nat.mul_comm] at hN2
  have hacc_lt : ∀ p ∈ acc', p.2 < size := by
    intro p hp; have := h2 p hp; omega
  have hcovL : ∀ i, LoopCov prev' b' e' acc' i ↔ (i < ((size - 1) / cs + 1) * cs ∧ m (i / cs) = true) := by
    intro i
    rw [h3 i]
    constructor
    · rintro (h | h)
      · rcases h with ⟨p, hp, _⟩ | ⟨hf, _⟩
        · cases hp
        · cases hf
      · exact h
    · intro h; exact Or.inr h
  constructor
  · rintro ⟨p, hp, hx1, hx2⟩
    by_cases hc : prev' = true ∧ b' < min size e'
    · simp only [hc, and_self, if_true] at hp
      rw [List.mem_append, List.mem_singleton] at hp
      rcases hp with hp | rfl
      · have hcov : LoopCov prev' b' e' acc' i := Or.inl ⟨p, hp, hx1, hx2⟩
        have := (hcovL i).mp hcov
        have := hacc_lt p hp
        exact ⟨by omega, (hcovL i).mp hcov |>.2⟩
      · simp only at hx1 hx2
        have hcov : LoopCov prev' b' e' acc' i := Or.inr ⟨hc.1, hx1, by omega⟩
        exact ⟨by omega, (hcovL i).mp hcov |>.2⟩
    · simp only [hc, if_false] at hp
      have hcov : LoopCov prev' b' e' acc' i := Or.inl ⟨p, hp, hx1, hx2⟩
      have := hacc_lt p hp
      exact ⟨by omega, (hcovL i).mp hcov |>.2⟩
  · rintro ⟨hlt, hm⟩
    have hcov := (hcovL i).mpr ⟨by omega, hm⟩
    rcases hcov with ⟨p, hp, hx⟩ | ⟨hprev, hx1, hx2⟩
    · refine ⟨p, ?_, hx⟩
      by_cases hc : prev' = true ∧ b' < min size e'
      · simp only [hc, and_self, if_true]; exact List.mem_append_left _ hp
      · simp only [hc, if_false]; exact hp
    · have hc : prev' = true ∧ b' < min size e' := ⟨hprev, by omega⟩
      refine ⟨(b', min size e'), ?_, hx1, by simp only; omega⟩
      simp only [hc, and_self, if_true]
      exact List.mem_append_right _ (List.mem_singleton.mpr rfl)

end Mustache.Versions

import Mustache.Proofs.VersionsBasic
/-!
# The invariant of the version model (live stamping version) — definition, non-structural operations

`Inv` collects what DESIGN.md C07 / C11 list:
* every stamp of a populated archetype is `≤ w`; the archetype-level stamp dominates the stamps of the
  chunks in range;
* `last_j = none ∨ last_j < w`;
* `pending j e c` (for a checked component the entity has, in an archetype matching `j` and a chunk the
  job's constant chunk filter accepts) implies that the stamp of the entity's chunk is newer than `last_j`;
* a chunk stamp of a checked component newer than `last_j` implies `touched j a k`; a job that never had
  work has every chunk in range touched;
* rows are duplicate-free across archetypes and below the ordinal counter.
-/
namespace Mustache.Versions

structure Inv (s : State) : Prop where
  live : s.live = true
  dfltPos : 0 < s.dflt
  csPos : ∀ (ai : Nat) (a : Arch), s.archs[ai]? = some a → 0 < a.cs
  uniq : ∀ (ai : Nat) (a : Arch) (i ai' : Nat) (a' : Arch) (i' : Nat) (e : Ent),
      s.archs[ai]? = some a → a.ents[i]? = some e →
      s.archs[ai']? = some a' → a'.ents[i']? = some e → ai = ai' ∧ i = i'
  fresh : ∀ (ai : Nat) (a : Arch) (i : Nat) (e : Ent),
      s.archs[ai]? = some a → a.ents[i]? = some e → e < s.nextEnt
  lastLt : ∀ (j : Nat) (J : Job) (L : Ver), s.jobs[j]? = some J → J.last = some L → L < s.w
  gstLe : ∀ (ai : Nat) (a : Arch) (c : Comp), s.archs[ai]? = some a → a.ents ≠ [] → a.gst c ≤ s.w
  cstLe : ∀ (ai : Nat) (a : Arch) (k : Nat) (c : Comp), s.archs[ai]? = some a →
      k * a.cs < a.ents.length → a.cst k c ≤ a.gst c
  pend : ∀ (j : Nat) (J : Job) (ai : Nat) (a : Arch) (i : Nat) (e : Ent) (c : Comp) (L : Ver),
      s.jobs[j]? = some J → s.archs[ai]? = some a → a.ents[i]? = some e →
      J.reqOk a = true → J.chunkOk (i / a.cs) = true → c ∈ J.check → c ∈ a.mask →
      s.pending j e c = true → J.last = some L → L < a.cst (i / a.cs) c
  touch : ∀ (j : Nat) (J : Job) (ai : Nat) (a : Arch) (k : Nat) (c : Comp) (L : Ver),
      s.jobs[j]? = some J → s.archs[ai]? = some a → J.reqOk a = true →
      k * a.cs < a.ents.length → c ∈ J.check → c ∈ a.mask → J.last = some L → L < a.cst k c →
      s.touched j ai k = true
  touchNone : ∀ (j : Nat) (J : Job) (ai : Nat) (a : Arch) (k : Nat),
      s.jobs[j]? = some J → s.archs[ai]? = some a → J.reqOk a = true →
      k * a.cs < a.ents.length → J.last = none → s.touched j ai k = true

theorem Inv.stampVer {s : State} (h : Inv s) : s.stampVer = s.w := by
  unfold State.stampVer; rw [h.live]; rfl

/-- chunk of an existing row is in range -/
theorem chunk_in_range {a : Arch} {i : Nat} {e : Ent} (h : a.ents[i]? = some e) :
    i / a.cs * a.cs < a.ents.length := by
  have := getElem?_lt h
  have := Nat.div_mul_le_self i a.cs
  omega

theorem Inv.cstLeW {s : State} (h : Inv s) {ai : Nat} {a : Arch} {k : Nat} {c : Comp} (ha : s.archs[ai]? = some a)
    (hk : k * a.cs < a.ents.length) : a.cst k c ≤ s.w := by
  have h1 := h.cstLe ai a k c ha hk
  have hne : a.ents ≠ [] := by intro hn; rw [hn] at hk; simp at hk
  have h2 := h.gstLe ai a c ha hne
  omega

theorem init_inv (cfg : Config) (hl : cfg.live = true) : Inv (init cfg) := by
  refine ⟨hl, by simp [init], ?_, ?_, ?_, ?_, ?_, ?_, ?_, ?_, ?_⟩
  case refine_4 =>
    intro j J L hj hl
    simp only [init, List.getElem?_map, Option.map_eq_some_iff] at hj
    obtain ⟨sp, _, rfl⟩ := hj
    simp [JobSpec.toJob] at hl
  all_goals (intros; simp_all [init])

/-! ## `world.update()` -/

theorem worldUpdate_inv {s : State} (h : Inv s) : Inv s.worldUpdate := by
  refine ⟨h.live, h.dfltPos, h.csPos, h.uniq, h.fresh, ?_, ?_, h.cstLe, h.pend, h.touch, h.touchNone⟩
  · intro j J L hj hl
    have := h.lastLt j J L hj hl
    simp only [State.worldUpdate]; omega
  · intro ai a c ha hne
    have := h.gstLe ai a c ha hne
    simp only [State.worldUpdate]; omega

/-! ## mutable access / markDirty -/

theorem checkOf_eq {jobs : List Job} {j : Nat} {J : Job} (h : jobs[j]? = some J) :
    checkOf jobs j = J.check := by
  unfold checkOf; rw [h]

theorem writeAt_inv {s : State} (h : Inv s) {ai i : Nat} {a0 : Arch} {e : Ent} (c0 : Comp)
    (ha0 : s.archs[ai]? = some a0) (he : a0.ents[i]? = some e) : Inv (s.writeAt ai i e c0) := by
  have hsv := h.stampVer
  -- archetypes of the new state
  have harch : ∀ x a', (s.writeAt ai i e c0).archs[x]? = some a' →
      (x = ai ∧ a' = a0.stampComp (i / a0.cs) c0 s.w) ∨ (x ≠ ai ∧ s.archs[x]? = some a') := by
    intro x a' hx
    simp only [State.writeAt, ha0, hsv] at hx
    by_cases hxa : x = ai
    · subst hxa
      rw [modify_get_self _ ha0] at hx
      exact Or.inl ⟨rfl, (Option.some.inj hx).symm⟩
    · rw [modify_get_ne _ hxa] at hx
      exact Or.inr ⟨hxa, hx⟩
  have hjobs : (s.writeAt ai i e c0).jobs = s.jobs := by simp only [State.writeAt, ha0]
  have hw : (s.writeAt ai i e c0).w = s.w := by simp only [State.writeAt, ha0]
  have hpend : ∀ j e' c', (s.writeAt ai i e c0).pending j e' c' =
      if e' = e ∧ c' = c0 then true else s.pending j e' c' := by
    intro j e' c'; simp only [State.writeAt, ha0]
  have htouch : ∀ j x k, (s.writeAt ai i e c0).touched j x k =
      if x = ai ∧ k = i / a0.cs ∧ (checkOf s.jobs j).contains c0 = true then true
      else s.touched j x k := by
    intro j x k; simp only [State.writeAt, ha0]
  -- every new archetype comes from an old one with the same rows
  have hold : ∀ x a', (s.writeAt ai i e c0).archs[x]? = some a' →
      ∃ a, s.archs[x]? = some a ∧ a'.ents = a.ents ∧ a'.cs = a.cs ∧ a'.mask = a.mask ∧
        (∀ k c, a.cst k c ≤ a'.cst k c) ∧
        (∀ k c, a'.cst k c = a.cst k c ∨ (a'.cst k c = s.w ∧ x = ai ∧ k = i / a0.cs ∧ c = c0)) := by
    intro x a' hx
    rcases harch x a' hx with ⟨rfl, rfl⟩ | ⟨_, hx'⟩
    · refine ⟨a0, ha0, rfl, rfl, rfl, ?_, ?_⟩
      · intro k c
        simp only [stampComp_cst]
        split
        · next hkc =>
          obtain ⟨rfl, rfl⟩ := hkc
          exact h.cstLeW ha0 (chunk_in_range he)
        · exact Nat.le_refl _
      · intro k c
        simp only [stampComp_cst]
        split
        · next hkc => exact Or.inr ⟨rfl, trivial, hkc.1, hkc.2⟩
        · exact Or.inl rfl
    · exact ⟨a', hx', rfl, rfl, rfl, fun _ _ => Nat.le_refl _, fun _ _ => Or.inl rfl⟩
  refine ⟨?_, ?_, ?_, ?_, ?_, ?_, ?_, ?_, ?_, ?_, ?_⟩
  · simp only [State.writeAt, ha0]; exact h.live
  · simp only [State.writeAt, ha0]; exact h.dfltPos
  · intro x a' hx
    obtain ⟨a, hxa, _, hcs, _⟩ := hold x a' hx
    rw [hcs]; exact h.csPos x a hxa
  · intro x a i1 x' a' i2 e1 hx h1 hx' h2
    obtain ⟨b, hb, hbe, _⟩ := hold x a hx
    obtain ⟨b', hb', hbe', _⟩ := hold x' a' hx'
    rw [hbe] at h1; rw [hbe'] at h2
    exact h.uniq x b i1 x' b' i2 e1 hb h1 hb' h2
  · intro x a i1 e1 hx h1
    obtain ⟨b, hb, hbe, _⟩ := hold x a hx
    rw [hbe] at h1
    have := h.fresh x b i1 e1 hb h1
    simpa only [State.writeAt, ha0] using this
  · intro j J L hj hl
    rw [hjobs] at hj; rw [hw]
    exact h.lastLt j J L hj hl
  · intro x a' c hx hne
    rw [hw]
    rcases harch x a' hx with ⟨rfl, rfl⟩ | ⟨_, hx'⟩
    · simp only [stampComp_gst]
      split
      · exact Nat.le_refl _
      · exact h.gstLe x a0 c ha0 (by simpa using hne)
    · exact h.gstLe x a' c hx' hne
  · intro x a' k c hx hk
    rcases harch x a' hx with ⟨rfl, rfl⟩ | ⟨_, hx'⟩
    · simp only [stampComp_cst, stampComp_gst]
      simp only [stampComp_ents, stampComp_cs] at hk
      by_cases hc : c = c0
      · subst hc
        simp only [and_true, if_true]
        split
        · exact Nat.le_refl _
        · have h1 := h.cstLe x a0 k c ha0 hk
          have h2 := h.gstLe x a0 c ha0 (ne_nil_of_get he)
          omega
      · simp only [hc, and_false, if_false]
        exact h.cstLe x a0 k c ha0 hk
    · exact h.cstLe x a' k c hx' hk
  · intro j J x a' i1 e1 c L hj hx h1 hreq hck hcc hcm hp hl
    rw [hjobs] at hj
    obtain ⟨a, hxa, hae, hacs, hamask, hmono, hnew⟩ := hold x a' hx
    rw [hae] at h1
    rw [hacs] at hck
    have hreq' : J.reqOk a = true := by
      simpa only [Job.reqOk, hamask] using hreq
    rw [hamask] at hcm
    rw [hacs]
    rw [hpend] at hp
    by_cases hec : e1 = e ∧ c = c0
    · obtain ⟨rfl, rfl⟩ := hec
      obtain ⟨rfl, rfl⟩ := h.uniq x a i1 ai a0 i e1 hxa h1 ha0 he
      have : a = a0 := by rw [ha0] at hxa; exact (Option.some.inj hxa).symm
      subst this
      rcases harch x a' hx with ⟨_, rfl⟩ | ⟨hne, _⟩
      · simp only [stampComp_cst, and_self, if_true]
        exact h.lastLt j J L hj hl
      · exact absurd rfl hne
    · simp only [hec, if_false] at hp
      have := h.pend j J x a i1 e1 c L hj hxa h1 hreq' hck hcc hcm hp hl
      have := hmono (i1 / a.cs) c
      omega
  · intro j J x a' k c L hj hx hreq hk hcc hcm hl hlt
    rw [hjobs] at hj
    obtain ⟨a, hxa, hae, hacs, hamask, hmono, hnew⟩ := hold x a' hx
    have hreq' : J.reqOk a = true := by
      simpa only [Job.reqOk, hamask] using hreq
    rw [hamask] at hcm
    rw [hae, hacs] at hk
    rw [htouch]
    rcases hnew k c with heq | ⟨_, rfl, rfl, rfl⟩
    · rw [heq] at hlt
      have := h.touch j J x a k c L hj hxa hreq' hk hcc hcm hl hlt
      split
      · rfl
      · exact this
    · have : (checkOf s.jobs j).contains c = true := by
        rw [checkOf_eq hj, List.contains_iff_mem]; exact hcc
      simp only [this, and_self, if_true]
  · intro j J x a' k hj hx hreq hk hl
    rw [hjobs] at hj
    obtain ⟨a, hxa, hae, hacs, hamask, _, _⟩ := hold x a' hx
    have hreq' : J.reqOk a = true := by
      simpa only [Job.reqOk, hamask] using hreq
    rw [hae, hacs] at hk
    rw [htouch]
    have := h.touchNone j J x a k hj hxa hreq' hk hl
    split
    · rfl
    · exact this

end Mustache.Versions

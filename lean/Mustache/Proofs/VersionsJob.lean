import Mustache.Proofs.VersionsInv
/-!
# `BaseJob::run` preserves the invariant; the core of C07

`pending_procChunk`: a pending write of a checked component puts the entity's chunk among the processed
chunks of the job's next run. `jobRun_inv`: the invariant survives a run (with or without work).
-/
namespace Mustache.Versions

theorem mem_procs {s : State} (h : Inv s) (J : Job) (e : Ent) :
    e ∈ s.archs.flatMap (·.processed J) ↔
      ∃ (ai : Nat) (a : Arch) (i : Nat),
        s.archs[ai]? = some a ∧ a.ents[i]? = some e ∧ a.procChunk J (i / a.cs) = true := by
  rw [List.mem_flatMap]
  constructor
  · rintro ⟨a, ha, he⟩
    obtain ⟨ai, hai⟩ := List.mem_iff_getElem?.mp ha
    obtain ⟨i, hi, hp⟩ := (mem_processed (h.csPos ai a hai) e).mp he
    exact ⟨ai, a, i, hai, hi, hp⟩
  · rintro ⟨ai, a, i, hai, hi, hp⟩
    exact ⟨a, List.mem_iff_getElem?.mpr ⟨ai, hai⟩,
      (mem_processed (h.csPos ai a hai) e).mpr ⟨i, hi, hp⟩⟩

theorem procs_nil_no_chunk {s : State} (h : Inv s) {J : Job}
    (hnil : s.archs.flatMap (·.processed J) = []) {ai : Nat} {a : Arch} (ha : s.archs[ai]? = some a)
    (k : Nat) : a.procChunk J k = false := by
  cases hp : a.procChunk J k with
  | false => rfl
  | true =>
    obtain ⟨e, he⟩ := procChunk_has_row (h.csPos ai a ha) hp
    have : e ∈ s.archs.flatMap (·.processed J) :=
      List.mem_flatMap.mpr ⟨a, List.mem_iff_getElem?.mpr ⟨ai, ha⟩, he⟩
    rw [hnil] at this
    cases this

/-- **Core of C07.** A pending write of a checked component of an entity in an archetype that has the
job's required components makes the entity's version chunk pass both levels of the job's filter. -/
theorem pending_procChunk {s : State} (h : Inv s) {j : Nat} {J : Job} {ai : Nat} {a : Arch} {i : Nat}
    {e : Ent} {c : Comp} (hj : s.jobs[j]? = some J) (ha : s.archs[ai]? = some a)
    (he : a.ents[i]? = some e) (hreq : J.reqOk a = true) (hck : J.chunkOk (i / a.cs) = true)
    (hcc : c ∈ J.check) (hcm : c ∈ a.mask)
    (hp : s.pending j e c = true) : a.procChunk J (i / a.cs) = true := by
  have hcf : c ∈ a.fmask J.check := mem_fmask.mpr ⟨hcc, hcm⟩
  have hrange := chunk_in_range (a := a) he
  have hlt : ∀ L, J.last = some L → L < a.cst (i / a.cs) c :=
    fun L hl => h.pend j J ai a i e c L hj ha he hreq hck hcc hcm hp hl
  have hne : a.ents.isEmpty = false := by
    cases hx : a.ents with
    | nil => rw [hx] at he; simp at he
    | cons _ _ => rfl
  unfold Arch.procChunk Arch.sel Arch.active Job.matchesArch Arch.gMatch Arch.cMatch
  simp only [hne, hreq, hck, Bool.not_false, Bool.true_and, Bool.and_eq_true, decide_eq_true_eq]
  refine ⟨⟨?_, hrange⟩, matchSt_of_lt hcf hlt⟩
  refine matchSt_of_lt hcf (fun L hl => ?_)
  have h1 := hlt L hl
  have h2 := h.cstLe ai a (i / a.cs) c ha hrange
  omega

theorem jobRun_none {s : State} {j : Nat} (hj : s.jobs[j]? = none) : s.jobRun j = (s, []) := by
  unfold State.jobRun; rw [hj]

theorem jobRun_snd {s : State} {j : Nat} {J : Job} (hj : s.jobs[j]? = some J) :
    (s.jobRun j).2 = s.archs.flatMap (·.processed J) := by
  unfold State.jobRun; rw [hj]

theorem reqOk_runJob (J' : Job) (a : Arch) (J : Job) (cur : Ver) :
    J'.reqOk (a.runJob J cur) = J'.reqOk a := by
  unfold Job.reqOk; rw [runJob_mask]

theorem jobRun_inv {s : State} (h : Inv s) (j : Nat) : Inv (s.jobRun j).1 := by
  cases hj : s.jobs[j]? with
  | none => rw [jobRun_none hj]; exact h
  | some J =>
  -- abbreviations
  have hprocs : ∀ e, e ∈ s.archs.flatMap (·.processed J) ↔ _ := mem_procs h J
  -- fields of the new state
  have harch : ∀ (x : Nat) (a' : Arch), (s.jobRun j).1.archs[x]? = some a' →
      ∃ a, s.archs[x]? = some a ∧ a' = a.runJob J s.w := by
    intro x a' hx
    simp only [State.jobRun, hj, List.getElem?_map, Option.map_eq_some_iff] at hx
    obtain ⟨a, ha, rfl⟩ := hx
    exact ⟨a, ha, rfl⟩
  have hjobs : ∀ (j' : Nat) (J' : Job), (s.jobRun j).1.jobs[j']? = some J' →
      (j' ≠ j ∧ s.jobs[j']? = some J') ∨
      (j' = j ∧ s.archs.flatMap (·.processed J) = [] ∧ J' = J) ∨
      (j' = j ∧ s.archs.flatMap (·.processed J) ≠ [] ∧ J' = { J with last := some s.w }) := by
    intro j' J' hj'
    simp only [State.jobRun, hj] at hj'
    by_cases hnil : s.archs.flatMap (·.processed J) = []
    · simp only [hnil, List.isEmpty_nil, Bool.not_true, Bool.false_eq_true, if_false] at hj'
      by_cases hjj : j' = j
      · subst hjj; rw [hj] at hj'
        exact Or.inr (Or.inl ⟨rfl, hnil, (Option.some.inj hj').symm⟩)
      · exact Or.inl ⟨hjj, hj'⟩
    · have hne : (s.archs.flatMap (·.processed J)).isEmpty = false := by
        cases hx : s.archs.flatMap (·.processed J) with
        | nil => exact absurd hx hnil
        | cons _ _ => rfl
      simp only [hne, Bool.not_false, if_true] at hj'
      by_cases hjj : j' = j
      · subst hjj
        have hlt : j' < s.jobs.length := getElem?_lt hj
        rw [List.getElem?_set_self hlt] at hj'
        exact Or.inr (Or.inr ⟨rfl, hnil, (Option.some.inj hj').symm⟩)
      · rw [List.getElem?_set_ne (Ne.symm hjj)] at hj'
        exact Or.inl ⟨hjj, hj'⟩
  have hw : s.w ≤ (s.jobRun j).1.w ∧
      (s.archs.flatMap (·.processed J) ≠ [] → (s.jobRun j).1.w = s.w + 1) := by
    simp only [State.jobRun, hj]
    by_cases hnil : s.archs.flatMap (·.processed J) = []
    · simp [hnil]
    · have hne : (s.archs.flatMap (·.processed J)).isEmpty = false := by
        cases hx : s.archs.flatMap (·.processed J) with
        | nil => exact absurd hx hnil
        | cons _ _ => rfl
      simp [hne]
  have hpend : ∀ (j' : Nat) (e : Ent) (c : Comp), (s.jobRun j).1.pending j' e c =
      if (s.archs.flatMap (·.processed J)).contains e = true then
        (if j' = j then false else s.pending j' e c || J.upd.contains c)
      else s.pending j' e c := by
    intro j' e c; simp only [State.jobRun, hj]
  have htouch : ∀ (j' x k : Nat) (a : Arch), s.archs[x]? = some a →
      (s.jobRun j).1.touched j' x k =
        if a.procChunk J k = true then
          (if j' = j then false
           else s.touched j' x k || overlaps (a.fmask J.upd) (checkOf s.jobs j'))
        else s.touched j' x k := by
    intro j' x k a ha; simp only [State.jobRun, hj, ha]
  refine ⟨?_, ?_, ?_, ?_, ?_, ?_, ?_, ?_, ?_, ?_, ?_⟩
  · simp only [State.jobRun, hj]; exact h.live
  · simp only [State.jobRun, hj]; exact h.dfltPos
  · intro x a' hx
    obtain ⟨a, ha, rfl⟩ := harch x a' hx
    rw [runJob_cs]; exact h.csPos x a ha
  · intro x a i1 x' a' i2 e1 hx h1 hx' h2
    obtain ⟨b, hb, rfl⟩ := harch x a hx
    obtain ⟨b', hb', rfl⟩ := harch x' a' hx'
    rw [runJob_ents] at h1 h2
    exact h.uniq x b i1 x' b' i2 e1 hb h1 hb' h2
  · intro x a i1 e1 hx h1
    obtain ⟨b, hb, rfl⟩ := harch x a hx
    rw [runJob_ents] at h1
    have := h.fresh x b i1 e1 hb h1
    simpa only [State.jobRun, hj] using this
  · -- last_j < w
    intro j' J' L hj' hl
    rcases hjobs j' J' hj' with ⟨_, hold⟩ | ⟨_, _, rfl⟩ | ⟨_, hne, rfl⟩
    · have := h.lastLt j' J' L hold hl; omega
    · have := h.lastLt j J' L hj hl; omega
    · simp only [Option.some.injEq] at hl
      have := hw.2 hne; omega
  · -- archetype-level stamps ≤ w
    intro x a' c hx hne
    obtain ⟨a, ha, rfl⟩ := harch x a' hx
    rw [runJob_ents] at hne
    rw [runJob_gst]
    have := h.gstLe x a c ha hne
    split <;> omega
  · -- chunk stamps ≤ archetype-level stamp
    intro x a' k c hx hk
    obtain ⟨a, ha, rfl⟩ := harch x a' hx
    rw [runJob_ents, runJob_cs] at hk
    rw [runJob_gst, runJob_cst]
    have h1 := h.cstLe x a k c ha hk
    have hne : a.ents ≠ [] := by intro hn; rw [hn] at hk; simp at hk
    have h2 := h.gstLe x a c ha hne
    by_cases hp : a.procChunk J k = true ∧ (a.fmask J.upd).contains c = true
    · have hact : a.active J = true ∧ (a.fmask J.upd).contains c = true :=
        ⟨procChunk_active hp.1, hp.2⟩
      rw [if_pos hp, if_pos hact]; exact Nat.le_refl _
    · rw [if_neg hp]
      split <;> omega
  · -- pending ⇒ chunk stamp newer than last
    intro j' J' x a' i1 e1 c L hj' hx h1 hreq hck hcc hcm hp hl
    obtain ⟨a, ha, rfl⟩ := harch x a' hx
    rw [runJob_ents] at h1
    rw [runJob_mask] at hcm
    rw [reqOk_runJob] at hreq
    rw [runJob_cs] at hck
    rw [runJob_cs, runJob_cst]
    rw [hpend] at hp
    rcases hjobs j' J' hj' with ⟨hjj, hold⟩ | ⟨rfl, hnil, rfl⟩ | ⟨rfl, hne, rfl⟩
    · -- another job's invariant
      have hLw := h.lastLt j' J' L hold hl
      by_cases hpc : a.procChunk J (i1 / a.cs) = true ∧ (a.fmask J.upd).contains c = true
      · rw [if_pos hpc]; exact hLw
      · rw [if_neg hpc]
        by_cases hin : (s.archs.flatMap (·.processed J)).contains e1 = true
        · rw [if_pos hin, if_neg hjj] at hp
          rw [List.contains_iff_mem, hprocs] at hin
          obtain ⟨x2, a2, i2, ha2, he2, hp2⟩ := hin
          obtain ⟨rfl, rfl⟩ := h.uniq x a i1 x2 a2 i2 e1 ha h1 ha2 he2
          have : a2 = a := by rw [ha] at ha2; exact (Option.some.inj ha2).symm
          subst this
          simp only [Bool.or_eq_true] at hp
          rcases hp with hp | hp
          · exact h.pend j' J' x a2 i1 e1 c L hold ha h1 hreq hck hcc hcm hp hl
          · exfalso; apply hpc
            refine ⟨hp2, ?_⟩
            rw [List.contains_iff_mem, mem_fmask]
            exact ⟨List.contains_iff_mem.mp hp, hcm⟩
        · rw [if_neg hin] at hp
          exact h.pend j' J' x a i1 e1 c L hold ha h1 hreq hck hcc hcm hp hl
    · -- the job itself, no work: nothing changed
      have hpc := procs_nil_no_chunk h hnil ha (i1 / a.cs)
      simp only [hpc, Bool.false_eq_true, false_and, if_false]
      simp only [hnil, List.contains_nil, Bool.false_eq_true, if_false] at hp
      exact h.pend j' J' x a i1 e1 c L hj ha h1 hreq hck hcc hcm hp hl
    · -- the job itself, with work: every pending entity was processed
      exfalso
      have hreq' : J.reqOk a = true := hreq
      have hck' : J.chunkOk (i1 / a.cs) = true := hck
      by_cases hin : (s.archs.flatMap (·.processed J)).contains e1 = true
      · rw [if_pos hin] at hp; simp at hp
      · rw [if_neg hin] at hp
        apply hin
        rw [List.contains_iff_mem, hprocs]
        exact ⟨x, a, i1, ha, h1, pending_procChunk h hj ha h1 hreq' hck' hcc hcm hp⟩
  · -- newer chunk stamp ⇒ touched
    intro j' J' x a' k c L hj' hx hreq hk hcc hcm hl hlt
    obtain ⟨a, ha, rfl⟩ := harch x a' hx
    rw [runJob_ents, runJob_cs] at hk
    rw [runJob_mask] at hcm
    rw [reqOk_runJob] at hreq
    rw [runJob_cst] at hlt
    rw [htouch _ _ _ a ha]
    rcases hjobs j' J' hj' with ⟨hjj, hold⟩ | ⟨rfl, hnil, rfl⟩ | ⟨rfl, hne, rfl⟩
    · by_cases hpc : a.procChunk J k = true
      · rw [if_pos hpc, if_neg hjj]
        simp only [Bool.or_eq_true]
        by_cases hcu : (a.fmask J.upd).contains c = true
        · right
          unfold overlaps
          rw [List.any_eq_true]
          refine ⟨c, List.contains_iff_mem.mp hcu, ?_⟩
          rw [checkOf_eq hold, List.contains_iff_mem]; exact hcc
        · left
          rw [if_neg (fun hh => hcu hh.2)] at hlt
          exact h.touch j' J' x a k c L hold ha hreq hk hcc hcm hl hlt
      · rw [if_neg hpc]
        rw [if_neg (fun hh => hpc hh.1)] at hlt
        exact h.touch j' J' x a k c L hold ha hreq hk hcc hcm hl hlt
    · have hpc := procs_nil_no_chunk h hnil ha k
      simp only [hpc, Bool.false_eq_true, false_and, if_false] at hlt ⊢
      exact h.touch j' J' x a k c L hj ha hreq hk hcc hcm hl hlt
    · -- with work `last = w`, and no stamp exceeds `w`
      exfalso
      simp only [Option.some.injEq] at hl
      subst hl
      have := h.cstLeW (c := c) ha hk
      split at hlt <;> omega
  · -- never had work ⇒ every chunk in range is touched
    intro j' J' x a' k hj' hx hreq hk hl
    obtain ⟨a, ha, rfl⟩ := harch x a' hx
    rw [runJob_ents, runJob_cs] at hk
    rw [reqOk_runJob] at hreq
    rw [htouch _ _ _ a ha]
    rcases hjobs j' J' hj' with ⟨hjj, hold⟩ | ⟨rfl, hnil, rfl⟩ | ⟨rfl, hne, rfl⟩
    · have := h.touchNone j' J' x a k hold ha hreq hk hl
      by_cases hpc : a.procChunk J k = true
      · rw [if_pos hpc, if_neg hjj, this]; rfl
      · rw [if_neg hpc]; exact this
    · have hpc := procs_nil_no_chunk h hnil ha k
      simp only [hpc, Bool.false_eq_true, if_false]
      exact h.touchNone j' J' x a k hj ha hreq hk hl
    · simp at hl

end Mustache.Versions

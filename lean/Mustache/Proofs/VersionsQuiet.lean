import Mustache.Proofs.VersionsReach
import Mustache.Spec.Versions
/-!
# Quiescence (C11) and the behaviour of the ghost `pending` (C07)

* `QuietS s j`: no version chunk in range of an archetype with `j`'s required components passes `j`'s
  chunk check. It implies that `jobRun j` selects nothing, holds after every run of a version-filtered
  `j`, and is preserved by every operation that does not write `j`'s checked components.
* `pending_mono`: `pending j e c` survives every operation except a run of `j` itself.
-/
namespace Mustache.Versions

def QuietS (s : State) (j : Nat) : Prop :=
  ∀ (J : Job) (ai : Nat) (a : Arch) (k : Nat), s.jobs[j]? = some J → s.archs[ai]? = some a →
    J.reqOk a = true → k * a.cs < a.ents.length → J.chunkOk k = true → a.cMatch J k = false

theorem matchSt_congr {J : Job} {fc : List Comp} {st st' : Comp → Ver}
    (h : ∀ c ∈ fc, st c = st' c) : J.matchSt fc st = J.matchSt fc st' := by
  unfold Job.matchSt
  cases J.last with
  | none => rfl
  | some L =>
    simp only
    congr 1
    rw [Bool.eq_iff_iff, List.any_eq_true, List.any_eq_true]
    constructor
    · rintro ⟨c, hc, hlt⟩; exact ⟨c, hc, by rw [← h c hc]; exact hlt⟩
    · rintro ⟨c, hc, hlt⟩; exact ⟨c, hc, by rw [h c hc]; exact hlt⟩

theorem quiet_processed {s : State} (h : Inv s) {j : Nat} (hq : QuietS s j) : (s.jobRun j).2 = [] := by
  cases hj : s.jobs[j]? with
  | none => rw [jobRun_none hj]
  | some J =>
    rw [jobRun_snd hj, List.eq_nil_iff_forall_not_mem]
    intro e he
    obtain ⟨ai, a, i, ha, _, hp⟩ := (mem_procs h J e).mp he
    unfold Arch.procChunk Arch.sel Arch.active Job.matchesArch at hp
    simp only [Bool.and_eq_true, decide_eq_true_eq] at hp
    have := hq J ai a (i / a.cs) hj ha hp.1.1.1.2 hp.1.2 hp.2.1
    rw [this] at hp
    exact absurd hp.2.2 (by simp)

/-! ## the state after a run -/

theorem jobRun_archs {s : State} {j : Nat} {J : Job} (hj : s.jobs[j]? = some J) (x : Nat) (a' : Arch)
    (hx : (s.jobRun j).1.archs[x]? = some a') : ∃ a, s.archs[x]? = some a ∧ a' = a.runJob J s.w := by
  simp only [State.jobRun, hj, List.getElem?_map, Option.map_eq_some_iff] at hx
  obtain ⟨a, ha, rfl⟩ := hx
  exact ⟨a, ha, rfl⟩

theorem jobRun_jobs {s : State} {j : Nat} {J : Job} (hj : s.jobs[j]? = some J) (j' : Nat) (J' : Job)
    (hj' : (s.jobRun j).1.jobs[j']? = some J') :
    (j' ≠ j ∧ s.jobs[j']? = some J') ∨
    (j' = j ∧ s.archs.flatMap (·.processed J) = [] ∧ J' = J) ∨
    (j' = j ∧ s.archs.flatMap (·.processed J) ≠ [] ∧ J' = { J with last := some s.w }) := by
  simp only [State.jobRun, hj] at hj'
  by_cases hnil : s.archs.flatMap (·.processed J) = []
  · simp only [hnil, List.isEmpty_nil, Bool.not_true, Bool.false_eq_true, if_false] at hj'
    by_cases hjj : j' = j
    · subst hjj; rw [hj] at hj'
      exact Or.inr (Or.inl ⟨rfl, hnil, (Option.some.inj hj').symm⟩)
    · exact Or.inl ⟨hjj, hj'⟩
  · have hne : (s.archs.flatMap (·.processed J)).isEmpty = false := by
      cases hx : s.archs.flatMap (·.processed J) with
      | nil => exact absurd hx hnil
      | cons _ _ => rfl
    simp only [hne, Bool.not_false, if_true] at hj'
    by_cases hjj : j' = j
    · subst hjj
      have hlt : j' < s.jobs.length := getElem?_lt hj
      rw [List.getElem?_set_self hlt] at hj'
      exact Or.inr (Or.inr ⟨rfl, hnil, (Option.some.inj hj').symm⟩)
    · rw [List.getElem?_set_ne (Ne.symm hjj)] at hj'
      exact Or.inl ⟨hjj, hj'⟩

theorem cMatch_false_of_gMatch_false {s : State} (h : Inv s) {J : Job} {ai : Nat} {a : Arch} {k : Nat}
    (ha : s.archs[ai]? = some a) (hk : k * a.cs < a.ents.length) (hg : a.gMatch J = false) :
    a.cMatch J k = false := by
  unfold Arch.gMatch Job.matchSt at hg
  unfold Arch.cMatch Job.matchSt
  cases hl : J.last with
  | none => rw [hl] at hg; cases hg
  | some L =>
    rw [hl] at hg
    simp only [Bool.or_eq_false_iff, List.any_eq_false, decide_eq_true_eq] at hg ⊢
    refine ⟨hg.1, fun c hc => ?_⟩
    have h1 := hg.2 c hc
    have h2 := h.cstLe ai a k c ha hk
    omega

/-- After any run of a job that is version-filtered on every archetype it matches, the job is quiet. -/
theorem quiet_after_run {s : State} (h : Inv s) {j : Nat} {J : Job} (hj : s.jobs[j]? = some J)
    (hvf : ∀ (ai : Nat) (a : Arch), s.archs[ai]? = some a → J.reqOk a = true → a.fmask J.check ≠ []) :
    QuietS (s.jobRun j).1 j := by
  intro J' x a' k hj' hx hreq hk hck
  obtain ⟨a, ha, rfl⟩ := jobRun_archs hj x a' hx
  rw [runJob_ents, runJob_cs] at hk
  rw [reqOk_runJob] at hreq
  have hne : a.ents.isEmpty = false := by
    cases hx : a.ents with
    | nil => rw [hx] at hk; simp at hk
    | cons _ _ => rfl
  rcases jobRun_jobs hj j J' hj' with ⟨hjj, _⟩ | ⟨_, hnil, rfl⟩ | ⟨_, _, rfl⟩
  · exact absurd rfl hjj
  · -- no work: no chunk passed, stamps of chunks unchanged
    have hpc := procs_nil_no_chunk h hnil ha k
    have hsame : (a.runJob J' s.w).cMatch J' k = a.cMatch J' k := by
      unfold Arch.cMatch Arch.fmask
      rw [runJob_mask]
      apply matchSt_congr
      intro c _
      rw [runJob_cst, hpc]; simp
    rw [hsame]
    cases hc : a.cMatch J' k with
    | false => rfl
    | true =>
      unfold Arch.procChunk Arch.sel at hpc
      simp only [hc, hck, Bool.and_true, Bool.and_eq_false_iff, decide_eq_false_iff_not] at hpc
      rcases hpc with hact | hr
      · unfold Arch.active Job.matchesArch at hact
        simp only [hne, hreq, Bool.not_false, Bool.true_and] at hact
        rw [cMatch_false_of_gMatch_false h ha hk hact] at hc
        cases hc
      · exact absurd hk hr
  · -- work: last = w and no stamp exceeds w
    have hfc := hvf x a ha hreq
    unfold Arch.cMatch Job.matchSt Arch.fmask
    simp only [runJob_mask, Bool.or_eq_false_iff, List.any_eq_false, decide_eq_true_eq]
    refine ⟨?_, fun c _ => ?_⟩
    · cases hx : List.filter (fun x => a.mask.contains x) J.check with
      | nil => exact absurd hx hfc
      | cons _ _ => rfl
    · rw [runJob_cst]
      have := h.cstLeW (c := c) ha hk
      split <;> omega

/-! ## static job masks -/

theorem set_map_specOf {jobs : List Job} {j : Nat} {J J' : Job} (hj : jobs[j]? = some J)
    (hs : specOf J' = specOf J) : (jobs.set j J').map specOf = jobs.map specOf := by
  apply List.ext_getElem?
  intro n
  rw [List.getElem?_map, List.getElem?_map, List.getElem?_set]
  by_cases hn : j = n
  · subst hn
    simp only [if_true, getElem?_lt hj, hj, Option.map_some, hs]
  · simp only [hn, if_false]

theorem writeAt_jobs (s : State) (ai i e c : Nat) : (s.writeAt ai i e c).jobs = s.jobs := by
  unfold State.writeAt; split <;> rfl
theorem arrive_jobs (s : State) (ai e : Nat) : (s.arrive ai e).jobs = s.jobs := by
  unfold State.arrive; split <;> rfl
theorem depart_jobs (s : State) (ai i : Nat) : (s.depart ai i).jobs = s.jobs := by
  unfold State.depart; split <;> rfl
theorem getArch_jobs {s s1 : State} {m : List Comp} {aj : Nat} (hg : s.getArch m = .ok (s1, aj)) :
    s1.jobs = s.jobs ∧ s1.pending = s.pending := by
  unfold State.getArch State.getArchClosed at hg
  split at hg
  · simp only [Except.ok.injEq, Prod.mk.injEq] at hg; rw [← hg.1]; exact ⟨rfl, rfl⟩
  · split at hg
    · cases hg
    · simp only [Except.ok.injEq, Prod.mk.injEq] at hg; rw [← hg.1]; exact ⟨rfl, rfl⟩
theorem moveTo_jobs (s : State) (ai i e : Nat) (m : List Comp) (same : Out) :
    (s.moveTo ai i e m same).1.jobs = s.jobs := by
  unfold State.moveTo
  cases hg : s.getArch m with
  | error p => rfl
  | ok p =>
    obtain ⟨s1, aj⟩ := p
    simp only
    split
    · exact (getArch_jobs hg).1
    · simp only [arrive_jobs, depart_jobs, (getArch_jobs hg).1]

theorem step_specs (s : State) (op : Op) : (s.step op).1.jobs.map specOf = s.jobs.map specOf := by
  cases op with
  | run j =>
    simp only [State.step]
    cases hj : s.jobs[j]? with
    | none => rw [jobRun_none hj]
    | some J =>
      simp only [State.jobRun, hj]
      split
      · exact set_map_specOf hj rfl
      · rfl
  | update => rfl
  | getMut e c =>
    simp only [State.step]
    repeat' split
    all_goals first | rfl | exact congrArg _ (writeAt_jobs ..)
  | markDirty e c =>
    simp only [State.step]
    repeat' split
    all_goals first | rfl | exact congrArg _ (writeAt_jobs ..)
  | getConst e c =>
    simp only [State.step]
    repeat' split
    all_goals rfl
  | create m =>
    simp only [State.step]
    cases hg : s.getArch (normMask m) with
    | error p => rfl
    | ok p =>
      obtain ⟨s1, ai⟩ := p
      simp only [arrive_jobs, (getArch_jobs hg).1]
  | assign e c =>
    simp only [State.step]
    repeat' split
    all_goals first | rfl | exact congrArg _ (moveTo_jobs ..)
  | remove e c =>
    simp only [State.step]
    repeat' split
    all_goals first | rfl | exact congrArg _ (moveTo_jobs ..)
  | destroyNow e =>
    simp only [State.step]
    repeat' split
    all_goals first | rfl | exact congrArg _ (depart_jobs ..)
  | setDefault n => simp only [State.step]; split <;> rfl
  | addFn m mn mx => rfl
  | addDep c ds => rfl

theorem exec_specs (s : State) (ops : List Op) : (s.exec ops).jobs.map specOf = s.jobs.map specOf := by
  induction ops generalizing s with
  | nil => rfl
  | cons op ops ih =>
    show ((s.step op).1.exec ops).jobs.map specOf = _
    rw [ih, step_specs]

theorem init_specs (cfg : Config) : (init cfg).jobs.map specOf = cfg.jobs := by
  simp only [init, List.map_map]
  have : (specOf ∘ fun x => x.toJob) = id := by funext sp; cases sp; simp [specOf, JobSpec.toJob]
  rw [this, List.map_id]

theorem spec_of_job {s : State} {specs : List JobSpec} (hs : s.jobs.map specOf = specs) {j : Nat}
    {J : Job} (hj : s.jobs[j]? = some J) : specs[j]? = some (specOf J) := by
  rw [← hs, List.getElem?_map, hj]; rfl

/-! ## quietness is preserved by non-interfering operations -/

theorem writeAt_quiet {s : State} {j : Nat} (hq : QuietS s j) (ai i e c : Nat)
    (hc : ∀ J, s.jobs[j]? = some J → c ∉ J.check) : QuietS (s.writeAt ai i e c) j := by
  intro J x a' k hj hx hreq hk hck
  rw [writeAt_jobs] at hj
  unfold State.writeAt at hx
  cases ha0 : s.archs[ai]? with
  | none => simp only [ha0] at hx; exact hq J x a' k hj hx hreq hk hck
  | some a0 =>
    simp only [ha0] at hx
    by_cases hxa : x = ai
    · subst hxa
      rw [modify_get_self _ ha0] at hx
      have := (Option.some.inj hx).symm
      subst this
      have hold := hq J x a0 k hj ha0 hreq hk hck
      rw [← hold]
      unfold Arch.cMatch Arch.fmask
      simp only [stampComp_mask]
      apply matchSt_congr
      intro c' hc'
      have hne : c' ≠ c := by
        intro heq; subst heq
        exact hc J hj (List.mem_filter.mp hc').1
      simp only [stampComp_cst, hne, and_false, if_false]
    · rw [modify_get_ne _ hxa] at hx
      exact hq J x a' k hj hx hreq hk hck

theorem jobRun_other_quiet {s : State} {j k : Nat} (hq : QuietS s j) (hkj : k ≠ j)
    (hdis : ∀ K J, s.jobs[k]? = some K → s.jobs[j]? = some J → overlaps K.upd J.check = false) :
    QuietS (s.jobRun k).1 j := by
  cases hk : s.jobs[k]? with
  | none => rw [jobRun_none hk]; exact hq
  | some K =>
    intro J x a' kk hj hx hreq hkk hck
    obtain ⟨a, ha, rfl⟩ := jobRun_archs hk x a' hx
    rw [runJob_ents, runJob_cs] at hkk
    rw [reqOk_runJob] at hreq
    have hj0 : s.jobs[j]? = some J := by
      rcases jobRun_jobs hk j J hj with ⟨_, h0⟩ | ⟨hh, _⟩ | ⟨hh, _⟩
      · exact h0
      · exact absurd hh.symm hkj
      · exact absurd hh.symm hkj
    have hold := hq J x a kk hj0 ha hreq hkk hck
    rw [← hold]
    unfold Arch.cMatch Arch.fmask
    rw [runJob_mask]
    apply matchSt_congr
    intro c hc
    rw [runJob_cst]
    have hcc : c ∈ J.check := (List.mem_filter.mp hc).1
    have hnot : (a.fmask K.upd).contains c = false := by
      cases hcon : (a.fmask K.upd).contains c with
      | false => rfl
      | true =>
        have hcu : c ∈ K.upd := (mem_fmask.mp (List.contains_iff_mem.mp hcon)).1
        have := hdis K J hk hj0
        unfold overlaps at this
        rw [List.any_eq_false] at this
        exact absurd (List.contains_iff_mem.mpr hcc) (this c hcu)
    rw [if_neg]
    rintro ⟨_, hcon⟩
    rw [hnot] at hcon; cases hcon

end Mustache.Versions

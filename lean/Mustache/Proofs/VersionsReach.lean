import Mustache.Proofs.VersionsStruct
import Mustache.Proofs.ChunkSize
/-!
# Every operation preserves the invariant; every state reachable from an empty world satisfies it
-/
namespace Mustache.Versions

open Mustache.ChunkSize (resolveFor resolve_pos)

theorem findArch_sound : ∀ {as : List Arch} {m : List Comp} {ai : Nat},
    findArch as m = some ai → ∃ a, as[ai]? = some a ∧ a.mask = m
  | [], _, _, h => by simp [findArch] at h
  | a :: r, m, ai, h => by
    unfold findArch at h
    by_cases hm : a.mask = m
    · simp only [hm, if_true, Option.some.injEq] at h
      subst h; exact ⟨a, by simp, hm⟩
    · simp only [hm, if_false, Option.map_eq_some_iff] at h
      obtain ⟨ai', hf, rfl⟩ := h
      obtain ⟨a', h1, h2⟩ := findArch_sound hf
      exact ⟨a', by simpa using h1, h2⟩

theorem getArchClosed_ok {s s1 : State} {m : List Comp} {aj : Nat} (h : Inv s)
    (hg : s.getArchClosed m = .ok (s1, aj)) :
    Inv s1 ∧ (∃ a, s1.archs[aj]? = some a ∧ a.mask = m) ∧ s1.nextEnt = s.nextEnt ∧
    (∀ (x : Nat) (a : Arch), s.archs[x]? = some a → s1.archs[x]? = some a) ∧
    (∀ e, NotPresent s e → NotPresent s1 e) := by
  unfold State.getArchClosed at hg
  cases hf : findArch s.archs m with
  | some ai =>
    simp only [hf, Except.ok.injEq, Prod.mk.injEq] at hg
    obtain ⟨rfl, rfl⟩ := hg
    exact ⟨h, findArch_sound hf, rfl, fun _ _ hx => hx, fun _ hnp => hnp⟩
  | none =>
    simp only [hf] at hg
    cases hr : resolveFor s.dflt s.fns m with
    | error mx mn => simp only [hr] at hg; cases hg
    | ok cs =>
      simp only [hr, Except.ok.injEq, Prod.mk.injEq] at hg
      obtain ⟨rfl, rfl⟩ := hg
      have hcs : 0 < cs := resolve_pos h.dfltPos hr
      -- archetypes of the extended list
      have harch : ∀ (x : Nat) (a : Arch),
          (s.archs ++ [{ mask := m, cs := cs, ents := [], cst := fun _ _ => nullVer,
                          gst := fun _ => nullVer }])[x]? = some a →
          s.archs[x]? = some a ∨ (a.ents = [] ∧ a.cs = cs) := by
        intro x a hx
        by_cases hlt : x < s.archs.length
        · rw [List.getElem?_append_left hlt] at hx; exact Or.inl hx
        · rw [List.getElem?_append_right (by omega)] at hx
          cases hxx : x - s.archs.length with
          | zero =>
            rw [hxx] at hx
            simp only [List.getElem?_cons_zero, Option.some.injEq] at hx
            subst hx; exact Or.inr ⟨rfl, rfl⟩
          | succ n => rw [hxx] at hx; simp at hx
      have hnorow : ∀ {a : Arch} {i : Nat} {e : Ent}, a.ents = [] → a.ents[i]? = some e → False := by
        intro a i e hn hr; rw [hn] at hr; simp at hr
      have hnorange : ∀ {a : Arch} {k : Nat}, a.ents = [] → k * a.cs < a.ents.length → False := by
        intro a k hn hk; rw [hn] at hk; simp at hk
      refine ⟨⟨h.live, h.dfltPos, ?_, ?_, ?_, h.lastLt, ?_, ?_, ?_, ?_, ?_⟩, ?_, rfl, ?_, ?_⟩
      · intro x a hx
        rcases harch x a hx with hx | ⟨_, hc⟩
        · exact h.csPos x a hx
        · rw [hc]; exact hcs
      · intro x a i1 x' a' i2 e hx h1 hx' h2
        rcases harch x a hx with hx | ⟨hn, _⟩
        · rcases harch x' a' hx' with hx' | ⟨hn', _⟩
          · exact h.uniq x a i1 x' a' i2 e hx h1 hx' h2
          · exact (hnorow hn' h2).elim
        · exact (hnorow hn h1).elim
      · intro x a i1 e hx h1
        rcases harch x a hx with hx | ⟨hn, _⟩
        · exact h.fresh x a i1 e hx h1
        · exact (hnorow hn h1).elim
      · intro x a c hx hne
        rcases harch x a hx with hx | ⟨hn, _⟩
        · exact h.gstLe x a c hx hne
        · exact absurd hn hne
      · intro x a k c hx hk
        rcases harch x a hx with hx | ⟨hn, _⟩
        · exact h.cstLe x a k c hx hk
        · exact (hnorange hn hk).elim
      · intro j J x a i1 e c L hj hx h1
        rcases harch x a hx with hx | ⟨hn, _⟩
        · exact h.pend j J x a i1 e c L hj hx h1
        · exact (hnorow hn h1).elim
      · intro j J x a k c L hj hx hreq hk
        rcases harch x a hx with hx | ⟨hn, _⟩
        · exact h.touch j J x a k c L hj hx hreq hk
        · exact (hnorange hn hk).elim
      · intro j J x a k hj hx hreq hk
        rcases harch x a hx with hx | ⟨hn, _⟩
        · exact h.touchNone j J x a k hj hx hreq hk
        · exact (hnorange hn hk).elim
      · exact ⟨_, List.getElem?_concat_length, rfl⟩
      · intro x a hx
        have hlt := getElem?_lt hx
        show (s.archs ++ _)[x]? = some a
        rw [List.getElem?_append_left hlt]; exact hx
      · intro e hnp x a i hx hr
        rcases harch x a hx with hx | ⟨hn, _⟩
        · exact hnp x a i hx hr
        · exact hnorow hn hr

theorem getArch_ok {s s1 : State} {m : List Comp} {aj : Nat} (h : Inv s)
    (hg : s.getArch m = .ok (s1, aj)) :
    Inv s1 ∧ (∃ a, s1.archs[aj]? = some a ∧ a.mask = closeMask s.deps m) ∧ s1.nextEnt = s.nextEnt ∧
    (∀ (x : Nat) (a : Arch), s.archs[x]? = some a → s1.archs[x]? = some a) ∧
    (∀ e, NotPresent s e → NotPresent s1 e) := getArchClosed_ok h hg

theorem moveTo_inv {s : State} (h : Inv s) {ai i : Nat} {a0 : Arch} {e : Ent} (m : List Comp) (same : Out)
    (ha0 : s.archs[ai]? = some a0) (he : a0.ents[i]? = some e) : Inv (s.moveTo ai i e m same).1 := by
  unfold State.moveTo
  cases hg : s.getArch m with
  | error p => obtain ⟨mx, mn⟩ := p; exact h
  | ok p =>
    obtain ⟨s1, aj⟩ := p
    obtain ⟨h1, ⟨aj0, haj, _⟩, hn, hkeep, _⟩ := getArch_ok h hg
    have ha1 := hkeep ai a0 ha0
    obtain ⟨h2, hnp, hn2, _, hkeep2⟩ := depart_inv h1 ha1 he
    obtain ⟨b, hb⟩ := hkeep2 aj aj0 haj
    have hfr : e < (s1.depart ai i).nextEnt := by
      rw [hn2]; exact h1.fresh ai a0 i e ha1 he
    simp only
    split
    · exact h1
    · exact arrive_inv h2 hb hnp hfr

theorem step_inv {s : State} (h : Inv s) (op : Op) : Inv (s.step op).1 := by
  cases op with
  | update => exact worldUpdate_inv h
  | run j => exact jobRun_inv h j
  | getMut e c =>
    simp only [State.step]
    cases hl : locate s.archs e with
    | none => exact h
    | some p =>
      obtain ⟨ai, i⟩ := p
      obtain ⟨a, ha, he⟩ := locate_sound hl
      simp only [ha]
      split
      · exact writeAt_inv h c ha he
      · exact h
  | markDirty e c =>
    simp only [State.step]
    cases hl : locate s.archs e with
    | none => exact h
    | some p =>
      obtain ⟨ai, i⟩ := p
      obtain ⟨a, ha, he⟩ := locate_sound hl
      simp only [ha]
      split
      · exact writeAt_inv h c ha he
      · exact h
  | getConst e c =>
    simp only [State.step]
    cases hl : locate s.archs e with
    | none => exact h
    | some p =>
      obtain ⟨ai, i⟩ := p
      obtain ⟨a, ha, _⟩ := locate_sound hl
      simp only [ha]; exact h
  | create m =>
    simp only [State.step]
    cases hg : s.getArch (normMask m) with
    | error p => obtain ⟨mx, mn⟩ := p; exact h
    | ok p =>
      obtain ⟨s1, ai⟩ := p
      obtain ⟨h1, ⟨a, ha, _⟩, _, _, _⟩ := getArch_ok h hg
      simp only
      have h2 : Inv ({ s1 with nextEnt := s1.nextEnt + 1 } : State) :=
        ⟨h1.live, h1.dfltPos, h1.csPos, h1.uniq,
          fun x a i e hx hr => Nat.lt_succ_of_lt (h1.fresh x a i e hx hr),
          h1.lastLt, h1.gstLe, h1.cstLe, h1.pend, h1.touch, h1.touchNone⟩
      refine arrive_inv h2 ha ?_ (Nat.lt_succ_self _)
      intro x b i hx hr
      have := h1.fresh x b i s1.nextEnt hx hr
      omega
  | assign e c =>
    simp only [State.step]
    cases hl : locate s.archs e with
    | none => exact h
    | some p =>
      obtain ⟨ai, i⟩ := p
      obtain ⟨a, ha, he⟩ := locate_sound hl
      simp only [ha]
      exact moveTo_inv h _ _ ha he
  | remove e c =>
    simp only [State.step]
    cases hl : locate s.archs e with
    | none => exact h
    | some p =>
      obtain ⟨ai, i⟩ := p
      obtain ⟨a, ha, he⟩ := locate_sound hl
      simp only [ha]
      split
      · exact moveTo_inv h _ _ ha he
      · exact h
  | destroyNow e =>
    simp only [State.step]
    cases hl : locate s.archs e with
    | none => exact h
    | some p =>
      obtain ⟨ai, i⟩ := p
      obtain ⟨a, ha, he⟩ := locate_sound hl
      exact (depart_inv h ha he).1
  | setDefault n =>
    simp only [State.step]
    split
    · exact h
    · next hn =>
      exact ⟨h.live, Nat.pos_of_ne_zero hn, h.csPos, h.uniq, h.fresh, h.lastLt, h.gstLe, h.cstLe,
        h.pend, h.touch, h.touchNone⟩
  | addFn m mn mx =>
    exact ⟨h.live, h.dfltPos, h.csPos, h.uniq, h.fresh, h.lastLt, h.gstLe, h.cstLe,
      h.pend, h.touch, h.touchNone⟩
  | addDep c ds =>
    exact ⟨h.live, h.dfltPos, h.csPos, h.uniq, h.fresh, h.lastLt, h.gstLe, h.cstLe,
      h.pend, h.touch, h.touchNone⟩

theorem exec_inv {s : State} (h : Inv s) (ops : List Op) : Inv (s.exec ops) := by
  induction ops generalizing s with
  | nil => exact h
  | cons op ops ih => exact ih (step_inv h op)

/-- Every state reachable from an empty world (live stamping version) satisfies the invariant. -/
theorem run_inv (cfg : Config) (hl : cfg.live = true) (ops : List Op) : Inv (run cfg ops) :=
  exec_inv (init_inv cfg hl) ops

end Mustache.Versions

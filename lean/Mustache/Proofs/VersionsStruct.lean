import Mustache.Proofs.VersionsJob
/-!
# Structural operations preserve the invariant; every reachable state satisfies it

`arrive` (pushBack / insert / externalMove target), `depart` (remove / internalMove), `getArch`
(archetype creation with the resolved chunk size), then `step`, `exec`, `run`.
-/
namespace Mustache.Versions

open Mustache.ChunkSize (resolve resolveFor)

def NotPresent (s : State) (e : Ent) : Prop :=
  ∀ (ai : Nat) (a : Arch) (i : Nat), s.archs[ai]? = some a → a.ents[i]? ≠ some e

theorem in_range_of_push {cs len k : Nat} (hcs : 0 < cs) (hk : k * cs < len + 1)
    (hne : k ≠ len / cs) : k * cs < len := by
  rcases Nat.lt_or_ge (k * cs) len with h | h
  · exact h
  · have : k * cs = len := by omega
    exfalso; apply hne; rw [← this, Nat.mul_div_cancel _ hcs]

/-! ## arrival -/

theorem arrive_inv {s : State} (h : Inv s) {ai : Nat} {a0 : Arch} {e : Ent}
    (ha0 : s.archs[ai]? = some a0) (hnp : NotPresent s e) (hfr : e < s.nextEnt) :
    Inv (s.arrive ai e) := by
  have hcs0 := h.csPos ai a0 ha0
  have harch : ∀ (x : Nat) (a' : Arch), (s.arrive ai e).archs[x]? = some a' →
      (x = ai ∧ a' = a0.push e s.w) ∨ (x ≠ ai ∧ s.archs[x]? = some a') := by
    intro x a' hx
    simp only [State.arrive, ha0] at hx
    by_cases hxa : x = ai
    · subst hxa
      rw [modify_get_self _ ha0] at hx
      exact Or.inl ⟨rfl, (Option.some.inj hx).symm⟩
    · rw [modify_get_ne _ hxa] at hx
      exact Or.inr ⟨hxa, hx⟩
  have hjobs : (s.arrive ai e).jobs = s.jobs := by simp only [State.arrive, ha0]
  have hw : (s.arrive ai e).w = s.w := by simp only [State.arrive, ha0]
  have hpend : ∀ (j e' c' : Nat), (s.arrive ai e).pending j e' c' =
      if e' = e then true else s.pending j e' c' := by
    intro j e' c'; simp only [State.arrive, ha0]
  have htouch : ∀ (j x k : Nat), (s.arrive ai e).touched j x k =
      if x = ai ∧ k = a0.ents.length / a0.cs then true else s.touched j x k := by
    intro j x k; simp only [State.arrive, ha0]
  -- a row of the new state is an old row or the new last row of `ai`
  have hrow : ∀ (x : Nat) (a' : Arch) (i1 : Nat) (e1 : Ent), (s.arrive ai e).archs[x]? = some a' →
      a'.ents[i1]? = some e1 →
      (∃ a, s.archs[x]? = some a ∧ a.ents[i1]? = some e1 ∧ a'.cs = a.cs ∧ a'.mask = a.mask) ∨
      (x = ai ∧ i1 = a0.ents.length ∧ e1 = e ∧ a' = a0.push e s.w) := by
    intro x a' i1 e1 hx h1
    rcases harch x a' hx with ⟨rfl, rfl⟩ | ⟨_, hx'⟩
    · rcases push_row.mp h1 with h1 | ⟨rfl, rfl⟩
      · exact Or.inl ⟨a0, ha0, h1, rfl, rfl⟩
      · exact Or.inr ⟨rfl, rfl, rfl, rfl⟩
    · exact Or.inl ⟨a', hx', h1, rfl, rfl⟩
  refine ⟨?_, ?_, ?_, ?_, ?_, ?_, ?_, ?_, ?_, ?_, ?_⟩
  · simp only [State.arrive, ha0]; exact h.live
  · simp only [State.arrive, ha0]; exact h.dfltPos
  · intro x a' hx
    rcases harch x a' hx with ⟨rfl, rfl⟩ | ⟨_, hx'⟩
    · exact hcs0
    · exact h.csPos x a' hx'
  · intro x a i1 x' a' i2 e1 hx h1 hx' h2
    rcases hrow x a i1 e1 hx h1 with ⟨b, hb, hb1, _⟩ | ⟨rfl, rfl, he1, _⟩
    · rcases hrow x' a' i2 e1 hx' h2 with ⟨b', hb', hb2, _⟩ | ⟨rfl, rfl, he1, _⟩
      · exact h.uniq x b i1 x' b' i2 e1 hb hb1 hb' hb2
      · rw [he1] at hb1; exact absurd hb1 (hnp x b i1 hb)
    · rw [he1] at h2
      rcases hrow x' a' i2 e hx' h2 with ⟨b', hb', hb2, _⟩ | ⟨rfl, rfl, _, _⟩
      · exact absurd hb2 (hnp x' b' i2 hb')
      · exact ⟨rfl, rfl⟩
  · intro x a i1 e1 hx h1
    have hn : (s.arrive ai e).nextEnt = s.nextEnt := by simp only [State.arrive, ha0]
    rw [hn]
    rcases hrow x a i1 e1 hx h1 with ⟨b, hb, hb1, _⟩ | ⟨_, _, rfl, _⟩
    · exact h.fresh x b i1 e1 hb hb1
    · exact hfr
  · intro j J L hj hl
    rw [hjobs] at hj; rw [hw]; exact h.lastLt j J L hj hl
  · intro x a' c hx hne
    rw [hw]
    rcases harch x a' hx with ⟨rfl, rfl⟩ | ⟨_, hx'⟩
    · simp only [push_gst]; exact Nat.le_refl _
    · exact h.gstLe x a' c hx' hne
  · intro x a' k c hx hk
    rcases harch x a' hx with ⟨rfl, rfl⟩ | ⟨_, hx'⟩
    · simp only [push_ents, push_cs, List.length_append, List.length_singleton] at hk
      simp only [push_cst, push_gst]
      split
      · exact Nat.le_refl _
      · next hne => exact h.cstLeW ha0 (in_range_of_push hcs0 hk hne)
    · exact h.cstLe x a' k c hx' hk
  · intro j J x a' i1 e1 c L hj hx h1 hreq hck hcc hcm hp hl
    rw [hjobs] at hj
    rw [hpend] at hp
    have hLw := h.lastLt j J L hj hl
    rcases hrow x a' i1 e1 hx h1 with ⟨b, hb, hb1, hbcs, hbm⟩ | ⟨rfl, rfl, rfl, rfl⟩
    · have hne : e1 ≠ e := fun heq => hnp x b i1 hb (heq ▸ hb1)
      rw [if_neg hne] at hp
      have hreq' : J.reqOk b = true := by simpa only [Job.reqOk, hbm] using hreq
      rw [hbm] at hcm
      rw [hbcs] at hck
      have hold := h.pend j J x b i1 e1 c L hj hb hb1 hreq' hck hcc hcm hp hl
      rcases harch x a' hx with ⟨rfl, rfl⟩ | ⟨_, hx'⟩
      · have : b = a0 := by rw [ha0] at hb; exact (Option.some.inj hb).symm
        subst this
        simp only [push_cst, push_cs]
        split
        · exact hLw
        · exact hold
      · have : b = a' := by rw [hx'] at hb; exact (Option.some.inj hb).symm
        subst this; exact hold
    · simp only [push_cst, push_cs, if_true]; exact hLw
  · intro j J x a' k c L hj hx hreq hk hcc hcm hl hlt
    rw [hjobs] at hj
    rw [htouch]
    rcases harch x a' hx with ⟨rfl, rfl⟩ | ⟨hne, hx'⟩
    · by_cases hkk : k = a0.ents.length / a0.cs
      · simp only [hkk, and_self, if_true]
      · simp only [hkk, and_false, if_false]
        simp only [push_ents, push_cs, List.length_append, List.length_singleton] at hk
        simp only [push_cst, hkk, if_false] at hlt
        exact h.touch j J x a0 k c L hj ha0 hreq (in_range_of_push hcs0 hk hkk) hcc hcm hl hlt
    · simp only [hne, false_and, if_false]
      exact h.touch j J x a' k c L hj hx' hreq hk hcc hcm hl hlt
  · intro j J x a' k hj hx hreq hk hl
    rw [hjobs] at hj
    rw [htouch]
    rcases harch x a' hx with ⟨rfl, rfl⟩ | ⟨hne, hx'⟩
    · by_cases hkk : k = a0.ents.length / a0.cs
      · simp only [hkk, and_self, if_true]
      · simp only [hkk, and_false, if_false]
        simp only [push_ents, push_cs, List.length_append, List.length_singleton] at hk
        exact h.touchNone j J x a0 k hj ha0 hreq (in_range_of_push hcs0 hk hkk) hl
    · simp only [hne, false_and, if_false]
      exact h.touchNone j J x a' k hj hx' hreq hk hl

/-! ## departure -/

theorem depart_inv {s : State} (h : Inv s) {ai i : Nat} {a0 : Arch} {e : Ent}
    (ha0 : s.archs[ai]? = some a0) (he : a0.ents[i]? = some e) :
    Inv (s.depart ai i) ∧ NotPresent (s.depart ai i) e ∧ (s.depart ai i).nextEnt = s.nextEnt ∧
    (∀ (x : Nat) (a : Arch), (s.depart ai i).archs[x]? = some a → ∃ b, s.archs[x]? = some b) ∧
    (∀ (x : Nat) (a : Arch), s.archs[x]? = some a → ∃ b, (s.depart ai i).archs[x]? = some b) := by
  have hcs0 := h.csPos ai a0 ha0
  have hilt := getElem?_lt he
  obtain ⟨spCs, spMask, spLen, spG, spC, spRow⟩ := swapRemove_spec s.w he
  have harch : ∀ (x : Nat) (a' : Arch), (s.depart ai i).archs[x]? = some a' →
      (x = ai ∧ a' = a0.swapRemove i s.w) ∨ (x ≠ ai ∧ s.archs[x]? = some a') := by
    intro x a' hx
    simp only [State.depart, ha0] at hx
    by_cases hxa : x = ai
    · subst hxa
      rw [modify_get_self _ ha0] at hx
      exact Or.inl ⟨rfl, (Option.some.inj hx).symm⟩
    · rw [modify_get_ne _ hxa] at hx
      exact Or.inr ⟨hxa, hx⟩
  have hjobs : (s.depart ai i).jobs = s.jobs := by simp only [State.depart, ha0]
  have hw : (s.depart ai i).w = s.w := by simp only [State.depart, ha0]
  have hpend : ∀ (j e' c' : Nat), (s.depart ai i).pending j e' c' =
      if i ≠ a0.ents.length - 1 ∧ a0.ents[a0.ents.length - 1]? = some e' then true
      else s.pending j e' c' := by
    intro j e' c'; simp only [State.depart, ha0]
  have htouch : ∀ (j x k : Nat), (s.depart ai i).touched j x k =
      if x = ai ∧ (k = i / a0.cs ∨ k = (a0.ents.length - 1) / a0.cs) then true
      else s.touched j x k := by
    intro j x k; simp only [State.depart, ha0]
  -- every new row is an old row (possibly of the relocated last entity)
  have hrow : ∀ (x : Nat) (a' : Arch) (k : Nat) (y : Ent), (s.depart ai i).archs[x]? = some a' →
      a'.ents[k]? = some y →
      (x ≠ ai ∧ s.archs[x]? = some a') ∨
      (x = ai ∧ a' = a0.swapRemove i s.w ∧ k < a0.ents.length - 1 ∧
        ((k = i ∧ a0.ents[a0.ents.length - 1]? = some y) ∨ (k ≠ i ∧ a0.ents[k]? = some y))) := by
    intro x a' k y hx h1
    rcases harch x a' hx with ⟨rfl, rfl⟩ | ⟨hne, hx'⟩
    · have := (spRow k y).mp h1
      exact Or.inr ⟨rfl, rfl, this.1, this.2⟩
    · exact Or.inl ⟨hne, hx'⟩
  -- the old position of a new row
  have hold : ∀ (x : Nat) (a' : Arch) (k : Nat) (y : Ent), (s.depart ai i).archs[x]? = some a' →
      a'.ents[k]? = some y →
      ∃ (b : Arch) (k' : Nat), s.archs[x]? = some b ∧ b.ents[k']? = some y ∧
        (k' = k ∨ (x = ai ∧ k = i ∧ k' = a0.ents.length - 1)) ∧ (x = ai → k < a0.ents.length - 1) := by
    intro x a' k y hx h1
    rcases hrow x a' k y hx h1 with ⟨hne, hx'⟩ | ⟨rfl, _, hk, ⟨rfl, hl⟩ | ⟨_, hk'⟩⟩
    · exact ⟨a', k, hx', h1, Or.inl rfl, fun hh => absurd hh hne⟩
    · exact ⟨a0, a0.ents.length - 1, ha0, hl, Or.inr ⟨rfl, rfl, rfl⟩, fun _ => hk⟩
    · exact ⟨a0, k, ha0, hk', Or.inl rfl, fun _ => hk⟩
  have huniq : ∀ (x : Nat) (a : Arch) (i1 x' : Nat) (a' : Arch) (i2 : Nat) (e1 : Ent),
      (s.depart ai i).archs[x]? = some a → a.ents[i1]? = some e1 →
      (s.depart ai i).archs[x']? = some a' → a'.ents[i2]? = some e1 → x = x' ∧ i1 = i2 := by
    intro x a i1 x' a' i2 e1 hx h1 hx' h2
    obtain ⟨b, k1, hb, hb1, hk1, hr1⟩ := hold x a i1 e1 hx h1
    obtain ⟨b', k2, hb', hb2, hk2, hr2⟩ := hold x' a' i2 e1 hx' h2
    obtain ⟨rfl, hkk⟩ := h.uniq x b k1 x' b' k2 e1 hb hb1 hb' hb2
    refine ⟨rfl, ?_⟩
    rcases hk1 with rfl | ⟨rfl, rfl, rfl⟩
    · rcases hk2 with rfl | ⟨rfl, rfl, rfl⟩
      · exact hkk
      · have := hr1 rfl; omega
    · rcases hk2 with rfl | ⟨_, rfl, _⟩
      · have := hr2 rfl; omega
      · rfl
  refine ⟨⟨?_, ?_, ?_, huniq, ?_, ?_, ?_, ?_, ?_, ?_, ?_⟩, ?_, ?_, ?_, ?_⟩
  · simp only [State.depart, ha0]; exact h.live
  · simp only [State.depart, ha0]; exact h.dfltPos
  · intro x a' hx
    rcases harch x a' hx with ⟨rfl, rfl⟩ | ⟨_, hx'⟩
    · rw [spCs]; exact hcs0
    · exact h.csPos x a' hx'
  · intro x a k y hx h1
    have hn : (s.depart ai i).nextEnt = s.nextEnt := by simp only [State.depart, ha0]
    rw [hn]
    obtain ⟨b, k', hb, hb1, _, _⟩ := hold x a k y hx h1
    exact h.fresh x b k' y hb hb1
  · intro j J L hj hl
    rw [hjobs] at hj; rw [hw]; exact h.lastLt j J L hj hl
  · intro x a' c hx hne
    rw [hw]
    rcases harch x a' hx with ⟨rfl, rfl⟩ | ⟨_, hx'⟩
    · rw [spG]; exact Nat.le_refl _
    · exact h.gstLe x a' c hx' hne
  · intro x a' k c hx hk
    rcases harch x a' hx with ⟨rfl, rfl⟩ | ⟨_, hx'⟩
    · rw [spLen, spCs] at hk
      rw [spG, spC]
      split
      · exact Nat.le_refl _
      · exact h.cstLeW ha0 (by omega)
    · exact h.cstLe x a' k c hx' hk
  · intro j J x a' k y c L hj hx h1 hreq hck hcc hcm hp hl
    rw [hjobs] at hj
    rw [hpend] at hp
    have hLw := h.lastLt j J L hj hl
    rcases hrow x a' k y hx h1 with ⟨hne, hx'⟩ | ⟨rfl, rfl, hk, ⟨rfl, hl'⟩ | ⟨hki, hk'⟩⟩
    · -- other archetype: the relocated entity is not here
      by_cases hforced : i ≠ a0.ents.length - 1 ∧ a0.ents[a0.ents.length - 1]? = some y
      · exact absurd (h.uniq x a' k ai a0 _ y hx' h1 ha0 hforced.2).1 hne
      · rw [if_neg hforced] at hp
        exact h.pend j J x a' k y c L hj hx' h1 hreq hck hcc hcm hp hl
    · -- the relocated row
      rw [spCs, spC]; simp only [true_or, if_true]; exact hLw
    · -- a row that stayed
      have hforced : ¬(i ≠ a0.ents.length - 1 ∧ a0.ents[a0.ents.length - 1]? = some y) := by
        rintro ⟨_, hl'⟩
        have := (h.uniq x a0 k x a0 _ y ha0 hk' ha0 hl').2
        omega
      rw [if_neg hforced] at hp
      rw [spMask] at hcm
      have hreq' : J.reqOk a0 = true := by simpa only [Job.reqOk, spMask] using hreq
      rw [spCs] at hck
      have hold' := h.pend j J x a0 k y c L hj ha0 hk' hreq' hck hcc hcm hp hl
      rw [spCs, spC]
      split
      · exact hLw
      · exact hold'
  · intro j J x a' k c L hj hx hreq hk hcc hcm hl hlt
    rw [hjobs] at hj
    rw [htouch]
    rcases harch x a' hx with ⟨rfl, rfl⟩ | ⟨hne, hx'⟩
    · rw [spLen, spCs] at hk
      rw [spC] at hlt
      rw [spMask] at hcm
      have hreq' : J.reqOk a0 = true := by simpa only [Job.reqOk, spMask] using hreq
      by_cases hkk : k = i / a0.cs ∨ k = (a0.ents.length - 1) / a0.cs
      · simp only [hkk, and_self, if_true]
      · simp only [hkk, and_false, if_false]
        rw [if_neg hkk] at hlt
        exact h.touch j J x a0 k c L hj ha0 hreq' (by omega) hcc hcm hl hlt
    · simp only [hne, false_and, if_false]
      exact h.touch j J x a' k c L hj hx' hreq hk hcc hcm hl hlt
  · intro j J x a' k hj hx hreq hk hl
    rw [hjobs] at hj
    rw [htouch]
    rcases harch x a' hx with ⟨rfl, rfl⟩ | ⟨hne, hx'⟩
    · rw [spLen, spCs] at hk
      have hreq' : J.reqOk a0 = true := by simpa only [Job.reqOk, spMask] using hreq
      by_cases hkk : k = i / a0.cs ∨ k = (a0.ents.length - 1) / a0.cs
      · simp only [hkk, and_self, if_true]
      · simp only [hkk, and_false, if_false]
        exact h.touchNone j J x a0 k hj ha0 hreq' (by omega) hl
    · simp only [hne, false_and, if_false]
      exact h.touchNone j J x a' k hj hx' hreq hk hl
  · -- the departed entity is nowhere
    intro x a' k hx h1
    obtain ⟨b, k', hb, hb1, hk1, hr1⟩ := hold x a' k e hx h1
    obtain ⟨rfl, rfl⟩ := h.uniq x b k' ai a0 i e hb hb1 ha0 he
    rcases hk1 with rfl | ⟨_, rfl, hk'⟩
    · rcases hrow x a' k' e hx h1 with ⟨hne, _⟩ | ⟨_, _, hk, ⟨_, hl'⟩ | ⟨hki, _⟩⟩
      · exact hne rfl
      · have := (h.uniq x a0 k' x a0 _ e ha0 he ha0 hl').2
        omega
      · exact hki rfl
    · have := hr1 rfl; omega
  · simp only [State.depart, ha0]
  · intro x a hx
    rcases harch x a hx with ⟨rfl, _⟩ | ⟨_, hx'⟩
    · exact ⟨a0, ha0⟩
    · exact ⟨a, hx'⟩
  · intro x a hx
    simp only [State.depart, ha0]
    by_cases hxa : x = ai
    · subst hxa
      exact ⟨_, modify_get_self _ ha0⟩
    · rw [modify_get_ne _ hxa]; exact ⟨a, hx⟩

end Mustache.Versions

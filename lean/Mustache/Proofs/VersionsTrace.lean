import Mustache.Proofs.VersionsQuiet
/-!
# History-level lemmas: `pending` persists until the job runs; quietness persists until somebody writes
-/
namespace Mustache.Versions

theorem exec_append (s : State) (ops1 ops2 : List Op) :
    s.exec (ops1 ++ ops2) = (s.exec ops1).exec ops2 := by
  unfold State.exec; rw [List.foldl_append]

theorem run_append (cfg : Config) (ops1 ops2 : List Op) :
    run cfg (ops1 ++ ops2) = (run cfg ops1).exec ops2 := exec_append _ _ _

/-! ## runs with a body are ordinary histories -/

theorem exec_cons (s : State) (op : Op) (ops : List Op) :
    s.exec (op :: ops) = (s.step op).1.exec ops := rfl

/-- A history with job bodies reaches a state that a plain history reaches too (the run, then — if it
selected anything — the body's immediate accesses, then its deferred commands). -/
theorem hexec_reachable (s : State) (hops : List HOp) : ∃ ops : List Op, s.hexec hops = s.exec ops := by
  induction hops generalizing s with
  | nil => exact ⟨[], rfl⟩
  | cons h t ih =>
    obtain ⟨ops', hops'⟩ := ih (s.hstep h).1
    show ∃ ops, (s.hstep h).1.hexec t = s.exec ops
    rw [hops']
    cases h with
    | plain o => exact ⟨o :: ops', rfl⟩
    | runDo j body =>
      simp only [State.hstep]
      split
      · exact ⟨.run j :: ops', rfl⟩
      · refine ⟨.run j :: (bodyOrder (s.jobRun j).1.nextEnt body ++ ops'), ?_⟩
        rw [exec_cons, exec_append]
        rfl

theorem hrun_reachable (cfg : Config) (hops : List HOp) : ∃ ops : List Op, hrun cfg hops = run cfg ops :=
  hexec_reachable (init cfg) hops

/-! ## `pending` -/

theorem writeAt_pending_mono (s : State) (ai i e0 c0 j e c : Nat) (h : s.pending j e c = true) :
    (s.writeAt ai i e0 c0).pending j e c = true := by
  unfold State.writeAt; split
  · exact h
  · simp only; split
    · rfl
    · exact h

theorem arrive_pending_mono (s : State) (ai e0 j e c : Nat) (h : s.pending j e c = true) :
    (s.arrive ai e0).pending j e c = true := by
  unfold State.arrive; split
  · exact h
  · simp only; split
    · rfl
    · exact h

theorem depart_pending_mono (s : State) (ai i j e c : Nat) (h : s.pending j e c = true) :
    (s.depart ai i).pending j e c = true := by
  unfold State.depart; split
  · exact h
  · simp only; split
    · rfl
    · exact h

theorem moveTo_pending_mono (s : State) (ai i e0 : Nat) (m : List Comp) (same : Out) (j e c : Nat)
    (h : s.pending j e c = true) : (s.moveTo ai i e0 m same).1.pending j e c = true := by
  unfold State.moveTo
  cases hg : s.getArch m with
  | error p => exact h
  | ok p =>
    obtain ⟨s1, aj⟩ := p
    simp only
    split
    · show s1.pending j e c = true
      rw [(getArch_jobs hg).2]; exact h
    · apply arrive_pending_mono; apply depart_pending_mono
      rw [(getArch_jobs hg).2]; exact h

/-- `pending j e c` is cleared by nothing but a run of `j`. -/
theorem pending_mono (s : State) (op : Op) (j e c : Nat) (hop : op ≠ .run j)
    (h : s.pending j e c = true) : (s.step op).1.pending j e c = true := by
  cases op with
  | run k =>
    have hkj : j ≠ k := fun hh => hop (by rw [hh])
    simp only [State.step]
    cases hk : s.jobs[k]? with
    | none => rw [jobRun_none hk]; exact h
    | some K =>
      simp only [State.jobRun, hk]
      split
      · simp [h]
      · exact h
  | update => exact h
  | getMut e0 c0 =>
    simp only [State.step]
    repeat' split
    all_goals first | exact h | exact writeAt_pending_mono _ _ _ _ _ _ _ _ h
  | markDirty e0 c0 =>
    simp only [State.step]
    repeat' split
    all_goals first | exact h | exact writeAt_pending_mono _ _ _ _ _ _ _ _ h
  | getConst e0 c0 =>
    simp only [State.step]
    repeat' split
    all_goals exact h
  | create m =>
    simp only [State.step]
    cases hg : s.getArch (normMask m) with
    | error p => exact h
    | ok p =>
      obtain ⟨s1, ai⟩ := p
      apply arrive_pending_mono
      show s1.pending j e c = true
      rw [(getArch_jobs hg).2]; exact h
  | assign e0 c0 =>
    simp only [State.step]
    repeat' split
    all_goals first | exact h | exact moveTo_pending_mono _ _ _ _ _ _ _ _ _ h
  | remove e0 c0 =>
    simp only [State.step]
    repeat' split
    all_goals first | exact h | exact moveTo_pending_mono _ _ _ _ _ _ _ _ _ h
  | destroyNow e0 =>
    simp only [State.step]
    repeat' split
    all_goals first | exact h | exact depart_pending_mono _ _ _ _ _ _ h
  | setDefault n => simp only [State.step]; split <;> exact h
  | addFn m mn mx => exact h
  | addDep c0 ds => exact h

theorem exec_pending_mono (s : State) (ops : List Op) (j e c : Nat) (hops : ∀ op ∈ ops, op ≠ .run j)
    (h : s.pending j e c = true) : (s.exec ops).pending j e c = true := by
  induction ops generalizing s with
  | nil => exact h
  | cons op ops ih =>
    exact ih (s.step op).1 (fun o ho => hops o (List.mem_cons_of_mem _ ho))
      (pending_mono s op j e c (hops op (List.mem_cons_self ..)) h)

/-! ## quietness along a history -/

theorem vf_fmask {J : Job} (hvf : VersionFiltered (specOf J)) {a : Arch} (hreq : J.reqOk a = true) :
    a.fmask J.check ≠ [] := by
  obtain ⟨hne, hsub⟩ := hvf
  simp only [specOf] at hne hsub
  cases hc : J.check with
  | nil => exact absurd hc hne
  | cons c0 r =>
    have hc0 : c0 ∈ J.check := by rw [hc]; exact List.mem_cons_self ..
    have hr : c0 ∈ J.req := hsub c0 hc0
    unfold Job.reqOk at hreq
    rw [Bool.and_eq_true] at hreq
    replace hreq := hreq.1
    rw [List.all_eq_true] at hreq
    have hm : c0 ∈ a.mask := List.contains_iff_mem.mp (hreq c0 hr)
    have : c0 ∈ a.fmask (c0 :: r) := by rw [← hc]; exact mem_fmask.mpr ⟨hc0, hm⟩
    intro hnil; rw [hnil] at this; cases this

theorem getConst_state (s : State) (e c : Nat) : (s.step (.getConst e c)).1 = s := by
  simp only [State.step]
  repeat' split
  all_goals rfl

theorem step_quiet {s : State} (h : Inv s) {specs : List JobSpec} (hs : s.jobs.map specOf = specs)
    {j : Nat} (hvf : ∀ sp, specs[j]? = some sp → VersionFiltered sp) (hq : QuietS s j) (op : Op)
    (hni : nonInterfering specs j op = true) : QuietS (s.step op).1 j := by
  cases op with
  | update => exact hq
  | getConst e c => rw [getConst_state]; exact hq
  | setDefault n => simp only [State.step]; split <;> exact hq
  | addFn m mn mx => exact hq
  | addDep c0 ds => exact hq
  | getMut e c =>
    have hc : ∀ J, s.jobs[j]? = some J → c ∉ J.check := by
      intro J hj hcc
      simp only [nonInterfering, spec_of_job hs hj, specOf, Bool.not_eq_true'] at hni
      rw [List.contains_eq_mem, decide_eq_false_iff_not] at hni
      exact hni hcc
    simp only [State.step]
    repeat' split
    all_goals first | exact hq | exact writeAt_quiet hq _ _ _ _ hc
  | markDirty e c =>
    have hc : ∀ J, s.jobs[j]? = some J → c ∉ J.check := by
      intro J hj hcc
      simp only [nonInterfering, spec_of_job hs hj, specOf, Bool.not_eq_true'] at hni
      rw [List.contains_eq_mem, decide_eq_false_iff_not] at hni
      exact hni hcc
    simp only [State.step]
    repeat' split
    all_goals first | exact hq | exact writeAt_quiet hq _ _ _ _ hc
  | run k =>
    simp only [State.step]
    by_cases hkj : k = j
    · subst hkj
      cases hj : s.jobs[k]? with
      | none => rw [jobRun_none hj]; exact hq
      | some J =>
        exact quiet_after_run h hj
          (fun ai a _ hreq => vf_fmask (hvf _ (spec_of_job hs hj)) hreq)
    · apply jobRun_other_quiet hq hkj
      intro K J hK hJ
      have hne : (k == j) = false := by simpa using hkj
      simp only [nonInterfering, hne, Bool.false_or, spec_of_job hs hK, spec_of_job hs hJ, specOf,
        Bool.not_eq_true'] at hni
      exact hni
  | create m => simp [nonInterfering] at hni
  | assign e c => simp [nonInterfering] at hni
  | remove e c => simp [nonInterfering] at hni
  | destroyNow e => simp [nonInterfering] at hni

theorem exec_quiet {s : State} (h : Inv s) {specs : List JobSpec} (hs : s.jobs.map specOf = specs)
    {j : Nat} (hvf : ∀ sp, specs[j]? = some sp → VersionFiltered sp) (hq : QuietS s j) (ops : List Op)
    (hni : ∀ op ∈ ops, nonInterfering specs j op = true) : QuietS (s.exec ops) j := by
  induction ops generalizing s with
  | nil => exact hq
  | cons op ops ih =>
    have hop := hni op (List.mem_cons_self ..)
    exact ih (step_inv h op) (by rw [step_specs]; exact hs) (step_quiet h hs hvf hq op hop)
      (fun o ho => hni o (List.mem_cons_of_mem _ ho))

end Mustache.Versions

import Mustache.Model.Worlds
/-! # Process model (C17): the allocator and the product of worlds — invariants for all histories -/
namespace Mustache.Proofs.Worlds
open Mustache.Model

/-! ## `leastFree` -/

/-- pigeonhole: a list containing 0 … k-1 has at least k elements -/
theorem pigeon : ∀ (k : Nat) (used : List Nat), (∀ n, n < k → n ∈ used) → k ≤ used.length
  | 0, _, _ => Nat.zero_le _
  | k + 1, used, h => by
    have hk : k ∈ used := h k (Nat.lt_succ_self k)
    have ih := pigeon k (used.erase k) (fun n hn => (List.mem_erase_of_ne (by omega)).mpr (h n (by omega)))
    rw [List.length_erase_of_mem hk] at ih
    have : 0 < used.length := List.length_pos_of_mem hk
    omega

theorem leastFreeFrom_spec (used : List Nat) : ∀ (fuel n : Nat), (∀ m, m < n → m ∈ used) →
    used.length + 1 ≤ fuel + n →
    leastFreeFrom used fuel n ∉ used ∧ (∀ m, m < leastFreeFrom used fuel n → m ∈ used)
  | 0, n, hlt, hf => by
    have := pigeon n used hlt
    omega
  | fuel + 1, n, hlt, hf => by
    unfold leastFreeFrom
    by_cases hc : used.contains n = true
    · rw [if_pos hc]
      have hn : n ∈ used := by simpa using hc
      refine leastFreeFrom_spec used fuel (n + 1) (fun m hm => ?_) (by omega)
      by_cases h : m = n
      · subst h; exact hn
      · exact hlt m (by omega)
    · rw [if_neg hc]
      exact ⟨by simpa using hc, hlt⟩

theorem leastFree_not_mem (used : List Nat) : leastFree used ∉ used :=
  (leastFreeFrom_spec used (used.length + 1) 0 (fun _ h => absurd h (Nat.not_lt_zero _)) (by omega)).1

theorem leastFree_below (used : List Nat) : ∀ m, m < leastFree used → m ∈ used :=
  (leastFreeFrom_spec used (used.length + 1) 0 (fun _ h => absurd h (Nat.not_lt_zero _)) (by omega)).2

/-- the result is bounded by the size of ANY list that covers `used` (so duplicates do not count) -/
theorem leastFree_le_cover (used cover : List Nat) (h : ∀ m, m ∈ used → m ∈ cover) : leastFree used ≤ cover.length :=
  pigeon _ cover (fun m hm => h m (leastFree_below used m hm))

/-! ## shape of the live-world list after one step -/

theorem worlds_nextWorldId (p : Proc) : p.nextWorldId.1.worlds = p.worlds := rfl
theorem nextSlot_nextWorldId (p : Proc) : p.nextWorldId.1.nextSlot = p.nextSlot := rfl

theorem nextWorldId_fresh (p : Proc) : p.nextWorldId.2 ∉ p.reserved ∧ p.nextWorldId.2 ∉ p.liveIds := by
  have h := leastFree_not_mem (p.reserved ++ p.liveIds)
  simp only [List.mem_append, not_or] at h
  exact h

/-- the id handed out is at most the number of live worlds plus outstanding reservations -/
theorem nextWorldId_le_load (p : Proc) : p.nextWorldId.2 ≤ p.load := by
  have h := leastFree_le_cover (p.reserved ++ p.liveIds) (p.liveIds ++ p.pending) (by
    intro m hm
    simp only [List.mem_append] at hm ⊢
    rcases hm with hm | hm
    · by_cases hl : m ∈ p.liveIds
      · exact Or.inl hl
      · right
        simp only [Proc.pending, List.mem_filter]
        exact ⟨hm, by simpa using hl⟩
    · exact Or.inl hm)
  simpa [Proc.load, Proc.liveIds, Proc.nextWorldId] using h

theorem worlds_destroy (p : Proc) (slot : Nat) :
    (p.destroy slot).worlds = p.worlds ∨ (p.destroy slot).worlds = p.worlds.filter (·.slot != slot) := by
  unfold Proc.destroy
  split
  · exact Or.inl rfl
  · exact Or.inr rfl

/-- every live world after a step is a live world from before (same name, id, numbering kind), or the one just built -/
theorem step_origin (p : Proc) (op : POp) (e' : WEntry) (he : e' ∈ (p.step op).worlds) :
    (∃ e ∈ p.worlds, e'.slot = e.slot ∧ e'.id = e.id ∧ e'.auto = e.auto ∧ e'.sharedCtx = e.sharedCtx ∧
        (e'.wm = e.wm ∨ ∃ s f, op = .onWorld s f ∧ e.slot = s ∧ e'.wm = f e.wm)) ∨
    ((∃ s, op = .newAuto s ∧ e'.id = p.nextWorldId.2 ∧ e'.auto = true ∧ e'.wm = freshWM e'.id s) ∨
     (∃ i s, op = .newExplicit i s ∧ e'.id = i ∧ e'.auto = false ∧ e'.wm = freshWM i s)) := by
  cases op with
  | newAuto s =>
    simp only [Proc.step, Proc.construct, worlds_nextWorldId, List.mem_append, List.mem_singleton] at he
    rcases he with he | he
    · exact Or.inl ⟨e', he, rfl, rfl, rfl, rfl, Or.inl rfl⟩
    · subst he; exact Or.inr (Or.inl ⟨s, rfl, rfl, rfl, rfl⟩)
  | newExplicit i s =>
    simp only [Proc.step, Proc.construct, List.mem_append, List.mem_singleton] at he
    rcases he with he | he
    · exact Or.inl ⟨e', he, rfl, rfl, rfl, rfl, Or.inl rfl⟩
    · subst he; exact Or.inr (Or.inr ⟨i, s, rfl, rfl, rfl, rfl⟩)
  | reserve =>
    exact Or.inl ⟨e', he, rfl, rfl, rfl, rfl, Or.inl rfl⟩
  | drop slot =>
    simp only [Proc.step] at he
    rcases worlds_destroy p slot with h | h <;> rw [h] at he
    · exact Or.inl ⟨e', he, rfl, rfl, rfl, rfl, Or.inl rfl⟩
    · exact Or.inl ⟨e', (List.mem_filter.mp he).1, rfl, rfl, rfl, rfl, Or.inl rfl⟩
  | onWorld slot f =>
    simp only [Proc.step, List.mem_map] at he
    rcases he with ⟨e, hm, rfl⟩
    refine Or.inl ⟨e, hm, ?_⟩
    by_cases hs : (e.slot == slot) = true
    · rw [if_pos hs]
      exact ⟨rfl, rfl, rfl, rfl, Or.inr ⟨slot, f, rfl, by simpa using hs, rfl⟩⟩
    · rw [if_neg hs]
      exact ⟨rfl, rfl, rfl, rfl, Or.inl rfl⟩

/-! ## distinct ids -/

/-- a later-built automatically numbered world never shares its id with an earlier live world -/
def LaterAutoFresh (a b : WEntry) : Prop := b.auto = true → a.id ≠ b.id

theorem step_pairwise (p : Proc) (op : POp) (h : p.worlds.Pairwise LaterAutoFresh) :
    (p.step op).worlds.Pairwise LaterAutoFresh := by
  cases op with
  | newAuto s =>
    simp only [Proc.step, Proc.construct, worlds_nextWorldId]
    rw [List.pairwise_append]
    refine ⟨h, List.pairwise_singleton _ _, ?_⟩
    intro a ha b hb
    simp only [List.mem_singleton] at hb
    subst hb
    intro _ heq
    apply (nextWorldId_fresh p).2
    simp only [Proc.liveIds, List.mem_map]
    exact ⟨a, ha, heq⟩
  | newExplicit i s =>
    simp only [Proc.step, Proc.construct]
    rw [List.pairwise_append]
    refine ⟨h, List.pairwise_singleton _ _, ?_⟩
    intro a _ b hb
    simp only [List.mem_singleton] at hb
    subst hb
    intro hc
    exact absurd hc (by simp)
  | reserve => exact h
  | drop slot =>
    simp only [Proc.step]
    rcases worlds_destroy p slot with h' | h' <;> rw [h']
    · exact h
    · exact h.filter _
  | onWorld slot f =>
    simp only [Proc.step]
    refine h.map _ ?_
    intro a b hab
    unfold LaterAutoFresh at hab ⊢
    by_cases ha : (a.slot == slot) = true <;> by_cases hb : (b.slot == slot) = true <;> simpa [ha, hb] using hab

theorem run_pairwise (ops : List POp) : ∀ (p : Proc), p.worlds.Pairwise LaterAutoFresh →
    (p.run ops).worlds.Pairwise LaterAutoFresh := by
  induction ops with
  | nil => intro p h; exact h
  | cons op ops ih => intro p h; exact ih (p.step op) (step_pairwise p op h)

/-- explicit ids chosen by the caller do not name a live world or an outstanding reservation -/
def ExplicitFresh : Proc → List POp → Prop
  | _, [] => True
  | p, .newExplicit i s :: ops => i ∉ p.liveIds ∧ ExplicitFresh (p.step (.newExplicit i s)) ops
  | p, op :: ops => ExplicitFresh (p.step op) ops

theorem ExplicitFresh.cons {p : Proc} {op : POp} {ops : List POp} (h : ExplicitFresh p (op :: ops)) :
    (∀ i s, op = .newExplicit i s → i ∉ p.liveIds) ∧ ExplicitFresh (p.step op) ops := by
  cases op with
  | newAuto s => exact ⟨fun _ _ hc => (by cases hc), h⟩
  | newExplicit i s => exact ⟨fun _ _ hc => (by cases hc; exact h.1), h.2⟩
  | reserve => exact ⟨fun _ _ hc => (by cases hc), h⟩
  | drop k => exact ⟨fun _ _ hc => (by cases hc), h⟩
  | onWorld k f => exact ⟨fun _ _ hc => (by cases hc), h⟩

def DistinctIds (a b : WEntry) : Prop := a.id ≠ b.id

theorem step_pairwise_distinct (p : Proc) (op : POp) (h : p.worlds.Pairwise DistinctIds)
    (hx : ∀ i s, op = .newExplicit i s → i ∉ p.liveIds) : (p.step op).worlds.Pairwise DistinctIds := by
  cases op with
  | newAuto s =>
    simp only [Proc.step, Proc.construct, worlds_nextWorldId]
    rw [List.pairwise_append]
    refine ⟨h, List.pairwise_singleton _ _, ?_⟩
    intro a ha b hb
    simp only [List.mem_singleton] at hb
    subst hb
    intro heq
    apply (nextWorldId_fresh p).2
    simp only [Proc.liveIds, List.mem_map]
    exact ⟨a, ha, heq⟩
  | newExplicit i s =>
    simp only [Proc.step, Proc.construct]
    rw [List.pairwise_append]
    refine ⟨h, List.pairwise_singleton _ _, ?_⟩
    intro a ha b hb
    simp only [List.mem_singleton] at hb
    subst hb
    intro heq
    apply hx i s rfl
    simp only [Proc.liveIds, List.mem_map]
    exact ⟨a, ha, heq⟩
  | reserve => exact h
  | drop slot =>
    simp only [Proc.step]
    rcases worlds_destroy p slot with h' | h' <;> rw [h']
    · exact h
    · exact h.filter _
  | onWorld slot f =>
    simp only [Proc.step]
    refine h.map _ ?_
    intro a b hab
    unfold DistinctIds at hab ⊢
    by_cases ha : (a.slot == slot) = true <;> by_cases hb : (b.slot == slot) = true <;> simpa [ha, hb] using hab

theorem run_pairwise_distinct (ops : List POp) : ∀ (p : Proc), p.worlds.Pairwise DistinctIds → ExplicitFresh p ops →
    (p.run ops).worlds.Pairwise DistinctIds := by
  induction ops with
  | nil => intro p h _; exact h
  | cons op ops ih => intro p h hx; exact ih (p.step op) (step_pairwise_distinct p op h hx.cons.1) hx.cons.2

/-! ## ids stay inside the handle's world field -/

/-- a world is built automatically only while fewer than `cap` worlds / reservations exist -/
def Admissible (cap : Nat) : Proc → List POp → Prop
  | _, [] => True
  | p, .newAuto s :: ops => p.load < cap ∧ Admissible cap (p.step (.newAuto s)) ops
  | p, op :: ops => Admissible cap (p.step op) ops

theorem Admissible.cons {cap : Nat} {p : Proc} {op : POp} {ops : List POp} (h : Admissible cap p (op :: ops)) :
    (∀ s, op = .newAuto s → p.load < cap) ∧ Admissible cap (p.step op) ops := by
  cases op with
  | newAuto s => exact ⟨fun _ _ => h.1, h.2⟩
  | newExplicit i s => exact ⟨fun _ hc => (by cases hc), h⟩
  | reserve => exact ⟨fun _ hc => (by cases hc), h⟩
  | drop k => exact ⟨fun _ hc => (by cases hc), h⟩
  | onWorld k f => exact ⟨fun _ hc => (by cases hc), h⟩

def AutoInRange (cap : Nat) (p : Proc) : Prop := ∀ e ∈ p.worlds, e.auto = true → e.id < cap

theorem step_autoInRange (cap : Nat) (p : Proc) (op : POp) (h : AutoInRange cap p)
    (ha : ∀ s, op = .newAuto s → p.load < cap) : AutoInRange cap (p.step op) := by
  intro e' he' hauto
  rcases step_origin p op e' he' with ⟨e, hm, _, hid, hau, _⟩ | ⟨s, rfl, hid, _⟩ | ⟨i, s, _, _, hau, _⟩
  · rw [hid]; exact h e hm (hau ▸ hauto)
  · rw [hid]
    have := nextWorldId_le_load p
    have := ha s rfl
    omega
  · rw [hau] at hauto; exact absurd hauto (by simp)

theorem run_autoInRange (cap : Nat) (ops : List POp) : ∀ (p : Proc), AutoInRange cap p → Admissible cap p ops →
    AutoInRange cap (p.run ops) := by
  induction ops with
  | nil => intro p h _; exact h
  | cons op ops ih => intro p h ha; exact ih (p.step op) (step_autoInRange cap p op h ha.cons.1) ha.cons.2

/-! ## every world's entity manager is stamped with the world's id -/

/-- the per-world operations of the history leave `this_world_id_` alone -/
def IdPreserving (ops : List POp) : Prop := ∀ s f, POp.onWorld s f ∈ ops → ∀ w : WM, (f w).worldId = w.worldId

def Stamped (p : Proc) : Prop := ∀ e ∈ p.worlds, e.wm.worldId = e.id

theorem step_stamped (p : Proc) (op : POp) (h : Stamped p)
    (hf : ∀ s f, op = .onWorld s f → ∀ w : WM, (f w).worldId = w.worldId) : Stamped (p.step op) := by
  intro e' he'
  rcases step_origin p op e' he' with ⟨e, hm, _, hid, _, _, hw⟩ | ⟨s, _, _, _, hw⟩ | ⟨i, s, _, hid, _, hw⟩
  · rcases hw with hw | ⟨s, f, hop, _, hw⟩
    · rw [hw, hid]; exact h e hm
    · rw [hw, hid, hf s f hop]; exact h e hm
  · rw [hw]; rfl
  · rw [hw, hid]; rfl

theorem run_stamped (ops : List POp) : ∀ (p : Proc), Stamped p → IdPreserving ops → Stamped (p.run ops) := by
  induction ops with
  | nil => intro p h _; exact h
  | cons op ops ih =>
    intro p h hf
    refine ih (p.step op) (step_stamped p op h ?_) (fun s f hm => hf s f (List.mem_cons_of_mem _ hm))
    intro s f hop
    exact hf s f (hop ▸ List.mem_cons_self)

/-! ## frame -/

theorem world?_onWorld_ne (p : Proc) (slot : Nat) (f : WM → WM) (other : Nat) (hne : other ≠ slot) :
    (p.step (.onWorld slot f)).world? other = p.world? other := by
  simp only [Proc.step, Proc.world?]
  induction p.worlds with
  | nil => rfl
  | cons e es ih =>
    simp only [List.map_cons, List.find?_cons]
    by_cases hs : (e.slot == slot) = true
    · have hso : (e.slot == other) = false := by
        have : e.slot = slot := by simpa using hs
        simp [this, Ne.symm hne]
      rw [if_pos hs]
      simp only [hso]
      exact ih
    · rw [if_neg hs]
      cases (e.slot == other) with
      | true => rfl
      | false => exact ih

theorem world?_onWorld_eq (p : Proc) (slot : Nat) (f : WM → WM) :
    (p.step (.onWorld slot f)).world? slot = (p.world? slot).map (fun e => { e with wm := f e.wm }) := by
  simp only [Proc.step, Proc.world?]
  induction p.worlds with
  | nil => rfl
  | cons e es ih =>
    simp only [List.map_cons, List.find?_cons]
    by_cases hs : (e.slot == slot) = true
    · rw [if_pos hs]
      simp only [hs, Option.map_some]
    · rw [if_neg hs]
      simp only [hs]
      exact ih

theorem world?_destroy_ne (p : Proc) (slot other : Nat) (hne : other ≠ slot) :
    (p.destroy slot).world? other = p.world? other := by
  rcases worlds_destroy p slot with h | h
  · simp only [Proc.world?, h]
  · simp only [Proc.world?, h]
    induction p.worlds with
    | nil => rfl
    | cons e es ih =>
      by_cases hs : e.slot = slot
      · have hso : (e.slot == other) = false := by simp [hs, Ne.symm hne]
        have hf : (e.slot != slot) = false := by simp [hs]
        rw [List.filter_cons, if_neg (by simp [hf]), List.find?_cons, hso]
        exact ih
      · have hf : (e.slot != slot) = true := by simpa using hs
        rw [List.filter_cons, if_pos hf, List.find?_cons, List.find?_cons]
        cases (e.slot == other) with
        | true => rfl
        | false => exact ih

theorem world?_construct_old (p : Proc) (id : Nat) (a s : Bool) (other : Nat) (e : WEntry)
    (h : p.world? other = some e) : (p.construct id a s).world? other = some e := by
  simp only [Proc.world?, Proc.construct] at h ⊢
  rw [List.find?_append, h]
  rfl

end Mustache.Proofs.Worlds

import Mustache.Driver.Worlds
import Mustache.Proofs.WorldsId
namespace Mustache.Proofs.WorldsDriver
open Mustache Mustache.Model Mustache.Driver.World Mustache.Proofs.WorldsId

@[simp] theorem issue_w (s : St) (h : Handle) : (s.issue h).1.w = s.w := rfl

set_option maxHeartbeats 1000000 in
theorem exec_wid (s : St) (t : Nat) (ws : List String) : (exec s t ws).1.w.worldId = s.w.worldId := by
  unfold exec
  simp -zeta only []
  repeat' split
  all_goals (try rfl)
  all_goals (try simp)
  · split
    · rfl
    · simp only [issue_w, create_wid]
      rw [foldl3_wid]
      intro acc tok
      split <;> simp
  · split
    · simp only [issue_w]
      rw [foldl_wid]
      · simp
      · intro acc p; simp
    · simp
  · split
    · simp only []
      rw [foldl_wid', foldl_wid]
      · intro acc p; simp
      · intro acc c; simp
    · simp
  · split
    · rename_i w d heq
      have := congrArg (fun r => r.1.worldId) heq
      simp only [clone_wid] at this
      simpa using this.symm
    · rename_i w heq
      have := congrArg (fun r => r.1.worldId) heq
      simp only [clone_wid] at this
      simpa using this.symm
  · split <;> simp
  · split <;> rfl


theorem step_wid (s : St) (line : String) (hd : words line ≠ ["dump"]) (hw : ∀ n, words line ≠ ["worldid", n]) :
    (step s line).1.w.worldId = s.w.worldId := by
  unfold step
  split
  · split <;> rfl
  · rename_i n heq
    exact absurd heq (hw n)
  · rfl
  · rfl
  · rename_i heq
    exact absurd heq hd
  · rfl
  · rfl
  · extract_lets tid
    clear_value tid
    cases tid with
    | none => exact exec_wid _ _ _
    | some t =>
      simp -zeta only []
      split
      · rfl
      · split
        · rfl
        · exact exec_wid _ _ _

/-- every per-world operation the model driver (`driver worlds`) issues leaves the world's id alone -/
theorem lineEffect_wid (side : St) (line : String) (wm : WM) :
    (Mustache.Driver.Worlds.lineEffect side line wm).worldId = wm.worldId := by
  unfold Mustache.Driver.Worlds.lineEffect
  split
  · rfl
  · rfl
  · rename_i h1 h2
    exact step_wid { side with w := wm } line h1 (fun n hn => h2 n hn)

end Mustache.Proofs.WorldsDriver

import Mustache.Driver.Worlds
import Mustache.Proofs.WorldsId
namespace Mustache.Proofs.WorldsDriver
open Mustache Mustache.Model Mustache.Driver.World Mustache.Proofs.WorldsId

@[simp] theorem issue_w (s : St) (h : Handle) : (s.issue h).1.w = s.w := rfl

theorem exec_wid (s : St) (t : Nat) (ws : List String) : (exec s t ws).1.w.worldId = s.w.worldId := by
  unfold exec
  split
  · rfl
  · split <;> rfl
  · split
    · rfl
    · rename_i op _
      simp -zeta only []
      have h := Mustache.Proofs.WorldsId.step_wid catalogue s.w op
      split <;> first | exact h | (simp only [issue_w]; exact h)

theorem line_wid (s : St) (line : String) (hd : words line ≠ ["dump"]) (hw : ∀ n, words line ≠ ["worldid", n]) :
    (step s line).1.w.worldId = s.w.worldId := by
  unfold step
  split
  · split <;> rfl
  · rename_i n heq
    exact absurd heq (hw n)
  · rfl
  · rfl
  · rename_i heq
    exact absurd heq hd
  · rfl
  · rfl
  · extract_lets tid
    clear_value tid
    cases tid with
    | none => exact exec_wid _ _ _
    | some t =>
      simp -zeta only []
      split
      · rfl
      · split
        · rfl
        · exact exec_wid _ _ _

/-- every per-world operation the model driver (`driver worlds`) issues leaves the world's id alone -/
theorem lineEffect_wid (side : St) (line : String) (wm : WM) :
    (Mustache.Driver.Worlds.lineEffect side line wm).worldId = wm.worldId := by
  unfold Mustache.Driver.Worlds.lineEffect
  split
  · rfl
  · rfl
  · rename_i h1 h2
    exact line_wid { side with w := wm } line h1 (fun n hn => h2 n hn)

end Mustache.Proofs.WorldsDriver

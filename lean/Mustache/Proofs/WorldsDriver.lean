import Mustache.Driver.Worlds
/-! The per-world operations issued by the executable model driver (`driver worlds`) are id-preserving. -/
namespace Mustache.Proofs.WorldsDriver
open Mustache Mustache.Model

theorem lineEffect_wid (side : Mustache.Driver.World.St) (line : String) (wm : WM) :
    (Mustache.Driver.Worlds.lineEffect side line wm).worldId = wm.worldId := by
  unfold Mustache.Driver.Worlds.lineEffect
  simp only []
  split
  · assumption
  · rfl

end Mustache.Proofs.WorldsDriver

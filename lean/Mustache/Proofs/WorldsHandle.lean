import Mustache.Model.Worlds
import Mustache.Proofs.BitPack
import Mustache.Proofs.WorldsId
/-! # Handles and the world they come from (C17): what a world stamps into a handle, what survives the packing,
    and what `isEntityValid` makes of it -/
namespace Mustache.Proofs.WorldsHandle
open Mustache.Model Mustache.Proofs.WorldsId

def InRange (h : Handle) : Prop := h.id < 2^30 ∧ h.ver < 2^24 ∧ h.world < 2^10

theorem packed_eq_value (h : Handle) (hr : InRange h) : h.packed = h.value := by
  obtain ⟨hi, hv, hw⟩ := hr
  unfold Handle.packed Handle.value
  simp only [Nat.shiftLeft_eq]
  have := Mustache.Proofs.BitPack.or3 h.id h.ver h.world hi hw
  rw [Nat.or_comm (h.ver * 2^40) h.id] at this
  rw [Nat.or_assoc, Nat.or_comm (h.world * 2^30), ← Nat.or_assoc, this]
  exact Nat.mod_eq_of_lt (by omega)

theorem ofValue_value (h : Handle) (hr : InRange h) : Handle.ofValue h.value = h := by
  obtain ⟨hi, hv, hw⟩ := hr
  cases h with
  | mk i v w =>
    simp only [Handle.value, Handle.ofValue] at *
    refine congr (congr (congrArg Handle.mk ?_) ?_) ?_ <;> omega

/-- inside the field ranges the library reads back exactly the handle the world issued -/
theorem seen_eq (h : Handle) (hr : InRange h) : h.seen = h := by
  unfold Handle.seen
  rw [packed_eq_value h hr, ofValue_value h hr]

/-- the defect mechanism: a world id of 2^10 leaves the world field and lands in the version -/
theorem seen_overflow (i : Nat) (hi : i < 2^30) :
    (Handle.seen ⟨i, 0, 2^10⟩).world = 0 ∧ (Handle.seen ⟨i, 0, 2^10⟩).ver = 1 ∧ (Handle.seen ⟨i, 0, 2^10⟩).id = i := by
  have hp : Handle.packed ⟨i, 0, 2^10⟩ = i + 2^40 := by
    unfold Handle.packed
    simp only [Nat.shiftLeft_eq, Nat.zero_mul, Nat.or_zero]
    have := Nat.shiftLeft_add_eq_or_of_lt (i := 30) (b := i) hi (2^10)
    simp only [Nat.shiftLeft_eq] at this
    rw [Nat.or_comm, ← this]
    omega
  simp only [Handle.seen, hp, Handle.ofValue]
  omega

/-! ## validity -/

theorem isValid_world (w : WM) (h : Handle) (hv : w.isValid h = true) : h.world = w.worldId := by
  unfold WM.isValid at hv
  simp only [Bool.and_eq_true, beq_iff_eq] at hv
  exact hv.1.2

/-- `isEntityValid` rejects every handle stamped with another world's id -/
theorem isValid_foreign (w : WM) (h : Handle) (hne : h.world ≠ w.worldId) : w.isValid h = false := by
  cases hv : w.isValid h with
  | false => rfl
  | true => exact absurd (isValid_world w h hv) hne

theorem isValid_congr (w1 w2 : WM) (h : Handle) (hs : w1.slots = w2.slots) (hw : w1.worldId = w2.worldId) :
    w1.isValid h = w2.isValid h := by
  unfold WM.isValid
  rw [hs, hw]

/-- the handle `createWithOutInit` returns carries the world's id (or is the null pattern on a corrupt free list) -/
theorem allocId_world (w : WM) : w.allocId.2.world = w.worldId ∨ w.allocId.2 = Handle.null := by
  unfold WM.allocId
  split
  · exact Or.inl rfl
  · split
    · exact Or.inl rfl
    · exact Or.inr rfl

/-- … and is valid at once in the world that issued it -/
theorem allocId_valid (w : WM) (hnn : w.allocId.2.isNull = false) : w.allocId.1.isValid w.allocId.2 = true := by
  unfold WM.allocId at hnn ⊢
  split
  · rename_i he
    simp only [he, if_true] at hnn
    simp only [WM.isValid, hnn, Bool.not_false, Bool.true_and, beq_self_eq_true]
    rw [List.getElem?_append_right (Nat.le_refl _)]
    simp
  · rename_i he
    simp only [he, if_false] at hnn
    split
    · rename_i s hs
      simp only [hs] at hnn
      have hlt : w.next < w.slots.length := (List.getElem?_eq_some_iff.mp hs).1
      simp only [WM.isValid, hnn, Bool.not_false, Bool.true_and, beq_self_eq_true]
      rw [List.getElem?_set_self hlt]
      simp
    · rename_i hs
      simp only [hs] at hnn
      exact absurd hnn (by decide)

variable (info : CompId → CompInfo)

theorem getArch_slots (w : WM) (m s) : (w.getArch m s).1.slots = w.slots := by
  unfold WM.getArch
  simp only []
  split <;> rfl

theorem setLoc_slots (w : WM) (h a i) : (w.setLoc h a i).slots = w.slots := by
  unfold WM.setLoc; split <;> rfl

theorem archInsert_slots (w : WM) (ai e skip) : (w.archInsert info ai e skip).1.slots = w.slots := by
  unfold WM.archInsert
  simp only [setLoc_slots]
  rfl

/-- `create(mask, shared)` outside a locked section: the handle carries the world's id and is valid at once -/
theorem create_unlocked (w : WM) (t : Nat) (mask : Mask) (sh : Shared) (hl : w.isLocked = false)
    (hnn : (w.create info t mask sh).2.1.isNull = false) :
    (w.create info t mask sh).2.1.world = w.worldId ∧
    (w.create info t mask sh).1.isValid (w.create info t mask sh).2.1 = true := by
  unfold WM.create at hnn ⊢
  simp only [hl, Bool.false_eq_true, if_false] at hnn ⊢
  have hw := allocId_world (w.getArch mask sh).1
  have hv := allocId_valid (w.getArch mask sh).1 hnn
  constructor
  · rcases hw with hw | hw
    · rw [hw, getArch_wid]
    · rw [hw] at hnn; exact absurd hnn (by decide)
  · rw [isValid_congr _ (w.getArch mask sh).1.allocId.1 _ (archInsert_slots info _ _ _ _) (archInsert_wid info _ _ _ _)]
    exact hv

/-- a handle handed out inside a locked section carries the world's id as well -/
theorem createLocked_world (w : WM) (t : Nat) (mask : Mask) (sh : Shared) :
    (w.createLocked t mask sh).2.world = w.worldId := rfl

end Mustache.Proofs.WorldsHandle

import Mustache.Model.Worlds
import Mustache.Proofs.RowsPack
namespace Mustache.Proofs.WorldsId
open Mustache.Model

/-- closes `(… chains of record updates / if / match …).worldId = w.worldId` goals -/
macro "wid_simple" : tactic => `(tactic| ((try simp only []); repeat' (first | rfl | split)))

@[simp] theorem setLoc_wid (w : WM) (h a i) : (w.setLoc h a i).worldId = w.worldId := by
  unfold WM.setLoc; wid_simple
@[simp] theorem setArch_wid (w : WM) (i a) : (w.setArch i a).worldId = w.worldId := rfl
@[simp] theorem ensureId_wid (w : WM) (i) : (w.ensureId i).worldId = w.worldId := rfl
@[simp] theorem release_wid (w : WM) (h) : (w.release h).worldId = w.worldId := by
  unfold WM.release; wid_simple
@[simp] theorem pushCmd_wid (w : WM) (t c) : (w.pushCmd t c).worldId = w.worldId := rfl
@[simp] theorem allocId_wid (w : WM) : w.allocId.1.worldId = w.worldId := by
  unfold WM.allocId; wid_simple
@[simp] theorem getArch_wid (w : WM) (m s) : (w.getArch m s).1.worldId = w.worldId := by
  unfold WM.getArch; wid_simple

variable (info : CompId → CompInfo)

@[simp] theorem archRemove_wid (w : WM) (ai idx skip) : (w.archRemove info ai idx skip).1.worldId = w.worldId := by
  unfold WM.archRemove
  simp only []
  wid_simple
  all_goals simp

@[simp] theorem archInsert_wid (w : WM) (ai e skip) : (w.archInsert info ai e skip).1.worldId = w.worldId := by
  unfold WM.archInsert
  simp

theorem externalMove_wid (w : WM) (t e p pi skip) (r) (h : w.externalMove info t e p pi skip = some r) :
    r.1.worldId = w.worldId := by
  unfold WM.externalMove at h
  split at h
  · cases h
  · simp only [] at h
    cases h
    simp

@[simp] theorem destroyNowU_wid (w : WM) (h) : (w.destroyNowU info h).1.worldId = w.worldId := by
  unfold WM.destroyNowU
  split
  · rfl
  · simp only []
    split <;> simp

theorem foldl_wid {α β : Type} (f : WM × β → α → WM × β) (l : List α) (init : WM × β)
    (hf : ∀ acc a, (f acc a).1.worldId = acc.1.worldId) : (l.foldl f init).1.worldId = init.1.worldId := by
  induction l generalizing init with
  | nil => rfl
  | cons a l ih => rw [List.foldl_cons, ih, hf]

theorem foldl_wid' {α : Type} (f : WM → α → WM) (l : List α) (init : WM)
    (hf : ∀ acc a, (f acc a).worldId = acc.worldId) : (l.foldl f init).worldId = init.worldId := by
  induction l generalizing init with
  | nil => rfl
  | cons a l ih => rw [List.foldl_cons, ih, hf]

@[simp] theorem createLocked_wid (w : WM) (t m s) : (w.createLocked t m s).1.worldId = w.worldId := by
  unfold WM.createLocked; simp

@[simp] theorem create_wid (w : WM) (t m s) : (w.create info t m s).1.worldId = w.worldId := by
  unfold WM.create
  split
  · simp
  · simp

@[simp] theorem update_wid (w : WM) : (w.update info).1.worldId = w.worldId := by
  unfold WM.update
  split
  · rfl
  · simp only []
    rw [foldl_wid]
    intro acc a; simp

@[simp] theorem destroy_wid (w : WM) (t e) : (w.destroy t e).worldId = w.worldId := by
  unfold WM.destroy; wid_simple
@[simp] theorem destroyNow_wid (w : WM) (t e) : (w.destroyNow info t e).1.worldId = w.worldId := by
  unfold WM.destroyNow; split <;> simp
@[simp] theorem lock_wid (w : WM) : w.lock.worldId = w.worldId := by
  unfold WM.lock; wid_simple

@[simp] theorem assign_wid (w : WM) (t e c v) : (w.assign info t e c v).1.worldId = w.worldId := by
  unfold WM.assign
  simp only []
  split
  · split <;> rfl
  · split
    · rfl
    · split
      · simp
      · rename_i w' cbs hr
        have := externalMove_wid info _ _ _ _ _ _ (w', cbs) hr
        simp only [getArch_wid] at this
        split <;> simp [this]

@[simp] theorem removeComp_wid (w : WM) (t e c) : (w.removeComp info t e c).1.worldId = w.worldId := by
  unfold WM.removeComp
  split
  · rfl
  · split
    · rfl
    · simp only []
      split
      · rfl
      · split
        · rfl
        · split
          · simp
          · rename_i w' cbs hr
            have := externalMove_wid info _ _ _ _ _ _ (w', cbs) hr
            simpa using this

@[simp] theorem clearArch_wid (w : WM) (ai) : (w.clearArch info ai).1.worldId = w.worldId := by
  unfold WM.clearArch
  simp only [setArch_wid]
  rw [foldl_wid']
  intro acc a; rfl

@[simp] theorem clone_wid (w : WM) (e) : (w.clone e).1.worldId = w.worldId := by
  unfold WM.clone
  split
  · rfl
  · simp only []
    split
    · rfl
    · simp

@[simp] theorem poolGet_wid (w : WM) (s v) : (w.poolGet s v).1.worldId = w.worldId := by
  unfold WM.poolGet
  simp only []
  split <;> rfl

@[simp] theorem sassign_wid (w : WM) (e s v) : (w.sassign info e s v).1.worldId = w.worldId := by
  unfold WM.sassign
  simp only []
  split
  · rfl
  · split
    · simp
    · rename_i w' cbs hr
      have := externalMove_wid info _ _ _ _ _ _ (w', cbs) hr
      simpa using this

@[simp] theorem sremove_wid (w : WM) (e s) : (w.sremove info e s).1.worldId = w.worldId := by
  unfold WM.sremove
  split
  · rfl
  · simp only []
    split
    · rfl
    · split
      · rfl
      · split
        · simp
        · rename_i w' cbs hr
          have := externalMove_wid info _ _ _ _ _ _ (w', cbs) hr
          simpa using this

@[simp] theorem buildUpdateU_wid (w : WM) (e adds rems) : (w.buildUpdateU info e adds rems).1.worldId = w.worldId := by
  unfold WM.buildUpdateU
  simp only []
  split
  · rfl
  · split
    · simp
    · rename_i w' cbs hr
      have := externalMove_wid info _ _ _ _ _ _ (w', cbs) hr
      simp only [getArch_wid] at this
      rw [foldl_wid, this]
      intro acc a
      (try simp only [])
      split <;> simp

@[simp] theorem buildNewU_wid (w : WM) (adds) : (w.buildNewU info adds).1.worldId = w.worldId := by
  unfold WM.buildNewU
  simp only []
  split
  · simp
  · rw [foldl_wid]
    · simp
    · intro acc a
      (try simp only [])
      split <;> simp

theorem foldl3_wid {α β γ : Type} (f : WM × β × γ → α → WM × β × γ) (l : List α) (init : WM × β × γ)
    (hf : ∀ acc a, (f acc a).1.worldId = acc.1.worldId) : (l.foldl f init).1.worldId = init.1.worldId := by
  induction l generalizing init with
  | nil => rfl
  | cons a l ih => rw [List.foldl_cons, ih, hf]

@[simp] theorem applyPack_wid (w : WM) (pack) : (w.applyPack info pack).1.worldId = w.worldId :=
  (Mustache.Proofs.Rows.applyPack_ctl info w pack).worldId

@[simp] theorem flush_wid (w : WM) : (w.flush info).1.worldId = w.worldId := by
  unfold WM.flush
  simp -zeta only []
  extract_lets bufs w'
  rw [foldl_wid]
  intro acc buf
  apply foldl_wid
  intro acc p
  simp

@[simp] theorem unlock_wid (w : WM) : (w.unlock info).1.worldId = w.worldId := by
  unfold WM.unlock
  extract_lets w'
  have : w'.worldId = w.worldId := by
    simp only [w']
    split <;> rfl
  split
  · simp [this]
  · exact this

/-- no operation of a world touches the id its entity manager stamps into handles (`this_world_id_`) -/
theorem step_wid (w : WM) (op : Op Handle) : (w.step info op).1.worldId = w.worldId := by
  cases op with
  | create t mask shared =>
    simp only [WM.step, create_wid]
    rw [foldl_wid]
    intro acc sid; simp
  | buildNew t adds =>
    simp only [WM.step]
    split
    · simp only []
      rw [foldl_wid]
      · simp
      · intro acc p; simp
    · simp
  | build t e adds rems =>
    simp only [WM.step]
    split
    · simp only []
      rw [foldl_wid', foldl_wid]
      · intro acc p; simp
      · intro acc c; simp
    · simp
  | clone e =>
    simp only [WM.step]
    split
    · rename_i w' d heq
      have := congrArg (fun r => r.1.worldId) heq
      simp only [clone_wid] at this
      exact this.symm
    · rename_i w' heq
      have := congrArg (fun r => r.1.worldId) heq
      simp only [clone_wid] at this
      exact this.symm
  | clearArch mask =>
    simp only [WM.step]
    split <;> simp
  | _ => simp [WM.step]

end Mustache.Proofs.WorldsId

import Mustache.Proofs.IdTableEvents
import Mustache.Proofs.IdTablePack
/-!
# C01 — a handle is valid exactly while the entity it was issued for is alive

Model: `Mustache.Model.Tab` (`Model/IdTable.lean`), the id-table part of the world model WM; every
`Tab` operation is the projection of the WM operation of the same name (`Proofs/IdTableRefine.lean`),
and WM is tied to the C++ by the `world` correspondence harness.

A history is a list of table-level operations `TOp` (unlocked creation, checked `destroyNow` of ANY
handle, `lock`, creation under lock, `unlock` with the table effects of the flush — slot installs of the
reserved handles in ANY order, interleaved with checked destructions —, `clearArchetype`, `destroy` +
`update`). `run wid h` executes it and records the event log `evs` (handle returned / creation took
effect / destruction took effect). `aliveB`, `issuedOf`, `reservedB` read that log only.

Hypotheses of every theorem, all decidable on a concrete history:
* `WF wid h` — contract: unlocked creation only while unlocked, creation-under-lock only while locked,
  the installs of a flush are an ordering of the pending reservations, `clearArchetype` rows are alive and
  pairwise distinct, `update` visits exactly the marked handles;
* `NoWrap` — no issued handle carries version `2^24-1` (the id was recycled fewer than `2^24` times;
  the wrap itself is C16 `next_version`);
* `InRange` — the table has fewer than `2^30-1` ids (`2^30-1` is the null id).
All three are prefix-closed, so each theorem holds after every step of every such history.
-/
namespace Mustache.Props.C01
open Mustache.Model
open Mustache.Proofs.IdTable

/-- unlocked create / destroy / recycle, a locked section with two creations flushed in the opposite
order (one of them destroyed in its own pack), a deferred destroy executed by `update`, `clearArchetype` -/
def sample : List TOp :=
  [.alloc, .alloc, .destroyNow ⟨0, 0, 0⟩, .alloc, .lock, .reserve, .lock, .reserve, .unlock [],
   .destroyNow ⟨7, 7, 7⟩, .mark ⟨1, 0, 0⟩,
   .unlock [.install ⟨3, 0, 0⟩, .kill ⟨2, 0, 0⟩, .kill ⟨3, 0, 0⟩, .install ⟨2, 0, 0⟩],
   .update [⟨1, 0, 0⟩], .alloc, .clear [⟨0, 1, 0⟩]]

/-- the same up to the middle of the locked section -/
def sampleLocked : List TOp := sample.take 8

example : WF 0 sample ∧ NoWrap (run 0 sample) ∧ InRange (run 0 sample) := by decide
example : WF 0 sampleLocked ∧ NoWrap (run 0 sampleLocked) ∧ InRange (run 0 sampleLocked) := by decide
example : issuedOf (run 0 sample).evs = [⟨0, 0, 0⟩, ⟨1, 0, 0⟩, ⟨0, 1, 0⟩, ⟨2, 0, 0⟩, ⟨3, 0, 0⟩, ⟨1, 1, 0⟩] := by decide

/-- **Validity is aliveness, for ANY handle** (issued or forged, any bit pattern): after every
well-formed history `isEntityValid h` answers exactly whether the history made `h` alive — its creation
took effect (at once, or at the install of the outermost unlock) and no destruction of it (checked
`destroyNow`, `update` after `destroy`, `clearArchetype`) took effect since. -/
theorem valid_iff_alive_any (wid : Nat) (ops : List TOp) (hwf : WF wid ops) (hw : NoWrap (run wid ops))
    (hr : InRange (run wid ops)) (h : Handle) :
    (run wid ops).tab.valid h = aliveB (run wid ops).evs h := by
  have ⟨si, ok⟩ := run_all wid ops hwf hr hw
  rw [Bool.eq_iff_iff, valid_iff_live_any si.tinv hr h, ok.alive h]

/-- the statement of the property: every handle ever returned by a creation call is valid exactly
while alive. (Corollary of `valid_iff_alive_any`; "re-queried after every step" = the theorem holds for
every prefix, since the hypotheses are prefix-closed.) -/
theorem valid_iff_alive (wid : Nat) (ops : List TOp) (hwf : WF wid ops) (hw : NoWrap (run wid ops))
    (hr : InRange (run wid ops)) (e : Handle) (_he : e ∈ issuedOf (run wid ops).evs) :
    (run wid ops).tab.valid e = aliveB (run wid ops).evs e :=
  valid_iff_alive_any wid ops hwf hw hr e

example : (issuedOf (run 0 sample).evs).map (fun e => ((run 0 sample).tab.valid e, aliveB (run 0 sample).evs e)) =
    [(false, false), (false, false), (false, false), (true, true), (false, false), (true, true)] := by decide
/-- a never-issued pattern matching the version stored in a free slot is not valid -/
example : (run 0 sample).tab.valid ⟨0, 2, 0⟩ = false ∧ (run 0 sample).tab.slots[0]? = some ⟨3, 2⟩ := by decide

/-- **false for ever after destruction**: a handle whose creation took effect and that is not alive any
more is never valid again, however the history continues (its id may be recycled any number of times) -/
theorem dead_forever (wid : Nat) (ops ext : List TOp) (hwf : WF wid (ops ++ ext))
    (hw : NoWrap (run wid (ops ++ ext))) (hr : InRange (run wid (ops ++ ext)))
    (e : Handle) (he : e ∈ issuedOf (run wid ops).evs) (hres : reservedB (run wid ops).evs e = false)
    (hdead : aliveB (run wid ops).evs e = false) :
    (run wid (ops ++ ext)).tab.valid e = false ∧ aliveB (run wid (ops ++ ext)).evs e = false := by
  have ⟨hwf0, hw0, hr0, hwf1, e1⟩ := prefix_good wid ops ext hwf hw hr
  have ⟨si, ok⟩ := run_all wid ops hwf0 hr0 hw0
  have hiss : e ∈ (run wid ops).g.issued := by
    have := ok.iss ▸ he
    exact List.mem_reverse.mp this
  have hd : Dead e (run wid ops) := by
    refine ⟨hiss, ?_, ?_⟩
    · intro hl
      rw [(ok.alive e).mpr hl] at hdead; cases hdead
    · intro hp
      have := (ok.pend e).mp hp
      simp only [reservedB, Bool.and_eq_false_imp, List.contains_iff_mem, Bool.not_eq_eq_eq_not, Bool.not_false] at hres
      exact this.2 (hres this.1)
  have hd' := run_dead e ext (run wid ops) si hd hwf1 (e1 ▸ hr) (e1 ▸ hw)
  rw [← e1] at hd'
  have ⟨_, ok'⟩ := run_all wid (ops ++ ext) hwf hr hw
  have hal : aliveB (run wid (ops ++ ext)).evs e = false := by
    cases h : aliveB (run wid (ops ++ ext)).evs e with
    | false => rfl
    | true => exact absurd ((ok'.alive e).mp h) hd'.2.1
  exact ⟨by rw [valid_iff_alive_any wid _ hwf hw hr]; exact hal, hal⟩

example : ⟨0, 0, 0⟩ ∈ issuedOf (run 0 (sample.take 3)).evs ∧ reservedB (run 0 (sample.take 3)).evs ⟨0, 0, 0⟩ = false ∧
    aliveB (run 0 (sample.take 3)).evs ⟨0, 0, 0⟩ = false ∧ WF 0 (sample.take 3 ++ sample.drop 3) := by decide

/-- the handles returned by creation calls are pairwise distinct (id, version, world) triples -/
theorem issued_nodup (wid : Nat) (ops : List TOp) (hwf : WF wid ops) (hw : NoWrap (run wid ops))
    (hr : InRange (run wid ops)) : (issuedOf (run wid ops).evs).Nodup := by
  have ⟨si, ok⟩ := run_all wid ops hwf hr hw
  rw [ok.iss]
  unfold List.Nodup
  rw [List.pairwise_reverse]
  exact si.tinv.fresh.nodup.imp (fun h => h.symm)

/-- no two live entities share an id (a fortiori a handle) -/
theorem live_ids_distinct (wid : Nat) (ops : List TOp) (hwf : WF wid ops) (hw : NoWrap (run wid ops))
    (hr : InRange (run wid ops)) (a b : Handle) (ha : aliveB (run wid ops).evs a = true)
    (hb : aliveB (run wid ops).evs b = true) (hid : a.id = b.id) : a = b := by
  have ⟨si, ok⟩ := run_all wid ops hwf hr hw
  exact si.tinv.live_nodup_id a ((ok.alive a).mp ha) b ((ok.alive b).mp hb) hid

example : aliveB (run 0 sample).evs ⟨2, 0, 0⟩ = true ∧ aliveB (run 0 sample).evs ⟨1, 1, 0⟩ = true := by decide

/-- a recycled id is reissued only with a version larger than that of every earlier handle of the id:
of two issued handles with one id, the later one has the strictly larger version -/
theorem reissue_version_fresh (wid : Nat) (ops : List TOp) (hwf : WF wid ops) (hw : NoWrap (run wid ops))
    (hr : InRange (run wid ops)) :
    (issuedOf (run wid ops).evs).Pairwise (fun earlier later => earlier.id = later.id → earlier.ver < later.ver) := by
  have ⟨si, ok⟩ := run_all wid ops hwf hr hw
  rw [ok.iss, List.pairwise_reverse]
  exact si.tinv.fresh.imp (fun h e => h e.symm)

/-- the free list: the chain from `next_slot_` through the stored ids has exactly `empty_slots_` members,
is duplicate-free (hence acyclic), consists exactly of the table ids that carry no live entity and are not a
gap waiting for a reserved handle, and a free slot never stores its own id -/
theorem freelist_wf (wid : Nat) (ops : List TOp) (hwf : WF wid ops) (hw : NoWrap (run wid ops))
    (hr : InRange (run wid ops)) :
    ∃ fs : List Nat, Chain (run wid ops).tab.slots (run wid ops).tab.next fs ∧ fs.Nodup ∧
      fs.length = (run wid ops).tab.empty ∧
      (∀ i, i ∈ fs ↔ (i < (run wid ops).tab.slots.length ∧
          (∀ h, aliveB (run wid ops).evs h = true → h.id ≠ i) ∧
          (∀ p, reservedB (run wid ops).evs p = true → p.id ≠ i))) ∧
      (∀ i ∈ fs, ∀ s, (run wid ops).tab.slots[i]? = some s → s.idf ≠ i) := by
  have ⟨si, ok⟩ := run_all wid ops hwf hr hw
  rcases si.tinv.chain with ⟨fs, h1, h2, h3, h4, h5⟩
  refine ⟨fs, h1, h2, h3, ?_, h5⟩
  intro i
  rw [h4 i]
  have hres : ∀ p, reservedB (run wid ops).evs p = true ↔ p ∈ (run wid ops).g.pending := by
    intro p
    rw [ok.pend p]
    simp [reservedB]
  constructor
  · rintro ⟨a, b, c⟩
    exact ⟨a, fun h hh => b h ((ok.alive h).mp hh), fun p hp => c p ((hres p).mp hp)⟩
  · rintro ⟨a, b, c⟩
    exact ⟨a, fun h hh => b h ((ok.alive h).mpr hh), fun p hp => c p ((hres p).mpr hp)⟩

example : (run 0 sample).tab.empty = 2 ∧ (run 0 sample).tab.next = 0 ∧
    (run 0 sample).tab.slots = [⟨3, 2⟩, ⟨1, 1⟩, ⟨2, 0⟩, ⟨4, 1⟩] := by decide
example : (run 0 (sample.take 12)).tab.slots = [⟨0, 1⟩, ⟨1, 0⟩, ⟨2, 0⟩, ⟨4, 1⟩] := by decide

/-- a handle returned by a creation under lock is not valid until its slot is installed at the
outermost unlock, and valid as soon as it is (whatever the order of the installs) -/
theorem locked_create_invisible (wid : Nat) (ops : List TOp) (hwf : WF wid ops) (hw : NoWrap (run wid ops))
    (hr : InRange (run wid ops)) (e : Handle) (hres : reservedB (run wid ops).evs e = true) :
    (run wid ops).tab.valid e = false ∧ ((run wid ops).install e).tab.valid e = true := by
  have ⟨si, ok⟩ := run_all wid ops hwf hr hw
  have hp : e ∈ (run wid ops).g.pending := by
    rw [ok.pend e]; simpa [reservedB] using hres
  refine ⟨pending_invalid si.tinv hp, ?_⟩
  have hi := si.tinv.pend_issued e hp
  rw [valid_iff]
  refine ⟨?_, si.tinv.world e hi, install_self _ e⟩
  intro e1
  have := hw e hi
  rw [e1] at this
  simp [Handle.null] at this

/-- the link to the world model: whenever the id table of a WM state is the table of a good history
(`Proofs/IdTableRefine.lean`, `IdTablePack.lean`: every WM operation acts on `tabOf w` as the corresponding
`TOp`), `WM.isValid` answers aliveness -/
theorem wm_valid_iff_alive (w : WM) (wid : Nat) (ops : List TOp) (hwf : WF wid ops) (hw : NoWrap (run wid ops))
    (hr : InRange (run wid ops)) (htab : tabOf w = (run wid ops).tab) (h : Handle) :
    w.isValid h = aliveB (run wid ops).evs h := by
  rw [isValid_tab, htab]
  exact valid_iff_alive_any wid ops hwf hw hr h

example : tabOf (({} : WM).allocId).1 = (run 0 [.alloc]).tab := by decide

example : reservedB (run 0 sampleLocked).evs ⟨2, 0, 0⟩ = true ∧ reservedB (run 0 sampleLocked).evs ⟨3, 0, 0⟩ = true ∧
    (run 0 sampleLocked).tab.lockDepth = 2 := by decide

end Mustache.Props.C01

import Mustache.Proofs.RowsLive2
import Mustache.Proofs.RowsCheck
import Mustache.Proofs.RowsPackInv
import Mustache.Driver.World
/-!
# C02 — component values follow their entity through every structural change

Model: `Mustache.Model.WM` (`Model/World.lean`): archetypes = dense row lists with swap-remove, one
location per id. `RowInv w`:
 1. every row has one value per mask entry;
 2. the location of the owner of row `i` of archetype `ai` is `(ai, i)`, inside the location table;
 3. (consequence of 2) no id owns two rows;
 4. masks are sorted duplicate-free, (mask, shared instances) identifies the archetype.
`RowInv` holds initially and is preserved by `Archetype::insert/remove/externalMove`, `getArchetype`
and by every unlocked operation. Operations on entity `e` never change what any OTHER entity reads
(`frame_other_entities_*`); `assign` makes the written token readable and keeps the other components
(`read_last_written`); `clone` copies every value; rows = live handles (`archetype_rows_exact`).

Id-table facts are hypotheses named after the C01 invariant: `AllocOK w` (the id `createWithOutInit`
hands out next owns no row, is not the null id, and has a location slot), `FreeHeadNot w id`
(the free-list head is not a live id), and `Located w e` / `LiveInv w` (a live handle's location
points at its own row — itself proved invariant here as `liveInv_*`).
-/
namespace Mustache.Props.C02
open Mustache.Model
open Mustache.Proofs.Rows

abbrev cat := Mustache.Driver.World.catalogue

/-- the row/location invariant -/
structure RowInv (w : WM) : Prop where
  rows : RowsOK w
  keys : KeysOK w

/-- `e` owns some row -/
def InRow (w : WM) (e : Handle) : Prop := ∃ ai i, InRowAt w e ai i

/-! ## sample states (built by the model's own operations) -/

def e0 : Handle := ⟨0, 0, 0⟩
def e1 : Handle := ⟨1, 0, 0⟩
def e2 : Handle := ⟨2, 0, 0⟩
def e3 : Handle := ⟨3, 0, 0⟩

/-- four entities: e0 {A,B}; e1, e2, e3 {A,C} with distinct tokens in C -/
def s4 : WM :=
  let w : WM := {}
  let (w, _, _) := w.create cat 0 [0, 1] Shared.null
  let (w, _, _) := w.create cat 0 [0] Shared.null
  let (w, _, _) := w.create cat 0 [0] Shared.null
  let (w, _, _) := w.create cat 0 [0] Shared.null
  let (w, _, _) := w.assign cat 0 e1 2 (some 11)
  let (w, _, _) := w.assign cat 0 e2 2 (some 22)
  let (w, _, _) := w.assign cat 0 e3 2 (some 33)
  w

theorem s4_inv : RowInv s4 := ⟨rowsOK_of_check (by decide), keysOK_of_check (by decide)⟩
theorem s4_alloc : AllocOK s4 := allocOK_of_check (by decide)

example : s4.archs.map (fun a => (a.mask, a.rows.map (·.ent.id))) = [([0, 1], [0]), ([0], []), ([0, 2], [1, 2, 3])] := by
  decide
example : s4.getComp e1 2 = some (some 11) ∧ s4.getComp e3 2 = some (some 33) := by decide
example : InRowAt s4 e1 2 0 ∧ InRowAt s4 e2 2 1 ∧ InRowAt s4 e3 2 2 :=
  ⟨inRowAt_of_check (by decide), inRowAt_of_check (by decide), inRowAt_of_check (by decide)⟩

/-! ## the invariant, spelled out -/

/-- the four clauses of `RowInv` in the words of the property -/
theorem rowInv_clauses {w : WM} (h : RowInv w) :
    (∀ (ai i : Nat) (row : Row), (w.arch ai).rows[i]? = some row →
        row.vals.length = (w.arch ai).mask.length) ∧
    (∀ (ai i : Nat) (row : Row), (w.arch ai).rows[i]? = some row →
        w.locOf row.ent = ⟨some ai, i⟩ ∧ row.ent.id < w.locs.length) ∧
    (∀ (ai i aj j : Nat) (r r' : Row), (w.arch ai).rows[i]? = some r → (w.arch aj).rows[j]? = some r' →
        r.ent.id = r'.ent.id → ai = aj ∧ i = j) ∧
    (∀ ai, ai < w.archs.length → List.Pairwise (· < ·) (w.arch ai).mask) ∧
    (∀ ai aj, ai < w.archs.length → aj < w.archs.length → (w.arch ai).mask = (w.arch aj).mask →
        (w.arch ai).shared.data = (w.arch aj).shared.data → ai = aj) :=
  ⟨h.rows.vals, fun _ _ _ hr => ⟨h.rows.locOf hr, h.rows.id_lt hr⟩,
   fun _ _ _ _ _ _ h1 h2 hid => h.rows.unique h1 h2 hid, h.keys.masks, h.keys.distinct⟩

theorem rowInv_init : RowInv ({} : WM) := ⟨rowsOK_init, keysOK_init⟩

/-- equal component set and equal shared instances ⇒ the same archetype -/
theorem same_key_same_archetype {w : WM} (h : RowInv w) {ai aj : Nat} (hai : ai < w.archs.length)
    (haj : aj < w.archs.length) (hm : (w.arch ai).mask = (w.arch aj).mask)
    (hd : (w.arch ai).shared.data = (w.arch aj).shared.data) : ai = aj :=
  h.keys.distinct ai aj hai haj hm hd

example : s4.archs.length = 3 := by decide

/-! ## the swap-remove lemma and the three archetype primitives -/

/-- `(rows.set idx last).dropLast`, for EVERY `idx`: position `idx` (if it survives) holds the former
last row, every other surviving position is unchanged, the last position is gone — first, middle and
last row are instances -/
theorem swap_remove_rows (rows : List Row) (idx j : Nat) (x : Row) :
    ((rows.set idx x).dropLast)[j]? =
      if j < rows.length - 1 then (if idx = j then some x else rows[j]?) else none :=
  swap_getElem? rows idx j x

example : ((([⟨e0, []⟩, ⟨e1, []⟩, ⟨e2, []⟩, ⟨e3, []⟩] : List Row).set 1 ⟨e3, []⟩).dropLast).map (·.ent.id)
    = [0, 3, 2] := by decide

/-- `Archetype::insert` of a handle whose id is inside the table, not null and owns no row -/
theorem rowInv_archInsert (info : CompId → CompInfo) {w : WM} (h : RowInv w) (ai : Nat) (e : Handle)
    (skip : Mask) (hai : ai < w.archs.length) (hn : e.id ≠ nullId) (hlt : e.id < w.locs.length)
    (hfresh : NotInRow w e.id) : RowInv (w.archInsert info ai e skip).1 := by
  rcases archInsert_eq info w ai e skip with ⟨vals, heq, hlen⟩
  rw [heq]
  exact ⟨rowsOK_insertRow h.rows ai e vals hai hn hlt hfresh hlen,
    (insertRow_keysSame w ai e vals hai).keysOK h.keys⟩

/-- `Archetype::remove`, any archetype, any index (last / first / middle / out of range), any skip set -/
theorem rowInv_archRemove (info : CompId → CompInfo) {w : WM} (h : RowInv w) (ai idx : Nat) (sk : Mask) :
    RowInv (w.archRemove info ai idx sk).1 :=
  ⟨rowsOK_archRemove info h.rows ai idx sk, (archRemove_keysSame info w ai idx sk).keysOK h.keys⟩

example : ((s4.archRemove cat 2 0 []).1.arch 2).rows.map (·.ent.id) = [3, 2] ∧
    (s4.archRemove cat 2 0 []).1.locOf e3 = ⟨some 2, 0⟩ ∧
    ((s4.archRemove cat 2 2 []).1.arch 2).rows.map (·.ent.id) = [1, 2] := by decide

/-- `Archetype::externalMove` of the owner of row `(prev, prevIdx)` into another existing archetype -/
theorem rowInv_externalMove (info : CompId → CompInfo) {w : WM} (h : RowInv w) (target : Nat) (e : Handle)
    (prev prevIdx : Nat) (skip : Mask) (hne : target ≠ prev) (ht : target < w.archs.length)
    (hrow : InRowAt w e prev prevIdx) :
    ∃ w' cbs, w.externalMove info target e prev prevIdx skip = some (w', cbs) ∧ RowInv w' := by
  rcases externalMove_spec info h.rows target e prev prevIdx skip hne ht hrow with ⟨w', cbs, heq, hs⟩
  exact ⟨w', cbs, heq, hs.ok, (KeysSame.mk hs.alen hs.mask).keysOK h.keys⟩

example : ((s4.externalMove cat 0 e1 2 0 []).map (fun r => (r.1.arch 0).rows.map (·.ent.id))) = some [0, 1] := by
  decide

/-- `getArchetype(mask, shared)` for a sorted mask -/
theorem rowInv_getArch {w : WM} (h : RowInv w) (m : Mask) (sh : Shared) (hm : MaskOk m) :
    RowInv (w.getArch m sh).1 :=
  ⟨rowsOK_getArch h.rows m sh, keysOK_getArch h.keys m sh hm⟩

/-! ## the operations preserve the invariant -/

theorem rowInv_create (info : CompId → CompInfo) {w : WM} (h : RowInv w) (ha : AllocOK w) (t : Nat)
    (mask : Mask) (sh : Shared) (hm : MaskOk mask) : RowInv (w.create info t mask sh).1 := by
  by_cases hl : w.isLocked = true
  · have hs : Step w (w.create info t mask sh).1 0 := by
      unfold WM.create
      simp only [hl, if_true]
      exact Step.of_same h.rows _ rfl rfl (fun _ => rfl)
    exact ⟨hs.ok, hs.keys h.keys⟩
  · simp only [Bool.not_eq_true] at hl
    rcases create_unlocked info h.rows ha t mask sh hl hm with ⟨_, _, hs, _⟩
    exact ⟨hs.ok, hs.keys h.keys⟩

example : MaskOk [0, 2] := maskOk_of_sortedb _ (by decide)

theorem rowInv_assign (info : CompId → CompInfo) {w : WM} (h : RowInv w) (t : Nat) (e : Handle)
    (c : CompId) (v : Option Nat) (hloc : Located w e) : RowInv (w.assign info t e c v).1 :=
  let hs := assign_step info h.rows t e c v hloc
  ⟨hs.ok, hs.keys h.keys⟩

theorem rowInv_removeComp (info : CompId → CompInfo) {w : WM} (h : RowInv w) (t : Nat) (e : Handle)
    (c : CompId) (hloc : Located w e) : RowInv (w.removeComp info t e c).1 :=
  let hs := removeComp_step info h.rows t e c hloc
  ⟨hs.ok, hs.keys h.keys⟩

/-- `destroyNow` of ANY handle (no hypothesis) -/
theorem rowInv_destroyNowU (info : CompId → CompInfo) {w : WM} (h : RowInv w) (e : Handle) :
    RowInv (w.destroyNowU info e).1 :=
  ⟨rowsOK_destroyNowU info h.rows e, (keysSame_destroyNowU info w e).keysOK h.keys⟩

theorem rowInv_clone {w : WM} (h : RowInv w) (ha : AllocOK w) (e : Handle) (hloc : Located w e) :
    RowInv (w.clone e).1 := by
  by_cases hv : w.isValid e = true
  · cases hla : (w.locOf e).arch with
    | none =>
      have : w.clone e = (w, none) := by simp [WM.clone, hv, hla]
      rw [this]; exact h
    | some ai =>
      rcases hloc ai hla with ⟨prow, hr, he⟩
      rcases clone_spec h.rows ha e hv hr he with ⟨_, hs, _⟩
      exact ⟨hs.ok, hs.keys h.keys⟩
  · simp only [Bool.not_eq_true] at hv
    have : w.clone e = (w, none) := by simp [WM.clone, hv]
    rw [this]; exact h

theorem rowInv_buildUpdateU (info : CompId → CompInfo) {w : WM} (h : RowInv w) (e : Handle)
    (adds : List (CompId × Option Nat)) (rems : Mask) (hloc : Located w e) :
    RowInv (w.buildUpdateU info e adds rems).1 :=
  let hs := buildUpdateU_step info h.rows e adds rems hloc
  ⟨hs.ok, hs.keys h.keys⟩

theorem rowInv_buildNewU (info : CompId → CompInfo) {w : WM} (h : RowInv w) (ha : AllocOK w)
    (adds : List (CompId × Option Nat)) : RowInv (w.buildNewU info adds).1 :=
  let hs := (buildNewU_step info h.rows ha adds).1
  ⟨hs.ok, hs.keys h.keys⟩

theorem rowInv_sassign (info : CompId → CompInfo) {w : WM} (h : RowInv w) (e : Handle) (sid value : Nat)
    (hloc : Located w e) : RowInv (w.sassign info e sid value).1 :=
  let hs := sassign_step info h.rows e sid value hloc
  ⟨hs.ok, hs.keys h.keys⟩

theorem rowInv_sremove (info : CompId → CompInfo) {w : WM} (h : RowInv w) (e : Handle) (sid : Nat)
    (hloc : Located w e) : RowInv (w.sremove info e sid).1 :=
  let hs := sremove_step info h.rows e sid hloc
  ⟨hs.ok, hs.keys h.keys⟩

theorem rowInv_clearArch (info : CompId → CompInfo) {w : WM} (h : RowInv w) (ai : Nat) :
    RowInv (w.clearArch info ai).1 :=
  ⟨(clearArch_spec info h.rows ai).1, (keysSame_clearArch info w ai).keysOK h.keys⟩

/-- `update()`: destroys every pending handle through the guarded path -/
theorem rowInv_update (info : CompId → CompInfo) {w : WM} (h : RowInv w) : RowInv (w.update info).1 :=
  ⟨rowsOK_update info h.rows, (keysSame_update info w).keysOK h.keys⟩

example : Located s4 e2 := located_of_row s4_inv.rows (inRowAt_of_check (by decide) : InRowAt s4 e2 2 1)
example : ((s4.destroyNowU cat e1).1.arch 2).rows.map (·.ent.id) = [3, 2] := by decide

/-! ## never another entity's value -/

/-- two different handles that own rows have different ids -/
theorem id_ne_of_ne {w : WM} (h : RowInv w) {e e' : Handle} (he : InRow w e) (he' : InRow w e')
    (hne : e' ≠ e) : e'.id ≠ e.id := by
  rcases he with ⟨ai, i, r, hr, rfl⟩
  rcases he' with ⟨aj, j, r', hr', rfl⟩
  intro hid
  rcases h.rows.unique hr' hr hid with ⟨rfl, rfl⟩
  rw [hr] at hr'; cases hr'
  exact hne rfl

/-- what `Step` says about the observations of every other row owner -/
theorem frame_of_step {w w' : WM} {id : Nat} (h : RowInv w) (hs : Step w w' id) (e' : Handle)
    (he' : InRow w e') (hne : e'.id ≠ id) :
    (∀ c, w'.getComp e' c = w.getComp e' c) ∧ (∀ c, w'.hasComp e' c = w.hasComp e' c) ∧
    (∀ s, w'.hasShared e' s = w.hasShared e' s) ∧ w'.archOf e' = w.archOf e' ∧
    w'.isValid e' = w.isValid e' := by
  rcases he' with ⟨aj, j, r, hr, rfl⟩
  exact hs.frame.observations h.rows hr hne

theorem frame_other_entities_archRemove (info : CompId → CompInfo) {w : WM} (h : RowInv w) (ai idx : Nat)
    (sk : Mask) (row : Row) (hr : (w.arch ai).rows[idx]? = some row) (e' : Handle) (he' : InRow w e')
    (hne : e' ≠ row.ent) (c : CompId) :
    (w.archRemove info ai idx sk).1.getComp e' c = w.getComp e' c ∧
    (w.archRemove info ai idx sk).1.hasComp e' c = w.hasComp e' c := by
  have hs := archRemove_spec info h.rows ai idx sk row hr
  have hid := id_ne_of_ne h ⟨ai, idx, row, hr, rfl⟩ he' hne
  rcases he' with ⟨aj, j, r, hr', rfl⟩
  have := (OpFrame.of_sameTable hs.keepsOthers hs.same).observations h.rows hr' hid
  exact ⟨this.1 c, this.2.1 c⟩

theorem frame_other_entities_externalMove (info : CompId → CompInfo) {w : WM} (h : RowInv w) (target : Nat)
    (e : Handle) (prev prevIdx : Nat) (skip : Mask) (hne : target ≠ prev) (ht : target < w.archs.length)
    (hrow : InRowAt w e prev prevIdx) (e' : Handle) (he' : InRow w e') (hee : e' ≠ e) (c : CompId) :
    ∃ w' cbs, w.externalMove info target e prev prevIdx skip = some (w', cbs) ∧
      w'.getComp e' c = w.getComp e' c ∧ w'.hasComp e' c = w.hasComp e' c := by
  rcases externalMove_spec info h.rows target e prev prevIdx skip hne ht hrow with ⟨w', cbs, heq, hs⟩
  have hid := id_ne_of_ne h ⟨prev, prevIdx, hrow⟩ he' hee
  rcases he' with ⟨aj, j, r, hr', rfl⟩
  have := (OpFrame.of_sameTable hs.keeps hs.same).observations h.rows hr' hid
  exact ⟨w', cbs, heq, this.1 c, this.2.1 c⟩

theorem frame_other_entities_assign (info : CompId → CompInfo) {w : WM} (h : RowInv w) (t : Nat)
    (e : Handle) (c : CompId) (v : Option Nat) (he : InRow w e) (e' : Handle) (he' : InRow w e')
    (hne : e' ≠ e) (c' : CompId) :
    (w.assign info t e c v).1.getComp e' c' = w.getComp e' c' ∧
    (w.assign info t e c v).1.hasComp e' c' = w.hasComp e' c' := by
  rcases he with ⟨ai, i, hrow⟩
  have hs := assign_step info h.rows t e c v (located_of_row h.rows hrow)
  have := frame_of_step h hs e' he' (id_ne_of_ne h ⟨ai, i, hrow⟩ he' hne)
  exact ⟨this.1 c', this.2.1 c'⟩

theorem frame_other_entities_removeComp (info : CompId → CompInfo) {w : WM} (h : RowInv w) (t : Nat)
    (e : Handle) (c : CompId) (he : InRow w e) (e' : Handle) (he' : InRow w e') (hne : e' ≠ e)
    (c' : CompId) :
    (w.removeComp info t e c).1.getComp e' c' = w.getComp e' c' ∧
    (w.removeComp info t e c).1.hasComp e' c' = w.hasComp e' c' := by
  rcases he with ⟨ai, i, hrow⟩
  have hs := removeComp_step info h.rows t e c (located_of_row h.rows hrow)
  have := frame_of_step h hs e' he' (id_ne_of_ne h ⟨ai, i, hrow⟩ he' hne)
  exact ⟨this.1 c', this.2.1 c'⟩

theorem frame_other_entities_destroyNow (info : CompId → CompInfo) {w : WM} (h : RowInv w) (e : Handle)
    (he : InRow w e) (e' : Handle) (he' : InRow w e') (hne : e' ≠ e) (c' : CompId) :
    (w.destroyNowU info e).1.getComp e' c' = w.getComp e' c' ∧
    (w.destroyNowU info e).1.hasComp e' c' = w.hasComp e' c' := by
  rcases he with ⟨ai, i, hrow⟩
  have hs := destroyNowU_step info h.rows e (located_of_row h.rows hrow)
  have := frame_of_step h hs e' he' (id_ne_of_ne h ⟨ai, i, hrow⟩ he' hne)
  exact ⟨this.1 c', this.2.1 c'⟩

/-- `clone(e)`: every entity that owns a row — `e` included — reads what it read before -/
theorem frame_other_entities_clone {w : WM} (h : RowInv w) (ha : AllocOK w) (e : Handle)
    (hv : w.isValid e = true) (he : InRow w e) (e' : Handle) (he' : InRow w e') (c' : CompId) :
    (w.clone e).1.getComp e' c' = w.getComp e' c' ∧ (w.clone e).1.hasComp e' c' = w.hasComp e' c' := by
  rcases he with ⟨ai, i, prow, hr, hpe⟩
  rcases clone_spec h.rows ha e hv hr hpe with ⟨_, hs, _, _, _, hfresh⟩
  rcases he' with ⟨aj, j, r, hr', rfl⟩
  have := hs.frame.observations h.rows hr' (hfresh aj j r hr')
  exact ⟨this.1 c', this.2.1 c'⟩

/-- `create`: nobody who owns a row is affected -/
theorem frame_other_entities_create (info : CompId → CompInfo) {w : WM} (h : RowInv w) (ha : AllocOK w)
    (t : Nat) (mask : Mask) (sh : Shared) (hm : MaskOk mask) (e' : Handle) (he' : InRow w e') (c' : CompId) :
    (w.create info t mask sh).1.getComp e' c' = w.getComp e' c' ∧
    (w.create info t mask sh).1.hasComp e' c' = w.hasComp e' c' := by
  by_cases hl : w.isLocked = true
  · have : ∀ x c, (w.create info t mask sh).1.getComp x c = w.getComp x c ∧
        (w.create info t mask sh).1.hasComp x c = w.hasComp x c := by
      unfold WM.create
      simp only [hl, if_true]
      exact fun _ _ => ⟨rfl, rfl⟩
    exact this e' c'
  · simp only [Bool.not_eq_true] at hl
    rcases create_unlocked info h.rows ha t mask sh hl hm with ⟨_, _, hs, _, _, _, _, hfresh⟩
    rcases he' with ⟨aj, j, r, hr', rfl⟩
    have := hs.frame.observations h.rows hr' (hfresh aj j r hr')
    exact ⟨this.1 c', this.2.1 c'⟩

theorem frame_other_entities_sassign (info : CompId → CompInfo) {w : WM} (h : RowInv w) (e : Handle)
    (sid value : Nat) (he : InRow w e) (e' : Handle) (he' : InRow w e') (hne : e' ≠ e) (c' : CompId) :
    (w.sassign info e sid value).1.getComp e' c' = w.getComp e' c' ∧
    (∀ s, (w.sassign info e sid value).1.hasShared e' s = w.hasShared e' s) := by
  rcases he with ⟨ai, i, hrow⟩
  have hs := sassign_step info h.rows e sid value (located_of_row h.rows hrow)
  have := frame_of_step h hs e' he' (id_ne_of_ne h ⟨ai, i, hrow⟩ he' hne)
  exact ⟨this.1 c', this.2.2.1⟩

theorem frame_other_entities_sremove (info : CompId → CompInfo) {w : WM} (h : RowInv w) (e : Handle)
    (sid : Nat) (he : InRow w e) (e' : Handle) (he' : InRow w e') (hne : e' ≠ e) (c' : CompId) :
    (w.sremove info e sid).1.getComp e' c' = w.getComp e' c' ∧
    (∀ s, (w.sremove info e sid).1.hasShared e' s = w.hasShared e' s) := by
  rcases he with ⟨ai, i, hrow⟩
  have hs := sremove_step info h.rows e sid (located_of_row h.rows hrow)
  have := frame_of_step h hs e' he' (id_ne_of_ne h ⟨ai, i, hrow⟩ he' hne)
  exact ⟨this.1 c', this.2.2.1⟩

theorem frame_other_entities_buildUpdate (info : CompId → CompInfo) {w : WM} (h : RowInv w) (e : Handle)
    (adds : List (CompId × Option Nat)) (rems : Mask) (he : InRow w e) (e' : Handle) (he' : InRow w e')
    (hne : e' ≠ e) (c' : CompId) :
    (w.buildUpdateU info e adds rems).1.getComp e' c' = w.getComp e' c' ∧
    (w.buildUpdateU info e adds rems).1.hasComp e' c' = w.hasComp e' c' := by
  rcases he with ⟨ai, i, hrow⟩
  have hs := buildUpdateU_step info h.rows e adds rems (located_of_row h.rows hrow)
  have := frame_of_step h hs e' he' (id_ne_of_ne h ⟨ai, i, hrow⟩ he' hne)
  exact ⟨this.1 c', this.2.1 c'⟩

theorem frame_other_entities_buildNew (info : CompId → CompInfo) {w : WM} (h : RowInv w) (ha : AllocOK w)
    (adds : List (CompId × Option Nat)) (e' : Handle) (he' : InRow w e') (c' : CompId) :
    (w.buildNewU info adds).1.getComp e' c' = w.getComp e' c' ∧
    (w.buildNewU info adds).1.hasComp e' c' = w.hasComp e' c' := by
  have hs := (buildNewU_step info h.rows ha adds).1
  rcases he' with ⟨aj, j, r, hr', rfl⟩
  have := hs.frame.observations h.rows hr' (ha.fresh aj j r hr')
  exact ⟨this.1 c', this.2.1 c'⟩

/-- `clearArchetype(ai)`: entities of the other archetypes keep rows, locations, validity -/
theorem frame_other_entities_clearArch (info : CompId → CompInfo) {w : WM} (h : RowInv w) (ai aj j : Nat)
    (r : Row) (hne : aj ≠ ai) (hr : (w.arch aj).rows[j]? = some r) (c' : CompId) :
    (w.clearArch info ai).1.getComp r.ent c' = w.getComp r.ent c' := by
  rcases clearArch_spec info h.rows ai with ⟨_, _, hoth, hkeep⟩
  have hk := hkeep aj j r hne hr
  have hr2 : ((w.clearArch info ai).1.arch aj).rows[j]? = some r := by rw [hoth aj hne]; exact hr
  rw [getComp_of_loc (locOf_of_locs hk.1) hr2, getComp_of_loc (h.rows.locOf hr) hr, hk.2, hoth aj hne]

/-- moving e1 out of {A,C} swaps e3 into its slot: e3 still reads its own 33, e2 its own 22 -/
example : (s4.assign cat 0 e1 1 (some 5)).1.getComp e3 2 = some (some 33) ∧
    (s4.assign cat 0 e1 1 (some 5)).1.getComp e2 2 = some (some 22) ∧
    (s4.assign cat 0 e1 1 (some 5)).1.locOf e3 = ⟨some 2, 0⟩ := by decide
example : InRow s4 e1 ∧ InRow s4 e3 ∧ e3 ≠ e1 :=
  ⟨⟨2, 0, inRowAt_of_check (by decide)⟩, ⟨2, 2, inRowAt_of_check (by decide)⟩, by decide⟩

/-! ## the operand itself -/

/-- `assign<C>(e, tok)` unlocked with result `ok`: `C` reads the stored token (`tok`, or the constant of
an empty type); every other component `e` had keeps its value; the component set becomes the
dependency closure of (old set ∪ {C}) — one step of `components_eq_history` -/
theorem read_last_written (info : CompId → CompInfo) {w : WM} (h : RowInv w) (t : Nat) (e : Handle)
    (c : CompId) (tok : Nat) (hl : w.isLocked = false) (hv : w.isValid e = true) {pi idx : Nat}
    (hrow : InRowAt w e pi idx) (hres : (w.assign info t e c (some tok)).2.1 = .ok) :
    (w.assign info t e c (some tok)).1.getComp e c = some (storedOf info c (some tok)) ∧
    (∀ c', c' ≠ c → w.hasComp e c' = true →
      (w.assign info t e c (some tok)).1.getComp e c' = w.getComp e c') ∧
    (∀ x, (w.assign info t e c (some tok)).1.hasComp e x =
      (closedMask w.deps (Mask.insert (w.arch pi).mask c)).contains x) :=
  let r := assign_read info h.rows t e c tok hl hv hrow hres
  ⟨r.1, r.2.1, r.2.2.1⟩

/-- for a component that is not an empty type the token itself is read back -/
theorem read_last_written_token (info : CompId → CompInfo) {w : WM} (h : RowInv w) (t : Nat) (e : Handle)
    (c : CompId) (tok : Nat) (hl : w.isLocked = false) (hv : w.isValid e = true) {pi idx : Nat}
    (hrow : InRowAt w e pi idx) (hres : (w.assign info t e c (some tok)).2.1 = .ok)
    (hfix : (info c).fixed = none) :
    (w.assign info t e c (some tok)).1.getComp e c = some (some tok) := by
  rw [(read_last_written info h t e c tok hl hv hrow hres).1, storedOf_tok info c tok hfix]

/-- the component set of `e` before the step is the mask of its archetype -/
theorem components_eq_mask {w : WM} (h : RowInv w) (e : Handle) (hv : w.isValid e = true) {pi idx : Nat}
    (hrow : InRowAt w e pi idx) (x : CompId) : w.hasComp e x = (w.arch pi).mask.contains x := by
  rcases hrow with ⟨r, hr, rfl⟩
  rw [hasComp_of_loc (h.rows.locOf hr), hv]; rfl

example : (s4.assign cat 0 e1 1 (some 5)).2.1 = .ok ∧
    (s4.assign cat 0 e1 1 (some 5)).1.getComp e1 1 = some (some 5) ∧
    (s4.assign cat 0 e1 1 (some 5)).1.getComp e1 2 = some (some 11) := by decide

/-- typed `removeComponent<C>(e)` unlocked: the other components keep their values; if `e` had `C` the
component set becomes the closure of (old set ∖ {C}) -/
theorem removeComp_keeps_values (info : CompId → CompInfo) {w : WM} (h : RowInv w) (t : Nat) (e : Handle)
    (c : CompId) (hl : w.isLocked = false) (hv : w.isValid e = true) {pi idx : Nat}
    (hrow : InRowAt w e pi idx) :
    (∀ c', c' ≠ c → w.hasComp e c' = true →
      (w.removeComp info t e c).1.getComp e c' = w.getComp e c') ∧
    (w.hasComp e c = true →
      ∀ x, (w.removeComp info t e c).1.hasComp e x =
        (closedMask w.deps (Mask.erase (w.arch pi).mask c)).contains x) :=
  let r := removeComp_read info h.rows t e c hl hv hrow
  ⟨r.1, r.2.1⟩

example : (s4.removeComp cat 0 e2 0).1.getComp e2 2 = some (some 22) ∧
    (s4.removeComp cat 0 e2 0).1.hasComp e2 0 = false := by decide

/-- `clone(e)` copies every value: the clone has exactly `e`'s components with `e`'s values -/
theorem clone_copies_values {w : WM} (h : RowInv w) (ha : AllocOK w) (e : Handle)
    (hv : w.isValid e = true) {ai idx : Nat} (hrow : InRowAt w e ai idx) (c : CompId) :
    (w.clone e).2 = some (w.allocId).2 ∧
    (w.clone e).1.getComp (w.allocId).2 c = w.getComp e c ∧
    (w.clone e).1.hasComp (w.allocId).2 c = w.hasComp e c := by
  rcases hrow with ⟨prow, hr, he⟩
  have h1 := (clone_spec h.rows ha e hv hr he).1
  have h2 := clone_read h.rows ha e hv ⟨prow, hr, he⟩ c
  exact ⟨h1, h2.1, h2.2.1⟩

example : (s4.clone e3).2 = some ⟨4, 0, 0⟩ ∧ (s4.clone e3).1.getComp ⟨4, 0, 0⟩ 2 = some (some 33) := by decide

/-- `create(mask)` unlocked: the new entity has the closed mask, every component default-constructed -/
theorem create_default_values (info : CompId → CompInfo) {w : WM} (h : RowInv w) (ha : AllocOK w) (t : Nat)
    (mask : Mask) (sh : Shared) (hl : w.isLocked = false) (hm : MaskOk mask) :
    (w.create info t mask sh).1.isValid (w.create info t mask sh).2.1 = true ∧
    (∀ x, (w.create info t mask sh).1.hasComp (w.create info t mask sh).2.1 x =
      (closedMask w.deps mask).contains x) ∧
    (∀ c ∈ closedMask w.deps mask,
      (w.create info t mask sh).1.getComp (w.create info t mask sh).2.1 c = some (defaultVal info c)) := by
  rcases create_unlocked info h.rows ha t mask sh hl hm with ⟨ai, vals, _, ho, hmask, _, hvals, _⟩
  refine ⟨ho.valid, fun x => by rw [ho.hasComp, hmask], fun c hc => ?_⟩
  rw [ho.getComp, hmask, (indexOf?_of_mem hc).1]
  simp only
  rw [hvals c hc]

example : (s4.create cat 0 [1, 2] Shared.null).1.getComp ⟨4, 0, 0⟩ 1 = some (some 1001) := by decide

/-! ## rows are exactly the live entities, each once -/

/-- under `RowInv` and `LiveInv`: a valid handle is in the rows of archetype `ai` at index `i` exactly
when its location says `(ai, i)`; it is in no other row; and every row belongs to a valid handle -/
theorem archetype_rows_exact {w : WM} (h : RowInv w) (hl : LiveInv w) (e : Handle)
    (hv : w.isValid e = true) (ai i : Nat) :
    (InRowAt w e ai i ↔ w.locOf e = ⟨some ai, i⟩) ∧
    (∀ aj j, InRowAt w e ai i → InRowAt w e aj j → aj = ai ∧ j = i) ∧
    (∀ (aj j : Nat) (r : Row), (w.arch aj).rows[j]? = some r → w.isValid r.ent = true) := by
  refine ⟨⟨?_, ?_⟩, ?_, hl.row_live⟩
  · rintro ⟨r, hr, rfl⟩; exact h.rows.locOf hr
  · intro hloc
    rcases hl.live_in e hv with ⟨aj, j, r, hr, rfl⟩
    have := h.rows.locOf hr
    rw [hloc] at this
    cases this
    exact ⟨r, hr, rfl⟩
  · rintro aj j ⟨r, hr, rfl⟩ ⟨r', hr', he'⟩
    have := h.rows.unique hr' hr (by rw [he'])
    exact this

theorem liveInv_init' : LiveInv ({} : WM) := liveInv_init

theorem liveInv_create' (info : CompId → CompInfo) {w : WM} (h : RowInv w) (hl : LiveInv w) (ha : AllocOK w)
    (t : Nat) (mask : Mask) (sh : Shared) (hm : MaskOk mask) : LiveInv (w.create info t mask sh).1 :=
  liveInv_create info h.rows hl ha t mask sh hm

theorem liveInv_assign' (info : CompId → CompInfo) {w : WM} (h : RowInv w) (hl : LiveInv w) (t : Nat)
    (e : Handle) (c : CompId) (v : Option Nat) (hv : w.isValid e = true) :
    LiveInv (w.assign info t e c v).1 := liveInv_assign info h.rows hl t e c v hv

theorem liveInv_removeComp' (info : CompId → CompInfo) {w : WM} (h : RowInv w) (hl : LiveInv w) (t : Nat)
    (e : Handle) (c : CompId) : LiveInv (w.removeComp info t e c).1 := liveInv_removeComp info h.rows hl t e c

theorem liveInv_clone' {w : WM} (h : RowInv w) (hl : LiveInv w) (ha : AllocOK w) (e : Handle) :
    LiveInv (w.clone e).1 := liveInv_clone h.rows hl ha e

/-- `destroyNow`; C01 fact: the free-list head is not the id being destroyed -/
theorem liveInv_destroyNow' (info : CompId → CompInfo) {w : WM} (h : RowInv w) (hl : LiveInv w) (e : Handle)
    (hfree : FreeHeadNot w e.id) : LiveInv (w.destroyNowU info e).1 :=
  liveInv_destroyNowU info h.rows hl e hfree

example : FreeHeadNot s4 e1.id := by intro h; exact absurd (by decide) h

theorem liveInv_sassign' (info : CompId → CompInfo) {w : WM} (h : RowInv w) (hl : LiveInv w) (e : Handle)
    (sid value : Nat) (hv : w.isValid e = true) : LiveInv (w.sassign info e sid value).1 := by
  rcases hl.live_in e hv with ⟨ai, i, hrow⟩
  exact (sassign_outcome info h.rows e sid value hv (located_of_row h.rows hrow)).liveInv h.rows hl

theorem liveInv_sremove' (info : CompId → CompInfo) {w : WM} (h : RowInv w) (hl : LiveInv w) (e : Handle)
    (sid : Nat) : LiveInv (w.sremove info e sid).1 := by
  by_cases hv : w.isValid e = true
  · rcases hl.live_in e hv with ⟨ai, i, hrow⟩
    exact (sremove_outcome info h.rows e sid hv (located_of_row h.rows hrow)).liveInv h.rows hl
  · simp only [Bool.not_eq_true] at hv
    have : w.sremove info e sid = (w, false, []) := by simp [WM.sremove, hv]
    rw [this]; exact hl

theorem liveInv_buildUpdate' (info : CompId → CompInfo) {w : WM} (h : RowInv w) (hl : LiveInv w) (e : Handle)
    (adds : List (CompId × Option Nat)) (rems : Mask) (hv : w.isValid e = true) :
    LiveInv (w.buildUpdateU info e adds rems).1 := by
  rcases hl.live_in e hv with ⟨ai, i, hrow⟩
  exact (buildUpdateU_outcome info h.rows e adds rems hv (located_of_row h.rows hrow)).liveInv h.rows hl

theorem liveInv_buildNew' (info : CompId → CompInfo) {w : WM} (h : RowInv w) (hl : LiveInv w) (ha : AllocOK w)
    (adds : List (CompId × Option Nat)) : LiveInv (w.buildNewU info adds).1 :=
  liveInv_buildNewU info h.rows hl ha adds

/-! ## the deferred path -/

/-- `applyCommandPack`: any pack — creation of a reserved handle, or commands on an existing one,
destroyNow included — applied to a state where it meets `PackOK` (creation: non-null handle whose id
owns no row, sorted mask; otherwise: the target's location, if any, is its own row) -/
theorem rowInv_applyPack (info : CompId → CompInfo) {w : WM} (h : RowInv w) (pack : List Cmd)
    (hp : PackOK w pack) : RowInv (w.applyPack info pack).1 :=
  let r := applyPack_inv info h.rows h.keys pack hp
  ⟨r.1, r.2⟩

/-- `onUnlock`: the whole flush (every buffer, every pack), provided each pack meets `PackOK` in the
state it is applied to (`PacksOK`, an inductive walk along the fold) -/
theorem rowInv_flush (info : CompId → CompInfo) {w : WM} (h : RowInv w)
    (hp : PacksOK info (detached w) (w.buffers.map packs).flatten) : RowInv (w.flush info).1 :=
  let r := flush_inv info h.rows h.keys hp
  ⟨r.1, r.2⟩

/-- `unlock` at any depth -/
theorem rowInv_unlock (info : CompId → CompInfo) {w : WM} (h : RowInv w)
    (hp : PacksOK info (detached { w with lockDepth := w.lockDepth - 1 }) (w.buffers.map packs).flatten) :
    RowInv (w.unlock info).1 := by
  unfold WM.unlock
  by_cases hd : w.lockDepth > 0
  · simp only [hd, if_true]
    split
    · have h' : RowInv { w with lockDepth := w.lockDepth - 1 } :=
        ⟨@rowsOK_congr w _ rfl rfl h.rows, @keysOK_congr w _ rfl h.keys⟩
      exact rowInv_flush info h' hp
    · exact ⟨@rowsOK_congr w _ rfl rfl h.rows, @keysOK_congr w _ rfl h.keys⟩
  · simp only [hd, if_false]
    have h0 : w.lockDepth = 0 := by omega
    have hw : ({ w with lockDepth := w.lockDepth - 1 } : WM) = w := by
      cases w; simp at h0 ⊢; omega
    rw [hw] at hp
    simp only [h0, if_true]
    exact rowInv_flush info h hp

/-- a locked section on `s4`: assign B to e1 and destroy e2, recorded, then flushed -/
def s4locked : WM :=
  let w := s4.lock
  let (w, _, _) := w.assign cat 0 e1 1 (some 5)
  (w.destroyNow cat 0 e2).1

example : PackOK s4locked [Cmd.assign e1 1 (some 5)] :=
  located_of_row (w := s4locked) (rowsOK_of_check (by decide)) (inRowAt_of_check (by decide) : InRowAt s4locked e1 2 0)
example : ((s4locked.unlock cat).1.arch 2).rows.map (·.ent.id) = [3] ∧
    (s4locked.unlock cat).1.getComp e1 1 = some (some 5) ∧
    (s4locked.unlock cat).1.getComp e3 2 = some (some 33) := by decide

/-! ## the id-table hypotheses in terms of the C01 invariant -/

/-- `AllocOK` follows from: rows = live handles (`LiveInv`), `locations_` covers `entities_`, fewer
slots than the null id, and C01's `freelist_wf` fact that a non-empty free list starts at a table slot
which does not store its own id -/
theorem allocOK_from_c01 {w : WM} (hl : LiveInv w) (hcov : w.slots.length ≤ w.locs.length)
    (hsmall : w.slots.length < nullId) (hhead : FreeHeadFree w) : AllocOK w :=
  allocOK_of_table hl hcov hsmall hhead

theorem freeHeadNot_from_c01 {w : WM} (hhead : FreeHeadFree w) {e : Handle} (hv : w.isValid e = true) :
    FreeHeadNot w e.id := freeHeadNot_of_table hhead hv

theorem s4_live : LiveInv s4 := by
  constructor
  · intro e hv
    rcases isValid_slot hv with ⟨s, hs, hidf, hver⟩
    have hw : e.world = 0 := by
      have := hv; unfold WM.isValid at this
      simp only [Bool.and_eq_true, beq_iff_eq] at this
      exact this.1.2
    have hlt : e.id < 4 := (List.getElem?_eq_some_iff.mp hs).1
    have hcase : e.id = 0 ∨ e.id = 1 ∨ e.id = 2 ∨ e.id = 3 := by omega
    have hver0 : e.ver = 0 := by
      rcases hcase with h | h | h | h <;> rw [h] at hs <;> (cases hs; exact hver.symm)
    have he : e = ⟨e.id, 0, 0⟩ := by cases e; simp_all
    rcases hcase with h | h | h | h <;> rw [h] at he <;> rw [he]
    · exact ⟨0, 0, inRowAt_of_check (by decide)⟩
    · exact ⟨2, 0, inRowAt_of_check (by decide)⟩
    · exact ⟨2, 1, inRowAt_of_check (by decide)⟩
    · exact ⟨2, 2, inRowAt_of_check (by decide)⟩
  · intro ai i r hr
    exact allRows_sound (w := s4) (p := fun _ _ r => s4.isValid r.ent) (by decide) hr

example : FreeHeadFree s4 ∧ s4.slots.length ≤ s4.locs.length ∧ s4.slots.length < nullId :=
  ⟨fun h => absurd (by decide) h, by decide, by decide⟩

/-! ## what is left here (and where it is proved)

The two statements below are kept visible at full strength.  They are NOT proved in this file in this form (from
`RowInv`/`LiveInv` alone); they ARE proved for every state a history within the contract reaches, and for every state that
satisfies the refinement invariant `Inv` and is related to a spec state, in `Props/Refinement.lean`:
`rows_live_every_prefix`, `liveInv_through_flush`, `liveInv_through_clear_update` (audited with this property). -/

/-- `PacksOK` discharged from the invariants instead of assumed: needs `LiveInv` (and the C01 facts
about reserved handles) carried through `applyCommandPack` -/
def liveInv_flush_statement : Prop :=
  ∀ (info : CompId → CompInfo) (w : WM) (pack : List Cmd), RowInv w → LiveInv w → PackOK w pack →
    LiveInv (w.applyPack info pack).1

/-- `LiveInv` through `clearArchetype` and `update` (each released id needs the C01 free-list fact at
the moment it is released) -/
def liveInv_clear_update_statement : Prop :=
  ∀ (info : CompId → CompInfo) (w : WM) (ai : Nat), RowInv w → LiveInv w → FreeHeadFree w →
    LiveInv (w.clearArch info ai).1 ∧ LiveInv (w.update info).1

end Mustache.Props.C02

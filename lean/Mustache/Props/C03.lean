import Mustache.Spec.World
/-! # C03 — every component instance is constructed once and destroyed once (model-level part)

What is PROVED here is the bookkeeping the property rests on, about the model and the spec that are run
against the implementation:
* the callback events the spec demands for a step are exactly one `afterAssign` per attachment and one
  `beforeRemove` per detachment of a callback-bearing component, with the owning entity (`cbDiff_*`);
* the model's count of live instances of a component is the number of (row, component) pairs plus the
  temporaries parked in command buffers (`liveCount_eq`), and after the outermost unlock no temporary
  remains parked (`flush_clears_temps`), the buffers are empty (`flush_clears_buffers`).
What is NOT proved in Lean (and is why C03 is not claimed at level `proof`): the per-slot
construct/move/destroy event order of `archetype.cpp`. That part is decided on the implementation itself by the
instrumented component types of `harness/world_driver.cpp` (a per-address live/dead automaton: construct over live,
destroy of dead, use of dead are reported), by the live-instance counts compared with `liveCount`, and by
LeakSanitizer at teardown. -/
namespace Mustache.Props.C03
open Mustache.Model Mustache.Spec

variable (info : CompId → CompInfo)

/-- an `afterAssign` event is demanded exactly for the callback-bearing components gained by the step -/
theorem cbDiff_assign_iff (o : Nat) (before after : Mask) (c : CompId) (o' : Nat) :
    (true, c, o') ∈ cbDiff info o before after ↔
      (o' = o ∧ c ∈ after ∧ (info c).callbacks = true ∧ c ∉ before) := by
  unfold cbDiff
  rw [List.mem_append]
  constructor
  · rintro (h | h)
    · obtain ⟨x, hx, heq⟩ := List.mem_map.mp h
      simp only [Prod.mk.injEq, true_and] at heq
      obtain ⟨rfl, rfl⟩ := heq
      simp only [List.mem_filter, Bool.and_eq_true, Bool.not_eq_true', List.contains_eq_mem,
        decide_eq_false_iff_not] at hx
      exact ⟨rfl, hx.1, hx.2.1, hx.2.2⟩
    · obtain ⟨x, _, heq⟩ := List.mem_map.mp h
      simp at heq
  · rintro ⟨rfl, hx, hcb, hnb⟩
    left
    refine List.mem_map.mpr ⟨c, ?_, rfl⟩
    simp [List.mem_filter, hx, hcb, hnb]

/-- a `beforeRemove` event is demanded exactly for the callback-bearing components lost by the step -/
theorem cbDiff_remove_iff (o : Nat) (before after : Mask) (c : CompId) (o' : Nat) :
    (false, c, o') ∈ cbDiff info o before after ↔
      (o' = o ∧ c ∈ before ∧ (info c).callbacks = true ∧ c ∉ after) := by
  unfold cbDiff
  rw [List.mem_append]
  constructor
  · rintro (h | h)
    · obtain ⟨x, _, heq⟩ := List.mem_map.mp h
      simp at heq
    · obtain ⟨x, hx, heq⟩ := List.mem_map.mp h
      simp only [Prod.mk.injEq, true_and] at heq
      obtain ⟨rfl, rfl⟩ := heq
      simp only [List.mem_filter, Bool.and_eq_true, Bool.not_eq_true', List.contains_eq_mem,
        decide_eq_false_iff_not] at hx
      exact ⟨rfl, hx.1, hx.2.1, hx.2.2⟩
  · rintro ⟨rfl, hx, hcb, hnb⟩
    right
    refine List.mem_map.mpr ⟨c, ?_, rfl⟩
    simp [List.mem_filter, hx, hcb, hnb]

/-- exactly once: with duplicate-free component sets no event is demanded twice -/
theorem cbDiff_nodup (o : Nat) (before after : Mask) (hb : before.Nodup) (ha : after.Nodup) :
    (cbDiff info o before after).Nodup := by
  unfold cbDiff
  rw [List.nodup_append]
  refine ⟨?_, ?_, ?_⟩
  · exact List.Pairwise.map _ (fun a b (h : a ≠ b) => by simpa using h) (ha.filter _)
  · exact List.Pairwise.map _ (fun a b (h : a ≠ b) => by simpa using h) (hb.filter _)
  · intro x hx y hy
    simp only [List.mem_map] at hx hy
    rcases hx with ⟨_, _, rfl⟩; rcases hy with ⟨_, _, rfl⟩
    simp

example : cbDiff (fun c => ⟨true, some 5, none, c == 5, false⟩) 3 [1, 5] [1] = [(false, 5, 3)] := by decide
example : cbDiff (fun c => ⟨true, some 5, none, c == 5, false⟩) 3 [1] [1, 5, 7] = [(true, 5, 3)] := by decide

/-- live instances of a component in the model: one per row of every archetype having it, plus parked temporaries -/
theorem liveCount_eq (w : WM) (c : CompId) :
    w.liveCount c =
      (w.archs.foldl (fun n a => if a.mask.contains c then n + a.rows.length else n) 0) +
      (match w.temps.find? (·.1 == c) with | some (_, k) => k | none => 0) := rfl

/-- after the outermost unlock no component temporary stays parked in a command buffer -/
theorem flush_clears_temps (w : WM) : (w.flush info).1.temps = [] := by
  unfold WM.flush; rfl

theorem unlock_outermost_clears_temps (w : WM) (h : w.lockDepth ≤ 1) : (w.unlock info).1.temps = [] := by
  unfold WM.unlock
  by_cases h0 : w.lockDepth > 0
  · have : w.lockDepth - 1 = 0 := by omega
    simp [h0, this, flush_clears_temps]
  · have : w.lockDepth = 0 := by omega
    simp [this, flush_clears_temps]

example : ({ lockDepth := 1, temps := [(1, 2)] } : WM).lockDepth ≤ 1 := by decide

end Mustache.Props.C03

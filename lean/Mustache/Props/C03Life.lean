import Mustache.Proofs.LifeCheck
import Mustache.Proofs.LifeTempsStep
import Mustache.Driver.World
/-!
# C03 — every component instance is constructed once and destroyed once: the lifecycle event log

Model: `Model/Lifecycle.lean`. `WM.events info w op` lists, in the order of the C++, the constructor / copy- /
move-constructor / move-assignment / destructor calls of one API call on state `w` (slots = (archetype, component,
row) and (thread, command number) for temporaries parked in command buffers); `accepts` is the per-slot automaton
dead → live → dead (construct only over a dead slot; destroy, move-from, copy-from and move-assign-to only on live
slots; a moved-from instance stays live until destroyed); `slotsOf w` is the live-slot set the state `w` implies:
`{(a,c,i) | c ∈ mask a ∧ i < |rows a|}` ∪ one slot per recorded `assign` command.

Tie to the code: `harness/world_driver.cpp` (`events on`) prints after every call the numbers of special-member
calls of the instrumented types B and G; `driver world` prints the same counts from `WM.events`; tools/props/c03.py
diffs them on every op file.

Well-formedness (`StepOk`): `MasksOk w` (archetype masks sorted, duplicate-free: clause 4 of `C02.RowInv`) and
`OpOk info w op`, the contract of DESIGN.md 3.3 on the model state: unguarded entry points (`assign`, builder
`end()`, `assignShared`) get an entity whose location is a row of its archetype (`LocIn`, a consequence of
`C02.Located`); `assign<C>(e, args)` / builder `assign<C>` only for a component the entity lacks, builder arguments
pairwise distinct; calls recorded under lock come from a thread that owns a command buffer; every pack flushed by
the outermost `unlock` meets `PackLifeOK` in the state it is applied to (creation: sorted mask; other packs: the
target, if still valid, sits at a row of its archetype: `C02.PackOK`). NOTHING is assumed about archetype masks being
closed under the dependency table: a dependency may be declared after an archetype holding the master exists (an
entity whose set a pack does not change stays in its archetype without a lookup; a changed set is looked up whatever
the old mask was), see `lateHist` below.
-/
namespace Mustache.Props.C03Life
open Mustache.Model Mustache.Proofs.Life Mustache.Proofs.Rows

abbrev cat := Mustache.Driver.World.catalogue

variable (info : CompId → CompInfo)

/-! ## the automaton really rejects -/

example : accepts SlotState.empty [.construct (.stored 0 1 0), .construct (.stored 0 1 0)] = none := by decide
example : accepts SlotState.empty [.destroy (.stored 0 1 0)] = none := by decide
example : accepts SlotState.empty [.construct (.stored 0 1 0), .destroy (.stored 0 1 0), .destroy (.stored 0 1 0)] = none := by
  decide
example : accepts SlotState.empty [.moveConstruct (.stored 0 1 0) (.temp 0 0 1)] = none := by decide
example : (accepts SlotState.empty [.construct (.temp 0 0 1), .moveConstruct (.stored 0 1 0) (.temp 0 0 1),
    .destroy (.temp 0 0 1)]).map (fun s => (s (.stored 0 1 0), s (.temp 0 0 1))) = some (true, false) := by decide

/-! ## one call -/

/-- the lifecycle events of ONE API call on a well-formed state are accepted by the per-slot automaton, started
from the live-slot set of the state before, and end in the live-slot set of the model's next state -/
theorem step_events_accepted (w : WM) (op : Op Handle) (h : StepOk info w op) :
    accepts (slotsOf w) (w.events info op) = some (slotsOf (w.step info op).1) :=
  step_accepts info w op h.1 h.2

/-- the three archetype primitives, any state, any frame of parked temporaries -/
theorem archInsert_events_accepted (w : WM) (ai : Nat) (e : Handle) (hai : ai < w.archs.length)
    (hm : MasksOk w) :
    accepts (slotsOf w) (w.archInsertEvents ai []) = some (slotsOf (w.archInsert info ai e []).1) := by
  have := archInsert_accepts info w (tempLive w.buffers) (tempOnly_tempLive _) ai e [] hai (maskOk_nodup (hm ai))
  rw [filter_contains_nil] at this
  rw [slotsOf_eq_live, slotsOf_eq_live, (archInsert_sameTable info w ai e []).buffers, this]
  simp [colSlots, removeAll_nil]

/-- `Archetype::remove`: last row, any other row (move-assign from the last row, then destroy it), or an index
outside the archetype (nothing happens) -/
theorem archRemove_events_accepted (w : WM) (ai idx : Nat) (sk : Mask) (hm : MasksOk w) :
    accepts (slotsOf w) (w.archRemoveEvents ai idx) = some (slotsOf (w.archRemove info ai idx sk).1) := by
  rw [slotsOf_eq_live, slotsOf_eq_live, (archRemove_sameTable info w ai idx sk).buffers]
  exact archRemove_accepts info w _ (tempOnly_tempLive _) ai idx sk (maskOk_nodup (hm ai))

/-- `Archetype::externalMove` without skip mask: move-construct what the source has, construct the rest, then the
swap-remove of the source row -/
theorem externalMove_events_accepted (w : WM) (t : Nat) (e : Handle) (p idx : Nat) (htp : t ≠ p)
    (ht : t < w.archs.length) (hidx : idx < (w.arch p).rows.length) (hm : MasksOk w) :
    ∃ w' cbs, w.externalMove info t e p idx [] = some (w', cbs) ∧
      accepts (slotsOf w) (w.externalMoveEvents t p idx []) = some (slotsOf w') := by
  rcases externalMove_shape info w t e p idx [] htp ht hidx with ⟨w', cbs, heq, _, _, _, hst⟩
  refine ⟨w', cbs, heq, ?_⟩
  have := externalMove_accepts info w (tempLive w.buffers) (tempOnly_tempLive _) t e p idx [] htp ht hidx
    (maskOk_nodup (hm t)) (maskOk_nodup (hm p)) w' cbs heq
  rw [filter_and_contains_nil] at this
  rw [slotsOf_eq_live, slotsOf_eq_live, hst.buffers, this]
  simp [colSlots, removeAll_nil]

/-- `onUnlock`: the supplied values are move-constructed out of the buffers, then every temporary is destroyed -/
theorem flush_events_accepted (w : WM) (hm : MasksOk w)
    (hok : PacksLifeOK info (detached w) (w.buffers.map packs).flatten) :
    accepts (slotsOf w) (w.flushEvents info) = some (slotsOf (w.flush info).1) :=
  (flush_accepts info w hm hok).1

/-! ## histories -/

/-- for every history whose calls meet their preconditions, the whole event log is accepted and ends in the
live-slot set of the final state: nothing is constructed over a live instance, nothing dead is destroyed, moved
from or assigned to, and what is live at the end is exactly what the final state holds -/
theorem run_events_accepted (w : WM) (ops : List (Op Handle)) (h : RunOk info w ops) :
    accepts (slotsOf w) (runEvents info w ops) = some (slotsOf (run info w ops)) :=
  (run_accepts info w ops h).1

/-- from the empty world -/
theorem slotsOf_init : slotsOf ({} : WM) = SlotState.empty := by
  funext y; cases y <;> rfl

theorem run_events_accepted_init (ops : List (Op Handle)) (h : RunOk info {} ops) :
    accepts SlotState.empty (runEvents info {} ops) = some (slotsOf (run info {} ops)) := by
  rw [← slotsOf_init]; exact run_events_accepted info {} ops h

/-- world teardown at ANY point of a history (also while locked, with non-empty command buffers): after the
destructor calls of the teardown no slot is live -/
theorem teardown_leaves_nothing (w : WM) (ops : List (Op Handle)) (h : RunOk info w ops) :
    accepts (slotsOf w) (runEvents info w ops ++ (run info w ops).teardownEvents) = some SlotState.empty :=
  accepts_append_of (run_accepts info w ops h).1 (teardown_accepts info _ (run_accepts info w ops h).2)

/-- consequence, in the words of the property: along an accepted log every `construct` of a slot is followed by
exactly one `destroy` of it before the next `construct`, and a log that ends in the empty set has as many
destructions as constructions -/
theorem balanced_of_accepted (evs : List Event) (s s' : SlotState) (h : accepts s evs = some s') (xs : List LSlot)
    (hs : ∀ y, s y = true ↔ y ∈ xs) (hnd : xs.Nodup) (hs' : s' = SlotState.empty) :
    xs.length + createCount evs = destroyCount evs :=
  accepted_balanced evs s s' h xs hs hnd hs'

/-! ## live counts -/

/-- the live slots of component `c` are enumerated without repetition by `liveSlotsOf w c` -/
theorem liveSlotsOf_spec (w : WM) (c : CompId) (hm : MasksOk w) :
    (∀ y, y ∈ liveSlotsOf w c ↔ (slotsOf w y = true ∧ y.comp = c)) ∧ (liveSlotsOf w c).Nodup :=
  ⟨mem_liveSlotsOf w c, liveSlotsOf_nodup w c hm⟩

/-- `|slotsOf w restricted to c| = w.liveCount c` whenever the model's counter of parked temporaries of `c` agrees
with the command buffers (`TempsAgree`; for the instrumented components an invariant of every call: `temps_agree_step`) -/
theorem live_count_eq (w : WM) (c : CompId) (ht : TempsAgree w c) :
    (liveSlotsOf w c).length = w.liveCount c :=
  liveSlots_length w c ht

/-- the counter of parked temporaries stays in agreement with the command buffers along every call -/
theorem temps_agree_step (w : WM) (op : Op Handle) (hop : OpOk info w op) (h : TempsInv info w) :
    TempsInv info (w.step info op).1 :=
  tempsInv_step info w op hop h

/-- after every history from the empty world: the live slots of an instrumented component `c` are as many as the
model's live-instance count (what the drivers print as `L B=… G=…` and compare with the implementation) -/
theorem live_count_eq_run (ops : List (Op Handle)) (h : RunOk info {} ops) (c : CompId)
    (hc : (info c).counted = true) :
    (liveSlotsOf (run info {} ops) c).length = (run info {} ops).liveCount c :=
  live_count_eq _ c (tempsInv_agree (tempsInv_run info {} ops h (tempsInv_init info)) c hc)

/-! ## the preconditions in the vocabulary of C02 -/

/-- clause 4 of `C02.RowInv` (`KeysOK`) gives the mask hypothesis -/
theorem masksOk_of_rowInv_keys {w : WM} (hk : KeysOK w) : MasksOk w := masksOk_of_keys hk

/-- `C02.Located` (the operand's location is its own row) gives `LocIn` -/
theorem locIn_of_located' {w : WM} {e : Handle} (h : Located w e) : LocIn w e := locIn_of_located h

/-- `C02.PackOK` alone gives `PackLifeOK` (no closedness of the archetype masks under the dependency table, no
uniqueness of keys) -/
theorem packLifeOK_of_packOK {w : WM} (pack : List Cmd) (hp : PackOK w pack) : PackLifeOK w pack := by
  have hnc : ∀ first : Cmd, Located w first.entity →
      (w.isValid first.entity = true → ∀ pi, (w.locOf first.entity).arch = some pi →
        TargetOK w first.entity pi) := by
    intro first hloc _ pi hpi
    exact ⟨locIn_of_located hloc pi hpi⟩
  cases pack with
  | nil => trivial
  | cons first rest =>
    cases first with
    | create e m s => exact hp.2.2
    | destroyNow e => exact hnc _ hp
    | destroy e => exact hnc _ hp
    | remove e c => exact hnc _ hp
    | assign e c v => exact hnc _ hp

/-! ## non-vacuity: a concrete history through every kind of call -/

def e0 : Handle := ⟨0, 0, 0⟩
def e1 : Handle := ⟨1, 0, 0⟩
def e2 : Handle := ⟨2, 0, 0⟩
def e3 : Handle := ⟨3, 0, 0⟩

/-- B = 1, G = 6, H = 7 of the harness catalogue -/
def hist : List (Op Handle) :=
  [ .create 0 [1] [], .create 0 [1, 6] [], .assign 0 e0 6 (some 5), .create 0 [1] [], .create 0 [1] [],
    .destroyNow 0 e2, .clone e1, .lock, .assign 0 e3 6 (some 7), .remove 0 e3 1, .buildNew 0 [(1, some 3)],
    .assign 0 e0 7 none, .unlock, .build 0 e0 [(2, none)] [1], .destroy 0 e1, .update, .clearArch [1, 6] ]

example : RunOk cat {} hist := runOk_of_check cat hist {} (by decide)
example : StepOk cat (run cat {} (hist.take 12)) .unlock :=
  ⟨(run_accepts cat {} (hist.take 12) (runOk_of_check cat _ {} (by decide))).2,
   opOk_of_check cat _ .unlock (by decide)⟩
/-- (constructs, move-constructs, move-assigns, destroys) of B and of G along the history: every kind occurs -/
example : evCount (runEvents cat {} hist) 1 = (6, 3, 3, 8) ∧ evCount (runEvents cat {} hist) 6 = (4, 3, 2, 5) := by
  decide
example : (evCount ((run cat {} hist).teardownEvents) 1, evCount ((run cat {} hist).teardownEvents) 6) =
    ((0, 0, 0, 1), (0, 0, 0, 2)) := by decide
example : (run cat {} (hist.take 12)).liveCount 6 = 4 ∧
    (liveSlotsOf (run cat {} (hist.take 12)) 6).length = 4 := by decide
example : (cat 6).counted = true ∧ (cat 1).counted = true := by decide
example : PackOK (run cat {} (hist.take 8)) [Cmd.assign e3 6 (some 7)] ∧ KeysOK (run cat {} (hist.take 8)) :=
  ⟨located_of_row (rowsOK_of_check (by decide)) (inRowAt_of_check (by decide) : InRowAt _ e3 0 0),
   keysOK_of_check (by decide)⟩

/-! ## a dependency declared AFTER an archetype holding the master exists -/

/-- `e0` is created with B; then "B requires G" is declared (the archetype {B} stays as it is, its mask is no longer
closed under the table); under lock H is assigned to `e0` with a value, B is re-assigned (stale instance replaced in
place) of a second entity `e1`, whose set does not change: it stays in the unclosed {B} (destroy + move-construct in
row 0 of archetype 0, G is NOT added), while the flush moves `e0` to {B,G,H}; a second round re-assigns B of `e1`
again and destroys `e0` -/
def lateHist : List (Op Handle) :=
  [ .create 0 [1] [], .create 0 [1] [], .dep 1 [6], .lock, .assign 0 e0 7 (some 9), .assign 0 e1 1 (some 4), .unlock,
    .lock, .assign 0 e1 1 (some 5), .destroy 0 e0, .unlock, .update ]

/-- the hypotheses of `run_events_accepted_init` hold for it … -/
example : RunOk cat {} lateHist := runOk_of_check cat lateHist {} (by decide)
/-- … although the archetype the deferred commands find the entities in is NOT closed under the table -/
example : let w := run cat {} (lateHist.take 6)
    (w.locOf e0).arch = some 0 ∧ (w.arch 0).mask = [1] ∧ closedMask w.deps (w.arch 0).mask = [1, 6] := by decide
/-- after the first flush `e0` sits in {B,G,H}, `e1` still in the unclosed {B} -/
example : let w := run cat {} (lateHist.take 7)
    ((w.locOf e0).arch.map (fun a => (w.arch a).mask), (w.locOf e1).arch.map (fun a => (w.arch a).mask)) =
      (some [1, 6, 7], some [1]) := by decide
example : accepts SlotState.empty (runEvents cat {} lateHist) = some (slotsOf (run cat {} lateHist)) :=
  run_events_accepted_init cat lateHist (runOk_of_check cat lateHist {} (by decide))
example : accepts SlotState.empty (runEvents cat {} lateHist ++ (run cat {} lateHist).teardownEvents) =
    some SlotState.empty := by
  have := teardown_leaves_nothing cat {} lateHist (runOk_of_check cat lateHist {} (by decide))
  rwa [slotsOf_init] at this
/-- the counts of B and G along it and at teardown -/
example : (evCount (runEvents cat {} lateHist) 1, evCount (runEvents cat {} lateHist) 6,
    evCount ((run cat {} lateHist).teardownEvents) 1, evCount ((run cat {} lateHist).teardownEvents) 6) =
    ((4, 3, 1, 6), (1, 0, 0, 1), (0, 0, 0, 1), (0, 0, 0, 0)) := by decide

end Mustache.Props.C03Life

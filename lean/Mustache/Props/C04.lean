import Mustache.Proofs.IterRun

/-! # C04 — iteration visits each selected entity exactly once, with its own data

Theorems about the iteration model `Mustache.Iteration` (`Model/Iteration.lean`), for ALL archetype lists,
populations, version-chunk sizes ≥ 1, changed-chunk predicates, storage capacities ≥ 1, task counts
(`runJob` applies `max 1`, so every `taskCount : Nat` is covered, in particular `N+1` and beyond) and all
three run modes.  "Own handle, own data, null for an absent optional component, the archetype's shared
values" is the row invariant of the world model (entity `i` of archetype `a` is row `i` of `a`) composed
with `tasks_partition`: the callback of array element `j` of `⟨a, first, len⟩` is handed row `first + j` of
archetype `a`; the harness checks exactly that on the implementation. -/
namespace Mustache.Props.C04
open Mustache.Iteration

/-- the contract (DESIGN 3.3): version-chunk sizes and storage capacities are at least 1 -/
def Valid (archs : List ArchCfg) : Prop := ∀ a ∈ archs, 1 ≤ a.cs ∧ 1 ≤ a.cap

/-- `filterArchetype`: the blocks are non-empty, inside the population, ascending and separated, and they
cover exactly the entities whose version chunk is changed; flattened they are that set in ascending order. -/
theorem blocks_exact (size cs : Nat) (changed : Nat → Bool) (hcs : 1 ≤ cs) :
    (∀ x ∈ blocks size cs changed, x.b < x.e ∧ x.e ≤ size) ∧
    (blocks size cs changed).Pairwise (fun x y => x.e < y.b) ∧
    (∀ i, (∃ x ∈ blocks size cs changed, x.b ≤ i ∧ i < x.e) ↔ (i < size ∧ changed (i / cs) = true)) ∧
    (blocks size cs changed).flatMap Block.range = (List.range size).filter (fun i => changed (i / cs)) := by
  have hok := blocks_ok size cs changed hcs
  exact ⟨hok.mem, hok.sep.1, blocks_covers size cs changed hcs, blocks_flat_eq size cs changed hcs⟩

example : blocks 7 2 (fun c => c != 1) = [⟨0, 2⟩, ⟨4, 7⟩] := by decide
example : (blocks 7 2 (fun c => c != 1)).flatMap Block.range = [0, 1, 4, 5, 6] := by decide

/-- Concatenating, in task order, the arrays of every task yields exactly the selected sequence (per
matching archetype in index order, per block, ascending): every selected entity exactly once, nothing else. -/
theorem tasks_partition (archs : List ArchCfg) (hv : Valid archs) (req reqShared : List Nat)
    (mode : Mode) (taskCount : Nat) :
    ((runJob mode (applyFilter req reqShared archs 0) taskCount).flatMap (·.arrays)).flatMap Arr.expand =
      selected req reqShared archs 0 := by
  have hwf := applyFilter_wf req reqShared archs hv
  have hsel := (applyFilter_spec req reqShared archs 0 hv).2.2
  generalize applyFilter req reqShared archs 0 = fr at *
  rw [← hsel]
  by_cases h0 : totalCount fr < 1
  · rw [gsel_nil_of_zero fr hwf h0]; simp [runJob, h0]
  · obtain ⟨g1, g2, _⟩ := runTaskInfos_good mode fr hwf taskCount
    rw [runJob_eq mode fr taskCount h0, assignStarts_arrays, List.flatMap_assoc, ← g1]
    exact flatMap_congr' _ _ _ (fun t ht => (g2 t ht).1.1)

/-- The same for `TaskGroup::make(filter_result, T)` directly, every `T ≥ 1`. -/
theorem tasks_partition_T (archs : List ArchCfg) (hv : Valid archs) (req reqShared : List Nat)
    (T : Nat) (hT : 1 ≤ T) :
    ((runTasks (applyFilter req reqShared archs 0) T).flatMap
        (taskArrays (applyFilter req reqShared archs 0))).flatMap Arr.expand =
      selected req reqShared archs 0 := by
  have hwf := applyFilter_wf req reqShared archs hv
  have hsel := (applyFilter_spec req reqShared archs 0 hv).2.2
  generalize applyFilter req reqShared archs 0 = fr at *
  obtain ⟨g1, g2, _⟩ := runTasks_good fr hwf T hT
  rw [← hsel, List.flatMap_assoc, ← g1]
  exact flatMap_congr' _ _ _ (fun t ht => (g2 t ht).1.1)

/-- a world used by the examples: two matching archetypes (the second spans three storage chunks and has a
clean middle version chunk), one archetype without the required component, one empty archetype -/
def exampleArchs : List ArchCfg :=
  [⟨[0], [], 3, 2, 2, true, fun _ => true⟩, ⟨[1], [], 4, 2, 2, true, fun _ => true⟩,
   ⟨[0, 1], [], 0, 2, 2, true, fun _ => true⟩, ⟨[0, 2], [], 5, 2, 2, true, fun c => c != 1⟩]

example : Valid exampleArchs := by unfold Valid; decide
example : selected [0] [] exampleArchs 0 = [(0, 0), (0, 1), (0, 2), (3, 0), (3, 1), (3, 4)] := by decide
example : (runJob .parallel (applyFilter [0] [] exampleArchs 0) 4).map (·.arrays) =
    [[⟨0, 0, 2⟩], [⟨0, 2, 1⟩, ⟨3, 0, 1⟩], [⟨3, 1, 1⟩], [⟨3, 4, 1⟩]] := by decide
/-- more tasks than entities: the surplus tasks are empty -/
example : (runJob .parallel (applyFilter [0] [] exampleArchs 0) 7).map (·.size) = [1, 1, 1, 1, 1, 1, 0] := by
  decide

/-- Every array handed out is non-empty, lies inside the population of its archetype, inside one filter
block and inside one storage chunk; the arrays of a task total the task's size; the arrays of one run are
pairwise disjoint. -/
theorem arrays_wellformed (archs : List ArchCfg) (hv : Valid archs) (req reqShared : List Nat)
    (mode : Mode) (taskCount : Nat) :
    (∀ t ∈ runJob mode (applyFilter req reqShared archs 0) taskCount, ∀ x ∈ t.arrays,
      1 ≤ x.len ∧
      ∃ a, archs[x.arch]? = some a ∧ matchArch req reqShared a = true ∧
        x.first + x.len ≤ a.size ∧
        (∃ b ∈ blocks a.size a.cs a.changed, b.b ≤ x.first ∧ x.first + x.len ≤ b.e) ∧
        x.first / a.cap = (x.first + x.len - 1) / a.cap) ∧
    (∀ t ∈ runJob mode (applyFilter req reqShared archs 0) taskCount, (t.arrays.map Arr.len).sum = t.size) ∧
    ((runJob mode (applyFilter req reqShared archs 0) taskCount).flatMap (·.arrays)).Pairwise Arr.Disjoint := by
  have hwf := applyFilter_wf req reqShared archs hv
  have horig := applyFilter_origin req reqShared archs 0
  have hpart := tasks_partition archs hv req reqShared mode taskCount
  have hsel := (applyFilter_spec req reqShared archs 0 hv).2.2
  generalize applyFilter req reqShared archs 0 = fr at *
  by_cases h0 : totalCount fr < 1
  · simp [runJob, h0]
  · obtain ⟨_, g2, _⟩ := runTaskInfos_good mode fr hwf taskCount
    rw [runJob_eq mode fr taskCount h0] at hpart ⊢
    have hA : ∀ t ∈ assignStarts fr true (runTaskInfos mode fr taskCount) 0 0, ∀ x ∈ t.arrays,
        1 ≤ x.len ∧
        ∃ a, archs[x.arch]? = some a ∧ matchArch req reqShared a = true ∧
          x.first + x.len ≤ a.size ∧
          (∃ b ∈ blocks a.size a.cs a.changed, b.b ≤ x.first ∧ x.first + x.len ≤ b.e) ∧
          x.first / a.cap = (x.first + x.len - 1) / a.cap := by
      intro t ht x hx
      obtain ⟨ti, hti, harr, _⟩ := assignStarts_mem fr true _ _ _ t ht
      rw [harr, taskArrays, List.mem_flatMap] at hx
      obtain ⟨p, hp, hxp⟩ := hx
      have hpok := (g2 ti hti).2 p hp
      obtain ⟨hx1, hx2⟩ := (pieceArrays_spec fr hwf.each p hpok).2 x hxp
      have hmem : fr.getD p.a default ∈ fr := by
        rw [List.getD_eq_getElem?_getD, List.getElem?_eq_getElem hpok.1]; simp
      obtain ⟨a, ha1, _, ha2, ha3, ha4, ha5⟩ := horig _ hmem
      obtain ⟨k1, k2, k3, b, hb, k4, k5⟩ := hx2
      rw [Nat.sub_zero, ← hx1] at ha1
      rw [ha3] at k2
      rw [ha4] at k3
      rw [ha5] at hb
      exact ⟨k1, a, ha1, ha2, k2, ⟨b, hb, k4, k5⟩, k3⟩
    refine ⟨hA, ?_, ?_⟩
    · intro t ht
      obtain ⟨ti, hti, harr, hsz⟩ := assignStarts_mem fr true _ _ _ t ht
      rw [harr, hsz]; exact (g2 ti hti).1.2
    · apply disjoint_of_nodup
      · intro x hx
        rw [List.mem_flatMap] at hx
        obtain ⟨t, ht, hxt⟩ := hx
        exact (hA t ht x hxt).1
      · rw [hpart, ← hsel]; exact gsel_nodup fr hwf

/-- Index safety of the cursors (and the termination argument of the model's loops): every step of the
range-for over an `ArchetypeGroup` indexes an existing filtered archetype, is non-empty and stays inside
the selected entities of that archetype — so the fuel handed to the loops (the task / piece size) suffices. -/
theorem pieces_in_bounds (archs : List ArchCfg) (hv : Valid archs) (req reqShared : List Nat)
    (mode : Mode) (taskCount : Nat) :
    ∀ t ∈ runTaskInfos mode (applyFilter req reqShared archs 0) taskCount,
      ∀ p ∈ taskPieces (applyFilter req reqShared archs 0) t,
        p.a < (applyFilter req reqShared archs 0).length ∧ 1 ≤ p.size ∧
        p.e + p.size ≤ ((applyFilter req reqShared archs 0).getD p.a default).count := by
  have hwf := applyFilter_wf req reqShared archs hv
  intro t ht p hp
  exact ((runTaskInfos_good mode _ hwf taskCount).2.1 t ht).2 p hp

/-- with more tasks than entities the surplus tasks start one past the last filtered archetype: the
constructor of `ArchetypeGroup` must not index `filtered_archetypes` there (pinned tree: it did; repaired by
`patches/fix-c04-archetype-group-oob.diff`, the guard `AG.make` models) -/
example : (runTaskInfos .parallel (applyFilter [0] [] exampleArchs 0) 7).map (·.firstArch) = [0, 0, 0, 1, 1, 1, 2]
    ∧ (applyFilter [0] [] exampleArchs 0).length = 2 := by decide

example : (runJob .parallel (applyFilter [0] [] exampleArchs 0) 2).map (·.arrays) =
    [[⟨0, 0, 2⟩, ⟨0, 2, 1⟩], [⟨3, 0, 2⟩, ⟨3, 4, 1⟩]] := by decide

/-- The per-invocation entity index. Typed job taking `JobInvocationIndex`: the `i`-th invocation (tasks in
order) is the `i`-th entity of the selected sequence and carries entity index `i`, so the index takes each
value `0..N-1` exactly once. Array form (`NonTemplateJob`, `forEachArray`): the index ranges
`[eindex, eindex+len)` of the callbacks tile `0..N-1` in order. Task `k` is numbered `k` and starts at the
sum of the sizes of the tasks before it. -/
theorem entity_index_bijective (archs : List ArchCfg) (hv : Valid archs) (req reqShared : List Nat)
    (mode : Mode) (taskCount : Nat) :
    (invocations (runJob mode (applyFilter req reqShared archs 0) taskCount)).map (fun v => (v.arch, v.idx)) =
      selected req reqShared archs 0 ∧
    (invocations (runJob mode (applyFilter req reqShared archs 0) taskCount)).map (·.eindex) =
      List.range (selected req reqShared archs 0).length ∧
    (ntCalls (runJob mode (applyFilter req reqShared archs 0) taskCount)).flatMap
        (fun c => Arr.expand ⟨c.arch, c.first, c.len⟩) = selected req reqShared archs 0 ∧
    (ntCalls (runJob mode (applyFilter req reqShared archs 0) taskCount)).flatMap
        (fun c => List.range' c.eindex c.len) = List.range (selected req reqShared archs 0).length ∧
    (∀ pre x post, runJob mode (applyFilter req reqShared archs 0) taskCount = pre ++ x :: post →
      x.start = (pre.map (·.size)).sum ∧ x.id = pre.length) := by
  have hwf := applyFilter_wf req reqShared archs hv
  have hsel := (applyFilter_spec req reqShared archs 0 hv).2.2
  generalize applyFilter req reqShared archs 0 = fr at *
  rw [← hsel]
  by_cases h0 : totalCount fr < 1
  · rw [gsel_nil_of_zero fr hwf h0]
    simp [runJob, h0, invocations, ntCalls]
  · obtain ⟨g1, g2, g3⟩ := runTaskInfos_good mode fr hwf taskCount
    rw [runJob_eq mode fr taskCount h0]
    obtain ⟨s1, s2, s3, s4, _⟩ := assignStarts_spec fr (runTaskInfos mode fr taskCount) 0 0
      (fun t ht => (g2 t ht).1)
    rw [g1] at s1 s3
    rw [g3, ← length_gsel fr hwf.each, ← List.range_eq_range'] at s2 s4
    refine ⟨s1, s2, s3, s4, ?_⟩
    intro pre x post hpre
    have := assignStarts_starts fr _ 0 0 pre x post hpre
    omega

example : (invocations (runJob .parallel (applyFilter [0] [] exampleArchs 0) 3)).map
      (fun v => (v.task, v.arch, v.idx, v.eindex, v.inTask)) =
    [(0, 0, 0, 0, 0), (0, 0, 1, 1, 1), (1, 0, 2, 2, 0), (1, 3, 0, 3, 1), (2, 3, 1, 4, 0), (2, 3, 4, 5, 1)] := by
  decide
example : (ntCalls (runJob .parallel (applyFilter [0] [] exampleArchs 0) 2)).map
      (fun c => (c.task, c.arch, c.first, c.len, c.eindex)) =
    [(0, 0, 0, 2, 0), (0, 0, 2, 1, 2), (1, 3, 0, 2, 3), (1, 3, 4, 1, 5)] := by decide

/-- The 4× unrolled loop with its tail table visits the offsets `0..n-1` of an array in order, and the
entity index advances by one per invocation. -/
theorem unrolled_eq_range (n ii : Nat) :
    unrolled n ii = (List.range n).map (fun o => (o, ii + o)) :=
  unrolled_eq n ii

example : unrolled 7 10 = [(0, 10), (1, 11), (2, 12), (3, 13), (4, 14), (5, 15), (6, 16)] := by decide

end Mustache.Props.C04

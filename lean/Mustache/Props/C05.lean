import Mustache.Model.World
import Mustache.Driver.World
import Mustache.Proofs.RowsPackOne
/-!
# C05 — changes made while locked are isolated, then applied at the outermost unlock in program order

Model: `Mustache.Model.WM`. `locked_isolation_*`: while `lockDepth > 0` every structural call (`create`,
`assign`, `removeComp`, `destroy`, `destroyNow`, from any thread index `t`) returns a state that agrees
with the state before the call on every field except `buffers`, `nextEntityId`, `temps` (`Frozen`);
`frozen_observations`: such states answer every query alike and have the same archetype rows and
locations (iterated set, membership and row addresses are fixed). `unlock_inner_noop` / `lock_inner`:
only the outermost unlock flushes. `packs_*`: the split of a command log into packs loses nothing and
keeps program order. `flush_order`: buffers in index order, packs in log order.
-/
namespace Mustache.Props.C05
open Mustache.Model

abbrev cat := Mustache.Driver.World.catalogue

/-- `w'` differs from `w` at most in the command buffers, the reserved-id counter and the count of
buffered temporaries -/
structure Frozen (w w' : WM) : Prop where
  worldId : w'.worldId = w.worldId
  slots : w'.slots = w.slots
  next : w'.next = w.next
  empty : w'.empty = w.empty
  locs : w'.locs = w.locs
  archs : w'.archs = w.archs
  deps : w'.deps = w.deps
  pool : w'.pool = w.pool
  nextInst : w'.nextInst = w.nextInst
  lockDepth : w'.lockDepth = w.lockDepth
  nthreads : w'.nthreads = w.nthreads
  marked : w'.marked = w.marked

theorem Frozen.refl (w : WM) : Frozen w w := ⟨rfl, rfl, rfl, rfl, rfl, rfl, rfl, rfl, rfl, rfl, rfl, rfl⟩

theorem Frozen.trans {a b c : WM} (h₁ : Frozen a b) (h₂ : Frozen b c) : Frozen a c :=
  ⟨h₂.worldId.trans h₁.worldId, h₂.slots.trans h₁.slots, h₂.next.trans h₁.next,
   h₂.empty.trans h₁.empty, h₂.locs.trans h₁.locs, h₂.archs.trans h₁.archs, h₂.deps.trans h₁.deps,
   h₂.pool.trans h₁.pool, h₂.nextInst.trans h₁.nextInst, h₂.lockDepth.trans h₁.lockDepth,
   h₂.nthreads.trans h₁.nthreads, h₂.marked.trans h₁.marked⟩

/-- what queries and iteration can see is a function of the frozen fields -/
theorem frozen_observations {w w' : WM} (hf : Frozen w w') :
    (∀ h, w'.isValid h = w.isValid h) ∧
    (∀ h c, w'.getComp h c = w.getComp h c) ∧
    (∀ h c, w'.hasComp h c = w.hasComp h c) ∧
    (∀ h s, w'.hasShared h s = w.hasShared h s) ∧
    (∀ h, w'.archOf h = w.archOf h) ∧
    (∀ h, w'.locOf h = w.locOf h) ∧
    (∀ ai, w'.arch ai = w.arch ai) ∧
    w'.isLocked = w.isLocked := by
  cases w; cases w'
  rcases hf with ⟨h1, h2, h3, h4, h5, h6, h7, h8, h9, h10, h11, h12⟩
  simp only at h1 h2 h3 h4 h5 h6 h7 h8 h9 h10 h11 h12
  subst h1 h2 h3 h4 h5 h6 h7 h8 h9 h10 h11 h12
  exact ⟨fun _ => rfl, fun _ _ => rfl, fun _ _ => rfl, fun _ _ => rfl, fun _ => rfl, fun _ => rfl,
    fun _ => rfl, rfl⟩

/-! ## sample: one entity {A}, locked, three commands recorded -/

def base : WM :=
  let w : WM := { nthreads := 2 }
  let (w, _, _) := w.create cat 0 [0] Shared.null
  w.lock

def e0 : Handle := ⟨0, 0, 0⟩

def lockedW : WM :=
  let (w, _, _) := base.assign cat 1 e0 2 (some 5)
  let (w, _, _) := w.create cat 0 [1] Shared.null
  (w.destroyNow cat 1 e0).1

example : base.isLocked = true ∧ base.isValid e0 = true := by decide
example : lockedW.buffers.map List.length = [1, 2] := by decide
example : lockedW.archs.map (·.rows.length) = [1] ∧ lockedW.getComp e0 0 = some none := by decide

/-! ## isolation -/

theorem pushCmd_frozen (w : WM) (t : Nat) (c : Cmd) : Frozen w (w.pushCmd t c) :=
  ⟨rfl, rfl, rfl, rfl, rfl, rfl, rfl, rfl, rfl, rfl, rfl, rfl⟩

theorem locked_isolation_create (info : CompId → CompInfo) (w : WM) (t : Nat) (mask : Mask) (sh : Shared)
    (hl : w.isLocked = true) :
    Frozen w (w.create info t mask sh).1 ∧ (w.create info t mask sh).2.2 = [] := by
  unfold WM.create
  rw [if_pos hl]
  exact ⟨⟨rfl, rfl, rfl, rfl, rfl, rfl, rfl, rfl, rfl, rfl, rfl, rfl⟩, rfl⟩

theorem locked_isolation_assign (info : CompId → CompInfo) (w : WM) (t : Nat) (e : Handle) (c : CompId)
    (v : Option Nat) (hl : w.isLocked = true) :
    Frozen w (w.assign info t e c v).1 ∧ (w.assign info t e c v).2 = (.ok, []) := by
  unfold WM.assign
  simp only [hl, if_true, and_true]
  split <;> exact ⟨rfl, rfl, rfl, rfl, rfl, rfl, rfl, rfl, rfl, rfl, rfl, rfl⟩

theorem locked_isolation_removeComp (info : CompId → CompInfo) (w : WM) (t : Nat) (e : Handle)
    (c : CompId) (hl : w.isLocked = true) :
    Frozen w (w.removeComp info t e c).1 ∧ (w.removeComp info t e c).2 = [] := by
  unfold WM.removeComp
  rw [if_pos hl]
  exact ⟨pushCmd_frozen _ _ _, rfl⟩

theorem locked_isolation_destroy (w : WM) (t : Nat) (e : Handle) (hl : w.isLocked = true) :
    Frozen w (w.destroy t e) := by
  simp only [WM.destroy, hl, if_true]
  exact pushCmd_frozen _ _ _

theorem locked_isolation_destroyNow (info : CompId → CompInfo) (w : WM) (t : Nat) (e : Handle)
    (hl : w.isLocked = true) :
    Frozen w (w.destroyNow info t e).1 ∧ (w.destroyNow info t e).2 = [] := by
  unfold WM.destroyNow
  rw [if_pos hl]
  exact ⟨pushCmd_frozen _ _ _, rfl⟩

/-- `update()` while locked is refused and changes nothing at all -/
theorem locked_update_refused (info : CompId → CompInfo) (w : WM) (hl : w.isLocked = true) :
    w.update info = (w, .lockedUpdate, []) := by
  simp [WM.update, hl]

/-- the handle reserved by a locked `create` is not valid until the flush: it names an id beyond the
table, or carries the successor of the current version of its slot -/
theorem locked_create_handle (info : CompId → CompInfo) (w : WM) (t : Nat) (mask : Mask) (sh : Shared)
    (hl : w.isLocked = true) :
    (w.create info t mask sh).2.1.id = w.nextEntityId ∧
    (w.create info t mask sh).1.nextEntityId = w.nextEntityId + 1 ∧
    (w.create info t mask sh).1.buffers =
      w.buffers.set t (w.buffers.getD t [] ++ [.create (w.create info t mask sh).2.1 mask sh]) := by
  unfold WM.create
  rw [if_pos hl]
  exact ⟨rfl, rfl, rfl⟩

/-- all five in one statement: whatever structural call is issued while locked, from whatever thread,
every query and every archetype row reads the same before and after -/
theorem locked_isolation (info : CompId → CompInfo) (w : WM) (t : Nat) (hl : w.isLocked = true)
    (w' : WM)
    (hop : (∃ m sh, w' = (w.create info t m sh).1) ∨ (∃ e c v, w' = (w.assign info t e c v).1) ∨
           (∃ e c, w' = (w.removeComp info t e c).1) ∨ (∃ e, w' = w.destroy t e) ∨
           (∃ e, w' = (w.destroyNow info t e).1)) :
    Frozen w w' ∧ w'.isLocked = true ∧
    (∀ h c, w'.isValid h = w.isValid h ∧ w'.getComp h c = w.getComp h c ∧
      w'.hasComp h c = w.hasComp h c ∧ w'.archOf h = w.archOf h ∧ w'.locOf h = w.locOf h) ∧
    (∀ ai, (w'.arch ai).rows = (w.arch ai).rows ∧ (w'.arch ai).mask = (w.arch ai).mask) := by
  have hf : Frozen w w' := by
    rcases hop with ⟨m, sh, rfl⟩ | ⟨e, c, v, rfl⟩ | ⟨e, c, rfl⟩ | ⟨e, rfl⟩ | ⟨e, rfl⟩
    · exact (locked_isolation_create info w t m sh hl).1
    · exact (locked_isolation_assign info w t e c v hl).1
    · exact (locked_isolation_removeComp info w t e c hl).1
    · exact locked_isolation_destroy w t e hl
    · exact (locked_isolation_destroyNow info w t e hl).1
  have ho := frozen_observations hf
  refine ⟨hf, ho.2.2.2.2.2.2.2.trans hl, fun h c => ⟨ho.1 h, ho.2.1 h c, ho.2.2.1 h c, ho.2.2.2.2.1 h,
    ho.2.2.2.2.2.1 h⟩, fun ai => by rw [ho.2.2.2.2.2.2.1 ai]; exact ⟨rfl, rfl⟩⟩

example : Frozen base lockedW ∧ lockedW.isLocked = true := by
  refine ⟨⟨rfl, rfl, rfl, rfl, rfl, rfl, rfl, rfl, rfl, rfl, rfl, rfl⟩, by decide⟩
example : lockedW.buffers.map List.length ≠ base.buffers.map List.length := by decide

/-! ## nested lock / unlock -/

/-- `lock` at depth ≥ 1 only increments the counter -/
theorem lock_inner (w : WM) (hd : 1 ≤ w.lockDepth) :
    w.lock = { w with lockDepth := w.lockDepth + 1 } := by
  have : ¬ (w.lockDepth + 1 = 1) := by omega
  unfold WM.lock
  simp only
  rw [if_neg this]

/-- the outermost `lock` fixes the number of buffers and the first reserved id; nothing else -/
theorem lock_outer (w : WM) (hd : w.lockDepth = 0) :
    w.lock = { w with lockDepth := 1,
                      buffers := w.buffers ++ List.replicate (w.nthreads - w.buffers.length) [],
                      nextEntityId := w.slots.length } := by
  simp [WM.lock, hd]

/-- `unlock` at depth ≥ 2 only decrements the counter: no flush, no callback, buffers kept -/
theorem unlock_inner_noop (info : CompId → CompInfo) (w : WM) (hd : 2 ≤ w.lockDepth) :
    w.unlock info = ({ w with lockDepth := w.lockDepth - 1 }, false, []) := by
  have h1 : w.lockDepth > 0 := by omega
  have h2 : ¬ (w.lockDepth - 1 = 0) := by omega
  simp [WM.unlock, h1, h2]

/-- the outermost `unlock` is the flush -/
theorem unlock_outer (info : CompId → CompInfo) (w : WM) (hd : w.lockDepth = 1) :
    w.unlock info = (({ w with lockDepth := 0 }.flush info).1, true,
      ({ w with lockDepth := 0 }.flush info).2) := by
  simp [WM.unlock, hd]

example : (lockedW.lock.unlock cat).1.buffers.map List.length = [1, 2] ∧
    (lockedW.lock.unlock cat).2.1 = false := by decide
example : (lockedW.unlock cat).2.1 = true ∧ (lockedW.unlock cat).1.isValid e0 = false := by decide

/-! ## packs: the split of a log loses nothing and keeps program order -/

open Mustache.Proofs.Rows (isCreateCmd)

/-- one step of the split: the new command joins the next pack iff it targets the same handle and
that pack does not start with a creation (a creation always opens a pack) -/
theorem packs_cons (c : Cmd) (cs : List Cmd) :
    packs (c :: cs) =
      match packs cs with
      | [] => [[c]]
      | [] :: ps => [c] :: ps
      | (d :: ds) :: ps =>
        if c.entity = d.entity ∧ isCreateCmd d = false then (c :: d :: ds) :: ps
        else [c] :: (d :: ds) :: ps := by
  rw [packs]
  cases packs cs with
  | nil => rfl
  | cons p ps =>
    cases p with
    | nil => rfl
    | cons d ds =>
      simp only
      cases d <;> simp [isCreateCmd]

theorem packs_concat (buf : List Cmd) : (packs buf).flatten = buf := by
  induction buf with
  | nil => rfl
  | cons c cs ih =>
    rw [packs_cons]
    cases hp : packs cs with
    | nil => rw [hp] at ih; simp at ih; simp [← ih]
    | cons p ps =>
      rw [hp] at ih
      cases p with
      | nil => simp at ih ⊢; exact ih
      | cons d ds =>
        simp only
        split <;> simp [← ih]

theorem packs_nonempty (buf : List Cmd) : ∀ p ∈ packs buf, p ≠ [] := by
  induction buf with
  | nil => simp [packs]
  | cons c cs ih =>
    rw [packs_cons]
    cases hp : packs cs with
    | nil => simp
    | cons p ps =>
      rw [hp] at ih
      cases p with
      | nil => exact absurd rfl (ih [] (by simp))
      | cons d ds =>
        simp only
        split
        · intro q hq
          rcases List.mem_cons.mp hq with rfl | hq
          · simp
          · exact ih q (by simp [hq])
        · intro q hq
          rcases List.mem_cons.mp hq with rfl | hq
          · simp
          · exact ih q hq

/-- every pack is a run of commands on ONE entity handle -/
theorem packs_one_entity (buf : List Cmd) :
    ∀ p ∈ packs buf, ∀ c ∈ p, ∀ d ∈ p, c.entity = d.entity := by
  induction buf with
  | nil => simp [packs]
  | cons c cs ih =>
    rw [packs_cons]
    cases hp : packs cs with
    | nil => simp
    | cons p ps =>
      rw [hp] at ih
      cases p with
      | nil => exact absurd rfl (packs_nonempty cs [] (by simp [hp]))
      | cons d ds =>
        simp only
        have ihp := ih (d :: ds) (by simp)
        split
        · rename_i hcd
          intro q hq
          rcases List.mem_cons.mp hq with rfl | hq
          · intro x hx y hy
            have hx' : x.entity = d.entity := by
              rcases List.mem_cons.mp hx with rfl | hx
              · exact hcd.1
              · exact ihp x hx d (by simp)
            have hy' : y.entity = d.entity := by
              rcases List.mem_cons.mp hy with rfl | hy
              · exact hcd.1
              · exact ihp y hy d (by simp)
            rw [hx', hy']
          · exact ih q (by simp [hq])
        · intro q hq
          rcases List.mem_cons.mp hq with rfl | hq
          · intro x hx y hy
            simp at hx hy; subst hx hy; rfl
          · exact ih q hq

/-- a creation is only ever the FIRST command of its pack ("Create command should be first") -/
theorem packs_create_first (buf : List Cmd) :
    ∀ p ∈ packs buf, ∀ c ∈ p.tail, isCreateCmd c = false := by
  induction buf with
  | nil => simp [packs]
  | cons c cs ih =>
    rw [packs_cons]
    cases hp : packs cs with
    | nil => simp
    | cons p ps =>
      rw [hp] at ih
      cases p with
      | nil => exact absurd rfl (packs_nonempty cs [] (by simp [hp]))
      | cons d ds =>
        simp only
        have ihp := ih (d :: ds) (by simp)
        split
        · rename_i hcd
          intro q hq
          rcases List.mem_cons.mp hq with rfl | hq
          · intro x hx
            simp only [List.tail_cons] at hx
            rcases List.mem_cons.mp hx with rfl | hx
            · exact hcd.2
            · exact ihp x (by simpa using hx)
          · exact ih q (by simp [hq])
        · intro q hq
          rcases List.mem_cons.mp hq with rfl | hq
          · simp
          · exact ih q hq

/-- pack boundaries are exactly the places where the target handle changes or a creation starts: of
two consecutive packs either the targets differ or the second one starts with a creation (the split
is maximal) -/
def Maximal : List (List Cmd) → Prop
  | [] => True
  | [_] => True
  | p :: q :: rest =>
    ((∀ c ∈ p, ∀ d ∈ q, c.entity ≠ d.entity) ∨ (q.head?.map isCreateCmd = some true)) ∧ Maximal (q :: rest)

theorem packs_maximal (buf : List Cmd) : Maximal (packs buf) := by
  induction buf with
  | nil => simp [packs, Maximal]
  | cons c cs ih =>
    rw [packs_cons]
    cases hp : packs cs with
    | nil => simp [Maximal]
    | cons p ps =>
      rw [hp] at ih
      have hone := packs_one_entity cs
      rw [hp] at hone
      cases p with
      | nil => exact absurd rfl (packs_nonempty cs [] (by simp [hp]))
      | cons d ds =>
        simp only
        split
        · rename_i hcd
          cases ps with
          | nil => simp [Maximal]
          | cons q rest =>
            refine ⟨?_, ih.2⟩
            rcases ih.1 with h1 | h1
            · left
              intro x hx y hy
              rcases List.mem_cons.mp hx with rfl | hx
              · rw [hcd.1]; exact h1 d (by simp) y hy
              · exact h1 x hx y hy
            · exact Or.inr h1
        · rename_i hcd
          refine ⟨?_, ih⟩
          by_cases hcr : isCreateCmd d = true
          · right; simp [hcr]
          · left
            intro x hx y hy
            simp at hx; subst hx
            rw [hone (d :: ds) (by simp) y hy d (by simp)]
            intro he
            exact hcd ⟨he, by simpa using hcr⟩

example : (packs lockedW.buffers[1]!).map List.length = [2] := by decide
/-- same handle, but the creation opens its own pack -/
example : (packs [Cmd.destroyNow e0, .create e0 [0] Shared.null, .assign e0 0 none]).map List.length = [1, 2] := by
  decide
example : (packs [Cmd.assign e0 0 none, .remove e0 0, .destroy ⟨1, 0, 0⟩, .assign e0 1 none]).map List.length
    = [2, 1, 1] := by decide

/-! ## flush order -/

open Mustache.Proofs.Rows (applyPacks detached SameCtl)

/-- `onUnlock`: all buffers are detached (emptied) first; then buffer 0's packs in log order, then
buffer 1's, …; finally the temporaries are dropped. Equivalently: ONE left fold of `applyPack`
(`applyPacks`) over the concatenation `packs buffers[0] ++ packs buffers[1] ++ …`. -/
theorem flush_order (info : CompId → CompInfo) (w : WM) :
    w.flush info =
      (let r := applyPacks info ({ w with buffers := w.buffers.map (fun _ => []) }, [])
                  (w.buffers.map packs).flatten
       ({ r.1 with temps := [] }, r.2)) :=
  Mustache.Proofs.Rows.flush_eq info w

theorem applyPacks_append (info : CompId → CompInfo) (acc : WM × List Cb) (p q : List (List Cmd)) :
    applyPacks info acc (p ++ q) = applyPacks info (applyPacks info acc p) q := by
  simp [applyPacks, List.foldl_append]

/-- `applyCommandPack` never writes the buffers, the lock depth, the dependency table, the reserved-id
counter or the shared pool: whatever the pack -/
theorem applyPack_keeps_control (info : CompId → CompInfo) (w : WM) (pack : List Cmd) :
    (w.applyPack info pack).1.buffers = w.buffers ∧ (w.applyPack info pack).1.lockDepth = w.lockDepth ∧
    (w.applyPack info pack).1.deps = w.deps ∧ (w.applyPack info pack).1.nextEntityId = w.nextEntityId :=
  let h := Mustache.Proofs.Rows.applyPack_ctl info w pack
  ⟨h.buffers, h.lockDepth, h.deps, h.nextEntityId⟩

/-- after the flush every buffer is empty (same number of buffers), the temporaries are gone and the
lock depth is what it was -/
theorem flush_leaves_buffers_empty (info : CompId → CompInfo) (w : WM) :
    (w.flush info).1.buffers = w.buffers.map (fun _ => []) ∧
    (∀ b ∈ (w.flush info).1.buffers, b = []) ∧
    (w.flush info).1.buffers.length = w.buffers.length ∧
    (w.flush info).1.temps = [] ∧ (w.flush info).1.lockDepth = w.lockDepth := by
  have h := Mustache.Proofs.Rows.flush_ctl info w
  refine ⟨h.1, ?_, by rw [h.1]; simp, h.2.1, h.2.2.1⟩
  intro b hb
  rw [h.1] at hb
  simp at hb
  exact hb.2

/-- the outermost `unlock`: depth 0 afterwards, everything recorded has been consumed -/
theorem unlock_outer_result (info : CompId → CompInfo) (w : WM) (hd : w.lockDepth = 1) :
    (w.unlock info).1.lockDepth = 0 ∧ (∀ b ∈ (w.unlock info).1.buffers, b = []) ∧
    (w.unlock info).2.1 = true := by
  rw [unlock_outer info w hd]
  have h := flush_leaves_buffers_empty info { w with lockDepth := 0 }
  exact ⟨h.2.2.2.2, h.2.1, rfl⟩

example : (lockedW.unlock cat).1.buffers = [[], []] ∧ (lockedW.unlock cat).1.lockDepth = 0 := by
  constructor
  · have := (unlock_outer_result cat lockedW (by decide)).2.1
    have hl : (lockedW.unlock cat).1.buffers.length = 2 := by decide
    match hb : (lockedW.unlock cat).1.buffers, hl with
    | [a, b], _ =>
      rw [hb] at this
      rw [this a (by simp), this b (by simp)]
  · decide

/-- the commands the flush consumes are exactly the recorded ones, thread by thread, in program order -/
theorem flush_consumes_all (w : WM) :
    ((w.buffers.map packs).flatten).flatten = w.buffers.flatten := by
  induction w.buffers with
  | nil => rfl
  | cons b bs ih => simp [packs_concat, ih]

/-! ## a recorded command means what it means when issued unlocked -/

/-- `[destroyNow e]`: the pack is exactly the unlocked `destroyNow e` (state AND callbacks) for every
handle that is invalid (skipped, C09) or located -/
theorem pack_singleton_eq_unlocked_destroyNow (info : CompId → CompInfo) (w : WM) (t : Nat) (e : Handle)
    (hl : w.isLocked = false) (h : w.isValid e = false ∨ (w.locOf e).arch.isSome = true) :
    w.applyPack info [.destroyNow e] = w.destroyNow info t e := by
  rw [Mustache.Proofs.Rows.applyPack_destroyNow info w e h]
  simp [WM.destroyNow, hl]

/-- `[remove e c]`: the pack is exactly the unlocked `removeComponent<c>(e)` (state AND callbacks) on a
valid located entity. Hypotheses named after C13: `hclosed` (the entity's archetype mask is closed:
`archetype_masks_closed`), `hidem` (closure idempotent: `closure_idempotent_monotone`); `hout`: the
removal is effective — `c` is not a dependent of a component that stays (`remove_dependent_noop` is
the other case, where both paths leave the component set alone). -/
theorem pack_singleton_eq_unlocked_remove (info : CompId → CompInfo) (w : WM) (t : Nat) (e : Handle)
    (c : CompId) (pi : Nat) (hl : w.isLocked = false) (hv : w.isValid e = true)
    (hla : (w.locOf e).arch = some pi) (hpi : pi < w.archs.length)
    (hclosed : closedMask w.deps (w.arch pi).mask = (w.arch pi).mask)
    (hidem : closedMask w.deps (closedMask w.deps (Mask.erase (w.arch pi).mask c)) =
      closedMask w.deps (Mask.erase (w.arch pi).mask c))
    (hout : c ∈ (w.arch pi).mask → c ∉ closedMask w.deps (Mask.erase (w.arch pi).mask c)) :
    w.applyPack info [.remove e c] = w.removeComp info t e c :=
  Mustache.Proofs.Rows.applyPack_remove info w t e c pi hl hv hla hpi hclosed hidem hout

/-- `[assign e c v]`, `v` being the value the locked `assign<c>(e, tok)` records: the pack yields the
state and the callbacks of the unlocked `assign<c>(e, tok)` (which succeeds), for a valid located
entity that does not have `c` yet. Same C13 hypotheses. -/
theorem pack_singleton_eq_unlocked_assign (info : CompId → CompInfo) (w : WM) (t : Nat) (e : Handle)
    (c : CompId) (tok : Nat) (pi : Nat) (hl : w.isLocked = false) (hv : w.isValid e = true)
    (hla : (w.locOf e).arch = some pi) (hpi : pi < w.archs.length)
    (hclosed : closedMask w.deps (w.arch pi).mask = (w.arch pi).mask)
    (hidem : closedMask w.deps (closedMask w.deps (Mask.insert (w.arch pi).mask c)) =
      closedMask w.deps (Mask.insert (w.arch pi).mask c))
    (hnew : c ∉ (w.arch pi).mask) :
    w.applyPack info [.assign e c (Mustache.Proofs.Rows.storedOf info c (some tok))] =
      ((w.assign info t e c (some tok)).1, (w.assign info t e c (some tok)).2.2) ∧
    (w.assign info t e c (some tok)).2.1 = .ok :=
  Mustache.Proofs.Rows.applyPack_assign info w t e c tok pi hl hv hla hpi hclosed hidem hnew

/-- the locked `assign` records exactly that value -/
theorem locked_assign_records (info : CompId → CompInfo) (w : WM) (t : Nat) (e : Handle) (c : CompId)
    (tok : Nat) (hl : w.isLocked = true) :
    (w.assign info t e c (some tok)).1.buffers =
      w.buffers.set t (w.buffers.getD t [] ++
        [.assign e c (Mustache.Proofs.Rows.storedOf info c (some tok))]) := by
  unfold WM.assign
  simp only [hl, if_true]
  split <;> rfl

/-- one entity {A}: unlocked assign of C = the singleton pack -/
def one : WM := (({} : WM).create cat 0 [0] Shared.null).1

example : (one.applyPack cat [.assign e0 2 (some 9)]).1.getComp e0 2 = some (some 9) ∧
    (one.assign cat 0 e0 2 (some 9)).1.getComp e0 2 = some (some 9) ∧
    (one.applyPack cat [.destroyNow e0]).1.isValid e0 = false := by decide
example : one.isLocked = false ∧ one.isValid e0 = true ∧ (one.locOf e0).arch = some 0 ∧
    closedMask one.deps (one.arch 0).mask = (one.arch 0).mask ∧ (2 : CompId) ∉ (one.arch 0).mask := by decide

/-- observational equality of two model states -/
def ObsEq (w w' : WM) : Prop :=
  ∀ (h : Handle) (c : CompId), w'.isValid h = w.isValid h ∧ w'.getComp h c = w.getComp h c ∧
    w'.hasComp h c = w.hasComp h c

/-- pack fusion: applying a pack of several commands on one entity (final mask, single move) is
observationally the same as applying its commands one at a time as singleton packs — together with
the three `pack_singleton_eq_unlocked_*` theorems and `flush_order` this is `flush_eq_sequential`
(outermost unlock = every recorded command in program order, buffers in index order, each with its
unlocked meaning, dead targets skipped). Not proved here: an induction over the pack with the
dependency closure (C13) and the row invariant (C02) as side conditions. -/
def flush_eq_sequential_statement : Prop :=
  ∀ (info : CompId → CompInfo) (w : WM) (pack : List Cmd),
    Mustache.Proofs.Rows.RowsOK w → Mustache.Proofs.Rows.LiveInv w →
    (∀ c ∈ pack, ∀ d ∈ pack, c.entity = d.entity) →
    (∀ c ∈ pack, ∀ e m sh, c ≠ .create e m sh) →
    ObsEq (pack.foldl (fun (acc : WM) c => (acc.applyPack info [c]).1) w) (w.applyPack info pack).1

end Mustache.Props.C05

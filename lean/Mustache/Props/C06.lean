import Mustache.Proofs.DispatcherWait
import Mustache.Proofs.DispatcherOwn

/-!
# C06 — parallel jobs complete before run() returns, race-free (dispatcher part)

The disjoint-split part of C06 is `tasks_partition` / `arrays_wellformed` in Props/C04.lean (another
model; not imported here).  This file covers, for ALL schedules of the dispatcher model:

* `wait_parallel_post` — the barrier: when `waitForParallelFinish` returns, every task submitted before is
  finished and its effects (job object, per-thread command buffers, lock state) are owned by the caller
  again.  A job run is `lock; submit T tasks; wait; unlock` on the external thread, so `unlock` (which
  flushes every per-thread buffer) happens in a state described by this theorem.
* `lock_discipline` — the model's access table (Model/DispatcherAccess.lean): every shared variable is
  accessed under ONE protection everywhere (the mutex / atomically / plainly by its owner); plain
  accesses are made by the owner only; owners are unique; and ownership moves from one thread to
  another only at a pop under the mutex (after the submit that queued the task under the same mutex)
  or when the caller leaves the parallel barrier (after every worker has done its `threads_waiting`
  read-modify-write following its last task).  Hence two conflicting accesses by different threads are
  both under the same mutex, or both atomic, or separated by a submit→pop or task-end→barrier edge.

Partial by nature (DESIGN §6): that these edges give happens-before and that plain loads/stores are not
torn or reordered is the C++ memory model; the access table is validated against the code by
ThreadSanitizer (tools/props/c06.py), not proved.
-/
namespace Mustache.Props.C06
open Mustache.Dispatcher

/-- Barrier post-condition.  `s` is any reachable state in which the caller is in the final spin of
`wait(parallel_jobs)` and `s'` the state right after it returned. -/
theorem wait_parallel_post {n : Nat} {s s' : State} (hr : Reachable n s) (hm : s.mode = .spin 0)
    (hs : step s .spinExit = some s') :
    (∀ t, t < s.waitSnap → s.tq t = 0 → t ∈ s'.done ∧ OwnsTask s' 0 t) ∧
    (∀ th, 1 ≤ th → th ≤ n → ∃ p, s'.pcs[th]? = some p ∧ isWaiting p = true) ∧
    ((∀ t, t < s.nextId → s.tq t = 0) → ExtQuiet s' ∧ ExtOwnsLock s' ∧ ∀ th, OwnsTemp s' 0 th) := by
  obtain ⟨hmode, hdone, hwait, _⟩ := wait_post_core hr hm hs
  obtain ⟨hA, hB, hC⟩ := reachable_inv hr
  have hsnap := (hB.wait_q 0 (Or.inr hm)).2
  have hs' := hs
  simp only [step, hm] at hs'
  split at hs'
  · cases hs'
    have hsync : ∀ t, t ∈ s.done → Synced { s with mode := Mode.api, synced := syncedAfter s 0 } t := by
      intro t ht
      exact Or.inr (by simp [syncedAfter, ht])
    refine ⟨?_, fun th h1 h2 => hwait rfl th h1 h2, ?_⟩
    · intro t ht htq
      have hd := hdone t ht htq
      exact ⟨hd, Or.inr (Or.inr ⟨rfl, hd, hsync t hd⟩)⟩
    · intro hall
      have hq : ExtQuiet { s with mode := Mode.api, synced := syncedAfter s 0 } :=
        ⟨rfl, fun t ht => Or.inl (hdone t (by have : t < s.nextId := ht; omega) (hall t ht))⟩
      exact ⟨hq, ⟨hq, hsync⟩, fun th => Or.inr (Or.inr ⟨rfl, hq, fun t ht _ => hsync t ht⟩)⟩
  · cases hs'

/-- non-vacuity: a job of three tasks on two workers, the caller helps; the barrier is passed -/
example : accepts 2 [.submit 0, .submit 0, .submit 0, .waitBegin 0, .wScan 1, .wScan 2, .waitPop, .taskEnd 2,
    .taskEnd 0, .relock 0, .waitEmpty, .relock 2, .taskEnd 1, .spinRetry, .wScan 2, .relock 1, .wScan 1, .spinExit] = true := by
  decide

/-- what an `owned` access requires of the state it is made in -/
def OwnedOk (s : State) (th : Nat) (x : Access) : Prop :=
  match x.var with
  | .taskData t => OwnsTask s th t
  | .tempStorage b => OwnsTemp s th b
  | .lockCounter => x.write = false ∧ ¬ExtOwnsLock s
  | .singleThread => th = 0
  | _ => True

theorem owned_ok {n : Nat} {s s' : State} {a : Action} (hr : Reachable n s) (hs : step s a = some s') :
    ∀ x, x ∈ accesses s a → x.prot = .owned → OwnedOk s a.thread x := by
  have hi := reachable_inv hr
  intro x hx hp
  cases a <;> simp only [accesses] at hx
  case wScan th =>
    simp only [allQueues, List.mem_append, List.mem_cons, List.mem_map, List.not_mem_nil, or_false] at hx
    rcases hx with (rfl | rfl) | ⟨q, _, rfl⟩ <;> cases hp
  case taskEnd th =>
    step_split hs
    rename_i t q hpc
    simp only [hpc, bodyAccesses, List.mem_cons, List.not_mem_nil, or_false] at hx
    rcases hx with rfl | rfl | rfl | rfl | rfl
    · exact Or.inr (Or.inl ⟨q, hpc⟩)
    · exact Or.inl ⟨rfl, t, q, hpc⟩
    · exact ⟨rfl, fun h => not_quiet_of_running hi hpc h.1⟩
    · cases hp
    · cases hp
  case relock th =>
    split at hx
    · simp at hx; subst hx; cases hp
    · simp at hx
  case spinRetry => split at hx <;> (simp at hx; subst hx; cases hp)
  case spinExit => split at hx <;> (simp at hx; subst hx; cases hp)
  case submit q =>
    simp at hx
    rcases hx with rfl | rfl | rfl
    · rfl
    · exact Or.inl ⟨Nat.le_refl _, rfl⟩
    · cases hp
  case submitInline =>
    simp at hx
    rcases hx with rfl | rfl
    · rfl
    · exact Or.inl ⟨Nat.le_refl _, rfl⟩
  case setSingle b =>
    simp at hx; subst hx; rfl
  all_goals (simp at hx)
  all_goals (first | (subst hx; cases hp) | (rcases hx with rfl | rfl <;> cases hp))

/-- Lock discipline of the dispatcher model (see the header). -/
theorem lock_discipline {n : Nat} {s : State} (hr : Reachable n s) :
    -- (a) one protection per variable, in every action
    (∀ (s0 : State) (a : Action) (x : Access), x ∈ accesses s0 a → x.prot = discipline x.var) ∧
    -- (b) plain accesses are made by the owner (for the lock state: tasks only read it, and then the
    --     caller is not in a position to write it)
    (∀ a s', step s a = some s' → ∀ x, x ∈ accesses s a → x.prot = .owned → OwnedOk s a.thread x) ∧
    -- (c) owners are unique; while the caller may write the lock state no task is running
    (∀ a b t, OwnsTask s a t → OwnsTask s b t → a = b) ∧
    (∀ a b th, OwnsTemp s a th → OwnsTemp s b th → a = b) ∧
    (ExtOwnsLock s → ∀ th t q : Nat, s.pcs[th]? ≠ some (Pc.running t q)) ∧
    -- (d) ownership of a task's data changes hands only at a pop under the mutex — of a task that `submit`
    --     queued under the same mutex — or at the parallel barrier, where every worker has gone idle since
    (∀ a s' o t, step s a = some s' → OwnsTask s' o t →
      OwnsTask s o t ∨ ((∀ x, ¬OwnsTask s x t) ∧
        ((a = .wScan o ∧ o ≠ 0 ∧ ∃ q, t ∈ s.jobs q) ∨ (a = .waitPop ∧ o = 0 ∧ ∃ q, t ∈ s.jobs q) ∨
         (a = .spinExit ∧ o = 0 ∧ s.mode = .spin 0 ∧ t ∈ s.done ∧
            ∀ th, 1 ≤ th → th ≤ n → ∃ p, s.pcs[th]? = some p ∧ isWaiting p = true)))) := by
  have hi := reachable_inv hr
  have he := reachable_invE hr
  refine ⟨discipline_consistent, fun a s' hs => owned_ok hr hs, fun a b t => owner_unique_task hi,
    fun a b th => owner_unique_temp hi, ?_, ?_⟩
  · intro hl th t q hrun
    exact not_quiet_of_running hi hrun hl.1
  · intro a s' o t hs hown
    rcases acquire_points hi he hs hown with h | ⟨hnobody, h⟩
    · exact Or.inl h
    · right
      refine ⟨hnobody, ?_⟩
      rcases h with h | h | ⟨rfl, rfl, hm, hd⟩
      · exact Or.inl h
      · exact Or.inr (Or.inl h)
      · refine Or.inr (Or.inr ⟨rfl, rfl, hm, hd, ?_⟩)
        obtain ⟨_, _, hwait, _⟩ := wait_post_core hr hm hs
        -- the waiter's mode is the only thing `spinExit` changes
        have hpcs : s'.pcs = s.pcs := by
          simp only [step, hm] at hs
          split at hs
          · cases hs; rfl
          · cases hs
        intro th h1 h2
        rw [← hpcs]
        exact hwait rfl th h1 h2

end Mustache.Props.C06

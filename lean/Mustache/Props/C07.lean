import Mustache.Proofs.VersionsTrace
/-!
# C07 — a version-filtered job never misses a component that was modified

Model: `Mustache/Model/Versions.lean` (stamping version = live world version, `Config.live = true`).
Ghost `pending j e c`: set by every mutable access / markDirty of `(e,c)`, by every arrival of `e` in an
archetype (create, assign, remove), by the relocation of `e` by a removal, and by a run of another job
that processes `e` with `c` in its update mask; cleared only when `j` processes `e`.

All theorems quantify over every configuration of jobs and every history of operations.
-/
namespace Mustache.Props.C07

open Mustache.Versions

/-- **C07.** In every reachable state: if `(e,c)` is pending for job `j`, `c` is in `j`'s check mask, and
`e` currently sits (with component `c`) in an archetype having `j`'s required components and in a chunk
the job's own constant archetype / chunk filters accept, then the next run of `j` processes `e`. -/
theorem no_missed_write (cfg : Config) (hl : cfg.live = true) (ops : List Op)
    (j : Nat) (J : Job) (ai : Nat) (a : Arch) (i : Nat) (e : Ent) (c : Comp)
    (hj : (run cfg ops).jobs[j]? = some J) (ha : (run cfg ops).archs[ai]? = some a)
    (he : a.ents[i]? = some e) (hreq : J.reqOk a = true) (hck : J.chunkOk (i / a.cs) = true)
    (hcc : c ∈ J.check) (hcm : c ∈ a.mask)
    (hp : (run cfg ops).pending j e c = true) :
    e ∈ ((run cfg ops).jobRun j).2 := by
  have hinv := run_inv cfg hl ops
  rw [jobRun_snd hj, mem_procs hinv]
  exact ⟨ai, a, i, ha, he, pending_procChunk hinv hj ha he hreq hck hcc hcm hp⟩

/-- **C07 with job bodies that modify the world.** The same in every state reachable by a history whose
runs have bodies — bodies that obtain other entities' components for writing, mark them dirty, or create /
assign / remove / destroy through the command buffer applied when the run unlocks: what a body of `j`
itself modifies is pending for `j` and is processed by `j`'s next run. -/
theorem no_missed_write_with_bodies (cfg : Config) (hl : cfg.live = true) (hops : List HOp)
    (j : Nat) (J : Job) (ai : Nat) (a : Arch) (i : Nat) (e : Ent) (c : Comp)
    (hj : (hrun cfg hops).jobs[j]? = some J) (ha : (hrun cfg hops).archs[ai]? = some a)
    (he : a.ents[i]? = some e) (hreq : J.reqOk a = true) (hck : J.chunkOk (i / a.cs) = true)
    (hcc : c ∈ J.check) (hcm : c ∈ a.mask)
    (hp : (hrun cfg hops).pending j e c = true) :
    e ∈ ((hrun cfg hops).jobRun j).2 := by
  obtain ⟨ops, hops'⟩ := hrun_reachable cfg hops
  rw [hops'] at hj ha hp ⊢
  exact no_missed_write cfg hl ops j J ai a i e c hj ha he hreq hck hcc hcm hp

/-- **C07, history form.** Once `(e,c)` is pending for `j`, whatever happens afterwards — `world.update()`,
runs of other jobs, further accesses, structural changes, in any order — short of a run of `j` itself, the
next run of `j` processes `e` (if `e` then sits, with `c`, in an archetype matching `j`). -/
theorem no_missed_write_history (cfg : Config) (hl : cfg.live = true) (ops1 ops2 : List Op)
    (j : Nat) (e : Ent) (c : Comp)
    (hp : (run cfg ops1).pending j e c = true) (hops : ∀ op ∈ ops2, op ≠ .run j)
    (J : Job) (ai : Nat) (a : Arch) (i : Nat)
    (hj : (run cfg (ops1 ++ ops2)).jobs[j]? = some J) (ha : (run cfg (ops1 ++ ops2)).archs[ai]? = some a)
    (he : a.ents[i]? = some e) (hreq : J.reqOk a = true) (hck : J.chunkOk (i / a.cs) = true)
    (hcc : c ∈ J.check) (hcm : c ∈ a.mask) :
    e ∈ ((run cfg (ops1 ++ ops2)).jobRun j).2 := by
  refine no_missed_write cfg hl (ops1 ++ ops2) j J ai a i e c hj ha he hreq hck hcc hcm ?_
  rw [run_append]
  exact exec_pending_mono _ ops2 j e c hops hp

/-! ### the ghost is set by every kind of modification the property names -/

/-- mutable `getComponent` (and `markDirty`, same transition) of a component the entity has -/
theorem pending_after_write (s : State) (e : Ent) (c : Comp) (j : Nat)
    (hw : (s.step (.getMut e c)).2 = .access true) : (s.step (.getMut e c)).1.pending j e c = true := by
  simp only [State.step] at hw ⊢
  cases hl : locate s.archs e with
  | none => simp [hl] at hw
  | some p =>
    obtain ⟨ai, i⟩ := p
    simp only [hl] at hw ⊢
    cases ha : s.archs[ai]? with
    | none => simp [ha] at hw
    | some a =>
      simp only [ha] at hw ⊢
      split
      · simp only [State.writeAt, ha, and_self, if_true]
      · next hc =>
        rw [List.contains_iff_mem] at hc
        simp [hc] at hw

theorem pending_after_markDirty (s : State) (e : Ent) (c : Comp) (j : Nat)
    (hw : (s.step (.markDirty e c)).2 = .access true) :
    (s.step (.markDirty e c)).1.pending j e c = true := pending_after_write s e c j hw

/-- creation: every component of the new entity is pending for every job -/
theorem pending_after_create (s : State) (m : List Comp) (e : Ent) (c : Comp) (j : Nat)
    (hw : (s.step (.create m)).2 = .created e) : (s.step (.create m)).1.pending j e c = true := by
  simp only [State.step] at hw ⊢
  cases hg : s.getArch (normMask m) with
  | error p => simp [hg] at hw
  | ok p =>
    obtain ⟨s1, ai⟩ := p
    simp only [hg, Out.created.injEq] at hw ⊢
    subst hw
    have hge := hg
    unfold State.getArch State.getArchClosed at hge
    have hex : ∃ a, s1.archs[ai]? = some a := by
      split at hge
      · next ai' hf =>
        simp only [Except.ok.injEq, Prod.mk.injEq] at hge
        obtain ⟨rfl, rfl⟩ := hge
        obtain ⟨a, ha, _⟩ := findArch_sound hf
        exact ⟨a, ha⟩
      · split at hge
        · cases hge
        · simp only [Except.ok.injEq, Prod.mk.injEq] at hge
          obtain ⟨rfl, rfl⟩ := hge
          exact ⟨_, List.getElem?_concat_length⟩
    obtain ⟨a, ha⟩ := hex
    simp only [State.arrive, ha, if_true]

theorem getArch_valid {s s1 : State} {m : List Comp} {aj : Nat} (hg : s.getArch m = .ok (s1, aj)) :
    aj < s1.archs.length := by
  unfold State.getArch State.getArchClosed at hg
  split at hg
  · next ai' hf =>
    simp only [Except.ok.injEq, Prod.mk.injEq] at hg
    obtain ⟨rfl, rfl⟩ := hg
    obtain ⟨a, ha, _⟩ := findArch_sound hf
    exact getElem?_lt ha
  · split at hg
    · cases hg
    · simp only [Except.ok.injEq, Prod.mk.injEq] at hg
      obtain ⟨rfl, rfl⟩ := hg
      simp

theorem depart_length (s : State) (ai i : Nat) : (s.depart ai i).archs.length = s.archs.length := by
  unfold State.depart; split
  · rfl
  · simp

/-- move between archetypes (`assign` / `removeComponent`): every component of the moved entity is
pending for every job -/
theorem pending_after_move (s : State) (ai i : Nat) (e : Ent) (m : List Comp) (same : Out) (c : Comp) (j : Nat)
    (hne : same ≠ .ok)
    (hw : (s.moveTo ai i e m same).2 = .ok) : (s.moveTo ai i e m same).1.pending j e c = true := by
  unfold State.moveTo at hw ⊢
  cases hg : s.getArch m with
  | error p => simp [hg] at hw
  | ok p =>
    obtain ⟨s1, aj⟩ := p
    simp only
    have hlt : aj < (s1.depart ai i).archs.length := by rw [depart_length]; exact getArch_valid hg
    obtain ⟨a, ha⟩ : ∃ a, (s1.depart ai i).archs[aj]? = some a := ⟨_, List.getElem?_eq_getElem hlt⟩
    simp only [hg] at hw
    by_cases hsame : aj = ai
    · simp [hsame] at hw
      exact absurd hw hne
    · simp only [hsame, if_false, State.arrive, ha, if_true]

/-- relocation by a removal: the entity moved into the hole is pending for every job -/
theorem pending_after_relocation (s : State) (ai i : Nat) (a : Arch) (e' : Ent) (c : Comp) (j : Nat)
    (ha : s.archs[ai]? = some a) (hi : i ≠ a.ents.length - 1)
    (hl : a.ents[a.ents.length - 1]? = some e') : (s.depart ai i).pending j e' c = true := by
  simp only [State.depart, ha]
  rw [if_pos ⟨hi, hl⟩]

/-- another job's write: after a run of `k`, every entity it processed is pending for every other job,
for every component of `k`'s update mask -/
theorem pending_after_other_job (s : State) (k j : Nat) (K : Job) (e : Ent) (c : Comp)
    (hk : s.jobs[k]? = some K) (hjk : j ≠ k) (he : e ∈ (s.jobRun k).2) (hc : c ∈ K.upd) :
    (s.jobRun k).1.pending j e c = true := by
  rw [jobRun_snd hk] at he
  simp only [State.jobRun, hk]
  rw [if_pos (List.contains_iff_mem.mpr he), if_neg hjk]
  simp [hc]

/-! ### non-vacuity -/

/-- job 0 requires and checks component 0; job 1 writes component 0 -/
def cfgEx : Config := { jobs := [{ req := [0], check := [0], upd := [] }, { req := [0], check := [], upd := [0] }] }

/-- `update; run; getComponent (mutable); run` — the history the pinned tree gets wrong: in the model
(and on the repaired tree) the second run processes the entity -/
example : let s := run cfgEx [.create [0], .update, .run 0, .getMut 0 0]
    s.pending 0 0 0 = true ∧ (s.jobRun 0).2 = [0] := by decide

/-- the hypotheses of `no_missed_write` are satisfiable on a history with an intervening `update`, another
job's run and a relocation by removal -/
example : let s := run cfgEx [.create [0], .create [0], .create [0], .run 0, .getMut 2 0, .update,
                             .run 1, .destroyNow 0, .update]
    (∃ J a, s.jobs[0]? = some J ∧ s.archs[0]? = some a ∧ a.ents[0]? = some 2 ∧ J.reqOk a = true ∧
      J.chunkOk (0 / a.cs) = true ∧ 0 ∈ J.check ∧ 0 ∈ a.mask ∧ s.pending 0 2 0 = true) ∧
    (s.jobRun 0).2 = [2, 1] := by
  refine ⟨⟨_, _, rfl, rfl, ?_, ?_, ?_, ?_, ?_, ?_⟩, ?_⟩ <;> decide

/-- **The defect of the pinned tree, as a statement about the model.** With the stamping version cached in
the manager and refreshed only by `update()` (`live := false`), the four-operation history leaves a pending
write that the next run of the job misses. -/
theorem cached_stamp_misses_write :
    ∃ (cfg : Config) (ops : List Op) (j : Nat) (J : Job) (ai : Nat) (a : Arch) (i e c : Nat),
      cfg.live = false ∧ (run cfg ops).jobs[j]? = some J ∧ (run cfg ops).archs[ai]? = some a ∧
      a.ents[i]? = some e ∧ J.reqOk a = true ∧ J.chunkOk (i / a.cs) = true ∧ c ∈ J.check ∧ c ∈ a.mask ∧
      (run cfg ops).pending j e c = true ∧ e ∉ ((run cfg ops).jobRun j).2 := by
  refine ⟨{ jobs := [{ req := [0], check := [0], upd := [] }], live := false },
    [.create [0], .update, .run 0, .getMut 0 0], 0, _, 0, _, 0, 0, 0, rfl, rfl, rfl, ?_, ?_, ?_, ?_, ?_, ?_, ?_⟩
    <;> decide

end Mustache.Props.C07

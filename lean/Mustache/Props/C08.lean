import Mustache.Proofs.DispatcherOrder
import Mustache.Proofs.DispatcherWait
import Mustache.Proofs.DispatcherPFor
import Mustache.Proofs.DispatcherMeasure
import Mustache.Proofs.DispatcherFair
import Mustache.Model.DispatcherAccess

/-!
# C08 — the dispatcher runs every submitted task exactly once and waits correctly

Theorems about `Mustache.Dispatcher` (Model/Dispatcher.lean) for ALL schedules (`Reachable n s` =
`s` is the result of some list of enabled actions from `init n`), all worker counts `n ≥ 0`, all
queue configurations.  The model is tied to dispatch.cpp by trace acceptance (tools/props/c08.py).
-/
namespace Mustache.Props.C08
open Mustache.Dispatcher

/-! ## vocabulary -/
def Pending (s : State) (t : Nat) : Prop := ∃ q, t ∈ s.jobs q
def Running (s : State) (t : Nat) : Prop := ∃ th q : Nat, s.pcs[th]? = some (Pc.running t q)
def Done (s : State) (t : Nat) : Prop := t ∈ s.done
def Dropped (s : State) (t : Nat) : Prop := t ∈ s.dropped

/-- exactly one of four -/
def ExactlyOne (a b c d : Prop) : Prop :=
  (a ∨ b ∨ c ∨ d) ∧ ¬(a ∧ b) ∧ ¬(a ∧ c) ∧ ¬(a ∧ d) ∧ ¬(b ∧ c) ∧ ¬(b ∧ d) ∧ ¬(c ∧ d)

/-- Every submitted task is in exactly one of pending / running / done / dropped-by-the-destructor;
it sits in at most one queue, at most once; it is popped at most once, finishes at most once, and is
never on two threads.  Unsubmitted ids are nowhere. -/
theorem at_most_once {n : Nat} {s : State} (hr : Reachable n s) :
    (∀ t, t < s.nextId → ExactlyOne (Pending s t) (Running s t) (Done s t) (Dropped s t)) ∧
    (∀ t, s.nextId ≤ t → ¬Pending s t ∧ ¬Running s t ∧ ¬Done s t ∧ ¬Dropped s t) ∧
    s.started.Nodup ∧ s.done.Nodup ∧
    (∀ q q' t : Nat, t ∈ s.jobs q → t ∈ s.jobs q' → q = q') ∧ (∀ q, (s.jobs q).Nodup) ∧
    (∀ th th' t q q' : Nat, s.pcs[th]? = some (Pc.running t q) → s.pcs[th']? = some (Pc.running t q') → th = th') := by
  have hi := (reachable_inv hr).a
  refine ⟨?_, ?_, hi.started_nodup, hi.done_nodup, ?_, fun q => sorted_nodup (hi.jobs_sorted q), ?_⟩
  · intro t ht
    refine ⟨?_, ?_, ?_, ?_, ?_, ?_, ?_⟩
    · rcases hi.cover t ht with ⟨q, hq⟩ | hst | hd
      · exact Or.inl ⟨q, hq⟩
      · rcases hi.started_cases t hst with hd | hrun
        · exact Or.inr (Or.inr (Or.inl hd))
        · exact Or.inr (Or.inl ⟨_, _, hrun⟩)
      · exact Or.inr (Or.inr (Or.inr hd))
    · rintro ⟨⟨q, hq⟩, ⟨th, q', hrun⟩⟩
      exact hi.pending_fresh q t hq (hi.run_started th t q' hrun).1
    · rintro ⟨⟨q, hq⟩, hd⟩
      exact hi.pending_fresh q t hq (hi.done_sub t hd)
    · rintro ⟨⟨q, hq⟩, hd⟩
      exact (hi.dropped_ok t hd).2.2.2 q hq
    · rintro ⟨⟨th, q', hrun⟩, hd⟩
      exact (hi.run_started th t q' hrun).2.1 hd
    · rintro ⟨⟨th, q', hrun⟩, hd⟩
      exact (hi.dropped_ok t hd).2.1 (hi.run_started th t q' hrun).1
    · rintro ⟨hd, hx⟩
      exact (hi.dropped_ok t hx).2.1 (hi.done_sub t hd)
  · intro t ht
    refine ⟨?_, ?_, ?_, ?_⟩
    · rintro ⟨q, hq⟩; have := hi.jobs_lt q t hq; omega
    · rintro ⟨th, q, hrun⟩; have := hi.started_lt t (hi.run_started th t q hrun).1; omega
    · intro hd; have := hi.started_lt t (hi.done_sub t hd); omega
    · intro hd; have := (hi.dropped_ok t hd).1; omega
  · intro q q' t h1 h2
    rw [← hi.jobs_tq q t h1, ← hi.jobs_tq q' t h2]
  · intro th th' t q q' h1 h2
    rw [← hi.run_runner th t q h1, ← hi.run_runner th' t q' h2]

/-- non-vacuity: a schedule with two workers in which a task is pending, one running, one done -/
example : accepts 2 [.submit 0, .submit 0, .submit 0, .wScan 1, .wScan 2, .taskEnd 1] = true := by decide

/-- `wait(q)` returns (`spinExit`) only when every task submitted to `q` before the call is done;
for the parallel queue additionally every worker is idle (asleep or about to re-check), so none is
running anything; the waiter itself is not running a task either. -/
theorem wait_post {n : Nat} {s s' : State} {q : Nat} (hr : Reachable n s) (hm : s.mode = .spin q)
    (hs : step s .spinExit = some s') :
    s'.mode = .api ∧
    (∀ t, t < s.waitSnap → s.tq t = q → t ∈ s'.done) ∧
    (q = 0 → ∀ th, 1 ≤ th → th ≤ n → ∃ p, s'.pcs[th]? = some p ∧ isWaiting p = true) ∧
    s'.pcs[0]? = some Pc.idle :=
  wait_post_core hr hm hs

/-- non-vacuity: one worker, two parallel tasks, the waiter helps with one; `wait` returns -/
example : accepts 1 [.submit 0, .submit 0, .waitBegin 0, .wScan 1, .waitPop, .taskEnd 0, .relock 0,
    .taskEnd 1, .waitEmpty, .spinRetry, .relock 1, .wScan 1, .spinExit] = true := by decide

/-- Jobs of one serial queue (`q ≠ 0`) are started in submission order (task ids are handed out in
submission order), no job is skipped, and at no time do two threads work for the same serial queue
(a thread "works for" `q` from the pop until it has marked the queue idle again). -/
theorem serial_fifo_exclusive {n : Nat} {s : State} (hr : Reachable n s) {q : Nat} (hq : q ≠ 0) :
    (s.started.filter (fun t => s.tq t == q)).Pairwise (· < ·) ∧
    (∀ t t', t ∈ s.started → s.tq t = q → t' < t → s.tq t' = q → t' ∈ s.started) ∧
    (∀ th th' : Nat, Holds s th q → Holds s th' q → th = th') ∧
    (∀ th : Nat, Holds s th q → s.locked q = true) := by
  have hi := reachable_inv hr
  have hd := reachable_invD hr
  refine ⟨?_, ?_, ?_, ?_⟩
  · have h2 := hd.start_order
    have := h2.filter (fun t => s.tq t == q)
    refine List.Pairwise.imp_of_mem ?_ this
    intro a b ha hb hab
    simp only [List.mem_filter, beq_iff_eq] at ha hb
    exact hab (ha.2.trans hb.2.symm) (by rw [ha.2]; exact hq)
  · intro t t' ht htq hlt htq'
    have htn := hi.a.started_lt t ht
    rcases hi.a.cover t' (by omega) with ⟨q', hq'⟩ | hst | hdr
    · exfalso
      have : q' = q := by rw [← hi.a.jobs_tq q' t' hq', htq']
      subst this
      have := hd.pending_after q' t' t hq hq' ht htq
      omega
    · exact hst
    · exfalso
      have := (hi.a.dropped_ok t' hdr).2.2.1
      rw [htq'] at this
      exact hq this
  · intro th th' h1 h2
    have o1 : s.owner q = th := by
      rcases h1 with ⟨t, h1⟩ | h1
      · exact (hi.c.hold_run q th t hq h1).2
      · exact (hi.c.hold_relock q th hq h1).2
    have o2 : s.owner q = th' := by
      rcases h2 with ⟨t, h2⟩ | h2
      · exact (hi.c.hold_run q th' t hq h2).2
      · exact (hi.c.hold_relock q th' hq h2).2
    rw [← o1, ← o2]
  · intro th h1
    rcases h1 with ⟨t, h1⟩ | h1
    · exact (hi.c.hold_run q th t hq h1).1
    · exact (hi.c.hold_relock q th hq h1).1

/-- non-vacuity: a serial queue with two jobs, the second one waits until the first has been marked finished -/
example : accepts 2 [.createQueue 0, .submit 1, .submit 1, .wScan 1, .wScan 2, .taskEnd 1, .relock 1, .wake 2,
    .wScan 2] = true := by decide
/-- ... and while the first is running nobody can pop the second (the waiter is blocked, too) -/
example : accepts 2 [.createQueue 0, .submit 1, .submit 1, .wScan 1, .waitBegin 1, .waitPop] = false := by decide
example : accepts 2 [.createQueue 0, .submit 1, .submit 1, .wScan 1, .waitBegin 1, .waitBlocked] = true := by decide

/-- Each running task observes the id of the thread it runs on: the position in the thread table,
`0` for the external thread and `1..n` for workers.  Concurrently running tasks are on distinct
positions (one program counter per position) and a position is `≤ n`. -/
theorem thread_id_unique {n : Nat} {s : State} (hr : Reachable n s) :
    ∀ th th' t t' q q' : Nat, s.pcs[th]? = some (Pc.running t q) → s.pcs[th']? = some (Pc.running t' q') →
      th ≤ n ∧ th' ≤ n ∧ (th = th' ↔ t = t') := by
  intro th th' t t' q q' h1 h2
  have hi := (reachable_inv hr).a
  have hn := reachable_n hr
  have l1 : th < s.pcs.length := (List.getElem?_eq_some_iff.mp h1).1
  have l2 : th' < s.pcs.length := (List.getElem?_eq_some_iff.mp h2).1
  rw [hi.len, hn] at l1 l2
  refine ⟨by omega, by omega, ?_, ?_⟩
  · intro e; subst e; rw [h1] at h2; cases h2; rfl
  · intro e; subst e
    rw [← hi.run_runner th t q h1, ← hi.run_runner th' t q' h2]

example : accepts 2 [.submit 0, .submit 0, .submit 0, .waitBegin 0, .wScan 1, .wScan 2, .waitPop] = true := by decide

/-- After the destructor has set `terminate`, no task is started any more (no pop, no inline run),
nothing new is submitted, and tasks still pending are never run.  Once the destructor has returned
(`destroyed`), every worker has left its loop, nobody is running anything and no action is enabled. -/
theorem shutdown_safe {n : Nat} {s : State} (hr : Reachable n s) :
    (s.terminate = true → ∀ a s', step s a = some s' →
        s'.started = s.started ∧ s'.nextId = s.nextId ∧ s'.terminate = true) ∧
    (s.mode = .destroyed →
        (∀ (th : Nat) (p : Pc), 1 ≤ th → s.pcs[th]? = some p → p = Pc.exited) ∧ s.pcs[0]? = some Pc.idle ∧
        (∀ t, ¬Running s t) ∧ ∀ a, step s a = none) := by
  obtain ⟨hA, hB, hC⟩ := reachable_inv hr
  constructor
  · intro hterm a s' hs
    have hsd := hB.term_iff.mp hterm
    cases a
    case wScan th =>
      simp only [step] at hs
      split at hs
      · cases hs
      · split at hs
        · cases hs
          rcases scanBody_cases s th with ⟨_, he⟩ | ⟨ht, _⟩ | ⟨ht, _⟩
          · rw [he]; exact ⟨rfl, rfl, hterm⟩
          · rw [hterm] at ht; cases ht
          · rw [hterm] at ht; cases ht
        · cases hs
          rcases scanBody_cases { s with tw := s.tw - 1 } th with ⟨_, he⟩ | ⟨ht, _⟩ | ⟨ht, _⟩
          · rw [he]; exact ⟨rfl, rfl, hterm⟩
          · simp only at ht; rw [hterm] at ht; cases ht
          · simp only at ht; rw [hterm] at ht; cases ht
        · cases hs
    all_goals step_split hs
    all_goals (first | exact ⟨rfl, rfl, hterm⟩ | exact ⟨rfl, rfl, rfl⟩ | skip)
    all_goals (rename_i hg; simp_all [Mode.isShutdown])
  · intro hm
    have hex := hB.destroyed_exited hm
    have hext : s.pcs[0]? = some Pc.idle := hB.ext_idle (Or.inr (Or.inr (by rw [hm]; rfl)))
    have hpc : ∀ (th : Nat) (p : Pc), s.pcs[th]? = some p → p = Pc.idle ∨ p = Pc.exited := by
      intro th p hp
      by_cases h0 : th = 0
      · subst h0; rw [hext] at hp; cases hp; exact Or.inl rfl
      · exact Or.inr (hex th p (by omega) hp)
    refine ⟨hex, hext, ?_, ?_⟩
    · rintro t ⟨th, q, hrun⟩
      rcases hpc th _ hrun with h | h <;> cases h
    · intro a
      cases a <;> simp only [step, hm]
      case wScan th =>
        split
        · rfl
        · rename_i hth
          cases hp : s.pcs[th]? with
          | none => rfl
          | some p =>
            have := hex th p (by omega) hp
            subst this; rfl
      case wake th =>
        cases hp : s.pcs[th]? with
        | none => rfl
        | some p => rcases hpc th p hp with h | h <;> subst h <;> rfl
      case taskEnd th =>
        cases hp : s.pcs[th]? with
        | none => rfl
        | some p => rcases hpc th p hp with h | h <;> subst h <;> rfl
      case relock th =>
        cases hp : s.pcs[th]? with
        | none => rfl
        | some p => rcases hpc th p hp with h | h <;> subst h <;> rfl
      all_goals simp

/-- non-vacuity: shutdown with a pending task and a sleeping worker reaches `destroyed` -/
example : accepts 1 [.wScan 1, .submit 0, .sdFlag, .sdClear, .sdNotify, .wScan 1, .sdJoin] = true := by decide
example : accepts 1 [.wScan 1, .submit 0, .sdFlag, .wake 1, .wScan 1, .sdClear, .sdNotify, .sdJoin, .wScan 1] = false := by
  decide

/-- `parallelFor(f, b, e, tc)` on a dispatcher with `threads` workers: the index ranges handed to the
tasks, concatenated in task order, are exactly `b, b+1, …, e-1` — every index once, none outside —
for every range (also empty), every explicit task count and every worker count (also zero).
There is always at least one task, each range lies inside `[b, e)`, and sizes differ by at most one. -/
theorem parallelFor_partition (b e tc threads : Nat) (hbe : b ≤ e) :
    ((pforRanges b e tc threads).map rangeItems).flatten = List.range' b (e - b) ∧
    (pforRanges b e tc threads).length = pforTaskCount (e - b) tc threads ∧
    1 ≤ (pforRanges b e tc threads).length ∧
    (∀ r ∈ pforRanges b e tc threads, b ≤ r.1 ∧ r.1 ≤ r.2 ∧ r.2 ≤ e ∧
      ((r.2 - r.1) = (e - b) / pforTaskCount (e - b) tc threads ∨
       (r.2 - r.1) = (e - b) / pforTaskCount (e - b) tc threads + 1)) := by
  have hpos := pforTaskCount_pos (e - b) tc threads
  have hsum := pforSizes_sum (e - b) _ hpos
  have hlen : (pforRanges b e tc threads).length = pforTaskCount (e - b) tc threads := by
    simp [pforRanges, pforRangesFrom_length, pforSizes_length]
  refine ⟨?_, hlen, by omega, ?_⟩
  · simp only [pforRanges, pforRangesFrom_items, hsum]
  · intro r hr
    have := pforRangesFrom_bounds b _ r hr
    rw [hsum] at this
    exact ⟨this.1, this.2.1, by omega, pforSizes_mem _ _ _ this.2.2.2⟩

/-- the unguarded computation of the pinned tree yields task count 0 — and then divides by it —
exactly for an empty range or a dispatcher without workers (with no explicit task count) -/
theorem pinned_zero_task_count (size tc threads : Nat) :
    pforTaskCountPinned size tc threads = 0 ↔ tc = 0 ∧ (size = 0 ∨ threads = 0) := by
  unfold pforTaskCountPinned
  repeat' split
  all_goals omega

example : pforRanges 3 10 0 3 = [(3, 6), (6, 8), (8, 10)] := by decide
example : pforRanges 5 5 0 4 = [(5, 5)] := by decide
example : pforRanges 0 2 5 0 = [(0, 1), (1, 2), (2, 2), (2, 2), (2, 2)] := by decide
example : pforRanges 0 3 0 0 = [(0, 3)] := by decide

/-! ## liveness -/

/-- Deadlock freedom: in every reachable state in which the external thread is inside a library call
(inline run, `wait`, destructor) some thread has an enabled action that is neither a busy-wait
iteration / spurious wake-up nor a new API call.  (Between calls — `mode = api` — the caller is free to
do anything, e.g. `setSingle`.) -/
theorem no_deadlock {n : Nat} {s : State} (hr : Reachable n s) (hm : s.mode ≠ .destroyed) :
    s.mode = .api ∨ ∃ a : Action, a.isSpin = false ∧ a.isCall = false ∧ (step s a).isSome = true :=
  no_deadlock_inv (reachable_inv hr) hm

/-- non-vacuity: waiter blocked on a busy serial queue; the worker's `taskEnd` is the progress action -/
example : accepts 1 [.createQueue 0, .submit 1, .submit 1, .wScan 1, .waitBegin 1, .waitBlocked, .taskEnd 1] = true := by
  decide

/-- Bounded progress: while the external thread is blocked inside a library call, every action that is
not a busy-wait iteration / spurious wake-up strictly decreases `progressMeasure` (4 per pending task, 3 per running
task, 2 per finished task not yet signed off, 1 per awake idle thread, plus the phase of the caller);
busy-wait iterations leave it unchanged and a spurious wake-up adds 1. -/
theorem bounded_progress {n : Nat} {s s' : State} {a : Action} (hr : Reachable n s)
    (hb : s.mode.isBlocked = true) (hs : step s a = some s') :
    (a.isSpin = false → progressMeasure s' < progressMeasure s) ∧
    (a = .waitBlocked ∨ a = .spinRetry → progressMeasure s' = progressMeasure s) ∧
    (∀ th, a = .wake th → progressMeasure s' = progressMeasure s + 1) := by
  refine ⟨fun hsp => bounded_progress_inv (reachable_inv hr) hb hsp hs, ?_, ?_⟩
  · rintro (rfl | rfl) <;> (step_split hs; rfl)
  · rintro th rfl
    step_split hs
    rename_i hp
    have h1 := sum_map_set_of pcW s.pcs th Pc.woken _ hp
    have e1 : pcW Pc.woken = 1 := rfl
    have e2 : pcW Pc.sleeping = 0 := rfl
    simp only [progressMeasure, pendingCount] at h1 ⊢
    omega

/-- FULL liveness claim ("a wait call always returns"): on every infinite run of the model, started anywhere
inside `wait(q)`, under a weakly fair scheduler (`WeaklyFair`: a thread that keeps having an enabled action
other than a busy-wait iteration or a new API call eventually takes a non-busy-wait action) and with finitely
many spurious wake-ups, the call returns to the caller. -/
def wait_returns_statement : Prop :=
  ∀ (n : Nat) (r : InfRun n) (q : Nat), InWait q (r.st 0) → WeaklyFair r → FinitelyManyWakes r →
    ∃ i, (r.st i).mode = .api

/-- The full statement holds for the model: `no_deadlock` gives an enabled progress action, it stays enabled
until its thread moves (`progress_persists`), so a weakly fair schedule keeps making progress, and
`bounded_progress` bounds how much progress is possible before the call returns.
What remains OUTSIDE the model (and is therefore only assumed): that the OS scheduler is weakly fair, that
`std::condition_variable` wakes spuriously only finitely often, and that dispatch.cpp follows the model. -/
theorem wait_returns : wait_returns_statement :=
  fun _ r _ h0 hf hw => wait_returns_weakly_fair r h0 hf hw

/-- the same under the weaker-to-state assumption that the schedule keeps taking progress actions -/
theorem wait_returns_partial {n : Nat} (r : InfRun n) (q : Nat) (h0 : InWait q (r.st 0))
    (hA1 : KeepsProgressing r) (hA2 : FinitelyManyWakes r) : ∃ i, (r.st i).mode = .api :=
  wait_returns_of_fair r h0 hA1 hA2

private def s0 : State := { init 0 with mode := .waitLoop 0 }
private def s1 : State := { init 0 with mode := .spin 0 }
private def s2 : State := { init 0 with mode := .api, synced := syncedAfter s1 0 }
private def s3 : State := { s2 with single := true }

/-- non-vacuity of `wait_returns_partial`: a dispatcher without workers, `wait` on the empty parallel queue, then API calls forever -/
def demoRun : InfRun 0 where
  st := fun i => match i with | 0 => s0 | 1 => s1 | 2 => s2 | _ => s3
  act := fun i => match i with | 0 => .waitEmpty | 1 => .spinExit | _ => .setSingle true
  start := Reachable.step (.waitBegin 0) Reachable.init rfl
  steps := by
    intro i
    match i with
    | 0 => rfl
    | 1 => rfl
    | 2 => rfl
    | (k + 3) => rfl

example : InWait 0 (demoRun.st 0) ∧ KeepsProgressing demoRun ∧ FinitelyManyWakes demoRun := by
  refine ⟨Or.inl rfl, ?_, ⟨0, ?_⟩⟩
  · intro i
    refine ⟨i, Nat.le_refl _, ?_⟩
    match i with
    | 0 => rfl
    | 1 => rfl
    | (k + 2) => rfl
  · intro j _ th
    match j with
    | 0 => intro h; cases h
    | 1 => intro h; cases h
    | (k + 2) => intro h; cases h

/-- ... and it is weakly fair (from step 2 on no thread has a pending non-call action) -/
example : WeaklyFair demoRun := by
  intro th i hen
  exfalso
  obtain ⟨a, _, h1, h2, h3⟩ := hen (i + 3) (by omega)
  have : step (demoRun.st (i + 3)) a = none := no_progress_without_workers _ rfl rfl a h1 h2
  rw [this] at h3
  cases h3

end Mustache.Props.C08

import Mustache.Model.World
import Mustache.Driver.World
import Mustache.Proofs.RowsOps
/-!
# C09 — operations through dead, null or foreign handles are harmless

Model: `Mustache.Model.WM` (`Model/World.lean`). Every theorem quantifies over EVERY state `w : WM`
(reachable or not) and EVERY handle `h` with `w.isValid h = false` — null, other world, id out of
range, stale version; there is no other hypothesis. The conclusion is always "returns null/false and
the WHOLE concrete state is returned unchanged" (hence every other live entity is untouched).
`destroy` is the one entry point that records the handle (in `marked`); `update` then drops it.
-/
namespace Mustache.Props.C09
open Mustache.Model

/-! ## sample states for the non-vacuity examples -/

abbrev cat := Mustache.Driver.World.catalogue

/-- two entities {A,B} / {A}, the first one destroyed: its handle `⟨0,0,0⟩` is stale -/
def sampleW : WM :=
  let w : WM := {}
  let (w, _, _) := w.create cat 0 [0, 1] Shared.null
  let (w, h1, _) := w.create cat 0 [0] Shared.null
  let (w, _, _) := w.assign cat 0 h1 2 (some 77)
  (w.destroyNowU cat ⟨0, 0, 0⟩).1

def stale : Handle := ⟨0, 0, 0⟩
def foreign : Handle := ⟨1, 0, 5⟩
def outOfRange : Handle := ⟨9, 0, 0⟩
def live1 : Handle := ⟨1, 0, 0⟩

example : sampleW.isValid stale = false ∧ sampleW.isValid foreign = false ∧
    sampleW.isValid outOfRange = false ∧ sampleW.isValid Handle.null = false ∧
    sampleW.isValid live1 = true := by decide
example : sampleW.getComp live1 2 = some (some 77) := by decide

/-! ## the validity test -/

/-- `isEntityValid` is exactly: not the null pattern, issued by this world, id inside the table, the
version stored there equals the handle's version and the slot is live (stores its own id). -/
theorem isValid_spec (w : WM) (h : Handle) :
    w.isValid h = true ↔
      h ≠ Handle.null ∧ h.world = w.worldId ∧
        ∃ s, w.slots[h.id]? = some s ∧ s.ver = h.ver ∧ s.idf = h.id := by
  unfold WM.isValid Handle.isNull
  cases hs : w.slots[h.id]? with
  | none => simp
  | some s => simp [and_assoc]

example : sampleW.isValid live1 = true ∧ live1 ≠ Handle.null ∧ live1.world = sampleW.worldId ∧
    sampleW.slots[live1.id]? = some ⟨1, 0⟩ := by decide

/-- the five ways of being invalid: null, foreign world, id out of range, stale version, free slot -/
theorem isValid_false_iff (w : WM) (h : Handle) :
    w.isValid h = false ↔
      h = Handle.null ∨ h.world ≠ w.worldId ∨ w.slots.length ≤ h.id ∨
        ∃ s, w.slots[h.id]? = some s ∧ (s.ver ≠ h.ver ∨ s.idf ≠ h.id) := by
  rw [← Bool.not_eq_true, isValid_spec]
  cases hs : w.slots[h.id]? with
  | none =>
    have : w.slots.length ≤ h.id := List.getElem?_eq_none_iff.mp hs
    simp [this]
  | some s =>
    have : h.id < w.slots.length := (List.getElem?_eq_some_iff.mp hs).1
    have hn : ¬ w.slots.length ≤ h.id := by omega
    simp only [Option.some.injEq, exists_eq_left', hn, false_or]
    by_cases h1 : h = Handle.null <;> by_cases h2 : h.world = w.worldId <;>
      by_cases h3 : s.ver = h.ver <;> by_cases h4 : s.idf = h.id <;> simp [h1, h2, h3, h4]

example : sampleW.isValid Handle.null = false := by decide
/-- the stale handle's slot: version bumped AND on the free list -/
example : sampleW.slots[stale.id]? = some ⟨1, 1⟩ := by decide

/-! ## queries -/

theorem getComp_invalid (w : WM) (h : Handle) (c : CompId) (hv : w.isValid h = false) :
    w.getComp h c = none := by
  simp [WM.getComp, hv]

theorem hasComp_invalid (w : WM) (h : Handle) (c : CompId) (hv : w.isValid h = false) :
    w.hasComp h c = false := by
  simp [WM.hasComp, hv]

theorem hasShared_invalid (w : WM) (h : Handle) (sid : Nat) (hv : w.isValid h = false) :
    w.hasShared h sid = false := by
  simp [WM.hasShared, hv]

theorem archOf_invalid (w : WM) (h : Handle) (hv : w.isValid h = false) :
    w.archOf h = none := by
  simp [WM.archOf, hv]

example : sampleW.getComp stale 0 = none ∧ sampleW.hasComp stale 0 = false ∧
    sampleW.archOf stale = none ∧ sampleW.archOf live1 = some 2 := by decide

/-! ## checked mutations, unlocked: the whole state is returned unchanged -/

theorem destroyNowU_invalid (info : CompId → CompInfo) (w : WM) (h : Handle)
    (hv : w.isValid h = false) : w.destroyNowU info h = (w, []) := by
  simp [WM.destroyNowU, hv]

/-- the public `destroyNow`, unlocked -/
theorem destroyNow_invalid (info : CompId → CompInfo) (w : WM) (t : Nat) (h : Handle)
    (hl : w.isLocked = false) (hv : w.isValid h = false) : w.destroyNow info t h = (w, []) := by
  simp [WM.destroyNow, hl, destroyNowU_invalid info w h hv]

theorem removeComp_invalid (info : CompId → CompInfo) (w : WM) (t : Nat) (h : Handle) (c : CompId)
    (hl : w.isLocked = false) (hv : w.isValid h = false) : w.removeComp info t h c = (w, []) := by
  simp [WM.removeComp, hl, hv]

theorem sremove_invalid (info : CompId → CompInfo) (w : WM) (h : Handle) (sid : Nat)
    (hv : w.isValid h = false) : w.sremove info h sid = (w, false, []) := by
  simp [WM.sremove, hv]

theorem clone_invalid (w : WM) (h : Handle) (hv : w.isValid h = false) :
    w.clone h = (w, none) := by
  simp [WM.clone, hv]

example : sampleW.isLocked = false := by decide

/-! ## deferred form: a pack whose target is invalid when it is applied is skipped as a whole -/

/-- `applyCommandPack` on a pack that does not start with a creation and whose target handle is
invalid at that moment: nothing is applied, nothing fires, the state is the same. -/
theorem applyPack_invalid (info : CompId → CompInfo) (w : WM) (first : Cmd) (rest : List Cmd)
    (hnc : ∀ e m sh, first ≠ .create e m sh) (hv : w.isValid first.entity = false) :
    w.applyPack info (first :: rest) = (w, []) := by
  cases first with
  | create e m sh => exact absurd rfl (hnc e m sh)
  | destroyNow e => simp [WM.applyPack, Cmd.entity] at hv ⊢; simp [hv]
  | destroy e => simp [WM.applyPack, Cmd.entity] at hv ⊢; simp [hv]
  | remove e c => simp [WM.applyPack, Cmd.entity] at hv ⊢; simp [hv]
  | assign e c v => simp [WM.applyPack, Cmd.entity] at hv ⊢; simp [hv]

example : (Cmd.remove stale 0).entity = stale := rfl

/-- the packs of a flush: folding `applyPack` over a list of packs that all target invalid handles
(valid-ness taken in the state where the fold starts — the state never changes, so it is the state
at the time each pack is applied) leaves the state unchanged. -/
theorem applyPacks_invalid (info : CompId → CompInfo) (w : WM) (ps : List (List Cmd)) (cbs : List Cb)
    (hps : ∀ p ∈ ps, ∃ first rest, p = first :: rest ∧ (∀ e m sh, first ≠ .create e m sh) ∧
      w.isValid first.entity = false) :
    ps.foldl (fun (acc : WM × List Cb) p =>
      let (w', c) := acc.1.applyPack info p
      (w', acc.2 ++ c)) (w, cbs) = (w, cbs) := by
  induction ps with
  | nil => rfl
  | cons p ps ih =>
    rcases hps p (by simp) with ⟨first, rest, rfl, hnc, hv⟩
    rw [List.foldl_cons]
    simp only [applyPack_invalid info w first rest hnc hv, List.append_nil]
    exact ih (fun q hq => hps q (by simp [hq]))

/-! ## `destroy`: the handle is parked in `marked`, `update` drops it -/

/-- unlocked `destroy` of a live entity changes `marked` only -/
theorem destroy_marks_only (w : WM) (t : Nat) (h : Handle) (hl : w.isLocked = false) (hv : w.isValid h = true) :
    w.destroy t h = { w with marked := insertSorted w.marked h } := by
  simp [WM.destroy, hl, hv]

/-- unlocked `destroy` through a handle that is not alive (null, stale, foreign, never issued) does nothing at all -/
theorem destroy_invalid_noop (w : WM) (t : Nat) (h : Handle) (hl : w.isLocked = false) (hv : w.isValid h = false) :
    w.destroy t h = w := by
  simp [WM.destroy, hl, hv]

/-- the observable state does not depend on `marked` -/
theorem marked_unobservable (w : WM) (m : List Handle) (e : Handle) (c : CompId) :
    ({ w with marked := m }).isValid e = w.isValid e ∧
    ({ w with marked := m }).getComp e c = w.getComp e c ∧
    ({ w with marked := m }).hasComp e c = w.hasComp e c ∧
    ({ w with marked := m }).archOf e = w.archOf e ∧
    ({ w with marked := m }).archs = w.archs ∧ ({ w with marked := m }).locs = w.locs ∧
    ({ w with marked := m }).slots = w.slots :=
  ⟨rfl, rfl, rfl, rfl, rfl, rfl, rfl⟩

/-- the loop of `update()` -/
def updFold (info : CompId → CompInfo) (acc : WM × List Cb) (l : List Handle) : WM × List Cb :=
  l.foldl (fun (acc : WM × List Cb) h =>
    let (w', c) := acc.1.destroyNowU info h
    (w', acc.2 ++ c)) acc

theorem update_eq (info : CompId → CompInfo) (w : WM) (hl : w.isLocked = false) :
    w.update info = ({ (updFold info (w, []) w.marked).1 with marked := [] }, .ok,
      (updFold info (w, []) w.marked).2) := by
  simp [WM.update, hl, updFold]

theorem updFold_append (info : CompId → CompInfo) (acc : WM × List Cb) (l₁ l₂ : List Handle) :
    updFold info acc (l₁ ++ l₂) = updFold info (updFold info acc l₁) l₂ := by
  simp [updFold, List.foldl_append]

/-- An entry of the pending-destroy set that is invalid when `update()` reaches it is discarded: the
loop over `pre ++ h :: post` ends in the same state, with the same callbacks, as the loop over
`pre ++ post`. ("invalid at that time" = in the state after the entries before it were processed.) -/
theorem updFold_drop_invalid (info : CompId → CompInfo) (acc : WM × List Cb) (pre post : List Handle)
    (h : Handle) (hv : (updFold info acc pre).1.isValid h = false) :
    updFold info acc (pre ++ h :: post) = updFold info acc (pre ++ post) := by
  rw [updFold_append, updFold_append]
  generalize updFold info acc pre = a at hv
  show updFold info (updFold info a [h]) post = _
  have : updFold info a [h] = a := by
    simp [updFold, destroyNowU_invalid info a.1 h hv]
  rw [this]

theorem release_marked (w : WM) (m : List Handle) (h : Handle) :
    ({ w with marked := m }).release h = { w.release h with marked := m } := by
  unfold WM.release; simp only; split <;> rfl

theorem archRemove_marked (info : CompId → CompInfo) (w : WM) (m : List Handle) (ai idx : Nat)
    (sk : Mask) :
    ({ w with marked := m }).archRemove info ai idx sk =
      ({ (w.archRemove info ai idx sk).1 with marked := m }, (w.archRemove info ai idx sk).2) := by
  unfold WM.archRemove
  have ha : ({ w with marked := m }).arch ai = w.arch ai := rfl
  simp only [ha]
  split
  · rfl
  · simp only [WM.setArch, WM.setLoc]
    split <;> split <;> (try split) <;> rfl

/-- `destroyNow` neither reads nor writes the pending set -/
theorem destroyNowU_marked (info : CompId → CompInfo) (w : WM) (m : List Handle) (h : Handle) :
    ({ w with marked := m }).destroyNowU info h =
      ({ (w.destroyNowU info h).1 with marked := m }, (w.destroyNowU info h).2) := by
  unfold WM.destroyNowU
  have hv : ({ w with marked := m }).isValid h = w.isValid h := rfl
  have hloc : ({ w with marked := m }).locOf h = w.locOf h := rfl
  rw [hv, hloc]
  cases w.isValid h with
  | false => rfl
  | true =>
    simp only [Bool.not_true, Bool.false_eq_true, if_false]
    cases (w.locOf h).arch with
    | none => simp only [release_marked]
    | some ai => simp only [archRemove_marked, release_marked]

theorem updFold_marked (info : CompId → CompInfo) (w : WM) (cbs : List Cb) (m l : List Handle) :
    updFold info ({ w with marked := m }, cbs) l =
      ({ (updFold info (w, cbs) l).1 with marked := m }, (updFold info (w, cbs) l).2) := by
  induction l generalizing w cbs with
  | nil => rfl
  | cons h l ih =>
    simp only [updFold, List.foldl_cons] at ih ⊢
    rw [destroyNowU_marked]
    exact ih _ _

/-- `update()` on a state whose pending set contains an entry `h` that is invalid when the loop
reaches it = `update()` on the same state without that entry (same final state, same result, same
callbacks). -/
theorem destroy_invalid_dropped_by_update (info : CompId → CompInfo) (w : WM) (pre post : List Handle)
    (h : Handle) (hl : w.isLocked = false) (hm : w.marked = pre ++ h :: post)
    (hv : (updFold info (w, []) pre).1.isValid h = false) :
    w.update info = ({ w with marked := pre ++ post }).update info := by
  have hl' : ({ w with marked := pre ++ post }).isLocked = false := hl
  rw [update_eq info w hl, update_eq info _ hl', hm]
  simp only [updFold_marked, updFold_drop_invalid info (w, []) pre post h hv]

/-- processing handles with other ids does not revive an invalid handle -/
theorem updFold_keeps_invalid (info : CompId → CompInfo) (h : Handle) (pre : List Handle)
    (acc : WM × List Cb) (hv : acc.1.isValid h = false) (hids : ∀ x ∈ pre, x.id ≠ h.id) :
    (updFold info acc pre).1.isValid h = false := by
  induction pre generalizing acc with
  | nil => exact hv
  | cons x pre ih =>
    have hx : x.id ≠ h.id := hids x (by simp)
    have : updFold info acc (x :: pre) = updFold info (updFold info acc [x]) pre := by
      simp [updFold]
    rw [this]
    apply ih
    · show (acc.1.destroyNowU info x).1.isValid h = false
      rw [Mustache.Proofs.Rows.destroyNowU_isValid_ne info acc.1 x h (Ne.symm hx)]; exact hv
    · exact fun y hy => hids y (by simp [hy])

/-- the usual case: `h` is invalid when `update()` starts and no pending entry processed before it
names the same id (entries are ordered by packed value, so e.g. `h` is the only or the
lowest-versioned entry of its id): `update()` = `update()` without the entry -/
theorem destroy_invalid_dropped_by_update_ids (info : CompId → CompInfo) (w : WM) (pre post : List Handle)
    (h : Handle) (hl : w.isLocked = false) (hm : w.marked = pre ++ h :: post)
    (hv : w.isValid h = false) (hids : ∀ x ∈ pre, x.id ≠ h.id) :
    w.update info = ({ w with marked := pre ++ post }).update info :=
  destroy_invalid_dropped_by_update info w pre post h hl hm
    (updFold_keeps_invalid info h pre (w, []) hv hids)

/-- `destroy stale; update` on a state with an empty pending set = `update` alone: nothing at all
happened to the world -/
theorem destroy_invalid_then_update (info : CompId → CompInfo) (w : WM) (t : Nat) (h : Handle)
    (hl : w.isLocked = false) (hv : w.isValid h = false) :
    (w.destroy t h).update info = w.update info := by
  rw [destroy_invalid_noop w t h hl hv]

example : sampleW.marked = [] ∧ sampleW.isValid stale = false := by decide

example : (sampleW.destroy 0 stale).marked = [] := by decide
example : ((sampleW.destroy 0 stale).update cat).1.archs.map (·.rows.length) = [0, 0, 1] := by decide

end Mustache.Props.C09

import Mustache.Proofs.LayoutBasic
import Mustache.Proofs.LayoutTemp
import Mustache.Proofs.LayoutGen
import Mustache.Proofs.LayoutStore
/-! # C10 — component storage handed out is in-bounds, live and correctly aligned

PARTIAL BY NATURE (DESIGN.md section 6): the theorems cover the address arithmetic and the index ranges of
`DefaultComponentDataStorage` (chunk layout, `getDataUnsafe`) and of the command buffer's
`TemporalStorage::allocate`, for ALL component lists, capacities, slot indices and allocation histories.
Object lifetime, aliasing and the allocator of the C++ abstract machine are outside a value-level model;
they are validated by the sanitizer runs of `tools/props/c10.py`.

Vocabulary: `cs` = the archetype's components in id order (`size`, `align`), `cap` = storage-chunk capacity,
`ca` = `chunk_align_` (the alignment requested from the allocator for every chunk), `base c` = address of
chunk `c`; `offsetOf cap 0 cs i` = `component_getter_info_[i].offset`, `addr cap cs base i j` = the pointer
`getDataUnsafe(i, j)` returns. `WF` = every alignment is positive, `Strided` = `size % align = 0`. -/
namespace Mustache.Props.C10
open Mustache.Gen Mustache.Model.Layout Mustache.Proofs.Layout Mustache.Proofs.LayoutTemp Mustache.Proofs.LayoutGen
  Mustache.Proofs.LayoutStore

/-! ## the executable fold is what the theorems talk about; its arithmetic is the code's -/

/-- the constructor's fold (`layout`, the definition the driver runs against the implementation) produces
exactly the offsets `offsetOf`, the chunk alignment of the chosen rule and the rounded-up chunk size -/
theorem constructor_fold (rule : Rule) (cap : Nat) (cs : List Comp) :
    (layout rule cap cs).getters = colsFrom cap 0 cs ∧
    (∀ i, i < cs.length → (layout rule cap cs).getters[i]? = some ⟨offsetOf cap 0 cs i, sizeAt cs i⟩) ∧
    (layout .largest cap cs).chunkAlign = maxAlign cs ∧
    (layout .first cap cs).chunkAlign = firstAlign cap 0 0 cs ∧
    (cs ≠ [] → (layout rule cap cs).chunkSize = chunkSizeOf cap cs (layout rule cap cs).chunkAlign) := by
  have e := build_eq rule cap cs
  refine ⟨by simp [layout, e], ?_, ?_, ?_, ?_⟩
  · intro i hi
    simp only [layout, e]
    exact colsFrom_get cap 0 cs i hi
  · simp [layout, build_eq, caOf, maxAlign]
  · simp [layout, build_eq, caOf]
  · intro hne
    have : cs.isEmpty = false := by cases cs <;> simp_all
    simp [layout, e, this, chunkSizeOf]

example : (layout .largest 4 [⟨1, 1⟩, ⟨64, 64⟩, ⟨24, 8⟩]).getters = [⟨0, 1⟩, ⟨64, 64⟩, ⟨320, 24⟩] ∧
    (layout .largest 4 [⟨1, 1⟩, ⟨64, 64⟩, ⟨24, 8⟩]).chunkSize = 448 ∧
    (layout .largest 4 [⟨1, 1⟩, ⟨64, 64⟩, ⟨24, 8⟩]).chunkAlign = 64 ∧
    (layout .first 4 [⟨1, 1⟩, ⟨64, 64⟩, ⟨24, 8⟩]).chunkAlign = 1 := by decide

/-- `ComponentOffset::alignAs` as GENERATED from the source equals the model's `alignUp` (no 32-bit overflow) -/
theorem alignUp_eq_generated (off a : Nat) (ha : 0 < a) (ha2 : a < 2 ^ 32) (h : off + a ≤ 2 ^ 32) :
    w_align_defined (b32 off) (b32 a) = true ∧ (w_align (b32 off) (b32 a)).toNat = alignUp off a :=
  Mustache.Proofs.LayoutGen.alignUp_eq_generated off a ha ha2 h

example : (0 : Nat) < 64 ∧ 64 < 2 ^ 32 ∧ 4097 + 64 ≤ 2 ^ 32 ∧ alignUp 4097 64 = 4160 := by decide

/-- the whole offset computation carried out with the generated 32-bit `alignAs` and wrapping `add` gives the
model's offsets and end whenever the chunk (plus one alignment) fits 32 bits -/
theorem layout32_eq_generated (cap A : Nat) (cs : List Comp) (h : WF cs) (hA : ∀ c ∈ cs, c.align ≤ A)
    (hsmall : endOf cap 0 cs + A < 2 ^ 32) :
    colsGen cap (b32 0) cs = colsFrom cap 0 cs ∧ (endGen cap (b32 0) cs).toNat = endOf cap 0 cs := by
  have g := gen_eq cap 0 A cs h hA hsmall
  exact ⟨g.1, by rw [g.2, b32_toNat _ (by omega)]⟩

example : WF [⟨1, 1⟩, ⟨4096, 64⟩] ∧ (∀ c ∈ [(⟨1, 1⟩ : Comp), ⟨4096, 64⟩], c.align ≤ 64) ∧
    endOf 16384 0 [⟨1, 1⟩, ⟨4096, 64⟩] + 64 < 2 ^ 32 := by
  refine ⟨?_, ?_, by decide⟩ <;> intro c hc <;> simp at hc <;> rcases hc with rfl | rfl <;> decide

/-- chunk/item split of `getDataUnsafe` (`index / chunk_capacity_`, `index % chunk_capacity_`) as generated -/
theorem split_index (j cap : Nat) (hj : j < 2 ^ 32) (hc : 0 < cap) (hc2 : cap < 2 ^ 32) :
    w_div_defined (b32 j) (b32 cap) = true ∧ w_mod_defined (b32 j) (b32 cap) = true ∧
    (w_div (b32 j) (b32 cap)).toNat = j / cap ∧ (w_mod (b32 j) (b32 cap)).toNat = j % cap ∧
    j = (j / cap) * cap + j % cap ∧ j % cap < cap := by
  have s := split_eq_generated j cap hj hc hc2
  refine ⟨s.1, s.2.1, s.2.2.1, s.2.2.2, ?_, Nat.mod_lt _ hc⟩
  have := Nat.div_add_mod j cap
  rw [Nat.mul_comm] at this; omega

example : (37 : Nat) < 2 ^ 32 ∧ (0 : Nat) < 16 ∧ 16 < 2 ^ 32 := by decide

/-- a slot below the allocated capacity uses an existing chunk -/
theorem chunk_index_in_range (j cap nchunks : Nat) (h : j < cap * nchunks) : j / cap < nchunks :=
  Nat.div_lt_of_lt_mul h

example : (37 : Nat) < 16 * 3 := by decide

/-- ALL histories of `emplace` / `decrSize` / `clear` on a storage (non-empty mask, hence `chunk_size_ > 0`;
capacity ≥ 1): every slot below the population is backed by an allocated chunk, so `chunks_[j / cap]` of a
live slot is inside the chunk table -/
theorem storage_slots_backed (cap chunkSize : Nat) (ops : List SOp) (hc : 0 < cap) (hz : 0 < chunkSize) (j : Nat)
    (hj : j < ((⟨cap, chunkSize, 0, 0⟩ : Store).run ops).size) :
    j / cap < ((⟨cap, chunkSize, 0, 0⟩ : Store).run ops).nchunks := by
  have r := run_inv ⟨cap, chunkSize, 0, 0⟩ ops hc hz (by simp [SInv])
  unfold SInv at r
  rw [r.2.1] at r
  exact chunk_index_in_range j cap _ (by simp only at r; omega)

example : ((⟨2, 64, 0, 0⟩ : Store).run [.emplace 0, .emplace 1, .emplace 2, .decr, .emplace 2, .clear false, .emplace 0]) =
    ⟨2, 64, 2, 1⟩ := by decide

/-! ## alignment -/

/-- EXACT condition for aligned addresses: if the chunk base is a multiple of `ca` and the component's
alignment divides `ca`, every address handed out for that component is a multiple of its alignment -/
theorem layout_aligned (cap : Nat) (cs : List Comp) (ca : Nat) (base : Nat → Nat) (hs : Strided cs)
    (i j : Nat) (hi : i < cs.length) (hbase : base (j / cap) % ca = 0) (hdiv : alignAt cs i ∣ ca) :
    addr cap cs base i j % alignAt cs i = 0 := by
  apply Nat.mod_eq_zero_of_dvd
  unfold addr
  rw [rel_eq]
  have h1 : alignAt cs i ∣ base (j / cap) := Nat.dvd_trans hdiv (Nat.dvd_of_mod_eq_zero hbase)
  have h2 := offsetOf_dvd cap 0 cs i hi
  have h3 : alignAt cs i ∣ j % cap * sizeAt cs i := Nat.dvd_trans (strided_at hs hi) (Nat.dvd_mul_left _ _)
  exact Nat.dvd_add h1 (Nat.dvd_add h2 h3)

example : Strided [⟨1, 1⟩, ⟨64, 64⟩] ∧ (1 : Nat) < [(⟨1, 1⟩ : Comp), ⟨64, 64⟩].length ∧
    (fun _ => 4096) (5 / 4) % 64 = 0 ∧ alignAt [⟨1, 1⟩, ⟨64, 64⟩] 1 ∣ 64 := by
  refine ⟨?_, by decide, by decide, ⟨1, by decide⟩⟩
  intro c hc; simp at hc; rcases hc with rfl | rfl <;> exact ⟨1, by decide⟩

/-- with power-of-two alignments the largest alignment is a multiple of every member's alignment
(so the repaired rule `chunk_align_ = largest` satisfies the hypothesis of `layout_aligned`) -/
theorem chunkAlign_max_divisible (cs : List Comp) (h : ∀ c ∈ cs, IsPow2 c.align) :
    (∀ c ∈ cs, c.align ∣ maxAlign cs) ∧ (∀ i, i < cs.length → alignAt cs i ∣ maxAlign cs) := by
  have m := maxAlign_dvd cs h
  exact ⟨m.1, fun i hi => m.1 _ (getD_mem cs i hi)⟩

example : ∀ c ∈ [(⟨3, 1⟩ : Comp), ⟨64, 64⟩, ⟨24, 8⟩], IsPow2 c.align := by
  intro c hc; simp at hc
  rcases hc with rfl | rfl | rfl
  · exact ⟨0, rfl⟩
  · exact ⟨6, rfl⟩
  · exact ⟨3, rfl⟩

/-- the repaired constructor hands out only aligned addresses: any component list with power-of-two alignments
and `size % align = 0`, any capacity, any slot, any allocator that honours the requested chunk alignment -/
theorem fixed_rule_aligned (cap : Nat) (cs : List Comp) (base : Nat → Nat) (hp : ∀ c ∈ cs, IsPow2 c.align)
    (hs : Strided cs) (i j : Nat) (hi : i < cs.length)
    (hbase : base (j / cap) % (layout .largest cap cs).chunkAlign = 0) :
    addr cap cs base i j % alignAt cs i = 0 := by
  rw [(constructor_fold .largest cap cs).2.2.1] at hbase
  exact layout_aligned cap cs (maxAlign cs) base hs i j hi hbase ((chunkAlign_max_divisible cs hp).2 i hi)

example : (layout .largest 16384 [⟨1, 1⟩, ⟨64, 64⟩]).chunkAlign = 64 ∧ (fun _ => 8192) (5 / 16384) % 64 = 0 ∧
    addr 16384 [⟨1, 1⟩, ⟨64, 64⟩] (fun _ => 8192) 1 5 = 8192 + 16384 + 5 * 64 := by decide

/-- the chunk size requested from `aligned_alloc` is a multiple of the requested alignment -/
theorem chunk_size_multiple (cap : Nat) (cs : List Comp) (ca : Nat) (hca : 0 < ca) :
    ca ∣ chunkSizeOf cap cs ca ∧ 0 < chunkSizeOf cap cs ca :=
  ⟨roundChunk_dvd _ _, roundChunk_pos _ _ hca⟩

example : chunkSizeOf 4 [⟨1, 1⟩, ⟨64, 64⟩] 64 = 320 ∧ chunkSizeOf 4 [⟨0, 8⟩, ⟨0, 64⟩] 64 = 64 := by decide

/-- the pinned rule (`chunk_align_` = alignment of the first component) does NOT satisfy the hypothesis:
`create<A1, A64>()` with a chunk base that honours the requested alignment 1 hands out the 64-aligned
component at a misaligned address -/
theorem first_component_rule_insufficient :
    ∃ (cap : Nat) (cs : List Comp) (base : Nat → Nat) (i j : Nat),
      (∀ c ∈ cs, IsPow2 c.align) ∧ Strided cs ∧ i < cs.length ∧
      base (j / cap) % (layout .first cap cs).chunkAlign = 0 ∧
      addr cap cs base i j % alignAt cs i ≠ 0 := by
  refine ⟨16384, [⟨1, 1⟩, ⟨64, 64⟩], fun _ => 16, 1, 0, ?_, ?_, by decide, by decide, by decide⟩
  · intro c hc; simp at hc
    rcases hc with rfl | rfl
    · exact ⟨0, rfl⟩
    · exact ⟨6, rfl⟩
  · intro c hc; simp at hc
    rcases hc with rfl | rfl <;> exact ⟨1, by decide⟩

/-! ## bounds and disjointness -/

/-- a column ends before the next one starts and before the end of the chunk -/
theorem layout_in_bounds (cap : Nat) (cs : List Comp) (ca : Nat) (h : WF cs) (hca : 0 < ca) (i : Nat)
    (hi : i < cs.length) :
    (i + 1 < cs.length → offsetOf cap 0 cs i + cap * sizeAt cs i ≤ offsetOf cap 0 cs (i + 1)) ∧
    offsetOf cap 0 cs i + cap * sizeAt cs i ≤ endOf cap 0 cs ∧
    offsetOf cap 0 cs i + cap * sizeAt cs i ≤ chunkSizeOf cap cs ca := by
  refine ⟨fun h1 => col_before cap 0 cs h i (i + 1) (by omega) h1, col_end cap 0 cs h i hi, ?_⟩
  have := col_end cap 0 cs h i hi
  have := roundChunk_ge (endOf cap 0 cs) ca hca
  unfold chunkSizeOf; omega

example : WF [⟨3, 1⟩, ⟨64, 64⟩, ⟨0, 8⟩] := by
  intro c hc; simp at hc; rcases hc with rfl | rfl | rfl <;> decide

/-- every address of slot `j` lies inside the chunk `j / cap`: `[base, base + chunk_size_)` -/
theorem addr_in_chunk (cap : Nat) (cs : List Comp) (ca : Nat) (base : Nat → Nat) (h : WF cs) (hca : 0 < ca)
    (hcap : 0 < cap) (i j : Nat) (hi : i < cs.length) :
    base (j / cap) ≤ addr cap cs base i j ∧
    addr cap cs base i j + sizeAt cs i ≤ base (j / cap) + chunkSizeOf cap cs ca := by
  have r := rel_in_chunk cap cs ca h hca i (j % cap) hi (Nat.mod_lt _ hcap)
  unfold addr
  constructor <;> omega

example : addr 4 [⟨1, 1⟩, ⟨64, 64⟩] (fun c => 1024 * c) 1 6 = 1024 + 64 + 2 * 64 ∧
    chunkSizeOf 4 [⟨1, 1⟩, ⟨64, 64⟩] 64 = 320 := by decide

/-- distinct (component, slot) pairs occupy disjoint byte ranges (chunks themselves are disjoint allocations) -/
theorem layout_disjoint (cap : Nat) (cs : List Comp) (ca : Nat) (base : Nat → Nat) (h : WF cs) (hca : 0 < ca)
    (hcap : 0 < cap)
    (hchunks : ∀ c c', c ≠ c' → base c + chunkSizeOf cap cs ca ≤ base c' ∨ base c' + chunkSizeOf cap cs ca ≤ base c)
    (i i' j j' : Nat) (hi : i < cs.length) (hi' : i' < cs.length) (hne : i ≠ i' ∨ j ≠ j') :
    addr cap cs base i j + sizeAt cs i ≤ addr cap cs base i' j' ∨
    addr cap cs base i' j' + sizeAt cs i' ≤ addr cap cs base i j := by
  have a := addr_in_chunk cap cs ca base h hca hcap i j hi
  have a' := addr_in_chunk cap cs ca base h hca hcap i' j' hi'
  by_cases hc : j / cap = j' / cap
  · have hk : i ≠ i' ∨ j % cap ≠ j' % cap := by
      rcases hne with h1 | h1
      · exact Or.inl h1
      · right
        intro hm
        apply h1
        have e1 := Nat.div_add_mod j cap
        have e2 := Nat.div_add_mod j' cap
        rw [hc, hm] at e1; omega
    have d := rel_disjoint cap cs h i i' (j % cap) (j' % cap) hi hi' (Nat.mod_lt _ hcap) (Nat.mod_lt _ hcap) hk
    unfold addr; rw [hc]
    rcases d with d | d
    · left; omega
    · right; omega
  · rcases hchunks _ _ hc with d | d
    · left; omega
    · right; omega

/-- the hypothesis on the chunk table is satisfiable: allocations 1024 bytes apart, chunk size 320 -/
example : ∀ c c' : Nat, c ≠ c' →
    (fun c => 1024 * c) c + chunkSizeOf 4 [⟨1, 1⟩, ⟨64, 64⟩] 64 ≤ (fun c => 1024 * c) c' ∨
    (fun c => 1024 * c) c' + chunkSizeOf 4 [⟨1, 1⟩, ⟨64, 64⟩] 64 ≤ (fun c => 1024 * c) c := by
  have e : chunkSizeOf 4 [⟨1, 1⟩, ⟨64, 64⟩] 64 = 320 := by decide
  intro c c' h; rw [e]; simp only; omega

/-- the same statement inside one chunk, relative to its base: no hypothesis on the allocator -/
theorem layout_disjoint_in_chunk (cap : Nat) (cs : List Comp) (h : WF cs) (i i' k k' : Nat)
    (hi : i < cs.length) (hi' : i' < cs.length) (hk : k < cap) (hk' : k' < cap) (hne : i ≠ i' ∨ k ≠ k') :
    rel cap cs i k + sizeAt cs i ≤ rel cap cs i' k' ∨ rel cap cs i' k' + sizeAt cs i' ≤ rel cap cs i k :=
  rel_disjoint cap cs h i i' k k' hi hi' hk hk' hne

example : rel 4 [⟨3, 1⟩, ⟨24, 8⟩] 0 3 = 9 ∧ rel 4 [⟨3, 1⟩, ⟨24, 8⟩] 1 0 = 16 := by decide

/-- the address of a slot depends only on its chunk-table entry: a call that leaves `chunks_[j / cap]`
unchanged (everything except `clear(free_chunks)` and the destructor) leaves the address unchanged -/
theorem addr_stable (cap : Nat) (cs : List Comp) (base base' : Nat → Nat) (i j : Nat)
    (h : base (j / cap) = base' (j / cap)) : addr cap cs base i j = addr cap cs base' i j := by
  unfold addr; rw [h]

example : addr 4 [⟨8, 8⟩] (fun c => 64 * c) 0 5 = addr 4 [⟨8, 8⟩] (fun c => if c = 0 then 7 else 64 * c) 0 5 := by decide

/-! ## command buffer: `TemporalStorage::allocate(size, align)` -/

/-- the returned address is aligned, the block lies inside its chunk, the chunk exists -/
theorem talloc_sound (s : TState) (r : TReq) (hinv : TInv s) (ha : r.align = 0 ∨ 0 < r.align) :
    let res := (allocate s r.nb r.size r.align).2
    let s' := (allocate s r.nb r.size r.align).1
    res.chunk < s'.chunks.length ∧ res.size = r.size ∧
    res.offset + r.size ≤ chunkCapacity s' res.chunk ∧
    (0 < r.align → (chunkBase s' res.chunk + res.offset) % r.align = 0) ∧ TInv s' := by
  have h := sound_alloc s r hinv ha
  have hb := h.2.2.1
  rw [h.2.1] at hb
  exact ⟨h.1, h.2.1, hb, h.2.2.2, allocate_inv s r.nb r.size r.align hinv ha⟩

example : TInv TState.init := by intro c hc; simp [TState.init] at hc

example : (allocate TState.init 4112 24 64).2 = ⟨0, 48, 24⟩ := by decide

/-- consecutive allocations do not overlap: the second one lies in a later chunk or behind the first -/
theorem talloc_consecutive (s : TState) (r1 r2 : TReq) (hinv : TInv s) (h1 : r1.align = 0 ∨ 0 < r1.align)
    (h2 : r2.align = 0 ∨ 0 < r2.align) :
    let a := (allocate s r1.nb r1.size r1.align)
    let b := (allocate a.1 r2.nb r2.size r2.align)
    a.2.chunk < b.2.chunk ∨ (a.2.chunk = b.2.chunk ∧ a.2.offset + r1.size ≤ b.2.offset) := by
  have p := run_pairwise s [r1, r2] hinv (by intro r hr; simp at hr; rcases hr with rfl | rfl <;> assumption)
  have ab := run_above s [r1, r2] hinv (by intro r hr; simp at hr; rcases hr with rfl | rfl <;> assumption)
  simp only [runAllocs, List.pairwise_cons, List.mem_cons, forall_eq_or_imp] at p
  have hi := allocate_inv s r1.nb r1.size r1.align hinv h1
  have ab2 := allocate_above (allocate s r1.nb r1.size r1.align).1 r2.nb r2.size r2.align hi h2
  have hs := (sound_alloc s r1 hinv h1).2.1
  rcases allocate_spec s r1.nb r1.size r1.align hinv h1 with ⟨c, rest, pad, _, _, _, _, hch, hres⟩
  unfold Above at ab2
  rw [hch] at ab2
  simp only at ab2
  intro a b
  show (allocate s r1.nb r1.size r1.align).2.chunk < _ ∨ _
  rw [hres] at p hs ⊢
  simp only at p hs ⊢
  rcases ab2 with l | ⟨e, _⟩
  · exact Or.inl l
  · right
    refine ⟨e.symm, ?_⟩
    have := p.1.1 e.symm
    omega

example : (allocate TState.init 4112 24 8).2 = ⟨0, 0, 24⟩ ∧
    (allocate (allocate TState.init 4112 24 8).1 0 64 64).2 = ⟨0, 48, 64⟩ := by decide

/-- ALL histories of one locked section: any two allocations of the same chunk are disjoint, each one is
aligned and inside its chunk in the final state -/
theorem talloc_history (s : TState) (rs : List TReq) (hinv : TInv s) (hr : ∀ r ∈ rs, r.align = 0 ∨ 0 < r.align) :
    (runAllocs s rs).2.Pairwise (fun a b => a.chunk = b.chunk → a.offset + a.size ≤ b.offset) ∧
    (runAllocs s rs).2.length = rs.length ∧
    (∀ p ∈ List.zip rs (runAllocs s rs).2,
       p.2.chunk < (runAllocs s rs).1.chunks.length ∧ p.2.size = p.1.size ∧
       p.2.offset + p.2.size ≤ chunkCapacity (runAllocs s rs).1 p.2.chunk ∧
       (0 < p.1.align → (chunkBase (runAllocs s rs).1 p.2.chunk + p.2.offset) % p.1.align = 0)) ∧
    TInv (runAllocs s rs).1 :=
  ⟨run_pairwise s rs hinv hr, run_length s rs, run_sound s rs hinv hr, run_inv s rs hinv hr⟩

example : (runAllocs TState.init [⟨4112, 24, 8⟩, ⟨0, 64, 64⟩, ⟨0, 4096, 16⟩, ⟨8208, 1, 1⟩]).2 =
    [⟨0, 0, 24⟩, ⟨0, 48, 64⟩, ⟨1, 0, 4096⟩, ⟨1, 4096, 1⟩] := by decide

/-- `clear()` (end of the locked section) re-establishes the allocator's invariant, so the next section is
covered by `talloc_history` again -/
theorem talloc_clear (s : TState) : TInv (clear s) := clear_inv s

example : (clear (runAllocs TState.init [⟨4112, 24, 8⟩, ⟨0, 64, 64⟩]).1).chunks = [⟨4112, 4096, 4096⟩] ∧
    (clear (runAllocs TState.init [⟨4112, 24, 8⟩, ⟨0, 64, 64⟩]).1).target = 112 := by decide

end Mustache.Props.C10

import Mustache.Proofs.VersionsTrace
/-!
# C11 — change detection is quiescent and chunk-precise

Model: `Mustache/Model/Versions.lean` (live stamping version) and `Mustache/Model/ChunkSize.lean`.
Ghost `touched j a k`: set when an entity of version chunk `k` of archetype `a` gets a mutable access /
dirty mark of a component in `j`'s check mask, when an entity arrives in or departs from the chunk, and when
another job processes the chunk with an update mask meeting `j`'s check mask; cleared for the chunks `j`
processes.

A job is *version-filtered* when its check mask is non-empty and contained in its required mask
(`VersionFiltered`); on an archetype that has none of the checked components the implementation (and the
model) select everything, which is not change detection and is excluded by the hypothesis
`a.fmask J.check ≠ []` / `VersionFiltered`.
-/
namespace Mustache.Props.C11

open Mustache.Versions
open Mustache.ChunkSize (Size Res resolve maxMin minMax clamp)

/-- **Quiescence.** After a run of a version-filtered job `j`, any history of operations that does not
write `j`'s checked components — `world.update()`, const access, mutable access / markDirty of unchecked
components, runs of jobs whose update mask misses `j`'s check mask, runs of `j` itself — leaves `j` with
nothing to process. -/
theorem quiescent (cfg : Config) (hl : cfg.live = true) (ops1 ops2 : List Op) (j : Nat)
    (hvf : ∀ sp, cfg.jobs[j]? = some sp → VersionFiltered sp)
    (hni : ∀ op ∈ ops2, nonInterfering cfg.jobs j op = true) :
    ((((run cfg ops1).jobRun j).1.exec ops2).jobRun j).2 = [] := by
  have hinv := run_inv cfg hl ops1
  have hspecs : (run cfg ops1).jobs.map specOf = cfg.jobs := by
    unfold run; rw [exec_specs, init_specs]
  have hinv1 : Inv ((run cfg ops1).jobRun j).1 := jobRun_inv hinv j
  have hspecs1 : ((run cfg ops1).jobRun j).1.jobs.map specOf = cfg.jobs := by
    have := step_specs (run cfg ops1) (.run j)
    simp only [State.step] at this
    rw [this, hspecs]
  have hq1 : QuietS ((run cfg ops1).jobRun j).1 j := by
    cases hj : (run cfg ops1).jobs[j]? with
    | none => rw [jobRun_none hj]; intro J _ _ _ hJ; rw [hj] at hJ; cases hJ
    | some J =>
      exact quiet_after_run hinv hj
        (fun ai a _ hreq => vf_fmask (hvf _ (spec_of_job hspecs hj)) hreq)
  exact quiet_processed (exec_inv hinv1 ops2) (exec_quiet hinv1 hspecs1 hvf hq1 ops2 hni)

/-- **A job does not re-trigger itself**, whatever its update mask (in particular when it writes the
components it checks): running it twice in a row, the second run processes nothing. -/
theorem no_self_retrigger (cfg : Config) (hl : cfg.live = true) (ops : List Op) (j : Nat)
    (hvf : ∀ sp, cfg.jobs[j]? = some sp → VersionFiltered sp) :
    ((((run cfg ops).jobRun j).1).jobRun j).2 = [] :=
  quiescent cfg hl ops [] j hvf (fun _ h => by cases h)

/-- **Read-only access never marks anything changed**: it leaves the whole state (stamps included) as it is. -/
theorem const_access_never_stamps (s : State) (e : Ent) (c : Comp) :
    (s.step (.getConst e c)).1 = s := getConst_state s e c

/-- **Chunk precision.** In every reachable state, every entity a run of `j` processes sits in a row whose
version chunk passed the filter, and — when `j` checks at least one component of that archetype — that
chunk is `touched` for `j`. -/
theorem chunk_precise (cfg : Config) (hl : cfg.live = true) (ops : List Op) (j : Nat) (J : Job) (e : Ent)
    (hj : (run cfg ops).jobs[j]? = some J) (he : e ∈ ((run cfg ops).jobRun j).2) :
    ∃ (ai : Nat) (a : Arch) (i : Nat), (run cfg ops).archs[ai]? = some a ∧ a.ents[i]? = some e ∧
      a.procChunk J (i / a.cs) = true ∧
      (a.fmask J.check ≠ [] → (run cfg ops).touched j ai (i / a.cs) = true) := by
  have hinv := run_inv cfg hl ops
  rw [jobRun_snd hj, mem_procs hinv] at he
  obtain ⟨ai, a, i, ha, hi, hp⟩ := he
  refine ⟨ai, a, i, ha, hi, hp, fun hfc => ?_⟩
  have hp' := hp
  unfold Arch.procChunk Arch.active Job.matchesArch at hp'
  simp only [Bool.and_eq_true, decide_eq_true_eq] at hp'
  obtain ⟨⟨⟨⟨_, hreq⟩, _⟩, hk⟩, hsel⟩ := hp'
  have hcm : a.cMatch J (i / a.cs) = true := by
    unfold Arch.sel at hsel; rw [Bool.and_eq_true] at hsel; exact hsel.2
  cases hlast : J.last with
  | none => exact hinv.touchNone j J ai a _ hj ha hreq hk hlast
  | some L =>
    rcases matchSt_some hlast hcm with hnil | ⟨c, hc, hlt⟩
    · exact absurd hnil hfc
    · obtain ⟨hcc, hcmask⟩ := mem_fmask.mp hc
      exact hinv.touch j J ai a _ c L hj ha hreq hk hcc hcmask hlast hlt

/-- **The processed set is a union of whole version chunks clipped to the population**: a row is selected
iff its chunk (index `i / chunkSize`) passed the filter. -/
theorem processed_whole_chunks (cfg : Config) (hl : cfg.live = true) (ops : List Op) (j : Nat) (J : Job)
    (ai : Nat) (a : Arch) (i : Nat) (e : Ent)
    (hj : (run cfg ops).jobs[j]? = some J) (ha : (run cfg ops).archs[ai]? = some a)
    (hi : a.ents[i]? = some e) :
    e ∈ ((run cfg ops).jobRun j).2 ↔ a.procChunk J (i / a.cs) = true := by
  have hinv := run_inv cfg hl ops
  rw [jobRun_snd hj, mem_procs hinv]
  constructor
  · rintro ⟨ai', a', i', ha', hi', hp⟩
    obtain ⟨rfl, rfl⟩ := hinv.uniq ai a i ai' a' i' e ha hi ha' hi'
    have : a' = a := by rw [ha] at ha'; exact (Option.some.inj ha').symm
    subst this; exact hp
  · intro hp; exact ⟨ai, a, i, ha, hi, hp⟩

/-- **A chunk (or archetype) the job's own filter vetoes is neither processed nor stamped**: the user's
`extraChunkFilterCheck` / `extraArchetypeFilterCheck` is consulted before `checkAndSet`. -/
theorem vetoed_chunk_untouched (a : Arch) (J : Job) (cur : Ver) (k : Nat) (c : Comp)
    (hv : J.chunkOk k = false ∨ J.reqOk a = false) :
    a.procChunk J k = false ∧ (a.runJob J cur).cst k c = a.cst k c := by
  have hp : a.procChunk J k = false := by
    unfold Arch.procChunk Arch.sel Arch.active Job.matchesArch
    rcases hv with h | h <;> simp [h]
  refine ⟨hp, ?_⟩
  rw [runJob_cst, hp]; simp

/-- the blocks handed to the tasks cover exactly the rows of the chunks that passed (`filterArchetype`) -/
theorem blocks_cover_chunks (cs size : Nat) (hcs : 0 < cs) (hsz : 0 < size) (m : Nat → Bool) (i : Nat) :
    i ∈ blockIdx (blocks cs size m) ↔ i < size ∧ m (i / cs) = true :=
  mem_blocks_iff hcs hsz m i

/-- **Quiescence, ghost form**: if no chunk in range of an archetype with `j`'s required components is
touched for a version-filtered `j`, `j` processes nothing. -/
theorem quiescent_untouched (cfg : Config) (hl : cfg.live = true) (ops : List Op) (j : Nat) (J : Job)
    (hj : (run cfg ops).jobs[j]? = some J) (hvf : VersionFiltered (specOf J))
    (hnt : ∀ (ai : Nat) (a : Arch) (k : Nat), (run cfg ops).archs[ai]? = some a → J.reqOk a = true →
      k * a.cs < a.ents.length → (run cfg ops).touched j ai k = false) :
    ((run cfg ops).jobRun j).2 = [] := by
  rw [List.eq_nil_iff_forall_not_mem]
  intro e he
  obtain ⟨ai, a, i, ha, hi, hp, ht⟩ := chunk_precise cfg hl ops j J e hj he
  have hp' := hp
  unfold Arch.procChunk Arch.active Job.matchesArch at hp'
  simp only [Bool.and_eq_true, decide_eq_true_eq] at hp'
  obtain ⟨⟨⟨⟨_, hreq⟩, _⟩, hk⟩, _⟩ := hp'
  have := ht (vf_fmask hvf hreq)
  rw [hnt ai a _ ha hreq hk] at this
  cases this

/-- **Chunk-size resolution.** `getArchetype` accepts a configuration iff there is no (non-zero) maximum or
the largest minimum does not exceed the smallest maximum, and then the chunk size is the default clamped by
the two (`minMax = 0` = no upper clamp); otherwise it is rejected with those two numbers. -/
theorem chunk_size_resolution (dflt : Nat) (fs : List Size) (s : Nat) :
    resolve dflt fs = .ok s ↔
      (minMax fs = 0 ∨ maxMin fs ≤ minMax fs) ∧ s = clamp dflt (maxMin fs) (minMax fs) :=
  Mustache.ChunkSize.resolve_ok_iff dflt fs s

theorem chunk_size_rejection (dflt : Nat) (fs : List Size) (a b : Nat) :
    resolve dflt fs = .error a b ↔
      (minMax fs ≠ 0 ∧ minMax fs < maxMin fs) ∧ a = minMax fs ∧ b = maxMin fs :=
  Mustache.ChunkSize.resolve_error_iff dflt fs a b

/-- **A minimum without a maximum is accepted** (`max = 0` means "no maximum"; fixed in the repository as
c897ae5, the pinned tree rejected it): when no applying function gives a maximum the configuration is never
contradictory and the size is the default raised to the largest minimum — clamp(default, min, ∞). -/
theorem min_without_max_is_accepted (dflt : Nat) (fs : List Size) (h : ∀ s ∈ fs, s.max = 0) :
    resolve dflt fs = .ok (max dflt (maxMin fs)) :=
  Mustache.ChunkSize.resolve_no_max dflt fs ((Mustache.ChunkSize.minMax_spec fs).1.mpr h)

/-- **The configured size applies to the archetype actually created**: a new archetype's mask is the
requested mask closed under the declared dependencies, and its chunk size is the resolution of the
functions applied to that CLOSED mask (a function on a component that enters only through a dependency counts). -/
theorem new_archetype_uses_closed_mask (s s1 : State) (m : List Comp) (aj : Nat)
    (hnew : findArch s.archs (closeMask s.deps m) = none) (hg : s.getArch m = .ok (s1, aj)) :
    ∃ a, s1.archs[aj]? = some a ∧ a.mask = closeMask s.deps m ∧
      Mustache.ChunkSize.resolveFor s.dflt s.fns (closeMask s.deps m) = .ok a.cs := by
  unfold State.getArch State.getArchClosed at hg
  generalize closeMask s.deps m = cm at *
  rw [hnew] at hg
  cases hr : Mustache.ChunkSize.resolveFor s.dflt s.fns cm with
  | error mx mn => rw [hr] at hg; cases hg
  | ok cs =>
    rw [hr] at hg
    simp only [Except.ok.injEq, Prod.mk.injEq] at hg
    obtain ⟨rfl, rfl⟩ := hg
    exact ⟨_, List.getElem?_concat_length, rfl, rfl⟩

/-- `maxMin` is the largest minimum; `minMax` the smallest non-zero maximum (0 iff there is none). -/
theorem chunk_size_bounds_meaning (fs : List Size) :
    ((∀ s ∈ fs, s.min ≤ maxMin fs) ∧ (maxMin fs = 0 ∨ ∃ s ∈ fs, s.min = maxMin fs)) ∧
    (minMax fs = 0 ↔ ∀ s ∈ fs, s.max = 0) ∧
    (minMax fs ≠ 0 → (∃ s ∈ fs, s.max = minMax fs) ∧ ∀ s ∈ fs, s.max ≠ 0 → minMax fs ≤ s.max) :=
  ⟨Mustache.ChunkSize.maxMin_spec fs, (Mustache.ChunkSize.minMax_spec fs).1,
    (Mustache.ChunkSize.minMax_spec fs).2⟩

/-- a reachable archetype has a positive chunk size (so rows split into chunks of that size) -/
theorem chunk_size_positive (cfg : Config) (hl : cfg.live = true) (ops : List Op) (ai : Nat) (a : Arch)
    (ha : (run cfg ops).archs[ai]? = some a) : 0 < a.cs :=
  (run_inv cfg hl ops).csPos ai a ha

/-! ### corner outside the hypotheses (true of the model AND of the implementation: replayed by
`corpus/C11/corner-check-outside-required.ops` on every run; open known finding
`key=check-outside-archetype`, not silently excluded) -/

/-- A job whose check mask has no component in a matching archetype (check mask not contained in the
required mask) is NOT quiescent there: `checkAndSet` treats an empty filtered check mask as "no filter".
Witness: job 0 requires A and checks B; one entity `A`; two runs in a row both process it. -/
theorem check_outside_archetype_not_quiescent :
    ∃ (cfg : Config) (ops : List Op) (j : Nat) (sp : JobSpec),
      cfg.live = true ∧ cfg.jobs[j]? = some sp ∧ sp.check ≠ [] ∧ ¬ VersionFiltered sp ∧
      ((((run cfg ops).jobRun j).1).jobRun j).2 ≠ [] := by
  refine ⟨{ jobs := [{ req := [0], check := [1], upd := [] }] }, [.create [0]], 0,
    { req := [0], check := [1], upd := [] }, rfl, rfl, by simp, ?_, by decide⟩
  rintro ⟨_, h⟩
  have := h 1 (by simp)
  simp at this

/-! ### non-vacuity -/

/-- job 0 requires, checks *and writes* component 0 (update mask ⊇ check mask); job 1 reads 0, writes 1 -/
def cfgEx : Config := { jobs := [{ req := [0], check := [0], upd := [0] }, { req := [0, 1], check := [], upd := [1] }] }

example : VersionFiltered { req := [0], check := [0], upd := [0] } := ⟨by simp, by simp⟩

/-- quiescent: the first run has work (3 entities), then update / const access / a run of job 1 (writes
component 1 only) / mutable access to the unchecked component 1: the hypotheses of `quiescent` hold and the
re-run is empty, while a write to the checked component in chunk 1 (chunk size 2) re-selects exactly that
chunk's only row -/
example :
    let pre : List Op := [.setDefault 2, .create [0, 1], .create [0, 1], .create [0, 1]]
    let mid : List Op := [.update, .getConst 0 0, .run 1, .getMut 1 1, .run 0]
    ((run cfgEx pre).jobRun 0).2 = [0, 1, 2] ∧
    (∀ op ∈ mid, nonInterfering cfgEx.jobs 0 op = true) ∧
    ((((run cfgEx pre).jobRun 0).1.exec mid).jobRun 0).2 = [] ∧
    ((((run cfgEx pre).jobRun 0).1.exec (mid ++ [.getMut 2 0])).jobRun 0).2 = [2] := by
  refine ⟨by decide, by decide, by decide, by decide⟩

/-- chunk precision with a population that is not a multiple of the chunk size and a removal that shrinks
the archetype: 5 rows, chunk size 2; after a run, entity 0 is destroyed (row 4 relocated into row 0, chunk 2
vanishes): chunks 0 is touched and selected (rows 0,1 = entities 4,1), chunk 1 is not -/
example :
    let s := run cfgEx [.setDefault 2, .create [0], .create [0], .create [0], .create [0], .create [0],
                        .run 0, .update, .destroyNow 0]
    (s.jobRun 0).2 = [4, 1] ∧ s.touched 0 0 0 = true ∧ s.touched 0 0 1 = false := by decide

/-- dependency A → B, chunk-size function on B only: `create A` makes the archetype {A,B} with chunk size 3 -/
example : (run cfgEx [.addDep 0 [1], .addFn [1] 3 3, .create [0]]).archs.map (fun a => (a.mask, a.cs)) =
    [([0, 1], 3)] := by decide

/-- a writing job with a chunk filter (odd chunks vetoed) leaves the vetoed chunk unstamped: the checking job
(index 1) then finds only chunk 0 changed -/
example :
    let cfg : Config := { jobs := [{ req := [0], check := [], upd := [0], cfSkip := some 1 },
                                   { req := [0], check := [0], upd := [] }] }
    let s := run cfg [.setDefault 1, .create [0], .create [0], .run 1, .update, .run 0]
    (s.jobRun 1).2 = [0] := by decide

example : resolve 1024 [⟨0, 0⟩, ⟨16, 16⟩] = .ok 16 := by decide
example : resolve 5 [⟨2, 9⟩, ⟨3, 7⟩, ⟨0, 0⟩] = .ok 5 ∧ resolve 1 [⟨2, 9⟩, ⟨3, 7⟩] = .ok 3 ∧
    resolve 9 [⟨2, 9⟩, ⟨3, 7⟩] = .ok 7 := by decide
example : resolve 4 [⟨2, 3⟩, ⟨5, 8⟩] = .error 3 5 := by decide
example : resolve 8 [⟨4, 0⟩] = .ok 8 ∧ resolve 2 [⟨4, 0⟩, ⟨0, 0⟩, ⟨6, 0⟩] = .ok 6 := by decide

end Mustache.Props.C11

import Mustache.Proofs.SharedInfo
import Mustache.Proofs.SharedMove

/-!
# C12 — shared components: one instance per distinct value, never lost by other edits

Model side (`Mustache.Model`, tied to component_mask.hpp `SharedComponentsInfo` and entity_manager.cpp
`getCreatedSharedComponent` / `getArchetype` by the world harness): `Shared` (`ids`, `data`),
`Shared.add/remove/merge/get?/has`, `WM.poolGet`, `WM.sassign`, `WM.sremove`, `WM.findArch`, `WM.getArch`.

* `Shared.WF s` : `ids`/`data` aligned, ids duplicate-free and ascending (the canonical descriptor).
* `PoolInv w`   : per shared type no two pooled entries with the same value, none with the same instance,
  instances below `nextInst`, an instance belongs to one shared type.
* `LocAt w e ai i row`: `e` valid (and its id not the null id), `locOf e = ⟨some ai, i⟩`, row `i` of archetype
  `ai` exists and holds `e`; `LocOK w e` = ∃ ai i row, `LocAt` ∧ the row is as wide as the mask (the
  consistency the id-table/location invariant C01/C02 provides).
-/
namespace Mustache.Props.C12
open Mustache.Model

/-- `sharedinfo_aligned`: the empty descriptor is well-formed; `add`, `remove`, `merge` keep a descriptor
well-formed (`merge` for ANY left operand: it only goes through `add`). -/
theorem sharedinfo_aligned :
    Shared.null.WF ∧
    (∀ (s : Shared) (id x : Nat), s.WF → (s.add id x).WF) ∧
    (∀ (s : Shared) (id : Nat), s.WF → (s.remove id).WF) ∧
    (∀ (s oth : Shared), oth.WF → (s.merge oth).WF) :=
  ⟨Shared.wf_null, fun _ id x h => Shared.wf_add id x h, fun _ id h => Shared.wf_remove id h,
   fun s _ h => Shared.wf_merge s h⟩

/-- lookup laws of a well-formed descriptor: `add` sets exactly one type, `remove` clears exactly one,
`merge` lets the left operand win, the builder's `null.merge s` is `s`. -/
theorem sharedinfo_lookup (s : Shared) (h : s.WF) (id x : Nat) :
    (s.add id x).get? id = some x ∧
    (∀ j, j ≠ id → (s.add id x).get? j = s.get? j) ∧
    (s.remove id).get? id = none ∧
    (∀ j, j ≠ id → (s.remove id).get? j = s.get? j) ∧
    (∀ j, (s.add id x).has j = true ↔ j = id ∨ s.has j = true) ∧
    (∀ j, (s.remove id).has j = true ↔ j ≠ id ∧ s.has j = true) ∧
    (∀ j, s.has j = true ↔ (s.get? j).isSome = true) ∧
    (∀ oth : Shared, oth.WF → ∀ j, (s.merge oth).get? j = (match s.get? j with | some v => some v | none => oth.get? j)) ∧
    Shared.null.merge s = s :=
  ⟨Shared.get?_add_self id x h.len, fun _ hj => Shared.get?_add_ne x h.len hj,
   Shared.get?_remove_self id h, fun _ hj => Shared.get?_remove_ne h.len hj,
   fun j => Shared.has_add s id x j, fun j => Shared.has_remove id j h, fun j => Shared.has_iff_get? j h.len,
   fun _ ho j => Shared.get?_merge j h ho.len, Shared.null_merge s⟩

/-- order independence: assigning two different shared types in either order gives the SAME descriptor,
re-assigning a type overwrites, and a well-formed descriptor is determined by its map — so "same shared
values ⇒ same archetype key" does not depend on the order of assignment. -/
theorem sharedinfo_order_independent (s : Shared) (h : s.WF) :
    (∀ i j x y, i ≠ j → (s.add i x).add j y = (s.add j y).add i x) ∧
    (∀ i x y, (s.add i x).add i y = s.add i y) ∧
    (∀ t : Shared, t.WF → (∀ j, s.get? j = t.get? j) → s = t) :=
  ⟨fun _ _ x y hij => Shared.add_comm x y h hij, fun i x y => Shared.add_add_self i x y h,
   fun _ ht hg => Shared.ext_get? h ht hg⟩

/-- non-vacuity: types 2 then 1 or 1 then 2; remove; merge -/
example : (Shared.null.add 2 20).add 1 10 = ⟨[1, 2], [10, 20]⟩ ∧ (Shared.null.add 1 10).add 2 20 = ⟨[1, 2], [10, 20]⟩ ∧
    (⟨[1, 2], [10, 20]⟩ : Shared).WF ∧ ((⟨[1, 2], [10, 20]⟩ : Shared).remove 1).get? 2 = some 20 ∧
    ((⟨[1], [11]⟩ : Shared).merge ⟨[1, 2], [10, 20]⟩) = ⟨[1, 2], [11, 20]⟩ := by
  refine ⟨by decide, by decide, ⟨by decide, by decide, by decide⟩, by decide, by decide⟩

/-- `one_instance_per_value`: the pool invariant holds initially and is kept by `poolGet` and `freshInst`;
after `poolGet sid v` returned an instance, ANY later `poolGet sid v'` (after any number of further pool
operations, `PoolReach`) returns that same instance iff `v' = v`: equal values ⇒ one instance, different
values ⇒ different instances; the returned instance is pooled under `v` and a pooled value is found again
without changing the state. -/
theorem one_instance_per_value {w : WM} (h : PoolInv w) (sid v : Nat) :
    PoolInv (w.poolGet sid v).1 ∧ PoolInv w.freshInst.1 ∧
    (v, (w.poolGet sid v).2) ∈ poolEntries (w.poolGet sid v).1.pool sid ∧
    (∀ i, (v, i) ∈ poolEntries w.pool sid → w.poolGet sid v = (w, i)) ∧
    (∀ v', ((w.poolGet sid v).1.poolGet sid v').2 = (w.poolGet sid v).2 ↔ v' = v) ∧
    (∀ w', PoolReach (w.poolGet sid v).1 w' → PoolInv w' ∧
      ∀ v', (w'.poolGet sid v').2 = (w.poolGet sid v).2 ↔ v' = v) :=
  ⟨poolGet_inv sid v h, freshInst_inv h, poolGet_mem w sid v, fun _ hm => poolGet_stable h hm,
   fun v' => poolGet_same_iff' sid v v' h,
   fun _ hr => ⟨PoolReach.inv (poolGet_inv sid v h) hr, fun v' => one_instance_core' sid v v' h hr⟩⟩

theorem pool_invariant_initially : PoolInv {} := poolInv_init

/-- non-vacuity: values 5, 6, 5 of shared type 0 get instances 0, 1, 0 -/
example : (({} : WM).poolGet 0 5).2 = 0 ∧ ((({} : WM).poolGet 0 5).1.poolGet 0 6).2 = 1 ∧
    (((({} : WM).poolGet 0 5).1.poolGet 0 6).1.poolGet 0 5).2 = 0 := by decide

/-- `shared_edit_frames_components`: for an entity at a consistent location (`LocAt`), `assignShared` and
`removeSharedComponent` leave every component the entity has in place with the same value; the entity then
has exactly `closedMask deps mask` — i.e. exactly its old component set whenever that set is closed under
the current dependency table (always, unless a dependency was declared after the entity got the master) —
and it is again at a consistent location. `sremove` of an absent shared type changes nothing at all. -/
theorem shared_edit_frames_components (info : CompId → CompInfo) {w : WM} {e : Handle} {ai i : Nat} {row : Row}
    (h : LocAt w e ai i row) (hlen : row.vals.length = (w.arch ai).mask.length) (sid v : Nat) :
    ((∀ c, w.hasComp e c = true →
        (w.sassign info e sid v).1.hasComp e c = true ∧ (w.sassign info e sid v).1.getComp e c = w.getComp e c) ∧
     (∀ c, (w.sassign info e sid v).1.hasComp e c = (closedMask w.deps (w.arch ai).mask).contains c) ∧
     (closedMask w.deps (w.arch ai).mask = (w.arch ai).mask →
        ∀ c, (w.sassign info e sid v).1.hasComp e c = w.hasComp e c) ∧
     LocOK (w.sassign info e sid v).1 e) ∧
    ((∀ c, w.hasComp e c = true →
        (w.sremove info e sid).1.hasComp e c = true ∧ (w.sremove info e sid).1.getComp e c = w.getComp e c) ∧
     ((w.arch ai).shared.has sid = false → w.sremove info e sid = (w, false, [])) ∧
     ((w.arch ai).shared.has sid = true →
        ∀ c, (w.sremove info e sid).1.hasComp e c = (closedMask w.deps (w.arch ai).mask).contains c) ∧
     (closedMask w.deps (w.arch ai).mask = (w.arch ai).mask →
        ∀ c, (w.sremove info e sid).1.hasComp e c = w.hasComp e c) ∧
     LocOK (w.sremove info e sid).1 e) := by
  have ha := sassign_post info h hlen sid v
  refine ⟨⟨ha.vals, ha.has, ?_, ?_⟩, ?_⟩
  · intro hcl c; rw [ha.has c, hcl, hasComp_of_locAt h]
  · exact ha.locOK
  · rcases sremove_post info h hlen sid with ⟨hf, he⟩ | ⟨ht, hp⟩
    · rw [he]
      refine ⟨fun c hc => ⟨hc, rfl⟩, fun _ => rfl, fun hh => ?_, fun _ _ => rfl, ⟨ai, i, row, h, hlen⟩⟩
      rw [hf] at hh; cases hh
    · refine ⟨hp.vals, fun hh => ?_, fun _ => hp.has, ?_, ?_⟩
      · rw [ht] at hh; cases hh
      · intro hcl c; rw [hp.has c, hcl, hasComp_of_locAt h]
      · exact hp.locOK

/-- a world for the examples: entity ⟨0,0,0⟩ in archetype 0 (components 1 and 3, values 11 and 33) -/
def w0 : WM := { slots := [⟨0, 0⟩], locs := [⟨some 0, 0⟩], archs := [⟨[1, 3], Shared.null, [⟨⟨0, 0, 0⟩, [some 11, some 33]⟩]⟩] }
def info0 : CompId → CompInfo := fun _ => ⟨false, none, none, false, false⟩

example : LocAt w0 ⟨0, 0, 0⟩ 0 0 ⟨⟨0, 0, 0⟩, [some 11, some 33]⟩ ∧ LocOK w0 ⟨0, 0, 0⟩ :=
  ⟨⟨by decide, by decide, by decide, by decide, rfl⟩,
   ⟨0, 0, ⟨⟨0, 0, 0⟩, [some 11, some 33]⟩, ⟨by decide, by decide, by decide, by decide, rfl⟩, by decide⟩⟩

/-- the same for `LocOK w e` (= ∃ archetype, row index, row: `LocAt` and the row as wide as the mask):
    a shared edit keeps `LocOK` and every component with its value -/
theorem shared_edit_frames_components_locOK (info : CompId → CompInfo) {w : WM} {e : Handle} (h : LocOK w e)
    (sid v : Nat) :
    (LocOK (w.sassign info e sid v).1 e ∧ ∀ c, w.hasComp e c = true →
        (w.sassign info e sid v).1.hasComp e c = true ∧ (w.sassign info e sid v).1.getComp e c = w.getComp e c) ∧
    (LocOK (w.sremove info e sid).1 e ∧ ∀ c, w.hasComp e c = true →
        (w.sremove info e sid).1.hasComp e c = true ∧ (w.sremove info e sid).1.getComp e c = w.getComp e c) := by
  obtain ⟨ai, i, row, hl, hlen⟩ := h
  obtain ⟨⟨a1, _, _, a4⟩, ⟨b1, _, _, _, b5⟩⟩ := shared_edit_frames_components info hl hlen sid v
  exact ⟨⟨a4, a1⟩, ⟨b5, b1⟩⟩
/-- the shared assignment moves the entity to a new archetype (index 1) and keeps both values -/
example : ((w0.sassign info0 ⟨0, 0, 0⟩ 7 5).1.locOf ⟨0, 0, 0⟩) = ⟨some 1, 0⟩ ∧
    (w0.sassign info0 ⟨0, 0, 0⟩ 7 5).1.getComp ⟨0, 0, 0⟩ 3 = some (some 33) ∧
    (w0.sassign info0 ⟨0, 0, 0⟩ 7 5).1.hasShared ⟨0, 0, 0⟩ 7 = true ∧
    ((w0.sassign info0 ⟨0, 0, 0⟩ 7 5).1.sremove info0 ⟨0, 0, 0⟩ 7).1.getComp ⟨0, 0, 0⟩ 1 = some (some 11) := by decide

/-- `findArch_key`: the archetype lookup is keyed by (closed component mask, shared instances).
`getArch` returns an existing archetype (state unchanged) iff one has that key, else appends exactly that
archetype; lookups with equal keys return the same index, and a repeated lookup returns the archetype of
the first without changing the state; archetype keys stay pairwise distinct, so an index is returned
exactly for its key. -/
theorem findArch_key (w : WM) (m : Mask) (sh : Shared) :
    (((w.getArch m sh).1 = w ∧ (w.getArch m sh).2 < w.archs.length) ↔
      ∃ a ∈ w.archs, a.mask = closedMask w.deps m ∧ a.shared.data = sh.data) ∧
    ((∀ a ∈ w.archs, ¬ (a.mask = closedMask w.deps m ∧ a.shared.data = sh.data)) →
      w.getArch m sh = ({ w with archs := w.archs ++ [⟨closedMask w.deps m, sh, []⟩] }, w.archs.length)) ∧
    (((w.getArch m sh).1.arch (w.getArch m sh).2).mask = closedMask w.deps m ∧
      ((w.getArch m sh).1.arch (w.getArch m sh).2).shared.data = sh.data) ∧
    (∀ m' sh', closedMask w.deps m = closedMask w.deps m' → sh.data = sh'.data →
      (w.getArch m sh).2 = (w.getArch m' sh').2 ∧
      (w.getArch m sh).1.getArch m' sh' = ((w.getArch m sh).1, (w.getArch m sh).2)) ∧
    (ArchsDistinct w → ArchsDistinct (w.getArch m sh).1 ∧
      ∀ i, i < w.archs.length → ((w.getArch m sh).2 = i ↔ (w.arch i).key = (closedMask w.deps m, sh.data))) :=
  ⟨getArch_existing_iff w m sh, getArch_new w m sh,
   ⟨(getArch_post w m sh).mask, (getArch_post w m sh).data⟩,
   fun _ _ hm hd => ⟨getArch_same_key w hm hd, getArch_twice w hm hd⟩,
   fun hd => ⟨getArch_distinct hd m sh, fun _ hi => getArch_eq_iff_key hd m sh hi⟩⟩

/-- the key compares instance lists only; it determines the whole descriptor when instances are typed
    (every instance belongs to one shared type, cf. `PoolInv.inst_sid`) -/
theorem key_determines_descriptor (f : Nat → Nat) (s1 s2 : Shared) (h1 : s1.Typed f) (h2 : s2.Typed f)
    (h : s1.data = s2.data) : s1 = s2 := Shared.eq_of_data_eq h1 h2 h

example : ArchsDistinct ({} : WM) := archsDistinct_init
/-- two lookups of [1] with instance 9 of type 4 return archetype 0; another instance gives archetype 1 -/
example : (({} : WM).getArch [1] ⟨[4], [9]⟩).2 = 0 ∧
    ((({} : WM).getArch [1] ⟨[4], [9]⟩).1.getArch [1] ⟨[4], [9]⟩).2 = 0 ∧
    ((({} : WM).getArch [1] ⟨[4], [9]⟩).1.getArch [1] ⟨[4], [8]⟩).2 = 1 := by decide

end Mustache.Props.C12

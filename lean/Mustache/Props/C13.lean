import Mustache.Proofs.ClosureSpec
import Mustache.Proofs.PackMask
import Mustache.Model.WorldStep

/-!
# C13 — declared component dependencies always hold

Model side (`Mustache.Model`, tied to /repo/src/mustache/ecs/entity_manager.cpp by the world harness):
`depsOf`, `closureRound`, `closureLoop` (the do-while loop of `getExtraComponents`, fuel 130),
`extraComponents`, `addDependency`, `WM.getArch`.  Spec side (`Mustache.Spec`): `closed`, `WS.doCreate`,
`WS.doAssign`, `WS.doBuild`, `WS.doBuildNew`, `WS.applyCmd`, `WS.doRemove`.

`DepsBounded deps` (decidable): every stored dependency mask only mentions ids < 128, the width of
`ComponentIdMask`.  It is kept by `addDependency` for dependents < 128 (`Model.addDependency_bounded`).
No acyclicity hypothesis anywhere: chains, diamonds and cycles are covered alike.

Late declarations: a declaration made after an entity exists does not touch that entity (neither in the
code nor in WM/WS), so the removal theorems ask that the entity's component set is closed under the
current table (`EntClosed`); every record produced by create / assign / builder / deferred command is
(`entClosed_of_gain`).
-/
namespace Mustache.Props.C13
open Mustache.Model Mustache.Spec

/-- `closure_lfp`: for every dependency table within the mask width and EVERY requested mask `m`
(a) the fuel of the loop suffices — the result is a fixpoint of the round (one more round changes
nothing) and any larger fuel gives the same list; (b) `closed deps m` contains `m`, (c) is closed under
`deps`, (d) is the least such mask. -/
theorem closure_lfp (deps : List (CompId × Mask)) (hb : DepsBounded deps) (m : Mask) :
    (closureRound deps (extraComponents deps m) (extraComponents deps m) = extraComponents deps m ∧
      ∀ k, closureLoop deps (130 + k) [] m = closureLoop deps 130 [] m) ∧
    (∀ x ∈ m, x ∈ closed deps m) ∧
    (∀ c ∈ closed deps m, ∀ d ∈ depsOf deps c, d ∈ closed deps m) ∧
    (∀ S : Mask, (∀ x ∈ m, x ∈ S) → (∀ c ∈ S, ∀ d ∈ depsOf deps c, d ∈ S) → ∀ x ∈ closed deps m, x ∈ S) :=
  ⟨⟨(extraComponents_post hb m).fix, extraComponents_fuel hb m⟩,
   fun _ hx => subset_closedMask hx,
   closedMask_closed hb m,
   fun _ hm hS => closedMask_least hS hm⟩

/-- idempotent (as a set for any list, as the very same list for a sorted mask) and monotone -/
theorem closure_idempotent_monotone (deps : List (CompId × Mask)) (hb : DepsBounded deps) (m : Mask) :
    (∀ x, x ∈ closed deps (closed deps m) ↔ x ∈ closed deps m) ∧
    (m.Pairwise (· < ·) → closed deps (closed deps m) = closed deps m) ∧
    (∀ m' : Mask, (∀ x ∈ m, x ∈ m') → ∀ x ∈ closed deps m, x ∈ closed deps m') :=
  ⟨closedMask_idem_mem hb m, fun hs => closedMask_idem hb hs, fun _ h => closedMask_mono hb h⟩

/-- a chain 0→1→2, a diamond 0→{1,2}→3 and a 2-cycle 0⇄1 -/
def chain : List (CompId × Mask) := [(0, [1]), (1, [2])]
def diamond : List (CompId × Mask) := [(0, [1, 2]), (1, [3]), (2, [3])]
def cycle2 : List (CompId × Mask) := [(0, [1]), (1, [0])]

example : DepsBounded chain ∧ DepsBounded diamond ∧ DepsBounded cycle2 := by decide
example : closed chain [0] = [0, 1, 2] ∧ closed chain [1] = [1, 2] := by decide
example : closed diamond [0] = [0, 1, 2, 3] ∧ closed diamond [2] = [2, 3] := by decide
example : closed cycle2 [0] = [0, 1] ∧ closed cycle2 [1] = [0, 1] ∧ closed cycle2 [5] = [5] := by decide
/-- the hypothesis is needed: ids ≥ 128 do not fit a mask -/
example : ¬ DepsBounded [(0, [128])] := by decide

/-- `addDependency_stores_closure`: the declaration `m requires extra` stores exactly
old ∪ extra ∪ closure(extra) for `m` and leaves every other entry as it was. -/
theorem addDependency_stores_closure (deps : List (CompId × Mask)) (m : CompId) (extra : Mask) :
    (∀ x, x ∈ depsOf (addDependency deps m extra) m ↔
        x ∈ depsOf deps m ∨ x ∈ extra ∨ x ∈ extraComponents deps extra) ∧
    (∀ k, k ≠ m → depsOf (addDependency deps m extra) k = depsOf deps k) ∧
    (DepsBounded deps → (∀ x ∈ extra, x < 128) → DepsBounded (addDependency deps m extra)) :=
  ⟨fun x => by rw [depsOf_addDependency_self]; exact mem_storedDeps,
   fun k hk => depsOf_addDependency_other deps m extra k hk,
   fun hb he => addDependency_bounded hb m he⟩

/-- declaring 0→1 after 1→2: the stored mask of 0 is {1,2}; declaring 1→2 after 0→1 leaves 0 alone
    (the closure loop, not the table, makes it transitive) -/
example : depsOf (addDependency [(1, [2])] 0 [1]) 0 = [1, 2] ∧
    depsOf (addDependency [(0, [1])] 1 [2]) 0 = [1] ∧
    closed (addDependency [(0, [1])] 1 [2]) [0] = [0, 1, 2] := by decide

/-- `archetype_masks_closed`: the archetype `getArch` returns (found or created) has exactly the closure of
the requested mask: it contains the request and is closed under the current table, which `getArch`
does not change; and a world whose archetype masks are all closed stays so. -/
theorem archetype_masks_closed (w : WM) (hb : DepsBounded w.deps) (mask : Mask) (sh : Shared) :
    (w.getArch mask sh).1.deps = w.deps ∧
    ((w.getArch mask sh).1.arch (w.getArch mask sh).2).mask = closed w.deps mask ∧
    (∀ c ∈ ((w.getArch mask sh).1.arch (w.getArch mask sh).2).mask,
      ∀ d ∈ depsOf (w.getArch mask sh).1.deps c, d ∈ ((w.getArch mask sh).1.arch (w.getArch mask sh).2).mask) ∧
    (∀ c ∈ mask, c ∈ ((w.getArch mask sh).1.arch (w.getArch mask sh).2).mask) ∧
    ((∀ a ∈ w.archs, ∀ c ∈ a.mask, ∀ d ∈ depsOf w.deps c, d ∈ a.mask) →
      ∀ a ∈ (w.getArch mask sh).1.archs, ∀ c ∈ a.mask, ∀ d ∈ depsOf (w.getArch mask sh).1.deps c, d ∈ a.mask) := by
  obtain ⟨h1, h2, h3, h4⟩ := getArch_mask_closed hb mask sh
  exact ⟨h1, h2, h3, h4, fun h => getArch_archsClosed hb h mask sh⟩

example : (({ deps := diamond } : WM).getArch [0] Shared.null).2 = 0 ∧
    ((({ deps := diamond } : WM).getArch [0] Shared.null).1.arch 0).mask = [0, 1, 2, 3] := by decide

/-- `gain_master_has_dependents`: after any of the six ways entity `o` can gain components in WS
(`GainStep`: create, assign, builder edit, builder create, deferred create, deferred assign) the entity is
alive, the table is unchanged, and (`GainPost`) every component `m` it has now and lacked before comes
with every member of `closed deps [m]` — all direct and transitive dependents declared so far —, every
new component carries the supplied value or else `defaultVal`, and components it keeps keep their value. -/
theorem gain_master_has_dependents (info : CompId → CompInfo) {s s' : WS} (hb : DepsBounded s.deps) {o : Nat}
    {old given : List (CompId × Val)} (h : GainStep info s s' o old given) :
    ∃ e', s'.alive o = some e' ∧ s'.deps = s.deps ∧
      (∀ m ∈ compSet e', m ∉ old.map (·.1) → ∀ d ∈ closed s.deps [m], d ∈ compSet e') ∧
      (∀ d ∈ compSet e', d ∉ old.map (·.1) → compVal e' d = some (givenOrDefault info given d)) ∧
      (∀ d ∈ compSet e', d ∈ old.map (·.1) → d ∉ given.map (·.1) → compVal e' d = lookupC old d) := by
  obtain ⟨e', h1, h2, h3⟩ := gainStep_post info hb h
  exact ⟨e', h1, h2, h3.dependents, h3.constructed, h3.kept⟩

/-- exact component sets after each gaining step (the closure of what was asked for) -/
theorem gain_component_sets (info : CompId → CompInfo) (s : WS) (hb : DepsBounded s.deps) :
    (∀ mask sh, ∃ e', (s.doCreate info mask sh).1.alive s.ents.length = some e' ∧
        (s.doCreate info mask sh).2.1 = s.ents.length ∧ compSet e' = closed s.deps mask ∧ e'.shared = sh) ∧
    (∀ o c v e, s.alive o = some e → ∃ e', (s.doAssign info o c v).1.alive o = some e' ∧ e'.shared = e.shared ∧
        compSet e' = (if c ∈ compSet e then compSet e else closed s.deps (Mask.insert (compSet e) c)) ∧
        (c ∈ compSet e → compVal e' c = some v)) ∧
    (∀ o adds rems e s' cbs, s.alive o = some e → s.doBuild info o adds rems = some (s', cbs) →
        ∃ e', s'.alive o = some e' ∧ e'.shared = e.shared ∧
        compSet e' = closed s.deps (Mask.diff (Mask.union (Mask.ofList (adds.map (·.1))) (compSet e)) rems)) := by
  refine ⟨fun mask sh => doCreate_compSet info s mask sh, ?_, ?_⟩
  · intro o c v e he
    obtain ⟨e', h1, h2, _, h3, h4⟩ := doAssign_post info hb c v he
    exact ⟨e', h1, h2, h3, h4⟩
  · intro o adds rems e s' cbs he hs
    obtain ⟨e', h1, _, h2, _, h3⟩ := doBuild_post info hb he hs
    exact ⟨e', h1, h2, h3⟩

/-- every record a gaining step produces from a sorted request is sorted and closed (`EntClosed`) -/
theorem entClosed_of_gain (deps : List (CompId × Mask)) (hb : DepsBounded deps) (X : Mask)
    (hs : X.Pairwise (· < ·)) (e : SEnt) (h : compSet e = closed deps X) : EntClosed deps e :=
  entClosed_of_closed hb hs h

/-- a component catalogue for the examples: component 3 is default-constructed to token 7 -/
def info0 : CompId → CompInfo := fun c => ⟨c == 3, some 7, none, false, false⟩

/-- non-vacuity: create [0] under the diamond gives {0,1,2,3} with 3 default-constructed (token 7);
    assigning 0 := 42 to an entity {5} under the chain gives {0,1,2,5} with 0 = 42;
    a deferred create under the 2-cycle of [1] gives {0,1} -/
example :
    ((({ deps := diamond } : WS).doCreate info0 [0] []).1.alive 0).map (·.comps) =
      some [(0, none), (1, none), (2, none), (3, some 7)] ∧
    ((({ deps := chain, ents := [some ⟨[(5, some 1)], []⟩] } : WS).doAssign info0 0 0 (some 42)).1.alive 0).map (·.comps) =
      some [(0, some 42), (1, none), (2, none), (5, some 1)] ∧
    ((({ deps := cycle2, ents := [none] } : WS).applyCmd info0 (.create 0 [1] [])).1.alive 0).map (·.comps) =
      some [(0, none), (1, none)] ∧
    (((({ deps := diamond, ents := [some ⟨[(5, some 1)], []⟩] } : WS).doBuild info0 0 [(1, some 9)] [5]).map
        (fun r => (r.1.alive 0).map (·.comps))) = some (some [(1, some 9), (3, some 7)])) := by decide

example : GainStep info0 ({ deps := diamond } : WS) (({ deps := diamond } : WS).doCreate info0 [0] []).1 0 [] [] :=
  GainStep.create [0] []

/-- `remove_dependent_noop`: removing a direct or transitive dependent `c` of a master `m` the entity has
leaves the whole spec state unchanged and fires no callback (entity record sorted and closed under the
current table, as every gaining step leaves it). -/
theorem remove_dependent_noop (info : CompId → CompInfo) {s : WS} (hb : DepsBounded s.deps) {o : Nat} {e : SEnt}
    (he : s.alive o = some e) (hok : EntClosed s.deps e) {m c : CompId} (hm : m ∈ compSet e) (hne : m ≠ c)
    (hc : c ∈ closed s.deps [m]) : s.doRemove info o c = (s, []) :=
  doRemove_dependent_noop info hb he hok hm hne hc

/-- chain 0→1→2, entity {0,1,2}: removing 2 (transitive dependent of 0) or 1 changes nothing -/
example : EntClosed chain ⟨[(0, none), (1, none), (2, none)], []⟩ ∧ (2 : Nat) ∈ closed chain [0] ∧
    (((({ deps := chain, ents := [some ⟨[(0, none), (1, none), (2, none)], []⟩] } : WS).doRemove info0 0 2).1.alive 0).map
      (·.comps) = some [(0, none), (1, none), (2, none)]) := by
  refine ⟨⟨by decide, by decide⟩, by decide, by decide⟩

/-- `remove_master_keeps_dependents`: removing a present component `m` leaves the entity with exactly
`closed deps (set − m)`, a superset of `set − m`: every other component is still there with its value
(the dependents stay; `m` itself stays only if something left requires it); the shared part is untouched. -/
theorem remove_master_keeps_dependents (info : CompId → CompInfo) {s : WS} {o : Nat} {e : SEnt}
    (he : s.alive o = some e) {m : CompId} (hm : m ∈ compSet e) :
    ∃ e', (s.doRemove info o m).1.alive o = some e' ∧ (s.doRemove info o m).1.deps = s.deps ∧
      e'.shared = e.shared ∧
      compSet e' = closed s.deps (Mask.erase (compSet e) m) ∧
      (∀ d ∈ compSet e, d ≠ m → d ∈ compSet e' ∧ compVal e' d = compVal e d) := by
  obtain ⟨e', h1, h2, h3, h4⟩ := doRemove_post info he hm
  exact ⟨e', h1, doRemove_deps info s o m, h2, h3, h4⟩

/-- chain 0→1→2, entity {0,1,2} with values: removing the master 0 keeps 1 and 2 and their values -/
example : ((({ deps := chain, ents := [some ⟨[(0, some 4), (1, some 5), (2, some 6)], []⟩] } : WS).doRemove info0 0 0).1.alive 0).map
    (·.comps) = some [(1, some 5), (2, some 6)] := by decide

/-! ## deferred command packs on archetypes that predate a declaration

`seqMask deps m cmds` (`Mustache.Proofs.PackMask`): fold of `seqMaskStep`, the effect of the matching immediate
operation on a component set — `assign c`: `m` if `c ∈ m`, else `closedMask deps (m ∪ {c})`; `remove c`:
`closedMask deps (m − {c})` if `c ∈ m`, else `m`; `destroy`: `m`.  `HasMask w e m`: `e`'s location names an
existing archetype of `w` whose mask is `m`.  None of the theorems below assumes that archetype masks are closed
under `w.deps`: the entity's archetype may have been created before a dependency was declared. -/
section PackMask
open Mustache.Proofs.PackMask Mustache.Proofs.Rows

/-- `pack_final_eq_seqMask`: the component set `applyCommandPack` folds over a pack without creation / immediate
destruction is `seqMask w.deps m pack`, from ANY start mask `m`; the pack stays alive and the table is unchanged. -/
theorem pack_final_eq_seqMask (info : CompId → CompInfo) (e : Handle) (w : WM) (m : Mask) (pack : List Cmd)
    (hp : ∀ c ∈ pack, plainCmd c = true) :
    (pack.foldl (packStep info e false) (w, { final := m }, [])).2.1.final = seqMask w.deps m pack ∧
    (pack.foldl (packStep info e false) (w, { final := m }, [])).2.1.dead = false ∧
    (pack.foldl (packStep info e false) (w, { final := m }, [])).1.deps = w.deps :=
  Mustache.Proofs.PackMask.pack_final_eq_seqMask info e w m pack hp

/-- `immediate_ops_mask`: on the unlocked world, for an entity located in the existing archetype `pi`
(mask `m = (w.arch pi).mask`, any list): `assign<C>(e)` of an absent `c` leaves it in an archetype with mask
`closedMask w.deps (m ∪ {c})`, `removeComponent<C>(e)` of a valid `e` in one with mask `closedMask w.deps (m − {c})`
if `c ∈ m` and `m` otherwise — also when `getArchetype` returns the entity's own archetype and nothing moves.
(An `assign` of a PRESENT component — outside the API contract — gives `closedMask w.deps m`: first conjunct.) -/
theorem immediate_ops_mask (info : CompId → CompInfo) (w : WM) (t : Nat) (e : Handle) (c : CompId) (pi idx : Nat)
    (hul : w.isLocked = false) (hn : e.id ≠ nullId) (hloc : w.locOf e = ⟨some pi, idx⟩)
    (hpi : pi < w.archs.length) :
    (∀ v, HasMask (w.assign info t e c v).1 e (closedMask w.deps (Mask.insert (w.arch pi).mask c))) ∧
    (c ∉ (w.arch pi).mask →
      ∀ v, HasMask (w.assign info t e c v).1 e (seqMaskStep w.deps (w.arch pi).mask (.assign e c v))) ∧
    (w.isValid e = true →
      HasMask (w.removeComp info t e c).1 e (seqMaskStep w.deps (w.arch pi).mask (.remove e c))) :=
  ⟨fun v => (immediate_assign_closed info w t e c v pi idx hul hn hloc hpi).1,
   fun hc v => (immediate_assign_mask info w t e c v pi idx hul hn hloc hpi hc).1,
   fun hv => (immediate_remove_mask info w t e c pi idx hul hv hn hloc hpi).1⟩

/-- `deferred_pack_mask`: a pack of assigns / removes / destroy marks (no creation, no `destroyNow`) applied to
an existing valid entity `e` located in archetype `pi` with sorted mask `m` — closed under `w.deps` or not —
leaves `e` valid, the table unchanged, and `e` in an archetype whose mask is exactly `seqMask w.deps m pack`;
and if that differs from `m` it is closed under the current table. -/
theorem deferred_pack_mask (info : CompId → CompInfo) (w : WM) (e : Handle) (pack : List Cmd) (pi idx : Nat)
    (hb : DepsBounded w.deps) (hv : w.isValid e = true) (hn : e.id ≠ nullId)
    (hloc : w.locOf e = ⟨some pi, idx⟩) (hpi : pi < w.archs.length) (hs : (w.arch pi).mask.Pairwise (· < ·))
    (hent : ∀ c ∈ pack, c.entity = e) (hp : ∀ c ∈ pack, plainCmd c = true) :
    HasMask (w.applyPack info pack).1 e (seqMask w.deps (w.arch pi).mask pack) ∧
    (w.applyPack info pack).1.isValid e = true ∧ (w.applyPack info pack).1.deps = w.deps ∧
    (seqMask w.deps (w.arch pi).mask pack ≠ (w.arch pi).mask →
      ∀ c ∈ seqMask w.deps (w.arch pi).mask pack, ∀ d ∈ depsOf w.deps c,
        d ∈ seqMask w.deps (w.arch pi).mask pack) := by
  obtain ⟨h1, h2, h3⟩ := Mustache.Proofs.PackMask.deferred_pack_mask info w e pack pi idx hb hv hn hloc hpi hs hent hp
  exact ⟨h1, h2, h3, fun hne => seqMask_closedUnder_of_ne hb pack hs hne⟩

/-- `deferred_pack_mask_eq_immediate`: the deferred path gives the entity exactly the component set that issuing
the same commands immediately, one by one (`immRun`: unlocked `assign` / `removeComponent` / `destroy` calls), gives
— for every dependency table within the mask width and every sorted start mask, including archetypes that predate
a declaration. Side condition `hre`: the start mask is closed, or no assign names a component of the start mask
(an immediate `assign` of a present component looks the archetype of `m` up again and so closes an unclosed `m`;
the pack does not — see the example below). -/
theorem deferred_pack_mask_eq_immediate (info : CompId → CompInfo) (t : Nat) (w : WM) (e : Handle)
    (pack : List Cmd) (pi idx : Nat) (hb : DepsBounded w.deps) (hul : w.isLocked = false)
    (hv : w.isValid e = true) (hn : e.id ≠ nullId) (hloc : w.locOf e = ⟨some pi, idx⟩)
    (hpi : pi < w.archs.length) (hs : (w.arch pi).mask.Pairwise (· < ·))
    (hent : ∀ c ∈ pack, c.entity = e) (hp : ∀ c ∈ pack, plainCmd c = true)
    (hre : closedMask w.deps (w.arch pi).mask = (w.arch pi).mask ∨
      ∀ e' c v, Cmd.assign e' c v ∈ pack → c ∉ (w.arch pi).mask) :
    HasMask (w.applyPack info pack).1 e (seqMask w.deps (w.arch pi).mask pack) ∧
    HasMask (immRun info t w pack) e (seqMask w.deps (w.arch pi).mask pack) ∧
    maskOf (w.applyPack info pack).1 e = maskOf (immRun info t w pack) e := by
  obtain ⟨h1, h2⟩ := deferred_eq_immediate info t w e pack pi idx hb hul hv hn hloc hpi hs hent hp hre
  exact ⟨h1, h2, by rw [h1.maskOf, h2.maskOf]⟩

/-- the world of the examples: `7 requires 3` declared up front, an entity with components {2,3,5}, and then
`3 requires 7` declared late: the entity's archetype [2,3,5] is no longer closed under the table -/
def lateOps : List (Op Handle) := [.dep 7 [3], .create 0 [2, 3, 5] [], .dep 3 [7]]
def lateW : WM := lateOps.foldl (fun w op => (w.step info0 op).1) {}
def lateE : Handle := ⟨0, 0, 0⟩

/-- every hypothesis of the theorems holds in `lateW` for `lateE` (archetype 0, row 0), and its archetype mask is
NOT closed: 3 is there, its late dependent 7 is not -/
example : DepsBounded lateW.deps ∧ lateW.isLocked = false ∧ lateW.isValid lateE = true ∧ lateE.id ≠ nullId ∧
    lateW.locOf lateE = ⟨some 0, 0⟩ ∧ 0 < lateW.archs.length ∧ (lateW.arch 0).mask = [2, 3, 5] ∧
    (lateW.arch 0).mask.Pairwise (· < ·) ∧ lateW.deps = [(7, [3]), (3, [3, 7])] ∧
    closedMask lateW.deps (lateW.arch 0).mask = [2, 3, 5, 7] := by
  refine ⟨by decide, by decide, by decide, by decide, by decide, by decide, by decide, by decide, by decide,
    by decide⟩

/-- deferred `assign<7>`: {2,3,5,7}; deferred `assign<9>`: {2,3,5,7,9} (7 caught up with); deferred `remove<2>`:
{3,5,7}; assign 9, remove 9, remove 7: {2,3,5,7} (7 comes back as dependent of 3) — the model computes what
`seqMask` says, and the immediate calls give the same -/
example :
    maskOf (lateW.applyPack info0 [.assign lateE 7 (some 9)]).1 lateE = some [2, 3, 5, 7] ∧
    seqMask lateW.deps [2, 3, 5] [.assign lateE 7 (some 9)] = [2, 3, 5, 7] ∧
    maskOf (lateW.applyPack info0 [.assign lateE 9 (some 9)]).1 lateE = some [2, 3, 5, 7, 9] ∧
    maskOf (lateW.applyPack info0 [.remove lateE 2]).1 lateE = some [3, 5, 7] ∧
    maskOf (lateW.applyPack info0 [.assign lateE 9 (some 9), .remove lateE 9, .remove lateE 7]).1 lateE =
      some [2, 3, 5, 7] ∧
    maskOf (immRun info0 0 lateW [.assign lateE 9 (some 9), .remove lateE 9, .remove lateE 7]) lateE =
      some [2, 3, 5, 7] ∧
    maskOf (immRun info0 0 lateW [.assign lateE 7 (some 9)]) lateE = some [2, 3, 5, 7] := by
  refine ⟨by decide, by decide, by decide, by decide, by decide, by decide, by decide⟩

/-- the theorem applied to the concrete world (all hypotheses decided) -/
example : HasMask (lateW.applyPack info0 [.assign lateE 7 (some 9)]).1 lateE [2, 3, 5, 7] ∧
    HasMask (immRun info0 0 lateW [.assign lateE 7 (some 9)]) lateE [2, 3, 5, 7] := by
  have h := deferred_pack_mask_eq_immediate info0 0 lateW lateE [.assign lateE 7 (some 9)] 0 0
    (by decide) (by decide) (by decide) (by decide) (by decide) (by decide) (by decide) (by decide) (by decide)
    (Or.inr (fun e' c v h => by rw [List.mem_singleton] at h; cases h; decide))
  have hm : seqMask lateW.deps (lateW.arch 0).mask [.assign lateE 7 (some 9)] = [2, 3, 5, 7] := by decide
  rw [hm] at h
  exact ⟨h.1, h.2.1⟩

/-- through the API: lock, deferred `assign<7>`, unlock on the late-declaration world gives {2,3,5,7} -/
example : maskOf ((lateOps ++ [Op.lock, Op.assign 0 lateE 7 (some 9), Op.unlock]).foldl
    (fun w op => (w.step info0 op).1) ({} : WM)) lateE = some [2, 3, 5, 7] := by decide

/-- the side condition `hre` is needed: re-assigning the present component 3 on the unclosed archetype {2,3,5}
leaves {2,3,5} when deferred, but the immediate call looks {2,3,5} up again and lands in {2,3,5,7} -/
example : maskOf (lateW.applyPack info0 [.assign lateE 3 (some 1)]).1 lateE = some [2, 3, 5] ∧
    maskOf (immRun info0 0 lateW [.assign lateE 3 (some 1)]) lateE = some [2, 3, 5, 7] := by
  refine ⟨by decide, by decide⟩

end PackMask

end Mustache.Props.C13

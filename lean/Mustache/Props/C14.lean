import Mustache.Proofs.SystemsFinal
/-!
# C14 — systems run in a constraint- and priority-respecting order; lifecycle is legal

Model: `Mustache/Model/Systems.lean` (`reorder` = `SystemManager::reorderSystems`, `step` = the manager
operations, `St.apply` = the guarded transitions of `ASystem`).  Specification: `Mustache/Spec/Systems.lean`.
All theorems quantify over all constraint graphs / priorities / groups and over all histories of
add / remove / init / update / setGroupPriority / user pause-resume-stop / teardown.
`UniqueNames` / `wfFrom`: no two registered systems share a name (the manager indexes by name).
-/
namespace Mustache.Props.C14
open Mustache.Systems

/-- no two present systems share a name -/
def UniqueNames (ns : List Node) : Prop := (ns.map (·.name)).Nodup

/-! ## `reorderSystems` -/

/-- The computed order is a permutation of the present systems. -/
theorem reorder_perm (ns o : List Node) (h : reorder ns = some o) : o.Perm ns :=
  reorder_perm' h

/-- Every update-after / update-before constraint between present systems holds in the computed order. -/
theorem reorder_respects (ns o : List Node) (hu : UniqueNames ns) (h : reorder ns = some o) :
    Respects ns o :=
  reorder_respects' hu h

/-- At every position the chosen system has the maximal (group priority, priority) among the systems
whose constraints are satisfied at that point. -/
theorem reorder_priority (ns o : List Node) (hu : UniqueNames ns) (h : reorder ns = some o) :
    PriorityGreedy ns o :=
  reorder_priority' hu h

/-- The computed order is accepted by the decision procedure the check runs on the implementation. -/
theorem reorder_accepted (ns o : List Node) (hu : UniqueNames ns) (h : reorder ns = some o) :
    validOrderB ns o = true :=
  (validOrderB_iff ns o).mpr (reorder_valid hu h)

/-- `validOrderB` decides the specification `ValidOrder`. -/
theorem validOrder_decided (ns o : List Node) : validOrderB ns o = true ↔ ValidOrder ns o :=
  validOrderB_iff ns o

/-- What the check accepts as the implementation's update sequence is a `ValidUpdate`: the active systems
of some admissible order, in that order. -/
theorem validUpdate_sound (ns : List Node) (act : Node → Bool) (us : List Node)
    (h : validUpdateB ns act us = true) : ValidUpdate ns act us :=
  validUpdateB_sound h

/-- "Can not reorder systems" is thrown exactly when the constraint relation restricted to the present
systems has a cycle. -/
theorem reorder_fails_iff_cyclic (ns : List Node) (hu : UniqueNames ns) :
    reorder ns = none ↔ Cyclic ns :=
  ⟨reorder_none_cyclic hu, reorder_cyclic_none hu⟩

/-- No admissible order exists for a cyclic relation: failing is the only correct answer. -/
theorem cyclic_no_valid_order (ns o : List Node) (hu : UniqueNames ns) (hc : Cyclic ns) :
    ¬ ValidOrder ns o := by
  intro hv
  exact not_cyclic_of_respects hv.perm (hv.perm.nodup_iff.mpr (nodup_of_names hu)) hv.respects hc

/-! ## the manager over histories -/

/-- In every state reached by a well-formed history the stored order is an admissible order of the
ordering problem solved last, and `ordered_systems` is exactly that order. -/
theorem manager_order_valid (ops : List Op) (hwf : wfFrom Mgr.empty ops = true) :
    let m := (run Mgr.empty ops).1
    ValidOrder m.snapSrc m.snap ∧ (m.dead = false → m.ordered = m.snap.map (·.id)) := by
  have ho := run_oinv ops inv_empty oinv_empty hwf
  exact ⟨ho.snapValid, ho.orderedSnap⟩

/-- Every op that re-orders (init, add after init, remove of a registered name) and returns normally has
solved the ordering problem of the systems registered now (current configs, current group priorities). -/
theorem manager_order_current (m : Mgr) (hd : m.dead = false) (op : Op) (hop : op.reorders m = true)
    (hok : (step m op).2.1 = .ok) : (step m op).1.snapSrc = (step m op).1.nodes :=
  step_order_current hd op hop hok

/-- One manager update after any well-formed history: it does not throw; the systems updated are, in
sequence, the active ones of an admissible order; every registered system receives exactly one `onUpdate`
if it is active after the update (late-comers are started first) and none otherwise. -/
theorem update_each_once (ops : List Op) (hwf : wfFrom Mgr.empty ops = true) :
    let m := (run Mgr.empty ops).1
    m.dead = false → m.wasInit = true →
    (step m .update).2.1 = .ok ∧
    ValidUpdate m.snapSrc (fun n => decide (stateOf (step m .update).1.systems n.id = some .active))
      ((m.snap.filter (fun n => decide (stateOf (step m .update).1.systems n.id = some .active)))) ∧
    updatesOf (step m .update).2.2 =
      (m.snap.filter (fun n => decide (stateOf (step m .update).1.systems n.id = some .active))).map (·.id) ∧
    ∀ s ∈ (step m .update).1.systems,
      (updatesOf (step m .update).2.2).count s.uid = if s.st = .active then 1 else 0 := by
  intro m hd hw
  have hi : Inv m ([] ++ allEvents (run Mgr.empty ops).2) := run_inv ops inv_empty
  have ho : OInv m := run_oinv ops inv_empty oinv_empty hwf
  have hi' := (step_inv hi .update).1
  have hspec := updateAll_spec m.ordered { ss := m.systems } hi.orderedNodup rfl
  have hstep : step m .update = ({ m with systems := (updateAll m.ordered { ss := m.systems }).ss },
      outcomeOf (updateAll m.ordered { ss := m.systems }), (updateAll m.ordered { ss := m.systems }).evs) := by
    simp [step, hd, hw]
  rw [hstep] at hi' ⊢
  simp only at hi' ⊢
  generalize updateAll m.ordered { ss := m.systems } = r at hspec hi' ⊢
  rcases hspec with ⟨hok, _, hup⟩
  have hupd : updatesOf r.evs =
      (m.snap.filter (fun n => decide (stateOf r.ss n.id = some .active))).map (·.id) := by
    rw [hup, ho.orderedSnap hd, List.filter_map]
    simp [updatesOf, Function.comp_def]
  refine ⟨by simp [outcomeOf, hok], ⟨m.snap, ho.snapValid, rfl⟩, hupd, ?_⟩
  intro s hs
  have hst : stateOf r.ss s.uid = some s.st := stateOf_of_mem hi'.uidsNodup hs
  have hnd : (updatesOf r.evs).Nodup := by
    rw [hup]; simpa [updatesOf] using hi.orderedNodup.sublist (List.filter_sublist ..)
  rw [hnd.count, hup]
  simp only [updatesOf, List.filter_nil, List.map_nil, List.nil_append, List.mem_filter,
    decide_eq_true_eq, hst, Option.some.injEq]
  by_cases hact : s.st = .active
  · have hin : s.uid ∈ m.ordered := hi'.started hd s.uid s.st hst (by rw [hact]; rfl)
    simp [hact, hin]
  · simp [hact]

/-- Every object's complete callback trace, over any history (including the teardown of the manager), is a
path of the documented lifecycle graph starting at `onCreate`. -/
theorem lifecycle_legal (ops : List Op) (u : Nat) :
    legalTrace (traceOf u (allEvents (run Mgr.empty ops).2)) = true := by
  have hi : Inv _ ([] ++ allEvents (run Mgr.empty ops).2) := run_inv ops inv_empty
  simpa [legalTrace] using hi.good.legal u

/-- After `removeSystem(name)` the removed object never receives a callback again (in particular no
`onUpdate`), whatever happens afterwards. -/
theorem removed_never_updated (ops1 ops2 : List Op) (name : Name) (u : Nat) :
    let m1 := (run Mgr.empty ops1).1
    m1.dead = false → m1.byName.lookup name = some u →
    ∀ e ∈ allEvents (run m1 (.remove name :: ops2)).2, e.uid ≠ u := by
  intro m1 hd hl e he
  have hi : Inv m1 ([] ++ allEvents (run Mgr.empty ops1).2) := run_inv ops1 inv_empty
  rw [run_cons] at he
  simp only [allEvents, List.flatMap_cons] at he
  have hrm := step_remove_spec hd hl
  rw [hrm.1, List.nil_append] at he
  exact run_removed ops2 (step_inv hi (.remove name)).1 hrm.2 e he

/-- The remaining systems keep running: a successful `removeSystem` calls nothing, changes no other
object, keeps every other registered object registered and ordered, and leaves an admissible order of
exactly the remaining systems (so `update_each_once` applies to them). -/
theorem remove_keeps_running (ops : List Op) (hwf : wfFrom Mgr.empty ops = true) (name : Name) (u : Nat) :
    let m := (run Mgr.empty ops).1
    m.dead = false → m.byName.lookup name = some u → (step m (.remove name)).2.1 = .ok →
    let m' := (step m (.remove name)).1
    (step m (.remove name)).2.2 = [] ∧
    m'.systems = m.systems.filter (fun s => decide (s.uid ≠ u)) ∧
    m'.ordered.Perm (m'.systems.map (·.uid)) ∧
    ValidOrder m'.nodes m'.snap ∧ m'.ordered = m'.snap.map (·.id) := by
  intro m hd hl hok m'
  have hi : Inv m ([] ++ allEvents (run Mgr.empty ops).2) := run_inv ops inv_empty
  have ho : OInv m := run_oinv ops inv_empty oinv_empty hwf
  have ho' : OInv m' := step_oinv hi ho (.remove name) rfl
  have hcur : m'.snapSrc = m'.nodes :=
    step_order_current hd (.remove name) (by simp [Op.reorders, hl]) hok
  have hsnap := ho'.snapValid
  rw [hcur] at hsnap
  have hev := (step_remove_spec hd hl).1
  simp only [m'] at *
  simp only [step, hd, hl, Bool.false_eq_true, if_false] at hok hsnap ho' ⊢
  split
  · rename_i h; simp only [h] at hok; cases hok
  · rename_i m2 h2
    simp only [h2] at hsnap ho'
    have hperm := mgr_reorder_ordered h2
    have hsys := (mgr_reorder_removed h2).2.1
    have hdead := (mgr_reorder_removed h2).2.2.1
    refine ⟨rfl, hsys, by rw [hsys]; exact hperm, hsnap, ho'.orderedSnap (by rw [hdead])⟩

/-! ## non-vacuity: the hypotheses are satisfiable by concrete non-trivial values -/

/-- three systems: `a` (name 1) declares update-before `b`; `c` (name 3) declares update-after `a` and has
the highest priority; `b` (name 2) has priority 5 -/
def exA : Node := ⟨0, 1, [2], [], 0, 0⟩
def exB : Node := ⟨1, 2, [], [], 0, 5⟩
def exC : Node := ⟨2, 3, [], [1, 9], 0, 9⟩
/-- `d` closes a cycle: after `b`, before `a` -/
def exD : Node := ⟨3, 4, [1], [2], 0, 1⟩

example : UniqueNames [exA, exB, exC] := by unfold UniqueNames; decide
example : reorder [exA, exB, exC] = some [exA, exC, exB] := by decide
example : ValidOrder [exA, exB, exC] [exA, exC, exB] := by decide
example : ¬ ValidOrder [exA, exB, exC] [exA, exB, exC] := by decide   -- priority: c (9) must precede b (5)
example : ¬ ValidOrder [exA, exB, exC] [exC, exA, exB] := by decide   -- constraint: c is after a
example : validUpdateB [exA, exB, exC] (fun n => n.id != 2) [exA, exB] = true := by decide  -- c paused
example : validUpdateB [exA, exB, exC] (fun n => n.id != 2) [exB, exA] = false := by decide
example : UniqueNames [exA, exB, exD] ∧ reorder [exA, exB, exD] = none := by unfold UniqueNames; decide
example : Cyclic [exA, exB, exD] :=
  ⟨exA, .cons (by decide) (by decide : mustPrecede exA exB = true)
    (.cons (by decide) (by decide : mustPrecede exB exD = true)
      (.single (by decide) (by decide) (by decide : mustPrecede exD exA = true)))⟩

/-- a history: two systems before init (the second update-before the first), init, update, a late-comer
with a constraint and a higher group priority, update, pause, update, removal, update, teardown -/
def exHist : List Op :=
  [ .add 1 false ⟨[], [], 0, 0⟩, .add 2 true ⟨[1], [], 0, 0⟩, .init, .update,
    .setGroup 1 7, .add 3 false ⟨[], [2], 1, 0⟩, .update, .ext 1 .pause, .update,
    .remove 2, .update ]

example : wfFrom Mgr.empty exHist = true := by decide
example : (run Mgr.empty exHist).1.dead = false ∧ (run Mgr.empty exHist).1.wasInit = true := by decide
example : (run Mgr.empty exHist).1.ordered = [2, 0] := by decide
example : updatesOf (step (run Mgr.empty exHist).1 .update).2.2 = [2] := by decide
example : (run Mgr.empty (exHist ++ [.teardown])).2.map (·.1) =
    [.ok, .ok, .ok, .ok, .ok, .ok, .ok, .ok, .ok, .ok, .ok, .ok] := by decide
example : traceOf 1 (allEvents (run Mgr.empty (exHist ++ [.teardown])).2) =
    [.create, .configure, .start, .update, .update, .update] := by decide
example : traceOf 0 (allEvents (run Mgr.empty (exHist ++ [.teardown])).2) =
    [.create, .configure, .start, .update, .update, .pause, .stop, .destroy] := by decide
example : ((run Mgr.empty (exHist.take 9)).1.byName.lookup 2 = some 1) := by decide
/-- a contradictory late-comer is reported, the others keep running in the previous order -/
example : (step (run Mgr.empty exHist).1 (.add 4 false ⟨[1], [1], 0, 0⟩)).2.1 = .cannotReorder := by decide

end Mustache.Props.C14

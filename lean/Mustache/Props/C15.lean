import Mustache.Proofs.EventsHist
/-!
# C15 — events reach exactly the current subscribers, once, in any manager

Model: `Mustache.Model.Events` (process-global type-id registry, per-manager slot vectors created on
first use, `weak_ptr`-style receiver homes). Specification: `Mustache.Spec.Events`
(`subs : manager → type → list of receivers`, nothing else).

All theorems quantify over ALL histories `h : List Op` — any number of managers, event types and
receivers, in any order — that stay within the API contract `Legal` (objects named by an op are
alive; `subscribe_` is given a receiver that is not subscribed at that moment).
-/
namespace Mustache.Props.C15
open Mustache.Model.Events
open Mustache.Proofs.Events
open Mustache.Spec.Events (subsAfter)

/-- the history of DESIGN section 5: the second manager meets the two types in the opposite order -/
def sampleHistory : List Op :=
  [.newManager, .subscribeFn 0 0, .subscribeFn 0 1, .newManager, .newReceiver 1, .newReceiver 0,
   .subscribe 1 2, .subscribe 1 3]

/-- a type first seen by the later manager, a post on a type the manager never saw, unsubscribe,
a manager dropped before its receiver, a re-subscription in a third manager -/
def sampleHistory2 : List Op :=
  [.newManager, .newManager, .subscribeFn 1 5, .subscribeFn 0 2, .post 0 5, .subscribeFn 1 2,
   .newReceiver 2, .subscribe 1 3, .unsubscribe 2, .dropManager 0, .dropReceiver 1,
   .newManager, .unsubscribe 3, .subscribe 2 3]

/-! ## refinement: what `post` delivers -/

/-- Every output of the model along a legal history — manager / receiver ordinals and the delivery
list of EVERY `post` — is the output of the specification. -/
theorem model_refines_spec (h : List Op) (hl : Legal h) :
    (run h).2 = (Mustache.Spec.Events.run h).2 :=
  (run_sim h inv_init sim_init hl).2.2

example : Legal sampleHistory := by decide
example : Legal sampleHistory2 := by decide
example : (run sampleHistory2).2 ≠ [] := by decide

/-- `post m T` after ANY legal history `h` invokes exactly the receivers subscribed to `(m, T)` at that
moment — the list `subsAfter h m T` of the specification, in subscription order — and nobody else. -/
theorem post_delivers_subscribers (h : List Op) (m : MgrId) (T : TypeName)
    (hl : Legal (h ++ [.post m T])) :
    (run (h ++ [.post m T])).2 = (run h).2 ++ [.delivered (subsAfter h m T)] := by
  have hl' : legalFrom State.init (h ++ [.post m T]) = true := hl
  rw [legalFrom_append, Bool.and_eq_true] at hl'
  have hpre := run_sim h inv_init sim_init hl'.1
  have hall := model_refines_spec _ hl
  unfold run at hall ⊢
  unfold Mustache.Spec.Events.run at hall
  rw [runFrom_append] at hall ⊢
  rw [spec_runFrom_append] at hall
  simp only at hall ⊢
  rw [hpre.2.2] at hall
  have hlast := List.append_cancel_left hall
  rw [hlast]
  rfl

example : Legal (sampleHistory ++ [.post 1 1]) := by decide
example : subsAfter sampleHistory 1 1 = [2] := by decide
example : subsAfter sampleHistory 1 0 = [3] ∧ subsAfter sampleHistory 0 1 = [1] := by decide
example : (run (sampleHistory ++ [.post 1 1])).2.getLast? = some (.delivered [2]) := by decide
example : subsAfter sampleHistory2 2 2 = [3] ∧ subsAfter sampleHistory2 1 5 = [0] ∧
    subsAfter sampleHistory2 1 2 = [] := by decide

/-! ## what the specification's list is: each once, nobody else -/

/-- nobody is invoked twice -/
theorem each_subscriber_once (h : List Op) (hl : Legal h) (m : MgrId) (T : TypeName) :
    (subsAfter h m T).Nodup := by
  have hr := run_sim h inv_init sim_init hl
  unfold subsAfter Mustache.Spec.Events.run
  rw [hr.2.1.subs]
  exact hr.1.nodup m T

/-- Whoever is invoked by `post m T` is a receiver of event type `T` that has not been destroyed, on a
manager that has not been destroyed, and it is subscribed to no other manager and no other type. -/
theorem nobody_else (h : List Op) (hl : Legal h) (m : MgrId) (T : TypeName) (r : Rcv)
    (hr : r ∈ subsAfter h m T) :
    (Mustache.Spec.Events.run h).1.rty r = T ∧ Op.dropReceiver r ∉ h ∧ Op.dropManager m ∉ h ∧
      ∀ m' T', r ∈ subsAfter h m' T' → m' = m ∧ T' = T := by
  have hs := run_sim h inv_init sim_init hl
  have hmem : ∀ m' T', r ∈ subsAfter h m' T' → r ∈ lookup (run h).1 m' T' := by
    intro m' T' h'
    unfold subsAfter Mustache.Spec.Events.run at h'
    rw [hs.2.1.subs] at h'
    exact h'
  have hin := hmem m T hr
  rcases hs.1.info m T r hin with ⟨ri, hri, hra, hty, _⟩
  refine ⟨?_, ?_, ?_, ?_⟩
  · exact (hs.2.1.rty r ri hri).trans hty
  · intro hd
    rcases dropReceiver_mem_dead h hl hd with ⟨ri', hri', hdead⟩
    have : ri' = ri := Option.some.inj (hri'.symm.trans hri)
    rw [this, hra] at hdead
    cases hdead
  · intro hd
    rcases dropManager_mem_dead h hl hd with ⟨mg, hmg, hdead⟩
    have halive := mgrAlive_of_mem_lookup hin
    have hmg' : (run h).1.mgrs[m]? = some mg := hmg
    rcases mgrAlive_iff.mp halive with ⟨mg2, hmg2, ha2⟩
    rw [hmg'] at hmg2
    cases hmg2
    rw [hdead] at ha2
    cases ha2
  · intro m' T' h'
    exact single_home hs.1 hin (hmem m' T' h')

example : 2 ∈ subsAfter sampleHistory 1 1 := by decide

/-- a receiver that has unsubscribed is not invoked (by any manager, for any type) -/
theorem unsubscribed_not_invoked (h : List Op) (r : Rcv) (m : MgrId) (T : TypeName) :
    r ∉ subsAfter (h ++ [.unsubscribe r]) m T := by
  unfold subsAfter Mustache.Spec.Events.run
  rw [spec_runFrom_append]
  simp [Mustache.Spec.Events.runFrom, Mustache.Spec.Events.step]

/-- a destroyed receiver is not invoked -/
theorem destroyed_not_invoked (h : List Op) (r : Rcv) (m : MgrId) (T : TypeName) :
    r ∉ subsAfter (h ++ [.dropReceiver r]) m T := by
  unfold subsAfter Mustache.Spec.Events.run
  rw [spec_runFrom_append]
  simp [Mustache.Spec.Events.runFrom, Mustache.Spec.Events.step]

/-- subscription order: a new subscriber is invoked after all earlier ones, whose order is kept -/
theorem subscription_order (h : List Op) (m : MgrId) (r : Rcv) :
    subsAfter (h ++ [.subscribe m r]) m ((Mustache.Spec.Events.run h).1.rty r) =
      subsAfter h m ((Mustache.Spec.Events.run h).1.rty r) ++ [r] := by
  unfold subsAfter Mustache.Spec.Events.run
  rw [spec_runFrom_append]
  simp [Mustache.Spec.Events.runFrom, Mustache.Spec.Events.step, Mustache.Spec.Events.addSub]

example : subsAfter (sampleHistory ++ [.subscribeFn 1 1]) 1 1 = [2, 4] := by decide

/-- The contract of `subscribe_` in terms of the specification: "not in the list of the manager its
`events_` points to" (what `legal` tests on the model state) is "subscribed nowhere". -/
theorem subscribe_contract_means_unsubscribed (h : List Op) (hl : Legal h) (r : Rcv) :
    subscribedAtHome (run h).1 r = false ↔ ∀ m T, r ∉ subsAfter h m T := by
  have hs := run_sim h inv_init sim_init hl
  have hsub : ∀ m T, subsAfter h m T = lookup (run h).1 m T := fun m T => hs.2.1.subs m T
  constructor
  · intro hn m T
    rw [hsub]
    exact not_subscribed_anywhere hs.1 hn m T
  · intro hall
    unfold subscribedAtHome
    cases hri : (run h).1.rcvs[r]? with
    | none => rfl
    | some ri =>
      cases hh : ri.home with
      | none => simp [hh]
      | some m =>
        have := hall m ri.ty
        rw [hsub] at this
        simpa [hh] using this

example : subscribedAtHome (run sampleHistory2).1 2 = false ∧ subscribedAtHome (run sampleHistory2).1 3 = true := by
  decide

/-! ## the slot tables -/

/-- No operation other than destroying the manager itself shortens a manager's slot table or removes /
nulls a slot that exists — whatever the state, whatever the type ids involved. -/
theorem slots_grow_only (s : State) (op : Op) (m : MgrId) (mg : Mgr)
    (hmg : s.mgrs[m]? = some mg) (hop : op ≠ .dropManager m) :
    ∃ mg', (step s op).1.mgrs[m]? = some mg' ∧ mg'.alive = mg.alive ∧
      mg.slots.length ≤ mg'.slots.length ∧
      ∀ (j : Nat) (l : List Rcv), mg.slots[j]? = some (some l) → ∃ l', mg'.slots[j]? = some (some l') := by
  rcases run_mgrGrows [op] (s := s) hmg (by simpa using fun e => hop e.symm) with ⟨mg', h', hg⟩
  exact ⟨mg', h', hg.alive, hg.length, hg.keeps⟩

/-- the same along a whole history that does not destroy the manager -/
theorem slots_grow_only_history (s : State) (h : List Op) (m : MgrId) (mg : Mgr)
    (hmg : s.mgrs[m]? = some mg) (hno : Op.dropManager m ∉ h) :
    ∃ mg', (runFrom s h).1.mgrs[m]? = some mg' ∧ mg'.alive = mg.alive ∧
      mg.slots.length ≤ mg'.slots.length ∧
      ∀ (j : Nat) (l : List Rcv), mg.slots[j]? = some (some l) → ∃ l', mg'.slots[j]? = some (some l') := by
  rcases run_mgrGrows h hmg hno with ⟨mg', h', hg⟩
  exact ⟨mg', h', hg.alive, hg.length, hg.keeps⟩

example : (run sampleHistory).1.mgrs[1]? = some ⟨true, [some [3], some [2]]⟩ := by decide

/-! ## well-formedness and totality on reachable states -/

/-- every state reachable by a legal history satisfies the model invariant
(no slot beyond the registered ids; stored receivers are alive, of the slot's type, homed at the
manager; no duplicates) -/
theorem reachable_wellformed (h : List Op) (hl : Legal h) : Inv (run h).1 :=
  (run_sim h inv_init sim_init hl).1

/-- Along a legal history the model never takes an undefined-behaviour branch — `subscriptions_[id]`
is always in range and non-null when `subscribe_` / `unsubscribe` / `post` dereference it — and never
rejects an operation. -/
theorem model_never_ub (h : List Op) (hl : Legal h) :
    Out.ub ∉ (run h).2 ∧ Out.illegal ∉ (run h).2 := by
  rw [model_refines_spec h hl]
  have key : ∀ (t : List Op) (sp : SState),
      Out.ub ∉ (Mustache.Spec.Events.runFrom sp t).2 ∧ Out.illegal ∉ (Mustache.Spec.Events.runFrom sp t).2 := by
    intro t
    induction t with
    | nil => intro sp; simp [Mustache.Spec.Events.runFrom]
    | cons op t ih =>
      intro sp
      have h1 : (Mustache.Spec.Events.step sp op).2 ≠ Out.ub ∧ (Mustache.Spec.Events.step sp op).2 ≠ Out.illegal := by
        cases op <;> simp [Mustache.Spec.Events.step]
      have h2 := ih (Mustache.Spec.Events.step sp op).1
      simp only [Mustache.Spec.Events.runFrom, List.mem_cons, not_or]
      exact ⟨⟨Ne.symm h1.1, h2.1⟩, ⟨Ne.symm h1.2, h2.2⟩⟩
  exact key h _

end Mustache.Props.C15

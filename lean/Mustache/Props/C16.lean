import Mustache.Proofs.BitPack
/-! # C16 — handle packing is lossless for every id, version and world in range

All statements are about `Mustache.Gen.*`: the definitions regenerated on every run by
`tools/ir2lean.py` from the LLVM IR of thin wrappers around the real inline functions of
`/repo/src/mustache/ecs/entity.hpp` and `id_deff.hpp`. A changed shift, mask or field width in the
source changes those definitions and the theorems below stop checking.
Quantifiers are over ALL bit-vector arguments (2^64 patterns / all 32-bit arguments). -/
namespace Mustache.Props.C16
open Mustache.Gen Mustache.Proofs.BitPack

/-- reading the three fields back from a packed in-range triple returns the triple -/
theorem roundtrip (i v w : BitVec 32) (hi : i.toNat < 2^30) (hv : v.toNat < 2^24) (hw : w.toNat < 2^10) :
    w_id (w_reset i v w) = i ∧ w_version (w_reset i v w) = v ∧ w_world (w_reset i v w) = w := by
  have h := reset_toNat i v w hi hv hw
  refine ⟨?_, ?_, ?_⟩ <;> apply BitVec.eq_of_toNat_eq
  · rw [id_toNat, h]; omega
  · rw [version_toNat, h]; omega
  · rw [world_toNat, h]; omega

example : (5#32).toNat < 2^30 ∧ (16777215#32).toNat < 2^24 ∧ (1023#32).toNat < 2^10 := by decide

/-- distinct in-range triples give distinct handles -/
theorem pack_injective (i v w i' v' w' : BitVec 32)
    (hi : i.toNat < 2^30) (hv : v.toNat < 2^24) (hw : w.toNat < 2^10)
    (hi' : i'.toNat < 2^30) (hv' : v'.toNat < 2^24) (hw' : w'.toNat < 2^10)
    (h : w_reset i v w = w_reset i' v' w') : i = i' ∧ v = v' ∧ w = w' := by
  have a := roundtrip i v w hi hv hw
  have b := roundtrip i' v' w' hi' hv' hw'
  rw [h] at a
  exact ⟨a.1.symm.trans b.1, a.2.1.symm.trans b.2.1, a.2.2.symm.trans b.2.2⟩

/-- the constructor packs exactly like `reset` -/
theorem ctor_eq_reset (i v w : BitVec 32) : w_ctor i v w = w_reset i v w := rfl

/-- the three fields partition the 64 bits: two handles are equal exactly when all three fields agree -/
theorem fields_partition (x y : BitVec 64) :
    x = y ↔ (w_id x = w_id y ∧ w_world x = w_world y ∧ w_version x = w_version y) := by
  constructor
  · rintro rfl; exact ⟨rfl, rfl, rfl⟩
  · rintro ⟨h1, h2, h3⟩
    apply BitVec.eq_of_toNat_eq
    rw [fields_sum x, fields_sum y, h1, h2, h3]

/-- `operator==` / `operator!=` are value equality -/
theorem eq_iff (x y : BitVec 64) : w_eq x y = 1#32 ↔ x = y := by
  unfold w_eq; by_cases h : x = y <;> simp [h]

theorem ne_iff (x y : BitVec 64) : w_ne x y = 1#32 ↔ x ≠ y := by
  unfold w_ne; by_cases h : x = y <;> simp [h]

/-- equality of handles ⇔ all three fields agree (composition of the two facts above) -/
theorem eq_iff_fields (x y : BitVec 64) :
    w_eq x y = 1#32 ↔ (w_id x = w_id y ∧ w_world x = w_world y ∧ w_version x = w_version y) :=
  (eq_iff x y).trans (fields_partition x y)

/-- field ranges: id < 2^30, world < 2^10, version < 2^24 for every 64-bit pattern -/
theorem field_ranges (x : BitVec 64) :
    (w_id x).toNat < 2^30 ∧ (w_world x).toNat < 2^10 ∧ (w_version x).toNat < 2^24 := by
  rw [id_toNat, world_toNat, version_toNat]
  have := x.isLt
  refine ⟨Nat.mod_lt _ (by decide), Nat.mod_lt _ (by decide), ?_⟩
  apply Nat.div_lt_of_lt_mul
  have e : (2:Nat)^40 * 2^24 = 2^64 := by decide
  rw [e]; exact this

/-- advancing the version changes only the version field and wraps within it -/
theorem next_version (x : BitVec 64) :
    w_id (w_next x) = w_id x ∧ w_world (w_next x) = w_world x ∧
    (w_version (w_next x)).toNat = ((w_version x).toNat + 1) % 2^24 := by
  have hr := field_ranges x
  have key : (w_next x).toNat =
      (w_id x).toNat + (w_world x).toNat * 2^30 + (((w_version x).toNat + 1) % 2^24) * 2^40 := by
    rw [next_toNat x]
    have hs := fields_sum x
    generalize (w_id x).toNat = I at *
    generalize (w_world x).toNat = W at *
    generalize (w_version x).toNat = V at *
    rw [hs]; exact next_nat I W V hr.1 hr.2.1 hr.2.2
  have hm : ((w_version x).toNat + 1) % 2^24 < 2^24 := Nat.mod_lt _ (by decide)
  generalize ((w_version x).toNat + 1) % 2^24 = V' at *
  refine ⟨?_, ?_, ?_⟩
  · apply BitVec.eq_of_toNat_eq; rw [id_toNat, key]; omega
  · apply BitVec.eq_of_toNat_eq; rw [world_toNat, key]; omega
  · rw [version_toNat, key]; omega

/-- `incrementVersion` is the same function as `makeEntityWithNextVersion` -/
theorem incr_eq_next (x : BitVec 64) : w_incr x = w_next x := rfl

/-- only the all-ones pattern is null; a default-constructed handle is null -/
theorem null_iff_all_ones (x : BitVec 64) : w_isnull x = 1#32 ↔ x = BitVec.allOnes 64 := by
  unfold w_isnull
  by_cases h : x = 18446744073709551615#64
  · subst h; decide
  · have h' : x ≠ BitVec.allOnes 64 := by
      intro e; apply h; rw [e]; decide
    simpa [h] using h'

theorem default_is_null : w_isnull w_default = 1#32 := by decide

/-- remark recorded in DESIGN.md: the in-range triple (2^30-1, 2^24-1, 2^10-1) packs to the null pattern -/
theorem max_triple_is_null : w_reset 1073741823#32 16777215#32 1023#32 = BitVec.allOnes 64 := by decide

/-- align-up (`ComponentOffset::alignAs` / `makeAligned`): for a non-zero alignment and no 32-bit overflow,
    the result is the least multiple of `a` that is ≥ `off` -/
theorem align_up (off a : BitVec 32) (ha : a ≠ 0#32) (hov : off.toNat + a.toNat ≤ 2^32) :
    w_align_defined off a = true ∧
    (w_align off a).toNat % a.toNat = 0 ∧ off.toNat ≤ (w_align off a).toNat ∧
    (w_align off a).toNat < off.toNat + a.toNat := by
  have ha' : 0 < a.toNat := by
    rcases Nat.eq_zero_or_pos a.toNat with h | h
    · exact absurd (BitVec.eq_of_toNat_eq (by simpa using h)) ha
    · exact h
  refine ⟨by simp [w_align_defined, ha], ?_⟩
  -- value of the intermediate sum off - 1 + a (mod 2^32) is off + a - 1 as a natural number
  have hsum : (off + 4294967295#32 + a).toNat = off.toNat + a.toNat - 1 := by
    rw [BitVec.toNat_add, BitVec.toNat_add]
    have : (4294967295#32).toNat = 2^32 - 1 := by decide
    rw [this]
    have := off.isLt
    omega
  have hres : (w_align off a).toNat = (off.toNat + a.toNat - 1) - (off.toNat + a.toNat - 1) % a.toNat := by
    unfold w_align
    simp only []
    rw [BitVec.toNat_sub_of_le, BitVec.toNat_umod, hsum]
    rw [BitVec.le_def, BitVec.toNat_umod]
    exact Nat.mod_le _ _
  have f := sub_mod_facts (off.toNat + a.toNat - 1) a.toNat ha'
  rw [hres]
  refine ⟨f.1, ?_, by omega⟩
  -- off ≤ result: result is a multiple of a within (n - a, n], and off ≤ n = off + a - 1
  have h1 := f.2.2
  omega

example : (4#32 : BitVec 32) ≠ 0#32 ∧ (13#32).toNat + (4#32).toNat ≤ 2^32 := by decide

theorem makealigned_eq_align (off a : BitVec 32) : w_makealigned off a = w_align off a := rfl

/-- chunk/item split (`ComponentStorageIndex / ChunkCapacity`, `%`) -/
theorem split (i cap : BitVec 32) (hc : cap ≠ 0#32) :
    w_div_defined i cap = true ∧ w_mod_defined i cap = true ∧
    i.toNat = (w_div i cap).toNat * cap.toNat + (w_mod i cap).toNat ∧
    (w_mod i cap).toNat < cap.toNat := by
  have hc' : 0 < cap.toNat := by
    rcases Nat.eq_zero_or_pos cap.toNat with h | h
    · exact absurd (BitVec.eq_of_toNat_eq (by simpa using h)) hc
    · exact h
  have hd : w_div i cap = i / cap := by simp [w_div, hc]
  have hm : w_mod i cap = i % cap := by simp [w_mod, hc]
  refine ⟨by simp [w_div_defined, hc], by simp [w_mod_defined, hc], ?_, ?_⟩
  · rw [hd, hm, BitVec.toNat_udiv, BitVec.toNat_umod]
    have := Nat.div_add_mod i.toNat cap.toNat
    rw [Nat.mul_comm] at this; omega
  · rw [hm, BitVec.toNat_umod]; exact Nat.mod_lt _ hc'

/-- a null (zero) capacity yields the null index from both operators, never a division by zero -/
theorem split_null (i : BitVec 32) :
    w_div i 0#32 = BitVec.allOnes 32 ∧ w_mod i 0#32 = BitVec.allOnes 32 ∧
    w_div_defined i 0#32 = true ∧ w_mod_defined i 0#32 = true := by
  refine ⟨?_, ?_, ?_, ?_⟩ <;> simp [w_div, w_mod, w_div_defined, w_mod_defined] <;> decide

end Mustache.Props.C16

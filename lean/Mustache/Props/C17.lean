import Mustache.Proofs.Worlds
import Mustache.Proofs.WorldsId
import Mustache.Proofs.WorldsHandle
import Mustache.Proofs.WorldsDriver
import Mustache.Props.C16
/-! # C17 — worlds are independent, however many a process creates

Process model: `Model/Worlds.lean` (world-id allocator of the FIXED code + the live worlds, each with its own world model
`WM`). A history is ANY list of process operations (`POp`): worlds built with automatic or explicit ids, bare
`nextWorldId()` calls, destructions, and arbitrary per-world operations, in any order and of any length.
`Proc.run init ops` is the state after the history. -/
namespace Mustache.Props.C17
open Mustache.Model Mustache.Proofs.Worlds Mustache.Proofs.WorldsId Mustache.Proofs.WorldsHandle

/-- a process that has not built a world yet -/
def init : Proc := {}

/-- sample history used by the non-vacuity examples: two worlds, an entity in the first, the first destroyed, a third
    world built (it gets the recycled id 0), a bare `nextWorldId()`, an explicitly numbered world -/
def sampleInfo : CompId → CompInfo := fun _ => ⟨false, none, none, false, false⟩
def sampleOps : List POp :=
  [.newAuto true, .newAuto false, POp.ofW sampleInfo 0 (.create 0 [0] []), .drop 0, .newAuto true, .reserve,
   .newExplicit 7 true, POp.ofW sampleInfo 2 (.create 0 [] [])]

/-! ## 1. live worlds carry different ids -/

/-- an automatically numbered world never shares its id with a world that was alive when it was built — explicitly
    numbered ones included (`worlds` is in creation order) -/
theorem auto_id_fresh (ops : List POp) : (init.run ops).worlds.Pairwise (fun a b => b.auto = true → a.id ≠ b.id) :=
  run_pairwise ops init List.Pairwise.nil

/-- two different live automatically numbered worlds have different ids, after every history -/
theorem live_worlds_distinct_ids (ops : List POp) (a b : WEntry)
    (ha : a ∈ (init.run ops).worlds) (hb : b ∈ (init.run ops).worlds) (hne : a.slot ≠ b.slot)
    (haa : a.auto = true) (hba : b.auto = true) : a.id ≠ b.id := by
  have hp := auto_id_fresh ops
  have hR : (init.run ops).worlds.Pairwise
      (fun a b : WEntry => a.slot ≠ b.slot → a.auto = true → b.auto = true → a.id ≠ b.id) :=
    hp.imp (fun {x y} h _ _ hy => h hy)
  have hF : (init.run ops).worlds.Pairwise
      (flip fun a b : WEntry => a.slot ≠ b.slot → a.auto = true → b.auto = true → a.id ≠ b.id) :=
    hp.imp (fun {x y} h _ hy _ (e : y.id = x.id) => h hy e.symm)
  exact List.Pairwise.forall_of_forall_of_flip (fun x _ h => absurd rfl h) hR hF ha hb hne haa hba

example : ((init.run sampleOps).worlds.map (fun e => (e.slot, e.id, e.auto))) = [(1, 1, true), (2, 0, true), (3, 7, false)] := by
  decide

/-- when the caller's explicit ids do not name a live world either, ALL live worlds have different ids -/
theorem all_live_ids_distinct (ops : List POp) (hx : ExplicitFresh init ops) (a b : WEntry)
    (ha : a ∈ (init.run ops).worlds) (hb : b ∈ (init.run ops).worlds) (hne : a.slot ≠ b.slot) : a.id ≠ b.id := by
  have hp := run_pairwise_distinct ops init List.Pairwise.nil hx
  have hR : (init.run ops).worlds.Pairwise (fun a b : WEntry => a.slot ≠ b.slot → a.id ≠ b.id) :=
    hp.imp (fun {x y} (h : x.id ≠ y.id) _ => h)
  have hF : (init.run ops).worlds.Pairwise (flip fun a b : WEntry => a.slot ≠ b.slot → a.id ≠ b.id) :=
    hp.imp (fun {x y} (h : x.id ≠ y.id) _ (e : y.id = x.id) => h e.symm)
  exact List.Pairwise.forall_of_forall_of_flip (fun x _ h => absurd rfl h) hR hF ha hb hne

example : ExplicitFresh init sampleOps := by
  simp only [ExplicitFresh, sampleOps, POp.ofW]
  decide

/-! ## 2. ids stay inside the 10-bit world field, however many worlds were ever built -/

/-- `nextWorldId()` in ANY state: the id is at most (live worlds + outstanding bare reservations) -/
theorem next_id_le_load (p : Proc) : p.nextWorldId.2 ≤ p.load := nextWorldId_le_load p

/-- if automatically numbered worlds are only built while fewer than 2^10 worlds (plus outstanding bare reservations)
    exist — i.e. at most 2^10 alive at once, no bound on the number ever built — every live automatically numbered world
    has an id below 2^10 -/
theorem auto_id_in_range (ops : List POp) (h : Admissible (2^10) init ops) :
    ∀ e ∈ (init.run ops).worlds, e.auto = true → e.id < 2^10 :=
  run_autoInRange (2^10) ops init (fun _ he => absurd he List.not_mem_nil) h

example : Admissible (2^10) init sampleOps := by
  simp only [Admissible, sampleOps, POp.ofW]
  decide

/-- building and destroying worlds one after the other -/
def churnOps : Nat → Nat → List POp
  | _, 0 => []
  | k, n + 1 => .newAuto true :: .drop k :: churnOps (k + 1) n

theorem churn_step (k : Nat) :
    (({ reserved := [], worlds := [], nextSlot := k } : Proc).step (.newAuto true)).step (.drop k) =
      { reserved := [], worlds := [], nextSlot := k + 1 } := by
  simp [Proc.step, Proc.nextWorldId, Proc.construct, Proc.destroy, Proc.world?, Proc.liveIds, leastFree, leastFreeFrom]

/-- the hypothesis of `auto_id_in_range` is satisfied by histories of ANY length: n worlds built and destroyed in turn
    (n = 10 000, n = 10^9 …) are admissible, and every one of them gets id 0 -/
theorem churn_admissible (n : Nat) : ∀ k, Admissible (2^10) { reserved := [], worlds := [], nextSlot := k } (churnOps k n) := by
  induction n with
  | zero => intro k; exact trivial
  | succ n ih =>
    intro k
    refine ⟨(by decide : (0 : Nat) < 2^10), ?_⟩
    show Admissible _ ((({ reserved := [], worlds := [], nextSlot := k } : Proc).step (.newAuto true)).step (.drop k)) _
    rw [churn_step]
    exact ih (k + 1)

theorem churn_run (n : Nat) : ∀ k, ({ reserved := [], worlds := [], nextSlot := k } : Proc).run (churnOps k n) =
    { reserved := [], worlds := [], nextSlot := k + n } := by
  induction n with
  | zero => intro k; rfl
  | succ n ih =>
    intro k
    show Proc.run ((({ reserved := [], worlds := [], nextSlot := k } : Proc).step (.newAuto true)).step (.drop k)) _ = _
    rw [churn_step, ih (k + 1)]
    congr 1
    omega

/-- the world built after ANY number of build/destroy rounds gets id 0 again -/
theorem id_after_churn (n : Nat) : ((init.run (churnOps 0 n)).nextWorldId).2 = 0 := by
  have : init = ({ reserved := [], worlds := [], nextSlot := 0 } : Proc) := rfl
  rw [this, churn_run]
  rfl

/-! ## 3. a world's own handles: stamped with its id, unchanged by the packing, valid in it -/

/-- every world's entity manager is stamped with the world's id, after every history of id-preserving operations -/
theorem worlds_stamped (ops : List POp) (hid : IdPreserving ops) : ∀ e ∈ (init.run ops).worlds, e.wm.worldId = e.id :=
  run_stamped ops init (fun _ he => absurd he List.not_mem_nil) hid

/-- every operation of the world model (`WM.step`, the function the single-world checks run against the library) is
    id-preserving, so histories built from them satisfy `IdPreserving` -/
theorem world_ops_preserve_id (info : CompId → CompInfo) (w : WM) (op : Op Handle) : (w.step info op).1.worldId = w.worldId :=
  step_wid info w op

/-- so is every per-world operation the executable model driver (`driver worlds`, the stream diffed against the real
    library) issues: whatever the op line, the bookkeeping and the world, `lineEffect` (the world driver's `step` behind a
    guard on the id) leaves `worldId` alone — the histories the tie runs are inside `IdPreserving` -/
theorem driver_ops_preserve_id (side : Mustache.Driver.World.St) (line : String) (w : WM) :
    (Mustache.Driver.Worlds.lineEffect side line w).worldId = w.worldId :=
  Mustache.Proofs.WorldsDriver.lineEffect_wid side line w

example : IdPreserving sampleOps := by
  intro s f hm w
  simp only [sampleOps, POp.ofW, List.mem_cons, reduceCtorEq, false_or, or_false, List.mem_nil_iff, POp.onWorld.injEq] at hm
  rcases hm with ⟨_, rfl⟩ | ⟨_, rfl⟩ <;> exact step_wid _ _ _

/-- own handles: in every live automatically numbered world of an admissible history, an entity created outside a locked
    section gets a handle that (1) carries the world's id, which (2) is below 2^10, and (3) is valid in that world at
    once; (4) when id and version are in their ranges the library reads the handle back from its packed 64-bit value
    unchanged. (`isNull = false` excludes only the all-ones pattern — C16 `max_triple_is_null`.) -/
theorem own_handles_valid (info : CompId → CompInfo) (ops : List POp) (hid : IdPreserving ops)
    (hadm : Admissible (2^10) init ops) (e : WEntry) (he : e ∈ (init.run ops).worlds) (hauto : e.auto = true)
    (t : Nat) (mask : Mask) (sh : Shared) (hl : e.wm.isLocked = false)
    (hnn : (e.wm.create info t mask sh).2.1.isNull = false) :
    (e.wm.create info t mask sh).2.1.world = e.id ∧ e.id < 2^10 ∧
    (e.wm.create info t mask sh).1.isValid (e.wm.create info t mask sh).2.1 = true ∧
    ((e.wm.create info t mask sh).2.1.id < 2^30 → (e.wm.create info t mask sh).2.1.ver < 2^24 →
      (e.wm.create info t mask sh).2.1.seen = (e.wm.create info t mask sh).2.1) := by
  have hst := worlds_stamped ops hid e he
  have hr := auto_id_in_range ops hadm e he hauto
  have hc := create_unlocked info e.wm t mask sh hl hnn
  refine ⟨hc.1.trans hst, hr, hc.2, fun hi hv => seen_eq _ ⟨hi, hv, ?_⟩⟩
  rw [hc.1, hst]; exact hr

example : ∃ e ∈ (init.run sampleOps).worlds, e.auto = true ∧ e.wm.isLocked = false ∧
    (e.wm.create sampleInfo 0 [0] Shared.null).2.1.isNull = false := by
  refine ⟨(init.run sampleOps).worlds[0]'(by decide), List.getElem_mem _, ?_, ?_, ?_⟩ <;> decide

/-- the same through the functions GENERATED from the library's own `Entity::reset` / `Entity::worldId` (C16 tie): for a
    live automatically numbered world of an admissible history, packing any in-range id and version with the world's id
    and reading the world field back returns the world's id -/
theorem own_handle_roundtrip (ops : List POp) (hadm : Admissible (2^10) init ops) (e : WEntry)
    (he : e ∈ (init.run ops).worlds) (hauto : e.auto = true) (i v : Nat) (hi : i < 2^30) (hv : v < 2^24) :
    (Mustache.Gen.w_world (Mustache.Gen.w_reset (BitVec.ofNat 32 i) (BitVec.ofNat 32 v) (BitVec.ofNat 32 e.id))).toNat = e.id ∧
    (Mustache.Gen.w_id (Mustache.Gen.w_reset (BitVec.ofNat 32 i) (BitVec.ofNat 32 v) (BitVec.ofNat 32 e.id))).toNat = i ∧
    (Mustache.Gen.w_version (Mustache.Gen.w_reset (BitVec.ofNat 32 i) (BitVec.ofNat 32 v) (BitVec.ofNat 32 e.id))).toNat = v := by
  have hr := auto_id_in_range ops hadm e he hauto
  have e1 : (BitVec.ofNat 32 i).toNat = i := by rw [BitVec.toNat_ofNat]; omega
  have e2 : (BitVec.ofNat 32 v).toNat = v := by rw [BitVec.toNat_ofNat]; omega
  have e3 : (BitVec.ofNat 32 e.id).toNat = e.id := by rw [BitVec.toNat_ofNat]; omega
  have h := Mustache.Props.C16.roundtrip (BitVec.ofNat 32 i) (BitVec.ofNat 32 v) (BitVec.ofNat 32 e.id)
    (by rw [e1]; exact hi) (by rw [e2]; exact hv) (by rw [e3]; exact hr)
  rw [h.1, h.2.1, h.2.2]
  exact ⟨e3, e1, e2⟩

/-! ## 4. foreign handles -/

/-- a handle stamped with world A's id is invalid in every simultaneously live world B with a different id -/
theorem foreign_handles_invalid (ops : List POp) (hid : IdPreserving ops) (a b : WEntry)
    (_ha : a ∈ (init.run ops).worlds) (hb : b ∈ (init.run ops).worlds) (hne : a.id ≠ b.id)
    (h : Handle) (hw : h.world = a.id) : b.wm.isValid h = false := by
  apply isValid_foreign
  rw [hw, worlds_stamped ops hid b hb]
  exact hne

/-- no handle is valid in two different live automatically numbered worlds -/
theorem valid_in_one_world_only (ops : List POp) (hid : IdPreserving ops) (a b : WEntry)
    (ha : a ∈ (init.run ops).worlds) (hb : b ∈ (init.run ops).worlds) (hne : a.slot ≠ b.slot)
    (haa : a.auto = true) (hba : b.auto = true) (h : Handle) (hv : a.wm.isValid h = true) : b.wm.isValid h = false := by
  refine foreign_handles_invalid ops hid a b ha hb (live_worlds_distinct_ids ops a b ha hb hne haa hba) h ?_
  rw [isValid_world a.wm h hv, worlds_stamped ops hid a ha]

/-- … so the checked entry points of B ignore it: no component, no archetype, `destroyNow` changes nothing -/
theorem foreign_handle_harmless (info : CompId → CompInfo) (b : WM) (h : Handle) (hv : b.isValid h = false) :
    (∀ c, b.getComp h c = none) ∧ (∀ c, b.hasComp h c = false) ∧ b.archOf h = none ∧ b.destroyNowU info h = (b, []) ∧
    (b.clone h) = (b, none) := by
  refine ⟨fun c => ?_, fun c => ?_, ?_, ?_, ?_⟩
  · simp [WM.getComp, hv]
  · simp [WM.hasComp, hv]
  · simp [WM.archOf, hv]
  · simp [WM.destroyNowU, hv]
  · simp [WM.clone, hv]

example : ∃ a ∈ (init.run sampleOps).worlds, ∃ b ∈ (init.run sampleOps).worlds, a.slot ≠ b.slot ∧ a.auto = true ∧
    b.auto = true ∧ a.wm.isValid ⟨0, 0, a.id⟩ = true := by
  refine ⟨(init.run sampleOps).worlds[1]'(by decide), List.getElem_mem _,
    (init.run sampleOps).worlds[0]'(by decide), List.getElem_mem _, ?_, ?_, ?_, ?_⟩ <;> decide

/-! ## 5. frame -/

/-- an operation on world `slot` — whatever it does — leaves every other live world exactly as it was, and does not touch
    the process-global allocator -/
theorem frame (p : Proc) (slot : Nat) (f : WM → WM) :
    (∀ other, other ≠ slot → (p.step (.onWorld slot f)).world? other = p.world? other) ∧
    (p.step (.onWorld slot f)).reserved = p.reserved ∧ (p.step (.onWorld slot f)).nextSlot = p.nextSlot ∧
    (p.step (.onWorld slot f)).world? slot = (p.world? slot).map (fun e => { e with wm := f e.wm }) :=
  ⟨fun other hne => world?_onWorld_ne p slot f other hne, rfl, rfl, world?_onWorld_eq p slot f⟩

/-- destroying a world leaves every other live world exactly as it was -/
theorem frame_drop (p : Proc) (slot other : Nat) (hne : other ≠ slot) :
    (p.step (.drop slot)).world? other = p.world? other := world?_destroy_ne p slot other hne

/-- building a world (or a bare `nextWorldId()`) leaves every live world exactly as it was -/
theorem frame_new (p : Proc) (other : Nat) (e : WEntry) (h : p.world? other = some e) :
    (∀ s, (p.step (.newAuto s)).world? other = some e) ∧ (∀ i s, (p.step (.newExplicit i s)).world? other = some e) ∧
    (p.step .reserve).world? other = some e :=
  ⟨fun s => world?_construct_old p.nextWorldId.1 _ true s other e h, fun i s => world?_construct_old p i false s other e h, h⟩

/-- frame for whole histories: a history that never addresses world `k` (no operation on it, no destruction of it)
    leaves it exactly as it was, whatever happens to the other worlds and however many are built and destroyed -/
theorem frame_history (ops : List POp) (k : Nat)
    (hk : ∀ op ∈ ops, (∀ f, op ≠ .onWorld k f) ∧ op ≠ .drop k) :
    ∀ (p : Proc) (e : WEntry), p.world? k = some e → (p.run ops).world? k = some e := by
  induction ops with
  | nil => intro p e h; exact h
  | cons op ops ih =>
    intro p e h
    refine ih (fun o ho => hk o (List.mem_cons_of_mem _ ho)) (p.step op) e ?_
    have hop := hk op List.mem_cons_self
    cases op with
    | newAuto s => exact (frame_new p k e h).1 s
    | newExplicit i s => exact (frame_new p k e h).2.1 i s
    | reserve => exact h
    | drop slot =>
      rw [frame_drop p slot k (fun hc => hop.2 (by rw [hc]))]; exact h
    | onWorld slot f =>
      rw [(frame p slot f).1 k (fun hc => hop.1 f (by rw [hc]))]; exact h

example : (init.run sampleOps).world? 1 = ((init.run (sampleOps.take 2)).world? 1) := by
  simp only [sampleOps, List.take]
  rfl

/-! ## the pinned (unfixed) allocator, for the record: ids are never reused, the 1025th world's handles are rejected -/

theorem legacy_churn (n : Nat) : ∀ (a : LegacyAlloc), a.pool = [] →
    (a.churn n).2 = List.range' a.next n ∧ (a.churn n).1.pool = [] ∧ (a.churn n).1.next = a.next + n := by
  induction n with
  | zero => intro a h; exact ⟨rfl, h, rfl⟩
  | succ n ih =>
    intro a h
    have hstep : a.nextWorldId = ({ a with next := a.next + 1 }, a.next) := by
      simp [LegacyAlloc.nextWorldId, h]
    have hrel : (a.nextWorldId.1.release a.nextWorldId.2).pool = [] := by
      simp [hstep, LegacyAlloc.release, h]
    have hnext : (a.nextWorldId.1.release a.nextWorldId.2).next = a.next + 1 := by
      simp [hstep, LegacyAlloc.release]
    have := ih (a.nextWorldId.1.release a.nextWorldId.2) hrel
    simp only [LegacyAlloc.churn, hnext] at this ⊢
    refine ⟨?_, this.2.1, by rw [this.2.2]; omega⟩
    rw [this.1, hstep, List.range'_succ]

/-- with the pinned allocator the (k+1)-th world of a process gets id k even when every earlier world is long gone -/
theorem legacy_ids_never_reused (k : Nat) : (({} : LegacyAlloc).churn (k + 1)).2[k]? = some k := by
  rw [(legacy_churn (k + 1) {} rfl).1]
  simp

/-- … so the 1025th world has id 2^10 and rejects the handle of the first entity it creates: the packed handle reads
    back with world 0 and version 1 -/
theorem legacy_1025th_world_rejects_own_handle (shared : Bool) :
    (({} : LegacyAlloc).churn 1025).2[1024]? = some (2^10) ∧
    (freshWM (2^10) shared).allocId.2 = ⟨0, 0, 2^10⟩ ∧
    (freshWM (2^10) shared).allocId.1.isValid (Handle.seen ⟨0, 0, 2^10⟩) = false := by
  refine ⟨legacy_ids_never_reused 1024, rfl, ?_⟩
  apply isValid_foreign
  rw [(seen_overflow 0 (by decide)).1]
  show 0 ≠ 2^10
  decide

end Mustache.Props.C17

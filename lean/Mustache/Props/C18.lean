import Mustache.Model.CApi
import Mustache.Driver.World
import Mustache.Proofs.CApiCongr
import Mustache.Proofs.CApiCallbacks
/-!
# C18 — the C API behaves like the C++ API on the same operations

Model: `Model/CApi.lean`. `COp` / `cstep` / `crun` = the C entry points of `c_api.cpp` (arguments as the C caller
passes them: id arrays, bit sets, entity arrays, `JobDescriptor`, `TypeInfo` tables); `XOp` / `xstep` / `xrun` = the
C++ calls (`EntityManager`, `World`, `NonTemplateJob`) on the world model `WM`; `translate` = which C++ calls a C call
stands for. States are compared with `=` on the WHOLE concrete state (id table, locations, archetype rows and
values, command buffers, marked set), outputs with `=` on everything a call returns (handles, pointers, booleans,
values, job callback arguments: entity arrays and component value arrays).

* `translate_ok`, `capi_refines_cxx`: every C call / every sequence of C calls, from every state, on every thread id,
  for every registry of run-time described types, IS the translated C++ sequence - so every theorem about `WM`
  operations (C01/C02/C05/C09 …) is a theorem about C-API programs.
* `flags_irrelevant_for_values` and its parts: which fields of the description the operations read.
  - the presence of `copy`, `move`, `move_constructor`, `destroy` is not read at all (`convert_strip`, `crun_strip`):
    moves are value-preserving whatever subset of the table is filled;
  - `create` / `default_value` (`hasCtor`, `dflt`) are read only through `defaultVal`, the value a freshly
    default-constructed component gets (`defaults_only_through_defaultVal`, `convert_defaultVal`);
  - `callbacks` never influences a state or a returned value (`callbacks_never_influence_values`);
  - `counted` only drives the bookkeeping field `temps`, which no query reads (`counted_only_temps`, `temps_invisible`).
-/
namespace Mustache.Props.C18
open Mustache.Model Mustache.Model.CApi Mustache.Proofs.CApi

/-! ## sample data for the non-vacuity examples -/

/-- the harness's types A (8 bytes) and D (1 byte) and H, each with a different function subset -/
def tiA : TypeInfo := { size := 8, align := 8, move := false, moveCtor := true, copy := true }
def tiB : TypeInfo := { size := 8, align := 8, create := true, createTok := 1001, destroy := true }
def tiD : TypeInfo := { size := 1, align := 1 }
def tiH : TypeInfo := { size := 8, align := 8, defaultValue := some 1007 }
def sampleR : Registry := [tiA, tiB, tiD, tiH]

def h0 : Handle := ⟨0, 0, 0⟩
def h1 : Handle := ⟨1, 0, 0⟩
def h2 : Handle := ⟨2, 0, 0⟩

/-- archetype {A,B}, three entities, values stored through `getComponent` pointers, the FIRST one destroyed
    (swap-remove of a non-last row), a component added without init and written, one removed, a job run -/
def sampleOps : List COp :=
  [.getArchetype [1, 0], .createEntityGroup 0 3,
   .store (.comp h0 0) 21, .store (.comp h1 0) 22, .store (.comp h2 0) 23, .store (.comp h2 1) 33,
   .destroyEntities [h0] true,
   .assignComponentWithoutInit h1 3, .store (.comp h1 3) 55, .assignComponent h2 3,
   .removeComponent h1 1,
   .runJob { args := [⟨0, true, true⟩, ⟨3, false, false⟩], write := some (3, 7000) },
   .getComponent h2 0 true, .hasComponent h1 1]

def sampleRun := crun sampleR defaultStorageCap 0 (createWorld 0) sampleOps

/-- the values followed their entities through the swap-remove and the archetype changes; the job wrote H -/
example : sampleRun.1.getComp h2 0 = some (some 23) ∧ sampleRun.1.getComp h2 1 = some (some 33) ∧
    sampleRun.1.getComp h1 0 = some (some 22) ∧ sampleRun.1.getComp h1 1 = none ∧
    sampleRun.1.getComp h0 0 = none ∧ sampleRun.1.isValid h0 = false := by decide
example : sampleRun.1.getComp h2 3 = some (some 7000) ∧ sampleRun.1.getComp h1 3 = some (some 7001) := by decide

/-! ## 1. every C entry point is the C++ call it names -/

theorem xrun_append (info : CompId → CompInfo) (cap t : Nat) (w : WM) (a b : List XOp) :
    xrun info cap t w (a ++ b) =
      ((xrun info cap t (xrun info cap t w a).1 b).1,
       (xrun info cap t w a).2.1 ++ (xrun info cap t (xrun info cap t w a).1 b).2.1,
       (xrun info cap t w a).2.2 ++ (xrun info cap t (xrun info cap t w a).1 b).2.2) := by
  induction a generalizing w with
  | nil => simp [xrun]
  | cons op rest ih => simp [xrun, ih, List.append_assoc]

theorem createGroup_xrun (info : CompId → CompInfo) (cap t : Nat) (w : WM) (ai n : Nat) :
    ((createGroup info w t ai n).1, (createGroup info w t ai n).2.1.map Out.handle, (createGroup info w t ai n).2.2) =
      xrun info cap t w (List.replicate n (.createAt ai)) := by
  induction n generalizing w with
  | zero => rfl
  | succ n ih =>
    simp only [createGroup, List.replicate_succ, xrun, xstep]
    rw [← ih]
    rfl

theorem destroyAll_xrun (info : CompId → CompInfo) (cap t : Nat) (w : WM) (now : Bool) (es : List Handle) :
    ((destroyAll info w t now es).1, es.map (fun _ => Out.unit), (destroyAll info w t now es).2) =
      xrun info cap t w (es.map (fun e => if now then XOp.destroyNow e else XOp.destroy e)) := by
  cases now with
  | true =>
    simp only [if_true]
    induction es generalizing w with
    | nil => rfl
    | cons e es ih =>
      simp only [destroyAll, List.map_cons, xrun, xstep, if_true]
      rw [← ih]
  | false =>
    simp only [Bool.false_eq_true, if_false]
    induction es generalizing w with
    | nil => rfl
    | cons e es ih =>
      simp only [destroyAll, List.map_cons, xrun, xstep, Bool.false_eq_true, if_false, List.nil_append]
      rw [← ih]

/-- `translate_ok`: the model of each C entry point (written from c_api.cpp) is the sequence of C++ calls `translate`
    names: same final state, same returned values, same callback log. -/
theorem translate_ok (r : Registry) (cap t : Nat) (w : WM) (op : COp) :
    cstep r cap t w op = xrun (infoOf r) cap t w (translate op) := by
  cases op with
  | createEntityGroup ai n => simp only [cstep, translate]; exact createGroup_xrun _ cap t w ai n
  | destroyEntities es now => simp only [cstep, translate]; exact destroyAll_xrun _ cap t w now es
  | _ => simp [cstep, translate, xrun, xstep]

example : cstep sampleR defaultStorageCap 0 (createWorld 0) (.getArchetype [1, 0]) =
    xrun (infoOf sampleR) defaultStorageCap 0 (createWorld 0) [.getArchetype [0, 1]] := by
  rw [translate_ok]; rfl
/-- a group creation of 3 stands for three `create(Archetype&)` calls -/
example : translate (.createEntityGroup 0 3) = [.createAt 0, .createAt 0, .createAt 0] := rfl

/-- `capi_refines_cxx`: for EVERY sequence of C calls, every registry, every start state and thread id, running the C
    entry points gives exactly the state, the returned values and the callback log of the corresponding C++ sequence
    with the component description `infoOf r` converted from the C `TypeInfo` tables. -/
theorem capi_refines_cxx (r : Registry) (cap t : Nat) (w : WM) (ops : List COp) :
    crun r cap t w ops = xrun (infoOf r) cap t w (ops.flatMap translate) := by
  induction ops generalizing w with
  | nil => rfl
  | cons op rest ih =>
    simp only [crun, List.flatMap_cons, xrun_append, translate_ok, ih]

example : sampleRun = xrun (infoOf sampleR) defaultStorageCap 0 (createWorld 0) (sampleOps.flatMap translate) :=
  capi_refines_cxx _ _ _ _ _
example : (sampleOps.flatMap translate).length = 16 := by decide

/-- … and with ANY C++ component description of the same lifecycle behaviour (same default-construction values, same
    `fixed`, `callbacks`, `counted`): literally the same result. -/
theorem capi_refines_cxx_same_flags (r : Registry) (info' : CompId → CompInfo) (h : Agree (infoOf r) info')
    (cap t : Nat) (w : WM) (ops : List COp) :
    crun r cap t w ops = xrun info' cap t w (ops.flatMap translate) := by
  rw [capi_refines_cxx, xrun_congr h]

/-- … and with a C++ description that additionally has `afterAssign` / `beforeRemove` callbacks (which the C table can
    not express): same state and same returned values; only the callback log differs. -/
theorem capi_refines_cxx_up_to_callbacks (r : Registry) (info' : CompId → CompInfo) (h : AgreeV (infoOf r) info')
    (cap t : Nat) (w : WM) (ops : List COp) :
    (crun r cap t w ops).1 = (xrun info' cap t w (ops.flatMap translate)).1 ∧
    (crun r cap t w ops).2.1 = (xrun info' cap t w (ops.flatMap translate)).2.1 := by
  rw [capi_refines_cxx]
  exact xrun_fst h cap t w _

/-- the C++ catalogue type H of the harness (constructor token 1007) next to the C type H (default value 1007) -/
example : AgreeV (infoOf [tiH]) (fun c => if c = 0 then ⟨true, some 1007, none, true, false⟩ else plain) := by
  constructor <;> intro c <;> match c with
    | 0 => decide
    | _ + 1 => rfl

/-! ### the untyped calls the C layer uses vs the typed calls the other properties are stated for -/

theorem getArch_isLocked (w : WM) (m : Mask) (sh : Shared) : (w.getArch m sh).1.isLocked = w.isLocked := by
  unfold WM.getArch
  dsimp only
  split <;> rfl

/-- `getArchetype(mask)` + `createEntity(archetype)` is `EntityManager::create(mask, null)` when unlocked (under lock the
    C pair registers the archetype at once, the mask-based call at the flush: the same entities, archetypes possibly
    numbered in a different order) -/
theorem create_eq_getArchetype_createEntity (info : CompId → CompInfo) (w : WM) (t : Nat) (m : Mask)
    (hl : w.isLocked = false) :
    createAt info (w.getArch m Shared.null).1 t (w.getArch m Shared.null).2 = w.create info t m Shared.null := by
  unfold createAt WM.create
  simp only [getArch_isLocked, hl]
  rfl

/-- the UNTYPED `removeComponent(e, id)` (no validity guard) is the checked typed `removeComponent<C>(e)` on every
    valid handle - the contract under which the C entry point may be called -/
theorem removeUntyped_eq_removeComp (info : CompId → CompInfo) (w : WM) (t : Nat) (e : Handle) (c : CompId)
    (hv : w.isValid e = true) : removeUntyped info w t e c = w.removeComp info t e c := by
  unfold removeUntyped WM.removeComp
  simp only [hv, Bool.not_true, Bool.false_eq_true, if_false]
  rfl

example : (createWorld 0).isLocked = false := by decide
example : sampleRun.1.isValid h1 = true := by decide

/-- C09 carried over: the checked C entry points answer "no" through any dead, null or foreign handle and leave the
    whole state untouched -/
theorem capi_queries_invalid_handle (r : Registry) (cap t : Nat) (w : WM) (e : Handle) (c : CompId) (k : Bool)
    (hv : w.isValid e = false) :
    cstep r cap t w (.hasComponent e c) = (w, [.bool false], []) ∧
    cstep r cap t w (.getComponent e c k) = (w, [.val none], []) := by
  simp [cstep, WM.hasComp, WM.getComp, hv]

theorem capi_destroy_invalid_handle (r : Registry) (cap t : Nat) (w : WM) (e : Handle)
    (hl : w.isLocked = false) (hv : w.isValid e = false) :
    cstep r cap t w (.destroyEntities [e] true) = (w, [.unit], []) := by
  simp [cstep, destroyAll, WM.destroyNow, WM.destroyNowU, hl, hv]

example : sampleRun.1.isValid h0 = false ∧ sampleRun.1.isLocked = false := by decide

/-! ## 2. which fields of the description the value level reads -/

/-- the table without the four functions that only relocate / release storage -/
def strip (ti : TypeInfo) : TypeInfo := { ti with copy := false, move := false, moveCtor := false, destroy := false }

/-- `copy`, `move`, `move_constructor`, `destroy`: their presence is not part of the converted description at all -/
theorem convert_strip (ti : TypeInfo) : convert (strip ti) = convert ti := rfl

theorem infoOf_strip (r : Registry) : infoOf (r.map strip) = infoOf r := by
  funext c
  simp only [infoOf, List.getElem?_map]
  cases r[c]? <;> rfl

/-- for every one of the 16 subsets of {copy, move, move_constructor, destroy}, per component: the whole behaviour
    (state, returned values, callback log) equals that of the instance with none of them - a move degrades to a byte
    copy, never to a no-op -/
theorem crun_strip (r : Registry) (cap t : Nat) (w : WM) (ops : List COp) :
    crun (r.map strip) cap t w ops = crun r cap t w ops := by
  rw [capi_refines_cxx, capi_refines_cxx, infoOf_strip]

example : strip tiA ≠ tiA ∧ convert (strip tiA) = convert tiA := ⟨by decide, rfl⟩
example : crun (sampleR.map strip) defaultStorageCap 0 (createWorld 0) sampleOps = sampleRun := crun_strip _ _ _ _ _

/-- what the remaining two inputs (`create`, `default_value`) decide: the value of a freshly default-constructed
    component; a constructor wins over a default value; neither = indeterminate (`none`) -/
theorem convert_defaultVal (r : Registry) (c : CompId) (ti : TypeInfo) (hc : r[c]? = some ti) :
    defaultVal (infoOf r) c =
      if ti.size < 8 then some 0 else if ti.create then some ti.createTok else ti.defaultValue := by
  simp only [defaultVal, infoOf, hc, convert]
  by_cases h8 : ti.size < 8 <;> by_cases hcr : ti.create = true <;> cases ti.defaultValue <;> simp [h8, hcr]

example : defaultVal (infoOf sampleR) 1 = some 1001 ∧ defaultVal (infoOf sampleR) 3 = some 1007 ∧
    defaultVal (infoOf sampleR) 0 = none ∧ defaultVal (infoOf sampleR) 2 = some 0 := by decide

/-- the token a default construction stores: the constructor's, else the default value's, else none (indeterminate) -/
def defaultTok (ti : TypeInfo) : Option Nat := if ti.create then some ti.createTok else ti.defaultValue

theorem convert_eq_of (ti ti' : TypeInfo) (hs : decide (ti.size < 8) = decide (ti'.size < 8))
    (hd : defaultTok ti = defaultTok ti') : convert ti = convert ti' := by
  have hs' : (ti.size < 8) ↔ (ti'.size < 8) := by simpa using hs
  unfold defaultTok at hd
  simp only [convert, hs']
  by_cases h1 : ti.create = true <;> by_cases h2 : ti'.create = true <;>
    cases h3 : ti.defaultValue <;> cases h4 : ti'.defaultValue <;> simp_all

/-- `flags_irrelevant_for_values`: for EVERY choice of the optional lifecycle functions {create, copy, move,
    move_constructor, destroy} of every registered type - two registries whose types pairwise have the same storage class
    (`size < 8` = the harness's empty type) and the same default-construction token behave identically on every
    sequence of C calls from every state: same states, same returned values and job callback arguments, same callback
    log. The five flags reach the value level ONLY through `defaultTok`; in particular with no `create` and no default
    value (the all-absent "plain data" table) any subset of {copy, move, move_constructor, destroy} changes nothing. -/
theorem flags_irrelevant_for_values (r r' : Registry) (hl : r.length = r'.length)
    (h : ∀ (i : Nat) (ti ti' : TypeInfo), r[i]? = some ti → r'[i]? = some ti' →
      decide (ti.size < 8) = decide (ti'.size < 8) ∧ defaultTok ti = defaultTok ti')
    (cap t : Nat) (w : WM) (ops : List COp) : crun r cap t w ops = crun r' cap t w ops := by
  have hi : infoOf r = infoOf r' := by
    funext c
    simp only [infoOf]
    cases h1 : r[c]? with
    | none =>
      have : r'[c]? = none := by
        rw [List.getElem?_eq_none_iff] at h1 ⊢; omega
      rw [this]
    | some ti =>
      cases h2 : r'[c]? with
      | none =>
        have hlt := (List.getElem?_eq_some_iff.mp h1).1
        have := List.getElem?_eq_none_iff.mp h2
        omega
      | some ti' => exact convert_eq_of ti ti' (h c ti ti' h1 h2).1 (h c ti ti' h1 h2).2
  rw [capi_refines_cxx, capi_refines_cxx, hi]

/-- all 32 subsets for the harness's type A: same size, `create` writes 1000 in one table, the other has no `create`
    but the default value 1000, the remaining four flags differ arbitrarily -/
example : crun [{ size := 8, align := 8, create := true, createTok := 1000, move := true, destroy := true }]
      defaultStorageCap 0 (createWorld 0) [.getArchetype [0], .createEntityGroup 0 2, .getComponent h1 0 true] =
    crun [{ size := 8, align := 8, defaultValue := some 1000, copy := true, moveCtor := true }]
      defaultStorageCap 0 (createWorld 0) [.getArchetype [0], .createEntityGroup 0 2, .getComponent h1 0 true] := by
  apply flags_irrelevant_for_values _ _ rfl
  intro i ti ti' h1 h2
  match i with
  | 0 => simp only [List.getElem?_cons_zero, Option.some.injEq] at h1 h2; subst h1; subst h2; decide
  | _ + 1 => simp at h1
example : (crun [{ size := 8, align := 8, defaultValue := some 1000, copy := true, moveCtor := true }]
      defaultStorageCap 0 (createWorld 0) [.getArchetype [0], .createEntityGroup 0 2]).1.getComp h1 0 =
    some (some 1000) := by decide

/-- `hasCtor` / `dflt` are read only through `defaultVal`: two descriptions giving every component the same
    default-construction value (and the same `fixed`, `callbacks`, `counted`) give the same everything -/
theorem defaults_only_through_defaultVal (I I' : CompId → CompInfo) (h : Agree I I') (cap t : Nat) (w : WM)
    (ops : List XOp) : xrun I cap t w ops = xrun I' cap t w ops := xrun_congr h cap t w ops

/-- two descriptions that differ as records (`hasCtor = false` makes `dflt` dead) but agree -/
example : Agree (fun _ => ⟨false, some 5, none, false, false⟩) (fun _ => plain) ∧
    (fun (_ : CompId) => (⟨false, some 5, none, false, false⟩ : CompInfo)) 0 ≠ plain := by
  refine ⟨⟨fun _ => rfl, fun _ => rfl, fun _ => rfl, fun _ => rfl⟩, fun h => ?_⟩
  cases h

/-- a type with a `create` function writing `d` and a type with no `create` but the default value `d` are the same
    component as far as the world can tell -/
theorem create_vs_default_value (ti : TypeInfo) (d : Nat) :
    convert { ti with create := true, createTok := d } = convert { ti with create := false, defaultValue := some d } := by
  simp [convert]

/-- `callbacks` (afterAssign / beforeRemove) never influences a state or a returned value: descriptions that agree
    on `defaultVal`, `fixed`, `counted` produce the same state and the same outputs on every call sequence -/
theorem callbacks_never_influence_values (I I' : CompId → CompInfo) (h : AgreeV I I') (cap t : Nat) (w : WM)
    (ops : List XOp) :
    (xrun I cap t w ops).1 = (xrun I' cap t w ops).1 ∧ (xrun I cap t w ops).2.1 = (xrun I' cap t w ops).2.1 :=
  xrun_fst h cap t w ops

/-- the catalogue with and without F's callbacks: AgreeV holds, the callback logs do differ -/
def noCb (I : CompId → CompInfo) : CompId → CompInfo := fun c => { I c with callbacks := false }
theorem agreeV_noCb (I : CompId → CompInfo) : AgreeV I (noCb I) :=
  ⟨fun _ => rfl, fun _ => rfl, fun _ => rfl⟩
example : (xrun Mustache.Driver.World.catalogue 16384 0 {} [.getArchetype [5], .createAt 0]).2.2.length = 1 ∧
    (xrun (noCb Mustache.Driver.World.catalogue) 16384 0 {} [.getArchetype [5], .createAt 0]).2.2.length = 0 := by decide

/-- `counted` (the harness's live-instance bookkeeping) is read by exactly one operation - a deferred assign - and
    there it only changes the field `temps` -/
theorem counted_only_temps (I I' : CompId → CompInfo) (h : AgreeC I I') (cap t : Nat) (w : WM) (op : XOp) :
    { (xstep I cap t w op).1 with temps := [] } = { (xstep I' cap t w op).1 with temps := [] } ∧
    (xstep I cap t w op).2 = (xstep I' cap t w op).2 := by
  by_cases hop : ∀ e c s, op ≠ .assign e c s
  · rw [xstep_congr_notAssign h cap t w op hop]
    exact ⟨rfl, rfl⟩
  · cases op with
    | assign e c s =>
      obtain ⟨h1, h2⟩ := assignId_modTemps h w t e c s
      simp only [xstep]
      revert h1 h2
      generalize assignId I w t e c s = a
      generalize assignId I' w t e c s = b
      intro h1 h2
      obtain ⟨a1, a2, a3, a4⟩ := a; obtain ⟨b1, b2, b3, b4⟩ := b
      simp only [Prod.mk.injEq] at h1 h2
      obtain ⟨rfl, rfl, rfl⟩ := h2
      exact ⟨h1, rfl⟩
    | _ => exact absurd (fun _ _ _ h => by cases h) hop

/-- B with and without the harness's instance counting: a deferred assign differs in `temps` only -/
example :
    let I : CompId → CompInfo := fun _ => ⟨true, some 1001, none, false, true⟩
    let I' : CompId → CompInfo := fun _ => ⟨true, some 1001, none, false, false⟩
    let w : WM := ({} : WM).lock
    (xstep I 16384 0 w (.assign h0 1 false)).1.temps = [(1, 1)] ∧ (xstep I' 16384 0 w (.assign h0 1 false)).1.temps = [] ∧
    AgreeC I I' := by
  refine ⟨by decide, by decide, ⟨fun _ => rfl, fun _ => rfl, fun _ => rfl⟩⟩

/-- … and no query reads `temps` -/
theorem temps_invisible (w : WM) (tm : List (CompId × Nat)) (e : Handle) (c : CompId) :
    ({ w with temps := tm }).getComp e c = w.getComp e c ∧ ({ w with temps := tm }).hasComp e c = w.hasComp e c ∧
    ({ w with temps := tm }).isValid e = w.isValid e ∧ ({ w with temps := tm }).archOf e = w.archOf e :=
  ⟨rfl, rfl, rfl, rfl⟩

end Mustache.Props.C18

import Mustache.Proofs.RefineUnlock
import Mustache.Proofs.RefineRun

/-!
# Refinement — every history of the world model behaves like the abstract spec

`Mustache.Model.WM` is the executable model the harness ties to the C++ (`WM.step`), `Mustache.Spec.WS` the
abstract specification (`WS.step`): partial maps ordinal ↦ (component ↦ value) and shared type ↦ value, no id table,
no archetypes, no rows.  `CW` pairs a model state with the list of handles it has issued (the driver's `St`), and the
spec reads every handle through `ordOf` = the driver's `St.ordinal` (latest ordinal of the handle; unique by C01).

* `Rel c s` — the abstraction relation: every issued handle is alive on both sides or on neither, with the same
  component record (`absEnt`) and the same shared components *as a finite map* (`lookupS`; the spec keeps them in
  order of assignment, the model sorted by type id), equal dependency tables / depth / thread count, pointwise
  related buffered commands, and marked sets that agree on what `update` will act on.
* `Inv c` — the invariants of C01 (id table, with ghost), C02 (rows), C12 (pool), the bounded dependency table, plus
  what the buffers and the marked set may mention.  There is NO closedness invariant: an archetype may predate the
  declaration of a dependency of one of its components ("late declaration on a held master"), model and spec agree
  on every such history.
* `Bounds c` — the range side conditions of DESIGN.md 3.2 (fewer than 2^30-1 ids, no version wrapped).
* `OpWf c op` — the contract of the operation (thread id in range; unlocked structural operations on valid
  entities with the components absent; locked operations on handles that were issued; `clearArch` only on
  shared-free archetypes; `dep` declarations whose required components have ids below 128 — late declarations are
  otherwise unrestricted, whatever the existing archetypes hold; builders name a component once).

`step_refines` covers EVERY operation, including the outermost `unlock` (the whole flush: the pack fold of
`WM.applyPack` against the command-by-command `WS.applyCmd`); callbacks agree as multisets, for `unlock` by the
net agreement `cbsAgreeNet` the driver's oracle `spec_line_eq` uses.
-/
namespace Mustache.Props.Refinement
open Mustache.Model Mustache.Spec
open Mustache.Proofs.Refine

variable (info : CompId → CompInfo)

/-- ONE STEP.  From related states, an operation within its contract leads to related states again, keeps the
invariants, returns the same result (`outAgree`: a created handle gets the next ordinal) and fires the same
callbacks (`cbsAgree`: as multisets; for `unlock`: `cbsAgreeNet`). -/
theorem step_refines {c : CW} {s : WS} (hi : Inv c) (hb : Bounds c) (hr : Rel c s) (op : Op Handle)
    (hwf : OpWf c op) (hb' : Bounds (c.step info op).1) :
    Inv (c.step info op).1 ∧
    Rel (c.step info op).1 (s.step info (op.mapRef (ordOf c.issued))).1 ∧
    stepAgree (c.step info op).1 op (c.step info op).2.1 (c.step info op).2.2
      (s.step info (op.mapRef (ordOf c.issued))).2.1 (s.step info (op.mapRef (ordOf c.issued))).2.2 := by
  show StepRefines info c s op
  cases hu : isUnlockOp op with
  | false => exact step_refines_nonunlock info hi hb hr op hwf hb' hu
  | true =>
    cases op <;> simp only [isUnlockOp, Bool.false_eq_true] at hu
    by_cases hd : 2 ≤ c.w.lockDepth
    · exact unlock_inner_refines info hi hr hd
    · exact unlock_outer_refines info hi hr (by omega) hb'

/-- the outermost `unlock` alone: the flush of all buffers (packs of deferred commands, creations included)
refines the spec's command-by-command replay -/
theorem flush_refines {c : CW} {s : WS} (hi : Inv c) (hr : Rel c s) (hd : c.w.lockDepth ≤ 1)
    (hb' : Bounds (c.step info .unlock).1) : StepRefines info c s .unlock :=
  unlock_outer_refines info hi hr hd hb'

/-- HISTORIES, from any related pair of states: a history that keeps the contract and the range conditions at
every step ends in related states, the invariants hold at the end and every observation on the way agreed. -/
theorem run_refines_from (ops : List (Op Handle)) (c : CW) (s : WS) (hi : Inv c) (hb : Bounds c) (hr : Rel c s)
    (hwf : WfRun info c ops) :
    Inv (runBoth info c s ops).1 ∧ Rel (runBoth info c s ops).1 (runBoth info c s ops).2 ∧ AllAgree info c s ops :=
  run_refines_of_steps info (fun _ _ op hi hb hr hwf hb' => step_refines info hi hb hr op hwf hb') ops c s hi hb hr hwf

/-- HISTORIES of a fresh world (`World(wid)` with `nthreads` threads) against the fresh spec -/
theorem run_refines (wid nthreads : Nat) (ops : List (Op Handle)) (hwf : WfRun info (CW.init wid nthreads) ops) :
    Inv (runBoth info (CW.init wid nthreads) (specInit nthreads) ops).1 ∧
    Rel (runBoth info (CW.init wid nthreads) (specInit nthreads) ops).1
      (runBoth info (CW.init wid nthreads) (specInit nthreads) ops).2 ∧
    AllAgree info (CW.init wid nthreads) (specInit nthreads) ops :=
  run_refines_from info ops _ _ (init_inv wid nthreads) (init_bounds wid nthreads) (init_rel wid nthreads) hwf

/-- the executable checker of the relation is sound -/
theorem relB_sound {c : CW} {s : WS} (h : relB c s = true) : Rel c s := Mustache.Proofs.Refine.relB_sound h

/-- the executable checker of the contract is sound -/
theorem opWfB_sound {c : CW} {op : Op Handle} (h : opWfB c op = true) : OpWf c op := Mustache.Proofs.Refine.opWfB_sound h

/-! ## non-vacuity: a concrete 12-operation history -/

/-- `exHistory` (create, assign, lock, deferred create + assign from two threads, unlock, destroyNow, recycled
create, remove, clone) keeps the contract at every step and ends in related states — decided by the checkers -/
example :
    OpWfRun exInfo (CW.init 0 3) exHistory ∧
    Rel (runBoth exInfo (CW.init 0 3) (specInit 3) exHistory).1 (runBoth exInfo (CW.init 0 3) (specInit 3) exHistory).2 :=
  ⟨opWfRun_of_check exInfo exHistory _ (by decide), relB_sound (by decide)⟩

/-- the same history satisfies every hypothesis of `run_refines` (contract and range conditions at every step), so
the theorem applies to it: all twelve results and callback lists agree -/
example : AllAgree exInfo (CW.init 0 3) (specInit 3) exHistory :=
  (run_refines exInfo 0 3 exHistory (wfRun_of_check exInfo exHistory _ (by decide))).2.2

/-- the recycled creation really recycles: the handle issued fourth has the id of the first, version 1 -/
example : (runBoth exInfo (CW.init 0 3) (specInit 3) exHistory).1.issued =
    [⟨0, 0, 0⟩, ⟨1, 0, 0⟩, ⟨2, 0, 0⟩, ⟨0, 1, 0⟩, ⟨3, 0, 0⟩] := by decide

/-- a history with a LATE dependency declaration on a held master (`exLateHistory`: the archetype `[0]` exists when
`0 → 1` is declared) is within the contract, so `run_refines` applies to it: every result agrees, and the final
states are related -/
example : AllAgree exInfo (CW.init 0 1) (specInit 1) exLateHistory :=
  (run_refines exInfo 0 1 exLateHistory (wfRun_of_check exInfo exLateHistory _ (by decide))).2.2

example :
    Rel (runBoth exInfo (CW.init 0 1) (specInit 1) exLateHistory).1 (runBoth exInfo (CW.init 0 1) (specInit 1) exLateHistory).2 :=
  relB_sound (by decide)

/-- … and the late declaration really left an unclosed archetype behind: the archetypes at the end are `[0]` (the one
the entity was created in) and `[0, 1]` (the one `assignShared` moved it to) -/
example : (runBoth exInfo (CW.init 0 1) (specInit 1) exLateHistory).1.w.archs.map (·.mask) = [[0], [0, 1]] := by decide

end Mustache.Props.Refinement

import Mustache.Proofs.RefineUnlock
import Mustache.Proofs.RefineRun
import Mustache.Proofs.RefineCreateIn

/-!
# Refinement — every history of the world model behaves like the abstract spec

`Mustache.Model.WM` is the executable model the harness ties to the C++ (`WM.step`), `Mustache.Spec.WS` the
abstract specification (`WS.step`): partial maps ordinal ↦ (component ↦ value) and shared type ↦ value, no id table,
no archetypes, no rows.  `CW` pairs a model state with the list of handles it has issued (the driver's `St`), and the
spec reads every handle through `ordOf` = the driver's `St.ordinal` (latest ordinal of the handle; unique by C01).

* `Rel c s` — the abstraction relation: every issued handle is alive on both sides or on neither, with the same
  component record (`absEnt`) and the same shared components *as a finite map* (`lookupS`; the spec keeps them in
  order of assignment, the model sorted by type id), equal dependency tables / depth / thread count, pointwise
  related buffered commands, and marked sets that agree on what `update` will act on.
* `Inv c` — the invariants of C01 (id table, with ghost), C02 (rows), C12 (pool), the bounded dependency table, plus
  what the buffers and the marked set may mention.  There is NO closedness invariant: an archetype may predate the
  declaration of a dependency of one of its components ("late declaration on a held master"), model and spec agree
  on every such history.
* `Bounds c` — the range side conditions of DESIGN.md 3.2 (fewer than 2^30-1 ids, no version wrapped).
* `OpWf c op` — the contract of the operation (thread id in range; unlocked structural operations on valid
  entities with the components absent; locked operations on handles that were issued; `clearArch` only on
  shared-free archetypes; `dep` declarations whose required components have ids below 128 — late declarations are
  otherwise unrestricted, whatever the existing archetypes hold; builders name a component once).

`createIn_refines` covers the one creating entry point outside `Op`, `create(Archetype&)` (`WM.createIn`).

`step_refines` covers EVERY operation, including the outermost `unlock` (the whole flush: the pack fold of
`WM.applyPack` against the command-by-command `WS.applyCmd`); callbacks agree as multisets, for `unlock` by the
net agreement `cbsAgreeNet` the driver's oracle `spec_line_eq` uses.
-/
namespace Mustache.Props.Refinement
open Mustache.Model Mustache.Spec
open Mustache.Proofs.Refine

variable (info : CompId → CompInfo)

/-- ONE STEP.  From related states, an operation within its contract leads to related states again, keeps the
invariants, returns the same result (`outAgree`: a created handle gets the next ordinal) and fires the same
callbacks (`cbsAgree`: as multisets; for `unlock`: `cbsAgreeNet`). -/
theorem step_refines {c : CW} {s : WS} (hi : Inv c) (hb : Bounds c) (hr : Rel c s) (op : Op Handle)
    (hwf : OpWf c op) (hb' : Bounds (c.step info op).1) :
    Inv (c.step info op).1 ∧
    Rel (c.step info op).1 (s.step info (op.mapRef (ordOf c.issued))).1 ∧
    stepAgree (c.step info op).1 op (c.step info op).2.1 (c.step info op).2.2
      (s.step info (op.mapRef (ordOf c.issued))).2.1 (s.step info (op.mapRef (ordOf c.issued))).2.2 := by
  show StepRefines info c s op
  cases hu : isUnlockOp op with
  | false => exact step_refines_nonunlock info hi hb hr op hwf hb' hu
  | true =>
    cases op <;> simp only [isUnlockOp, Bool.false_eq_true] at hu
    by_cases hd : 2 ≤ c.w.lockDepth
    · exact unlock_inner_refines info hi hr hd
    · exact unlock_outer_refines info hi hr (by omega) hb'

/-- the outermost `unlock` alone: the flush of all buffers (packs of deferred commands, creations included)
refines the spec's command-by-command replay -/
theorem flush_refines {c : CW} {s : WS} (hi : Inv c) (hr : Rel c s) (hd : c.w.lockDepth ≤ 1)
    (hb' : Bounds (c.step info .unlock).1) : StepRefines info c s .unlock :=
  unlock_outer_refines info hi hr hd hb'

/-- HISTORIES, from any related pair of states: a history that keeps the contract and the range conditions at
every step ends in related states, the invariants hold at the end and every observation on the way agreed. -/
theorem run_refines_from (ops : List (Op Handle)) (c : CW) (s : WS) (hi : Inv c) (hb : Bounds c) (hr : Rel c s)
    (hwf : WfRun info c ops) :
    Inv (runBoth info c s ops).1 ∧ Rel (runBoth info c s ops).1 (runBoth info c s ops).2 ∧ AllAgree info c s ops :=
  run_refines_of_steps info (fun _ _ op hi hb hr hwf hb' => step_refines info hi hb hr op hwf hb') ops c s hi hb hr hwf

/-- HISTORIES of a fresh world (`World(wid)` with `nthreads` threads) against the fresh spec -/
theorem run_refines (wid nthreads : Nat) (ops : List (Op Handle)) (hwf : WfRun info (CW.init wid nthreads) ops) :
    Inv (runBoth info (CW.init wid nthreads) (specInit nthreads) ops).1 ∧
    Rel (runBoth info (CW.init wid nthreads) (specInit nthreads) ops).1
      (runBoth info (CW.init wid nthreads) (specInit nthreads) ops).2 ∧
    AllAgree info (CW.init wid nthreads) (specInit nthreads) ops :=
  run_refines_from info ops _ _ (init_inv wid nthreads) (init_bounds wid nthreads) (init_rel wid nthreads) hwf

/-! ## every reachable state (every prefix of a history), and what C02 left open -/

theorem wfRun_take : ∀ (k : Nat) (ops : List (Op Handle)) (c : CW), WfRun info c ops → WfRun info c (ops.take k)
  | 0, _, _, _ => by simp only [List.take_zero]; trivial
  | _ + 1, [], _, _ => by simp only [List.take_nil]; trivial
  | k + 1, op :: rest, c, h => by
    simp only [List.take_succ_cons]
    exact ⟨h.1, h.2.1, wfRun_take k rest _ h.2.2⟩

/-- EVERY REACHABLE STATE: after any prefix of a history that keeps the contract, the invariants hold and the model
state is related to the spec state reached by the same prefix -/
theorem inv_rel_every_prefix (wid nthreads : Nat) (ops : List (Op Handle)) (hwf : WfRun info (CW.init wid nthreads) ops)
    (k : Nat) :
    Inv (runBoth info (CW.init wid nthreads) (specInit nthreads) (ops.take k)).1 ∧
    Rel (runBoth info (CW.init wid nthreads) (specInit nthreads) (ops.take k)).1
      (runBoth info (CW.init wid nthreads) (specInit nthreads) (ops.take k)).2 :=
  let h := run_refines info wid nthreads (ops.take k) (wfRun_take info k ops _ hwf)
  ⟨h.1, h.2.1⟩

/-- C02, the part `Props/C02.liveInv_flush_statement` / `liveInv_clear_update_statement` leave open, for every state a
history within the contract reaches — flushes, `clearArch` and `update` included: every valid handle sits in exactly
the row its location names (`LiveInv`), rows and location table are mutually consistent (`RowsOK`) and archetype
keys are unique (`KeysOK`) -/
theorem rows_live_every_prefix (wid nthreads : Nat) (ops : List (Op Handle))
    (hwf : WfRun info (CW.init wid nthreads) ops) (k : Nat) :
    Mustache.Proofs.Rows.LiveInv (runBoth info (CW.init wid nthreads) (specInit nthreads) (ops.take k)).1.w ∧
    Mustache.Proofs.Rows.RowsOK (runBoth info (CW.init wid nthreads) (specInit nthreads) (ops.take k)).1.w ∧
    Mustache.Proofs.Rows.KeysOK (runBoth info (CW.init wid nthreads) (specInit nthreads) (ops.take k)).1.w :=
  let h := (inv_rel_every_prefix info wid nthreads ops hwf k).1
  ⟨h.live, h.rows, h.keys⟩

/-- the API-level form of C01 from the refinement: in related states every issued handle is valid in the model exactly
when the entity of its ordinal is alive in the spec -/
theorem valid_iff_spec_alive {c : CW} {s : WS} (hi : Inv c) (hr : Rel c s) (o : Nat) (h : Handle)
    (ho : c.issued[o]? = some h) : (s.alive o).isSome = c.w.isValid h := by
  have h1 := hr.ents o h ho
  have h2 := absEnt_isSome_iff hi.live hi.rows h
  rw [← h2]
  cases ha : s.alive o <;> cases hb : absEnt c.w h <;> simp_all [optRel]

/-- … and therefore at EVERY reachable state of a history within the contract: "a handle is valid exactly while the
entity it was issued for is alive", with "alive" read off the abstract spec (no id table, no versions) -/
theorem valid_iff_spec_alive_every_prefix (wid nthreads : Nat) (ops : List (Op Handle))
    (hwf : WfRun info (CW.init wid nthreads) ops) (k o : Nat) (h : Handle)
    (ho : (runBoth info (CW.init wid nthreads) (specInit nthreads) (ops.take k)).1.issued[o]? = some h) :
    ((runBoth info (CW.init wid nthreads) (specInit nthreads) (ops.take k)).2.alive o).isSome =
      (runBoth info (CW.init wid nthreads) (specInit nthreads) (ops.take k)).1.w.isValid h :=
  let hp := inv_rel_every_prefix info wid nthreads ops hwf k
  valid_iff_spec_alive hp.1 hp.2 o h ho

/-- `LiveInv` through the outermost `unlock` (the flush of every buffered pack), from any state that satisfies the
invariants and is related to some spec state -/
theorem liveInv_through_flush {c : CW} {s : WS} (hi : Inv c) (hr : Rel c s) (hd : c.w.lockDepth ≤ 1)
    (hb' : Bounds (c.step info .unlock).1) : Mustache.Proofs.Rows.LiveInv (c.step info .unlock).1.w :=
  (flush_refines info hi hr hd hb').1.live

/-- `LiveInv` through `clearArch` and `update` under their contract -/
theorem liveInv_through_clear_update {c : CW} {s : WS} (hi : Inv c) (hb : Bounds c) (hr : Rel c s) (op : Op Handle)
    (hwf : OpWf c op) (hb' : Bounds (c.step info op).1) : Mustache.Proofs.Rows.LiveInv (c.step info op).1.w :=
  (step_refines info hi hb hr op hwf hb').1.live

/-! ## `create(Archetype&)` -/

/-- `create(Archetype&)` is `create(mask, shared)` with the archetype's own key wherever archetype keys are unique
(with no dependency declared the entity goes into the archetype itself, otherwise where a lookup of its set leads) -/
theorem createIn_eq_create {w : WM} (hk : Mustache.Proofs.Rows.KeysOK w) (t ai : Nat) (hai : ai < w.archs.length) :
    w.createIn info t ai = w.create info t (w.arch ai).mask (w.arch ai).shared :=
  Mustache.Proofs.Refine.createIn_eq_create info hk t ai hai

/-- the spec step `specCreateWith` it is compared with IS the spec's `.create` step, with shared values in place of
"every value 0" -/
theorem step_create_eq_specCreateWith (s : WS) (t : Nat) (mask : Mask) (shared : List Nat) :
    s.step info (.create t mask shared) = specCreateWith info s t mask (shared.map (fun sid => (sid, 0))) := rfl

/-- ONE CALL of `create(Archetype&)` (`CW.createIn`: `WM.createIn`, the handle gets the next ordinal), from related
states, any archetype index in range, locked or not, whatever was declared after the archetype came to exist: the
conclusion of `step_refines` for `.create`, against the spec creation with the archetype's component set and the
values of its shared components. Nothing is assumed beyond `Inv`/`Bounds`/`Rel` and the ranges (sortedness of the
mask and pooledness of the descriptor are part of `Inv`). -/
theorem createIn_refines {c : CW} {s : WS} (hi : Inv c) (hb : Bounds c) (hr : Rel c s) (t ai : Nat)
    (ht : t < c.w.nthreads) (hai : ai < c.w.archs.length) (hb' : Bounds (c.createIn info t ai).1) :
    Inv (c.createIn info t ai).1 ∧
    Rel (c.createIn info t ai).1
      (specCreateWith info s t (c.w.arch ai).mask (absShared c.w.pool (c.w.arch ai).shared)).1 ∧
    stepAgree (c.createIn info t ai).1 (.create t (c.w.arch ai).mask []) (c.createIn info t ai).2.1
      (c.createIn info t ai).2.2
      (specCreateWith info s t (c.w.arch ai).mask (absShared c.w.pool (c.w.arch ai).shared)).2.1
      (specCreateWith info s t (c.w.arch ai).mask (absShared c.w.pool (c.w.arch ai).shared)).2.2 :=
  Mustache.Proofs.Refine.createIn_refines info hi hb hr t ai ht hai hb'

/-- the same with any list of shared values that reads like the archetype's descriptor (e.g. in another order) -/
theorem createIn_refines_gen {c : CW} {s : WS} (hi : Inv c) (hb : Bounds c) (hr : Rel c s) (t ai : Nat)
    (ht : t < c.w.nthreads) (hai : ai < c.w.archs.length) (ssh : List (Nat × Nat))
    (hv : ∀ sid, lookupS ssh sid = lookupS (absShared c.w.pool (c.w.arch ai).shared) sid)
    (hb' : Bounds (c.createIn info t ai).1) :
    Inv (c.createIn info t ai).1 ∧
    Rel (c.createIn info t ai).1 (specCreateWith info s t (c.w.arch ai).mask ssh).1 ∧
    stepAgree (c.createIn info t ai).1 (.create t (c.w.arch ai).mask []) (c.createIn info t ai).2.1
      (c.createIn info t ai).2.2 (specCreateWith info s t (c.w.arch ai).mask ssh).2.1
      (specCreateWith info s t (c.w.arch ai).mask ssh).2.2 :=
  Mustache.Proofs.Refine.createIn_refines_gen info hi hb hr t ai ht hai ssh hv hb'

/-- a shared-free archetype: the spec step is literally the operation `.create t mask []` -/
theorem createIn_refines_sharedfree {c : CW} {s : WS} (hi : Inv c) (hb : Bounds c) (hr : Rel c s) (t ai : Nat)
    (ht : t < c.w.nthreads) (hai : ai < c.w.archs.length) (hsf : (c.w.arch ai).shared = Shared.null)
    (hb' : Bounds (c.createIn info t ai).1) :
    Inv (c.createIn info t ai).1 ∧
    Rel (c.createIn info t ai).1 (s.step info (.create t (c.w.arch ai).mask [])).1 ∧
    stepAgree (c.createIn info t ai).1 (.create t (c.w.arch ai).mask []) (c.createIn info t ai).2.1
      (c.createIn info t ai).2.2 (s.step info (.create t (c.w.arch ai).mask [])).2.1
      (s.step info (.create t (c.w.arch ai).mask [])).2.2 :=
  Mustache.Proofs.Refine.createIn_refines_sharedfree info hi hb hr t ai ht hai hsf hb'

/-- the executable checker of the relation is sound -/
theorem relB_sound {c : CW} {s : WS} (h : relB c s = true) : Rel c s := Mustache.Proofs.Refine.relB_sound h

/-- the executable checker of the contract is sound -/
theorem opWfB_sound {c : CW} {op : Op Handle} (h : opWfB c op = true) : OpWf c op := Mustache.Proofs.Refine.opWfB_sound h

/-! ## non-vacuity: a concrete 12-operation history -/

/-- `exHistory` (create, assign, lock, deferred create + assign from two threads, unlock, destroyNow, recycled
create, remove, clone) keeps the contract at every step and ends in related states — decided by the checkers -/
example :
    OpWfRun exInfo (CW.init 0 3) exHistory ∧
    Rel (runBoth exInfo (CW.init 0 3) (specInit 3) exHistory).1 (runBoth exInfo (CW.init 0 3) (specInit 3) exHistory).2 :=
  ⟨opWfRun_of_check exInfo exHistory _ (by decide), relB_sound (by decide)⟩

/-- the same history satisfies every hypothesis of `run_refines` (contract and range conditions at every step), so
the theorem applies to it: all twelve results and callback lists agree -/
example : AllAgree exInfo (CW.init 0 3) (specInit 3) exHistory :=
  (run_refines exInfo 0 3 exHistory (wfRun_of_check exInfo exHistory _ (by decide))).2.2

/-- non-vacuity of `rows_live_every_prefix`: it applies to `exHistory`, e.g. at the state in the middle of the locked
section (after 5 operations, with buffered creations) and right after the flush (after 8) — and those states are not
trivial: three live entities after the flush -/
example :
    Mustache.Proofs.Rows.LiveInv (runBoth exInfo (CW.init 0 3) (specInit 3) (exHistory.take 5)).1.w ∧
    Mustache.Proofs.Rows.LiveInv (runBoth exInfo (CW.init 0 3) (specInit 3) (exHistory.take 8)).1.w :=
  ⟨(rows_live_every_prefix exInfo 0 3 exHistory (wfRun_of_check exInfo exHistory _ (by decide)) 5).1,
   (rows_live_every_prefix exInfo 0 3 exHistory (wfRun_of_check exInfo exHistory _ (by decide)) 8).1⟩

example : (runBoth exInfo (CW.init 0 3) (specInit 3) (exHistory.take 5)).1.w.lockDepth = 1 ∧
    ((runBoth exInfo (CW.init 0 3) (specInit 3) (exHistory.take 8)).1.issued.filter
      (runBoth exInfo (CW.init 0 3) (specInit 3) (exHistory.take 8)).1.w.isValid).length = 3 := by decide

/-- non-vacuity of `valid_iff_spec_alive`: at the end of `exHistory` the first handle (id 0, version 0) is dead on both
sides while the handle that recycled its id (id 0, version 1, ordinal 3) is alive on both sides -/
example :
    (runBoth exInfo (CW.init 0 3) (specInit 3) exHistory).1.w.isValid ⟨0, 0, 0⟩ = false ∧
    (runBoth exInfo (CW.init 0 3) (specInit 3) exHistory).1.w.isValid ⟨0, 1, 0⟩ = true ∧
    ((runBoth exInfo (CW.init 0 3) (specInit 3) exHistory).2.alive 0).isSome = false ∧
    ((runBoth exInfo (CW.init 0 3) (specInit 3) exHistory).2.alive 3).isSome = true := by decide

/-- the recycled creation really recycles: the handle issued fourth has the id of the first, version 1 -/
example : (runBoth exInfo (CW.init 0 3) (specInit 3) exHistory).1.issued =
    [⟨0, 0, 0⟩, ⟨1, 0, 0⟩, ⟨2, 0, 0⟩, ⟨0, 1, 0⟩, ⟨3, 0, 0⟩] := by decide

/-- a history with a LATE dependency declaration on a held master (`exLateHistory`: the archetype `[0]` exists when
`0 → 1` is declared) is within the contract, so `run_refines` applies to it: every result agrees, and the final
states are related -/
example : AllAgree exInfo (CW.init 0 1) (specInit 1) exLateHistory :=
  (run_refines exInfo 0 1 exLateHistory (wfRun_of_check exInfo exLateHistory _ (by decide))).2.2

example :
    Rel (runBoth exInfo (CW.init 0 1) (specInit 1) exLateHistory).1 (runBoth exInfo (CW.init 0 1) (specInit 1) exLateHistory).2 :=
  relB_sound (by decide)

/-- … and the late declaration really left an unclosed archetype behind: the archetypes at the end are `[0]` (the one
the entity was created in) and `[0, 1]` (the one `assignShared` moved it to) -/
example : (runBoth exInfo (CW.init 0 1) (specInit 1) exLateHistory).1.w.archs.map (·.mask) = [[0], [0, 1]] := by decide

/-! ## `create(Archetype&)` on a concrete world -/

/-- entity 0 created in `[0]`, then `0 → 1` declared, then shared type 7 assigned with value 3: archetype 0 = `[0]`
(empty now, NOT closed under the table), archetype 1 = `[0, 1]` with shared 7 = 3 (holds entity 0) -/
def exCin : CW × WS :=
  runBoth exInfo (CW.init 0 1) (specInit 1) [.create 0 [0] [], .dep 0 [1], .sassign (exH 0 0) 7 3]

example : exCin.1.w.archs.map (fun a => (a.mask, a.shared.ids, a.rows.length)) = [([0], [], 0), ([0, 1], [7], 1)] ∧
    absShared exCin.1.w.pool (exCin.1.w.arch 1).shared = [(7, 3)] ∧ (exCin.1.w.arch 0).shared = Shared.null := by decide

/-- the hypotheses of `createIn_refines` hold there (by `run_refines` and the checkers) -/
theorem exCin_hyps : Inv exCin.1 ∧ Bounds exCin.1 ∧ Rel exCin.1 exCin.2 :=
  have h := run_refines exInfo 0 1 [.create 0 [0] [], .dep 0 [1], .sassign (exH 0 0) 7 3]
    (wfRun_of_check exInfo _ _ (by decide))
  ⟨h.1, boundsB_sound (by decide), h.2.1⟩

/-- `create(archetype 1)`: the spec creates `[0, 1]` with shared 7 = 3 (a value `.create` cannot express) -/
example : Rel (exCin.1.createIn exInfo 0 1).1 (specCreateWith exInfo exCin.2 0 [0, 1] [(7, 3)]).1 :=
  (createIn_refines exInfo exCin_hyps.1 exCin_hyps.2.1 exCin_hyps.2.2 0 1 (by decide) (by decide)
    (boundsB_sound (by decide))).2.1

/-- `create(archetype 0)`, the unclosed one: the entity goes to a NEW archetype `[0, 1]` without shared components,
as the spec's `.create 0 [0] []` says (closure of `[0]` under the table) -/
example : Rel (exCin.1.createIn exInfo 0 0).1 (exCin.2.step exInfo (.create 0 [0] [])).1 :=
  (createIn_refines_sharedfree exInfo exCin_hyps.1 exCin_hyps.2.1 exCin_hyps.2.2 0 0 (by decide) (by decide)
    (by decide) (boundsB_sound (by decide))).2.1

example : (exCin.1.createIn exInfo 0 0).1.w.archs.map (fun a => (a.mask, a.shared.ids, a.rows.length)) =
    [([0], [], 0), ([0, 1], [7], 1), ([0, 1], [], 1)] ∧
    (exCin.1.createIn exInfo 0 1).1.w.archs.map (fun a => (a.mask, a.shared.ids, a.rows.length)) =
    [([0], [], 0), ([0, 1], [7], 2)] := by decide

/-- independently, by the executable checker of the relation -/
example : relB (exCin.1.createIn exInfo 0 1).1 (specCreateWith exInfo exCin.2 0 [0, 1] [(7, 3)]).1 = true ∧
    relB (exCin.1.createIn exInfo 0 0).1 (exCin.2.step exInfo (.create 0 [0] [])).1 = true := by decide

/-- under lock `create(archetype 1)` is buffered; `Inv`/`Rel` hold after it, so `run_refines_from` carries on from
there: the flush and two reads agree with the spec -/
example :
    let c := ((exCin.1.step exInfo .lock).1.createIn exInfo 0 1).1
    let s := (specCreateWith exInfo (exCin.2.step exInfo .lock).1 0 [0, 1] [(7, 3)]).1
    AllAgree exInfo c s [.unlock, .has (exH 1 0) 1, .hasShared (exH 1 0) 7] := by
  intro c s
  have h0 := step_refines exInfo exCin_hyps.1 exCin_hyps.2.1 exCin_hyps.2.2 .lock trivial (boundsB_sound (by decide))
  have h1 := createIn_refines exInfo h0.1 (boundsB_sound (by decide)) h0.2.1 0 1 (by decide) (by decide)
    (boundsB_sound (by decide))
  exact (run_refines_from exInfo _ c s h1.1 (boundsB_sound (by decide)) h1.2.1
    (wfRun_of_check exInfo _ _ (by decide))).2.2

end Mustache.Props.Refinement

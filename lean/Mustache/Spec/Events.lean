import Mustache.Model.Events
/-!
# Specification of event delivery (property C15)

No ids, no slot tables, no weak pointers: the whole state is, for every (manager, event type),
the list of receivers currently subscribed — in subscription order — plus the counters that
name new managers / receivers and the static event type of each receiver.

* `subscribe m r` appends `r` to `subs (m, type of r)`;
* `unsubscribe r` / `dropReceiver r` remove `r` everywhere;
* `unsubscribeAt m r` (`EventManager::unsubscribe` called on manager `m`) removes `r` from `m` only;
* `dropManager m` forgets every subscription of `m`;
* `post m T` invokes `subs (m, T)`, in that order — and nobody else.
-/
namespace Mustache.Spec.Events
open Mustache.Model.Events (TypeName Rcv MgrId Op Out)

structure State where
  nMgr : Nat
  nRcv : Nat
  rty : Rcv → TypeName
  subs : MgrId → TypeName → List Rcv

def State.init : State := ⟨0, 0, fun _ => 0, fun _ _ => []⟩

def addSub (subs : MgrId → TypeName → List Rcv) (m : MgrId) (T : TypeName) (r : Rcv) :
    MgrId → TypeName → List Rcv :=
  fun m' T' => if m' = m ∧ T' = T then subs m' T' ++ [r] else subs m' T'

def step (s : State) : Op → State × Out
  | .newManager => ({ s with nMgr := s.nMgr + 1 }, .mgr s.nMgr)
  | .dropManager m => ({ s with subs := fun m' T => if m' = m then [] else s.subs m' T }, .ok)
  | .newReceiver T =>
    ({ s with nRcv := s.nRcv + 1, rty := fun r => if r = s.nRcv then T else s.rty r }, .rcv s.nRcv)
  | .subscribeFn m T =>
    ({ s with nRcv := s.nRcv + 1, rty := fun r => if r = s.nRcv then T else s.rty r,
              subs := addSub s.subs m T s.nRcv }, .rcv s.nRcv)
  | .subscribe m r => ({ s with subs := addSub s.subs m (s.rty r) r }, .ok)
  | .unsubscribe r => ({ s with subs := fun m T => (s.subs m T).filter (· != r) }, .ok)
  | .unsubscribeAt m r =>
    ({ s with subs := fun m' T => if m' = m ∧ T = s.rty r then (s.subs m' T).filter (· != r) else s.subs m' T }, .ok)
  | .dropReceiver r => ({ s with subs := fun m T => (s.subs m T).filter (· != r) }, .ok)
  | .post m T => (s, .delivered (s.subs m T))

def runFrom (s : State) : List Op → State × List Out
  | [] => (s, [])
  | op :: t => ((runFrom (step s op).1 t).1, (step s op).2 :: (runFrom (step s op).1 t).2)

def run (h : List Op) : State × List Out := runFrom State.init h

/-- the receivers subscribed to `(m, T)` after the history `h` -/
def subsAfter (h : List Op) (m : MgrId) (T : TypeName) : List Rcv := (run h).1.subs m T

end Mustache.Spec.Events

/-!
# Specification for C14 — system ordering and system lifecycle

What `SystemManager` owes its user, independent of how `reorderSystems` computes it:

* `ValidOrder ns o`: `o` is an admissible update order of the present systems `ns`
  (a permutation; every declared update-after / update-before constraint between present
  systems holds; at every position the chosen system has the maximal (group priority, priority)
  among the systems whose constraints are already satisfied).  `validOrderB` decides it.
* `ValidUpdate ns act us`: the sequence `us` of systems that received `onUpdate` during one manager
  update is `o.filter act` for some admissible order `o` (`act` = the systems that are active).
  `validUpdateB` searches the admissible orders and re-checks what it finds with `validOrderB`.
* `Cyclic ns`: the constraint relation restricted to the present systems has a cycle.
* `legalTrace`: acceptor of the documented callback graph of `ASystem` (system.hpp:36-58).

`std::sort` is not stable, therefore the specification is a predicate on orders and not one order.
-/
namespace Mustache.Systems

abbrev Name := Nat

/-- A present system as the ordering sees it: identity of the object, its name, the constraints it
declared in `onConfigure`, the priority of its group at the time of ordering, its own priority. -/
structure Node where
  id : Nat
  name : Name
  before : List Name
  after : List Name
  gprio : Int
  prio : Int
deriving DecidableEq, Repr

/-- `b` has to be updated before `a`: `a` declared update-after `b` or `b` declared update-before `a`. -/
def mustPrecede (b a : Node) : Bool :=
  a.after.contains b.name || b.before.contains a.name

/-- (group priority, priority) of `m` is at most that of `c`. -/
def keyLe (m c : Node) : Bool :=
  decide (m.gprio < c.gprio) || (decide (m.gprio = c.gprio) && decide (m.prio ≤ c.prio))

/-- Every constraint between present systems holds in `o`. -/
def Respects (ns o : List Node) : Prop :=
  ∀ pre a post, o = pre ++ a :: post → ∀ b ∈ ns, mustPrecede b a = true → b ∈ pre

/-- `m` is present, not yet placed, and everything present that must precede it is placed. -/
def Available (ns pre : List Node) (m : Node) : Prop :=
  m ∈ ns ∧ m ∉ pre ∧ ∀ b ∈ ns, mustPrecede b m = true → b ∈ pre

/-- At every position the chosen system is maximal among the available ones. -/
def PriorityGreedy (ns o : List Node) : Prop :=
  ∀ pre c post, o = pre ++ c :: post → ∀ m, Available ns pre m → keyLe m c = true

structure ValidOrder (ns o : List Node) : Prop where
  perm : o.Perm ns
  respects : Respects ns o
  priority : PriorityGreedy ns o

/-! ### decision procedure for `ValidOrder` -/

def depsPlacedB (ns pre : List Node) (m : Node) : Bool :=
  ns.all fun b => !mustPrecede b m || pre.contains b

def availableB (ns pre : List Node) (m : Node) : Bool :=
  ns.contains m && !pre.contains m && depsPlacedB ns pre m

def validFromB (ns : List Node) : List Node → List Node → Bool
  | _, [] => true
  | pre, c :: rest =>
      depsPlacedB ns pre c
      && ns.all (fun m => !availableB ns pre m || keyLe m c)
      && validFromB ns (pre ++ [c]) rest

def validOrderB (ns o : List Node) : Bool :=
  o.isPerm ns && validFromB ns [] o

/-! ### one manager update -/

/-- The systems updated by one manager update, in sequence, are the active ones of an admissible order. -/
def ValidUpdate (ns : List Node) (act : Node → Bool) (us : List Node) : Prop :=
  ∃ o, ValidOrder ns o ∧ o.filter act = us

/-- Search for such an order: extend the placed prefix `pre` by any maximal available system; an active
one has to be the next element of `us`, an inactive one is skipped. `fuel` = number of systems still to
place. Returns the completion of `pre`. -/
def searchOrder (ns : List Node) (act : Node → Bool) : Nat → List Node → List Node → Option (List Node)
  | 0, _, us => if us.isEmpty then some [] else none
  | fuel + 1, pre, us =>
      ns.findSome? fun c =>
        if availableB ns pre c && ns.all (fun m => !availableB ns pre m || keyLe m c) then
          if act c then
            match us with
            | [] => none
            | u :: us' =>
              if u == c then (searchOrder ns act fuel (pre ++ [c]) us').map (c :: ·) else none
          else (searchOrder ns act fuel (pre ++ [c]) us).map (c :: ·)
        else none

/-- decides `ValidUpdate` from below: the order found by the search is re-checked by `validOrderB` -/
def validUpdateB (ns : List Node) (act : Node → Bool) (us : List Node) : Bool :=
  match searchOrder ns act ns.length [] us with
  | some o => validOrderB ns o && (o.filter act == us)
  | none => false

/-! ### cycles -/

/-- A non-empty path `a → … → b` of `r` through elements of `R`. -/
inductive RPath {α : Type} (r : α → α → Prop) (R : List α) : α → α → Prop
  | single {a b : α} : a ∈ R → b ∈ R → r a b → RPath r R a b
  | cons {a b c : α} : a ∈ R → r a b → RPath r R b c → RPath r R a c

/-- The constraint relation restricted to the present systems has a cycle. -/
def Cyclic (ns : List Node) : Prop :=
  ∃ a, RPath (fun b a => mustPrecede b a = true) ns a a

/-! ### lifecycle -/

/-- The callbacks of `ASystem`. -/
inductive Cb
  | create | configure | start | update | pause | stop | resume | destroy
deriving DecidableEq, Repr

/-- Documented life cycle (system.hpp:36-58): which callback may follow which. `none` = nothing
called yet (after the constructor). Nothing may follow `onDestroy`. -/
def allowedNext : Option Cb → Cb → Bool
  | none, .create => true
  | some .create, .configure => true
  | some .create, .destroy => true
  | some .configure, .start => true
  | some .configure, .destroy => true
  | some .start, .update => true
  | some .start, .pause => true
  | some .update, .update => true
  | some .update, .pause => true
  | some .pause, .resume => true
  | some .pause, .stop => true
  | some .resume, .update => true
  | some .resume, .pause => true
  | some .stop, .start => true
  | some .stop, .destroy => true
  | _, _ => false

def legalFrom : Option Cb → List Cb → Bool
  | _, [] => true
  | l, c :: cs => allowedNext l c && legalFrom (some c) cs

/-- A system's complete callback trace is a path of the documented graph starting at `onCreate`. -/
def legalTrace (cs : List Cb) : Bool := legalFrom none cs

/-- Last callback of a trace that started after `l`. -/
def lastCb : Option Cb → List Cb → Option Cb
  | l, [] => l
  | _, c :: cs => lastCb (some c) cs

end Mustache.Systems

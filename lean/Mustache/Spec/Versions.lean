import Mustache.Model.Versions
/-!
# Vocabulary of the C11 statements (over `Model/Versions.lean`)

What "version-filtered job" and "no intervening write to its checked components" mean in
`Props/C11.lean`.
-/
namespace Mustache.Versions

/-- the static part of a job -/
def specOf (J : Job) : JobSpec := ⟨J.req, J.check, J.upd, J.afDeny, J.cfSkip⟩

/-- a job that really filters by version: it checks something, and only components it requires -/
def VersionFiltered (sp : JobSpec) : Prop := sp.check ≠ [] ∧ ∀ c ∈ sp.check, c ∈ sp.req

/-- operations that do not write a component checked by job `j` (whose masks are `specs[j]`):
`update`, const access, configuration, mutable access / markDirty of an unchecked component, runs of `j`
itself and of jobs whose update mask is disjoint from `j`'s check mask. Structural changes interfere. -/
def nonInterfering (specs : List JobSpec) (j : Nat) : Op → Bool
  | .update => true
  | .getConst _ _ => true
  | .setDefault _ => true
  | .addFn _ _ _ => true
  | .addDep _ _ => true
  | .getMut _ c | .markDirty _ c =>
    match specs[j]? with
    | some sp => !sp.check.contains c
    | none => true
  | .run k =>
    k == j ||
      (match specs[k]?, specs[j]? with
       | some spk, some spj => !overlaps spk.upd spj.check
       | _, _ => true)
  | _ => false

end Mustache.Versions

import Mustache.Model.World
/-! # World spec (WS): what the properties C01/C02/C05/C09/C12/C13 say, executably

Entities are named by creation ordinal. An entity is a finite map component ↦ token plus a finite map
shared type ↦ value; a deferred command means what the unlocked operation means and is skipped when its
target is not alive at the point where it is applied; buffers are applied in thread order at the outermost
unlock. No id table, no archetypes, no rows: this is the oracle the implementation is compared against. -/
namespace Mustache.Spec
open Mustache.Model

structure SEnt where
  comps : List (CompId × Val)      -- sorted by component id
  shared : List (Nat × Nat)        -- shared type ↦ value
deriving Repr, Inhabited

inductive SCmd where
  | create (o : Nat) (mask : Mask) (shared : List (Nat × Nat))
  | destroyNow (o : Option Nat)
  | destroy (o : Option Nat)
  | remove (o : Option Nat) (c : CompId)
  | assign (o : Option Nat) (c : CompId) (v : Val)
deriving Repr, Inhabited

/-- callback events a step must produce: (isAssign, component, ordinal) -/
abbrev SCb := Bool × CompId × Nat

structure WS where
  ents : List (Option SEnt) := []       -- index = ordinal; `none` = not alive
  deps : List (CompId × Mask) := []
  lockDepth : Nat := 0
  nthreads : Nat := 1
  buffers : List (List SCmd) := []
  marked : List Nat := []
deriving Inhabited

variable (info : CompId → CompInfo)

def WS.alive (s : WS) (o : Nat) : Option SEnt := (s.ents.getD o none)
def WS.isAlive (s : WS) (o : Option Nat) : Bool :=
  match o with
  | some k => (s.alive k).isSome
  | none => false

def compSet (e : SEnt) : Mask := e.comps.map (·.1)

def closed (deps : List (CompId × Mask)) (m : Mask) : Mask := Mask.union m (extraComponents deps m)

/-- rebuild the component map for a new component set: kept components keep their value, new ones get
    `given` if supplied, else their default -/
def rebuild (old : List (CompId × Val)) (newSet : Mask) (given : List (CompId × Val)) : List (CompId × Val) :=
  newSet.map (fun c =>
    match old.find? (·.1 == c) with
    | some p => p
    | none => match given.find? (·.1 == c) with
      | some p => p
      | none => (c, defaultVal info c))

def cbDiff (o : Nat) (before after : Mask) : List SCb :=
  ((after.filter (fun c => (info c).callbacks && !before.contains c)).map (fun c => (true, c, o))) ++
  ((before.filter (fun c => (info c).callbacks && !after.contains c)).map (fun c => (false, c, o)))

def WS.setEnt (s : WS) (o : Nat) (e : Option SEnt) : WS := { s with ents := s.ents.set o e }

def storedVal (c : CompId) (v : Option Nat) : Val :=
  match (info c).fixed with
  | some f => some f
  | none => match v with
    | some t => some t
    | none => defaultVal info c

/-- sequential meaning of the structural operations on an alive entity -/
def WS.doAssign (s : WS) (o : Nat) (c : CompId) (v : Val) : WS × List SCb :=
  match s.alive o with
  | none => (s, [])
  | some e =>
    let before := compSet e
    if before.contains c then
      -- re-assignment of a present component (only reachable inside one deferred pack after a removal
      -- of the same component was folded away by a dependency): the value is replaced
      (s.setEnt o (some { e with comps := e.comps.map (fun p => if p.1 == c then (c, v) else p) }),
       if (info c).callbacks then [(false, c, o), (true, c, o)] else [])
    else
      let after := closed s.deps (Mask.insert before c)
      (s.setEnt o (some { e with comps := rebuild info e.comps after [(c, v)] }), cbDiff info o before after)

def WS.doRemove (s : WS) (o : Nat) (c : CompId) : WS × List SCb :=
  match s.alive o with
  | none => (s, [])
  | some e =>
    let before := compSet e
    if !before.contains c then (s, []) else
    let after := closed s.deps (Mask.erase before c)
    if after == before then (s, []) else
    -- `c` can come back through the closure (its master is present and the set was not closed before): it is carried over
    (s.setEnt o (some { e with comps := rebuild info (if after.contains c then e.comps else e.comps.filter (·.1 != c)) after [] }),
     cbDiff info o before after)

def WS.doDestroy (s : WS) (o : Nat) : WS × List SCb :=
  match s.alive o with
  | none => (s, [])
  | some e => (s.setEnt o none, cbDiff info o (compSet e) [])

def WS.doCreate (s : WS) (mask : Mask) (sh : List (Nat × Nat)) : WS × Nat × List SCb :=
  let o := s.ents.length
  let set := closed s.deps mask
  ({ s with ents := s.ents ++ [some ⟨rebuild info [] set [], sh⟩] }, o, cbDiff info o [] set)

def WS.push (s : WS) (t : Nat) (c : SCmd) : WS :=
  { s with buffers := s.buffers.set t (s.buffers.getD t [] ++ [c]) }

def insertNat (l : List Nat) (k : Nat) : List Nat := if l.contains k then l else l ++ [k]

/-- one deferred command, applied at the outermost unlock -/
def WS.applyCmd (s : WS) (c : SCmd) : WS × List SCb :=
  match c with
  | .create o mask sh =>
    let set := closed s.deps mask
    (s.setEnt o (some ⟨rebuild info [] set [], sh⟩), cbDiff info o [] set)
  | .destroyNow (some o) => s.doDestroy info o
  | .destroy (some o) => if (s.alive o).isSome then ({ s with marked := insertNat s.marked o }, []) else (s, [])
  | .remove (some o) c => s.doRemove info o c
  | .assign (some o) c v => s.doAssign info o c v
  | _ => (s, [])

def WS.flush (s : WS) : WS × List SCb :=
  let bufs := s.buffers
  let s := { s with buffers := bufs.map (fun _ => []) }
  bufs.foldl (fun (acc : WS × List SCb) buf =>
    buf.foldl (fun (acc : WS × List SCb) c =>
      let (s', cb) := acc.1.applyCmd info c
      (s', acc.2 ++ cb)) acc) (s, [])

def WS.lock (s : WS) : WS :=
  let s := { s with lockDepth := s.lockDepth + 1 }
  if s.lockDepth = 1 then { s with buffers := s.buffers ++ List.replicate (s.nthreads - s.buffers.length) [] } else s

def WS.unlock (s : WS) : WS × Bool × List SCb :=
  let s := if s.lockDepth > 0 then { s with lockDepth := s.lockDepth - 1 } else s
  if s.lockDepth = 0 then
    let (s, cbs) := s.flush info
    (s, true, cbs)
  else (s, false, [])

def WS.update (s : WS) : WS × List SCb :=
  let (s, cbs) := s.marked.foldl (fun (acc : WS × List SCb) o =>
    let (s', c) := acc.1.doDestroy info o
    (s', acc.2 ++ c)) (s, [])
  ({ s with marked := [] }, cbs)

/-- clearing the (shared-free) archetype of component set `mask` -/
def WS.clearArch (s : WS) (mask : Mask) : WS × List SCb :=
  (s.ents.zipIdx).foldl (fun (acc : WS × List SCb) p =>
    match p.1 with
    | some e => if compSet e == mask && e.shared.isEmpty then
        let (s', c) := acc.1.doDestroy info p.2
        (s', acc.2 ++ c) else acc
    | none => acc) (s, [])

/-- builder edit of an existing entity, unlocked; `none` = the "to itself" error (state unchanged) -/
def WS.doBuild (s : WS) (o : Nat) (adds : List (CompId × Option Nat)) (rems : Mask) : Option (WS × List SCb) :=
  match s.alive o with
  | none => some (s, [])
  | some e =>
    let before := compSet e
    let after := closed s.deps (Mask.diff (Mask.union (Mask.ofList (adds.map (·.1))) before) rems)
    if after == before then none else
    let given := adds.map (fun p => (p.1, storedVal info p.1 p.2))
    let kept := e.comps.filter (fun p => after.contains p.1)
    some (s.setEnt o (some { e with comps := rebuild info kept after given }), cbDiff info o before after)

def WS.doBuildNew (s : WS) (adds : List (CompId × Option Nat)) : WS × Nat × List SCb :=
  let o := s.ents.length
  let set := closed s.deps (Mask.ofList (adds.map (·.1)))
  let given := adds.map (fun p => (p.1, storedVal info p.1 p.2))
  ({ s with ents := s.ents ++ [some ⟨rebuild info [] set given, []⟩] }, o, cbDiff info o [] set)

def WS.doClone (s : WS) (o : Nat) : WS × Option Nat :=
  match s.alive o with
  | none => (s, none)
  | some e => ({ s with ents := s.ents ++ [some e] }, some s.ents.length)

def setShared (l : List (Nat × Nat)) (sid v : Nat) : List (Nat × Nat) :=
  if l.any (·.1 == sid) then l.map (fun p => if p.1 == sid then (sid, v) else p) else l ++ [(sid, v)]

end Mustache.Spec

#!/bin/bash
# Runs the repository's pinned test-suite with the guard MUSTACHE_VERIF OFF, in a scratch build
# directory outside /repo and /verif (removed afterwards).
set -e
B=$(mktemp -d /tmp/mustache_baseline.XXXXXX)
trap 'rm -rf "$B"' EXIT
cmake -G Ninja -S /repo -B "$B" -DCMAKE_BUILD_TYPE=RelWithDebInfo -DMUSTACHE_BUILD_TESTS=ON -DFETCHCONTENT_SOURCE_DIR_GOOGLETEST=/usr/src/googletest -DFETCHCONTENT_FULLY_DISCONNECTED=ON >"$B/configure.log" 2>&1 || { tail -30 "$B/configure.log"; exit 1; }
cmake --build "$B" -j16 >"$B/build.log" 2>&1 || { tail -50 "$B/build.log"; exit 1; }
# the suite registers no ctest tests: the gtest binary is run directly (50 tests)
"$B/bin/mustache_test" --gtest_brief=1

#!/usr/bin/env python3
"""Single entry point of every check.

  python3 tools/check.py Cxx [--tier quick|thorough] [--replay FILE]
  python3 tools/check.py --setup

Pipeline (DESIGN.md 2.5): build -> proof audit -> tie -> oracle -> known findings -> search -> evidence.
Exit 0 iff no VIOLATION line was printed.
"""
import argparse
import importlib
import os
import sys
import traceback

sys.path.insert(0, os.path.dirname(os.path.abspath(__file__)))
import vlib  # noqa: E402

ALL = ["C%02d" % i for i in range(1, 19)]


def setup():
    import json
    try:
        claimed0 = [c["property_id"] for c in json.load(open(os.path.join(vlib.VERIF, "MANIFEST.json")))["checks"]]
    except Exception:  # noqa: BLE001
        claimed0 = ALL
    targets = ["driver"] + ["Mustache.Props." + p for p in claimed0
                            if os.path.exists(os.path.join(vlib.LEAN, "Mustache", "Props", p + ".lean"))]
    ok, out = vlib.lean_build(targets)
    if not ok:
        print(out[-8000:])
        return 1
    try:
        vlib.build_lib("asan")
        vlib.build_lib("plain")
    except vlib.BuildError as e:
        print("setup: build failed:", e.what, e.output[-3000:])
        return 1
    # pre-build every harness a CLAIMED property's module names (unfinished modules are not part of the setup)
    import json
    try:
        claimed = [c["property_id"] for c in json.load(open(os.path.join(vlib.VERIF, "MANIFEST.json")))["checks"]]
    except Exception:  # noqa: BLE001
        claimed = ALL
    for p in claimed:
        try:
            mod = importlib.import_module("props." + p.lower())
        except ImportError:
            continue
        for spec in getattr(mod, "HARNESSES", []):
            try:
                vlib.build_harness(*spec)
            except vlib.BuildError as e:
                print("setup: harness", spec, "failed:", e.what, e.output[-3000:])
                return 1
    print("setup ok")
    return 0


def main():
    ap = argparse.ArgumentParser()
    ap.add_argument("prop", nargs="?")
    ap.add_argument("--tier", default=os.environ.get("VERIF_TIER", "quick"))
    ap.add_argument("--replay")
    ap.add_argument("--setup", action="store_true")
    a = ap.parse_args()
    if a.setup:
        return setup()
    if a.prop not in ALL:
        ap.error("property id C01..C18 expected")
    tier = "thorough" if a.tier == "thorough" else "quick"
    try:
        seed = int(os.environ.get("VERIF_SEED", "1"))
    except ValueError:
        seed = 1
    ctx = vlib.Ctx(a.prop, tier, seed)
    ctx.replay = a.replay
    mod = importlib.import_module("props." + a.prop.lower())

    # translator-tied properties regenerate their model from the source before the proofs are checked
    prep_error = None
    if hasattr(mod, "prepare"):
        try:
            mod.prepare(ctx)
        except vlib.BuildError as e:
            prep_error = e
    # stage P: proofs (hand-written models: unchanged unless /verif changed; generated models: re-checked now)
    has_props = os.path.exists(os.path.join(vlib.LEAN, "Mustache", "Props", a.prop + ".lean"))
    if has_props:
        try:
            ctx.proof = vlib.lean_audit(a.prop, leanchecker=(tier == "thorough"), extra=getattr(mod, "EXTRA_PROPS", ()))
        except Exception as e:  # noqa: BLE001
            ctx.proof = {"ok": False, "obligations": 0, "discharged": 0, "axioms": {}, "theorems": [],
                         "problems": ["audit crashed: %r" % (e,)]}
        proof_broken = not ctx.proof["ok"]
        if hasattr(mod, "FORCE_LEVEL"):
            ctx.level = mod.FORCE_LEVEL      # theorems exist but do not carry the whole property (see the module)
    else:
        # no theorem file yet: the check is the executable model + spec oracle only; level is not "proof"
        ctx.proof = None
        ctx.level = getattr(mod, "LEVEL_WITHOUT_PROOF", "other")
        proof_broken = False
        ok, out = vlib.lean_build(["driver"])
        if not ok:
            proof_broken = True
            ctx.proof = {"ok": False, "obligations": 0, "discharged": 0, "axioms": {}, "theorems": [],
                         "problems": ["lake build driver failed:\n" + out[-3000:]]}

    # stages B/T/O/K/S: property module
    try:
        if prep_error is not None:
            ctx.prep_error = prep_error
        mod.run(ctx)
    except vlib.BuildError as e:
        ctx.violation("stage=build\n" + e.what + "\n" + e.output,
                      "the tie cannot be established: %s" % e.what, no_input=True, suffix="txt")
    except Exception:  # noqa: BLE001
        tb = traceback.format_exc()
        ctx.violation("stage=check-crash\n" + tb, "check machinery crashed (tie not established)",
                      no_input=True, suffix="txt")

    if proof_broken and not any(not ni for (_, _, ni) in ctx.violations):
        ctx.violation("stage=proof\n" + "\n".join(ctx.proof["problems"]),
                      "proof obligations of Props/%s.lean (or the model build) no longer check: %s"
                      % (a.prop, "; ".join(p.splitlines()[0] for p in ctx.proof["problems"])),
                      no_input=True, suffix="txt")

    # the evidence level is one of the schema's categories; anything a module wrote in its own words is kept as detail
    LEVELS = ("exploration", "fault_enumeration", "model_checking", "proof", "translation_validation", "other")
    if ctx.level not in LEVELS:
        ctx.coverage["level_detail"] = str(ctx.level)
        ctx.level = "proof" if has_props else "other"
    if hasattr(mod, "FORCE_LEVEL"):
        ctx.level = mod.FORCE_LEVEL
    vlib.write_evidence(ctx)
    for line in ctx.known_printed:
        print(line)
    # if a concrete failing input exists, report only those; otherwise the no-input ones
    concrete = [v for v in ctx.violations if not v[2]]
    shown = concrete if concrete else ctx.violations
    for (p, msg, ni) in shown[:5]:
        print("VIOLATION property=%s replay=%s%s" % (a.prop, p, " no-failing-input-found" if ni else ""))
    if not shown:
        pr = ctx.proof or {"discharged": 0, "obligations": 0}
        print("OK property=%s tier=%s seed=%d theorems=%d/%d evaluations=%s wall=%.1fs"
              % (a.prop, tier, seed, pr["discharged"], pr["obligations"],
                 ctx.coverage.get("evaluations"), __import__("time").time() - ctx.t0))
    return 1 if shown else 0


if __name__ == "__main__":
    sys.exit(main())

#!/usr/bin/env python3
"""ad-hoc exploration: random world op files, report first divergences (development aid)"""
import sys, os, random
sys.path.insert(0, os.path.dirname(os.path.abspath(__file__)))
import vlib
from props import world_common as wc

MIXES = {
 "c01": dict(create=5, destroynow=3, destroy=2, update=1, cleararch=1, lock=1, unlock=1, query=1, dump=1),
 "c02": dict(create=4, assign=4, assign0=2, remove=3, build=3, destroynow=2, clone=1, query=1, dump=1),
 "c05": dict(create=3, assign=3, assign0=1, remove=2, destroynow=2, destroy=1, build=1, lock=2, unlock=1, update=1),
 "c13": dict(create=4, assign=4, assign0=2, remove=4, build=3, destroynow=1, lock=1, unlock=1, dump=1),
 "c09": dict(create=4, assign=2, remove=3, destroynow=3, destroy=2, update=1, clone=1, sremove=1, query=6, lock=1, unlock=1, dump=1),
 "c12": dict(create=3, assign=2, remove=2, sassign=4, sremove=2, build=2, destroynow=1, dump=1),
}
class C: pass
def main():
    mix = sys.argv[1]; n = int(sys.argv[2]); seed = int(sys.argv[3]) if len(sys.argv) > 3 else 1
    ctx = vlib.Ctx("C02", "quick", seed)
    s = wc.Session(ctx)
    seen = {}
    for i in range(n):
        rng = random.Random(seed * 100000 + i)
        g = wc.Gen(rng, MIXES[mix], storagecap=rng.choice([None, 2, 3]), lock_bias=0.15 if mix in ("c01","c05","c13","c09") else 0.0,
                   shared=(mix == "c12"), ndeps=(rng.randint(1, 4) if mix == "c13" else 0), malformed=(0.5 if mix == "c09" else 0.0), avoid=frozenset(sys.argv[4].split(",")) if len(sys.argv) > 4 else frozenset())
        ops = g.run(rng.randint(5, 40))
        r = s.check_file(ops)
        if r:
            key = (r[0], r[1][:60])
            if r[0] == "abort":
                key = (r[0], r[1].split("|")[-1][:80])
            if key in seen: 
                seen[key] += 1; continue
            seen[key] = 1
            small = wc.shrink(ops, lambda t: (lambda x: x is not None and x[0] == r[0])(s.check_file(t)), budget=80)
            rr = s.check_file(small)
            msg = rr[1] if rr else r[1]
            if r[0] == "abort":
                fr = [x for x in msg.split("|") if "/src/mustache" in x]
                msg = msg.split("|")[0][:120] + " @ " + (fr[0].split(" in ")[-1][:160] if fr else "")
            print("=== case %d: %s: %s" % (i, r[0], msg[:400]))
            print(" ; ".join(wc.op_lines(small)))
    print("files", n, "distinct failures", len(seen))
main()

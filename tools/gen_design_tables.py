#!/usr/bin/env python3
"""Regenerates the machine-derived tables of DESIGN.md section 9 (between the BEGIN/END GENERATED markers):
per-property status (from MANIFEST.json, Props/*.lean, evidence/*.json), defects (known_findings.txt),
seeded changes (seeded/*/meta.json)."""
import glob
import json
import os
import re
import sys

V = os.path.dirname(os.path.dirname(os.path.abspath(__file__)))
sys.path.insert(0, os.path.join(V, "tools"))
import vlib  # noqa: E402


def status_table():
    m = json.load(open(os.path.join(V, "MANIFEST.json")))
    claimed = {c["property_id"]: c for c in m["checks"]}
    rows = ["| id | level claimed | theorems (Props file) | tie / oracle cases in the last quick run | quick wall |", "|---|---|---|---|---|"]
    for k in range(1, 19):
        pid = "C%02d" % k
        n = len(vlib.props_theorems(pid))
        extra = ""
        try:
            mod = __import__("props." + pid.lower(), fromlist=["x"])
            for x in getattr(mod, "EXTRA_PROPS", ()):
                n2 = len(vlib.props_theorems(x))
                extra += " + %d (%s)" % (n2, x)
        except Exception:  # noqa: BLE001
            pass
        ev = {}
        p = os.path.join(V, "evidence", pid + ".json")
        if os.path.exists(p):
            ev = json.load(open(p))
        cov = ev.get("coverage", {})
        lvl = claimed[pid]["level_claimed"]["category"] if pid in claimed else "not claimed"
        rows.append("| %s | %s | %d%s | %s evaluations, %s non-trivial | %s s |" % (
            pid, lvl, n, extra, cov.get("evaluations", "-"), cov.get("distinct_nontrivial", "-"), ev.get("wall_s", "-")))
    return "\n".join(rows)


def defects_table():
    rows = ["| property | state | commit | what failed |", "|---|---|---|---|"]
    for line in open(os.path.join(V, "known_findings.txt")):
        line = line.strip()
        m = re.match(r"(fixed|open):\s+property=(\S+)\s+(.*)$", line)
        if not m:
            continue
        state, pid, rest = m.groups()
        if state == "fixed":
            commit, _, what = rest.partition(" ")
        else:
            km = re.match(r"key=(\S+)\s+(.*)$", rest)
            commit, what = ("key=" + km.group(1), km.group(2)) if km else ("", rest)
        rows.append("| %s | %s | %s | %s |" % (pid, state, commit, what.replace("|", "\\|")))
    return "\n".join(rows)


def seeded_table():
    rows = ["| seed | what was changed | needs | confirmed (tests pass / demo fails with / passes without) | caught by |", "|---|---|---|---|---|"]
    for d in sorted(glob.glob(os.path.join(V, "seeded", "*"))):
        mp = os.path.join(d, "meta.json")
        if not os.path.exists(mp):
            continue
        m = json.load(open(mp))
        lv = m.get("final_run") or m.get("lead_verification", {})
        caught = ", ".join("%s%s" % (p, "" if v.get("caught") else " (missed)") for p, v in sorted(lv.get("checks", {}).items()))
        rows.append("| %s | %s | %s | %s | %s |" % (os.path.basename(d), str(m.get("summary", ""))[:260].replace("|", "\\|").replace("\n", " "),
                                                str(m.get("needs", ""))[:200].replace("|", "\\|").replace("\n", " "),
                                                "yes" if m.get("lead_verification", {}).get("confirmed") else "?", caught))
    return "\n".join(rows)


def main():
    p = os.path.join(V, "DESIGN.md")
    s = open(p).read()
    for name, fn in (("STATUS", status_table), ("DEFECTS", defects_table), ("SEEDED", seeded_table)):
        b, e = "<!-- BEGIN GENERATED %s -->" % name, "<!-- END GENERATED %s -->" % name
        if b in s and e in s:
            i, j = s.index(b) + len(b), s.index(e)
            s = s[:i] + "\n" + fn() + "\n" + s[j:]
    open(p, "w").write(s)
    print("tables regenerated")


if __name__ == "__main__":
    main()

#!/usr/bin/env python3
"""Regenerates /verif/MANIFEST.json from the table below (kept in one place so it stays valid)."""
import json
import os
import subprocess

VERIF = os.path.dirname(os.path.dirname(os.path.abspath(__file__)))

# id -> (category, technique, text, note) for properties whose check exists; others go to not_applicable
CLAIMS = {
    "C16": ("proof", "Lean 4 theorems over a model regenerated from LLVM IR (translator tie) + differential validation",
            "Theorems (roundtrip, pack_injective, fields_partition, next_version, null_iff_all_ones, align_up, split, ...) over ALL "
            "bit-vector arguments about definitions regenerated on every run from the LLVM IR of thin wrappers around entity.hpp / "
            "id_deff.hpp; a changed shift/mask/width changes the definitions and the proofs stop checking; the property oracle is "
            "additionally evaluated on the natively compiled functions.",
            "Lean kernel + propext/Classical.choice/Quot.sound; clang-14 -O1 front end; tools/ir2lean.py (validated differentially every run); "
            "nuw/nsw flags ignored; division by zero excluded via generated *_defined predicates; no 32-bit overflow in align_up"),
    "C04": ("proof", "Lean 4 theorems over a hand-written executable model of the iteration cursors + exhaustive small-scope correspondence",
            "blocks_exact / tasks_partition / arrays_wellformed / entity_index_bijective / unrolled_eq_range / pieces_in_bounds proved for all "
            "archetype lists, populations, chunk sizes, capacities, dirty patterns, task counts and modes; the model is tied to the code by "
            "running model and library on an exhaustively enumerated small scope plus random large configurations and diffing arrays and invocations.",
            "Lean kernel + standard axioms; hand model (Model/Iteration.lean) validated by differential execution only on explored configurations; "
            "32-bit counter overflow excluded; user component code outside the model"),
    "C15": ("proof", "Lean 4 refinement proof (model of EventManager -> subscriber-map spec) + per-history correspondence in fresh processes",
            "model_refines_spec, post_delivers_subscribers, each_subscriber_once, nobody_else, slots_grow_only, model_never_ub for every legal "
            "history over any number of managers, types and receivers; every history is also run on the real EventManager (one process per history) "
            "and compared with spec and model.",
            "Lean kernel + standard axioms; hand model validated by differential execution on explored histories; contract: named objects alive, "
            "subscribe_ given a receiver not currently subscribed"),
    "C14": ("proof", "Lean 4 theorems over an executable model of SystemManager/ASystem + correspondence (implementation's order judged by the decidable ValidOrder)",
            "reorder_perm/respects/priority/fails_iff_cyclic, update_each_once, lifecycle_legal, removed_never_updated, remove_keeps_running proved for all "
            "constraint graphs, priorities, groups and add/remove/init/update histories; the implementation's own update order and callback traces are fed to "
            "the Lean driver, which evaluates ValidOrder/ValidUpdate and the lifecycle acceptor on them (equal-priority order is never compared).",
            "Lean kernel + standard axioms; hand model validated by differential execution on explored graphs/histories (exhaustive on <= 3-4 systems); "
            "contract: unique system names; removeSystem after an already reported contradictory ordering terminates (noexcept) - outside the generated histories"),
}
WORLD_NOTE = ("Lean kernel + standard axioms for the theorems that exist; hand-written world model and spec tied to /repo by differential execution on the "
              "explored op files only; locked API calls taken as atomic; contract of DESIGN.md 3.3; component values are opaque tokens")
for _pid, _what in {
}.items():
    CLAIMS[_pid] = ("other", "executable Lean world model + abstract Lean spec run against the library on the same op files (correspondence tie + spec oracle); "
                    "Lean theorems for this property in progress",
                    "The real library (ASan+UBSan), the Lean world model (mirrors id table, locations, archetype rows, command buffers) and the Lean abstract "
                    "spec (entities as finite maps, deferred commands = sequential meaning) execute the same corpus and generated op files; every observation "
                    "is diffed (model = tie, spec = property oracle): " + _what + ". Claimed as 'other' until the theorem file of this property is complete.",
                    WORLD_NOTE)

_WM_TIE = ("the same op files (corpus + seeded structured random histories, scripted dispatcher threads, free-running parallel jobs) are executed on the real "
           "library (ASan+UBSan), on the Lean world model (WM.step) and on the Lean abstract spec (WS.step); every observation is diffed (model = "
           "correspondence tie, spec = property oracle)")
CLAIMS["C01"] = ("proof", "Lean 4 invariant proof over all id-table histories + refinement lemmas WM->id table + correspondence",
                 "valid_iff_alive_any (for ANY handle pattern), dead_forever, issued_nodup, live_ids_distinct, reissue_version_fresh, freelist_wf, "
                 "locked_create_invisible proved by induction over all histories of the id-table model (alloc / checked destroyNow / lock / reserve / "
                 "unlock with installs in any order / clear / mark+update); every WM operation is proved to act on the id table as the corresponding "
                 "table operation (Proofs/IdTableRefine, IdTablePack); " + _WM_TIE + ".",
                 WORLD_NOTE + "; hypotheses NoWrap (no issued version reaches 2^24-1: the wrap is C16) and InRange (ids < 2^30-1); the link from API "
                 "histories to table histories uses the row/liveness invariants of Props/C02 (rows = live handles), whose preservation through flush is "
                 "assumed as PackOK")
CLAIMS["C02"] = ("proof", "Lean 4 invariant + frame theorems over the world model (rows, locations, values) + correspondence",
                 "RowInv (row widths, location<->row bijection, distinct archetype keys) is proved preserved by archInsert/archRemove (swap-remove for every "
                 "index)/externalMove/getArch and by every unlocked operation, applyPack, flush and unlock; frame_other_entities_* (an operation on e never "
                 "changes any other entity's components or values), read_last_written, components_eq_mask, removeComp_keeps_values, clone_copies_values, "
                 "same_key_same_archetype, archetype_rows_exact; " + _WM_TIE + ".",
                 WORLD_NOTE + "; the history-level statement (component sets and values of every entity = what its history implies) is "
                 "Props/Refinement.run_refines, audited with this property, under the contract OpWf and the range conditions Bounds; the row/location "
                 "invariants (LiveInv, RowsOK, KeysOK) at EVERY reachable state incl. after flush/clearArch/update: rows_live_every_prefix, "
                 "inv_rel_every_prefix; API-level validity = spec aliveness at every reachable state: valid_iff_spec_alive_every_prefix")
CLAIMS["C05"] = ("proof", "Lean 4 theorems (isolation while locked, pack/flush structure, singleton packs = unlocked ops) + scripted-interleaving correspondence",
                 "locked_isolation (every API call issued while locked changes only buffers/nextEntityId/temps: validity, components, rows, locations fixed), "
                 "unlock_inner_noop, packs_concat/packs_one_entity/packs_create_first/packs_maximal, flush_order (buffers in thread order, packs in log "
                 "order), flush_leaves_buffers_empty, pack_singleton_eq_unlocked_{destroyNow,remove,assign}; " + _WM_TIE + " (the spec applies the recorded "
                 "commands one by one in thread order, skipping dead targets).",
                 WORLD_NOTE + "; flush = sequential meaning is Props/Refinement.flush_refines / run_refines (audited with this property), under the "
                 "contract OpWf and the range conditions Bounds")
CLAIMS["C09"] = ("proof", "Lean 4 theorems: every checked entry point is a no-op on an invalid handle (any state, any 64-bit pattern) + malformed-stream correspondence",
                 "isValid_spec; getComp/hasComp/hasShared/archOf_invalid; destroyNowU/destroyNow/removeComp/sremove/clone_invalid return the state unchanged; "
                 "applyPack_invalid (deferred form: the whole concrete state untouched); destroy_marks_only + destroy_invalid_dropped_by_update; with C01 "
                 "valid_iff_alive_any this covers stale (recycled), null, foreign and arbitrary patterns; " + _WM_TIE + " with a malformed stream (every issued "
                 "handle, null, other-world and random 64-bit patterns to every checked entry point, immediate and deferred).",
                 WORLD_NOTE)
CLAIMS["C12"] = ("proof", "Lean 4 theorems on shared descriptors, value pool and archetype key + correspondence",
                 "sharedinfo_aligned (ids/data aligned, duplicate-free, ordered: preserved by add/remove/merge), sharedinfo_lookup, "
                 "sharedinfo_order_independent, one_instance_per_value (pool invariant; equal values <-> same instance), shared_edit_frames_components, "
                 "findArch_key / key_determines_descriptor (same component set and shared values => same archetype); " + _WM_TIE + " incl. instance identity "
                 "classes (class<->value bijection checked on the implementation's own dumps).",
                 WORLD_NOTE + "; shared values are natural-number tokens, operator== is value equality (contract)")
CLAIMS["C13"] = ("proof", "Lean 4 least-fixpoint proof of the dependency closure + spec-level dependency theorems + correspondence",
                 "closure_lfp (the fuel-130 loop terminates and yields the least mask closed under the declared dependencies, for chains, diamonds, cycles; "
                 "ids < 128), closure_idempotent_monotone, addDependency_stores_closure, archetype_masks_closed, gain_master_has_dependents (create / assign / "
                 "builder / deferred create+assign), remove_dependent_noop, remove_master_keeps_dependents; for archetypes that predate a "
                 "declaration (late declarations, no closedness assumed): pack_final_eq_seqMask, immediate_ops_mask, deferred_pack_mask, "
                 "deferred_pack_mask_eq_immediate (a deferred pack gives the entity the component set the same commands give when "
                 "issued immediately); " + _WM_TIE + " with random dependency graphs, late declarations also for held masters.",
                 WORLD_NOTE + "; DepsBounded (component ids < 128, the mask width)")
CLAIMS["C08"] = ("proof", "Lean 4 invariant proofs over a transition-system model of the dispatcher + trace acceptance against the real dispatcher (sched hook)",
                 "at_most_once, wait_post, serial_fifo_exclusive, thread_id_unique, parallelFor_partition, shutdown_safe, no_deadlock and wait_returns (under weak "
                 "fairness) for all schedules, worker counts and queue configurations of the model; traces of the real dispatcher logged through the "
                 "MUSTACHE_VERIF schedule-point hook under seeded preemption are accepted by the model; oracles on the real dispatcher (execution counters, "
                 "completion at wait return, serial order/non-overlap, thread ids).",
                 "Lean kernel + standard axioms; critical sections under the mutex modelled as atomic actions; condition-variable semantics and weak fairness as "
                 "modelled; real scheduler and C++ memory model outside the model; one external thread drives a dispatcher at a time")
CLAIMS["C06"] = ("other", "Lean 4 theorems for the logic (disjoint split = C04 tasks_partition, barrier post-condition, lock discipline of the model's access table) + "
                 "TSan and trace validation on the code",
                 "wait_parallel_post and lock_discipline are theorems about the dispatcher model and its access table; the disjoint split is C04's "
                 "tasks_partition; data-race freedom of the C++ itself is a statement about the C++ memory model that the Lean model cannot exhibit: it is "
                 "validated (not proved) by ThreadSanitizer runs of parallel jobs with deferred commands and first-use registration, 1..24 workers, and by "
                 "trace acceptance. Claimed as 'other' (partial by nature, DESIGN.md section 6).",
                 "Lean kernel + standard axioms for the model theorems; happens-before/atomicity/compiler reordering trusted to TSan on explored schedules")

CLAIMS["C03"] = ("proof", "Lean 4 theorems over a lifecycle EVENT model of the world model (per-slot live/dead automaton) + per-op event-count correspondence with instrumented types",
                 "WM.events lists, in the order archetype.cpp / entity_manager.cpp perform them, the construct / copy-construct / move-construct / move-assign / "
                 "destroy events of one API call; step_events_accepted (the per-slot automaton accepts every step's log and ends in exactly the live-slot "
                 "set of the next state, for every operation incl. the flush), run_events_accepted, teardown_leaves_nothing (also while locked with "
                 "non-empty buffers), balanced_of_accepted, live_count_eq, cbDiff_* (one afterAssign per attachment, one beforeRemove per detachment); on "
                 "the implementation: instrumented heap-owning types with a per-address live/dead automaton, per-op event counts (EV lines) and live "
                 "counts diffed with the model, callbacks diffed with the spec, LeakSanitizer at teardown.",
                 WORLD_NOTE + "; run_events_accepted assumes the contract/invariant StepOk at every visited state (not re-derived through the flush); events "
                 "are listed as if every type had all lifecycle functions, the implementation comparison covers the instrumented types B and G")
CLAIMS["C18"] = ("proof", "Lean 4 theorems: every C entry point IS a composition of world-model operations; lifecycle-function subsets irrelevant for values + three-way correspondence",
                 "translate_ok / capi_refines_cxx (for every C-API sequence the model state, outputs and callback log equal those of the C++ call sequence it "
                 "names, for every registry and start state), flags_irrelevant_for_values (copy/move/move_constructor/destroy are not read at all; create and "
                 "default value matter only through the default-construction token), callbacks_never_influence_values, capi_queries_invalid_handle; the same "
                 "op file is executed through the C API (capi_driver, its own translation unit), through the C++ API (world_driver variant) and on the Lean "
                 "model, for all 32 subsets of the function table x default value on/off; entity digests and job callback logs are diffed three ways.",
                 WORLD_NOTE + "; the plain-data refinement (instance with defaults vs without) is covered by the tie with wildcards, not proved")
CLAIMS["C17"] = ("proof", "Lean 4 theorems over a process-level product model (world-id allocator x world models) + multi-world correspondence",
                 "auto_id_fresh, live_worlds_distinct_ids, auto_id_in_range (no bound on the number of worlds ever created: churn_run, id_after_churn), "
                 "own_handles_valid / own_handle_roundtrip (through C16's generated pack/readers), foreign_handles_invalid, valid_in_one_world_only, "
                 "foreign_handle_harmless, frame / frame_history (an operation on one world leaves every other world and the allocator unchanged); the "
                 "harness runs several real worlds in one process (thousands created and destroyed, crossing 1024 and 2048, shared and private contexts, "
                 "locked sections open in several worlds) and checks after every op the observations of ALL live worlds.",
                 WORLD_NOTE + "; at most 1024 automatically numbered worlds alive at once; one thread drives all worlds (the cached dispatcher thread id is "
                 "constant); systems' independence only through C14's model per world")
CLAIMS["C10"] = ("proof", "Lean 4 layout / command-buffer allocator theorems tied to the generated alignAs/div/mod + differential layout tie with a worst-case aligned_alloc + sanitizer runs",
                 "layout_aligned (exact condition: component alignment divides the chunk alignment), chunkAlign_max_divisible / fixed_rule_aligned, "
                 "first_component_rule_insufficient (witness against the pinned rule), layout_in_bounds, addr_in_chunk, layout_disjoint, addr_stable, "
                 "storage_slots_backed, talloc_sound / talloc_consecutive / talloc_history (command-buffer allocator), bridged to the definitions "
                 "regenerated from the LLVM IR of alignAs and the chunk/item split; the real storage is compared with the model on run-time described "
                 "component sets (sizes 0..4096, alignments 1..64, any order) under ASan+UBSan AND under an interposed allocator that returns exactly the "
                 "requested alignment; every pointer handed out is checked for alignment, bounds and agreement with the model; the world-model corpus and "
                 "generated histories run under the sanitizers.",
                 "Lean kernel + standard axioms; PARTIAL BY NATURE: absence of undefined behaviour of the C++ abstract machine (lifetime, aliasing, use after "
                 "free, data races) is validated by ASan/UBSan on explored histories only; assumptions: power-of-two alignments, size % align = 0, "
                 "aligned_alloc honours the requested alignment, no 32-bit overflow")
CLAIMS["C07"] = ("proof", "Lean 4 invariant proof over a model of version stamps / job filters + correspondence on generated histories",
                 "no_missed_write and no_missed_write_history (a pending write / dirty mark / arrival / relocation / other job's write of a checked component "
                 "of an entity in a matching archetype is processed by the next run of the job, wherever update() and other jobs' runs fall in between), "
                 "pending_after_{write,markDirty,create,move,relocation,other_job}; the model's stamps and per-run processed sets are diffed with the "
                 "real library on exhaustive short op sequences and random histories (version-chunk sizes 1..9, several archetypes and jobs).",
                 "Lean kernel + standard axioms; hand model validated by differential execution on explored histories; 32-bit version wrap excluded; "
                 "user archetype/chunk filters constant; World::init() outside the operation set")
CLAIMS["C11"] = ("proof", "Lean 4 theorems (quiescence, chunk precision, chunk-size resolution) over the version model + correspondence",
                 "quiescent, no_self_retrigger, const_access_never_stamps, chunk_precise, processed_whole_chunks, blocks_cover_chunks, "
                 "chunk_size_resolution / rejection / bounds / positive; same correspondence as C07 plus chunk-size function configurations "
                 "(overlapping, min-only, max-only, contradictory). One open known finding (check mask naming a component the archetype lacks) is "
                 "proved as a witness theorem and printed as KNOWN-FINDING.",
                 "Lean kernel + standard axioms; quiescent is stated for check mask within required mask (see the open finding); hand model validated by "
                 "differential execution on explored histories")

DESIGN_REF = {i: "DESIGN.md section 4, ### %s" % i for i in ["C%02d" % k for k in range(1, 19)]}


def main():
    extra = os.path.join(VERIF, "tools", "manifest_claims.json")
    claims = dict(CLAIMS)
    if os.path.exists(extra):
        for k, v in json.load(open(extra)).items():
            claims[k] = tuple(v)
    hooks = []
    try:
        out = subprocess.run(["git", "-C", "/repo", "log", "--format=%h %s"], capture_output=True, text=True).stdout
        hooks = [l.split()[0] for l in out.splitlines() if "verif hook" in l]
    except Exception:  # noqa: BLE001
        pass
    checks = []
    na = []
    for k in range(1, 19):
        pid = "C%02d" % k
        if pid in claims:
            cat, tech, text, note = claims[pid]
            checks.append({
                "property_id": pid,
                "quick_cmd": "python3 tools/check.py %s --tier quick" % pid,
                "thorough_cmd": "python3 tools/check.py %s --tier thorough" % pid,
                "evidence_file": "evidence/%s.json" % pid,
                "replay_cmd_template": "python3 tools/check.py %s --replay {path}" % pid,
                "engine": "lean-model+correspondence",
                "level_claimed": {"category": cat, "text": text, "design_ref": DESIGN_REF[pid]},
                "level_note": note,
                "technique": tech,
            })
        else:
            na.append({"property_id": pid, "reason": "check not finished yet in this round (model/proofs in progress, see DESIGN.md section 4); not claimed"})
    m = {
        "version": 1,
        "setup_cmd": "python3 tools/check.py --setup",
        "hooks": {
            "guard": "MUSTACHE_VERIF",
            "enable": "every check compiles /repo/src itself with -DMUSTACHE_VERIF (tools/vlib.py build_lib); the repository's own build never defines it",
            "baseline_off_cmd": "bash tools/baseline_off.sh",
            "source_commits": hooks,
            "add_only": True,
        },
        "engines": [{
            "name": "lean-model+correspondence",
            "path": "tools/check.py",
            "serves_properties": sorted(claims),
            "kind_free_text": "Lean 4 theorems about an executable model (lean/Mustache), model tied to /repo on every run by a translator "
                              "(C16) or by differential execution of model and library on the same op files (all others)",
        }],
        "checks": checks,
        "not_applicable": na,
        "notes": "see DESIGN.md; known findings in known_findings.txt",
    }
    with open(os.path.join(VERIF, "MANIFEST.json"), "w") as f:
        json.dump(m, f, indent=1)
    print("claimed:", sorted(claims), "not claimed:", [x["property_id"] for x in na])


if __name__ == "__main__":
    main()

#!/usr/bin/env python3
"""Regenerates /verif/MANIFEST.json from the table below (kept in one place so it stays valid)."""
import json
import os
import subprocess

VERIF = os.path.dirname(os.path.dirname(os.path.abspath(__file__)))

# id -> (category, technique, text, note) for properties whose check exists; others go to not_applicable
CLAIMS = {
    "C16": ("proof", "Lean 4 theorems over a model regenerated from LLVM IR (translator tie) + differential validation",
            "Theorems (roundtrip, pack_injective, fields_partition, next_version, null_iff_all_ones, align_up, split, ...) over ALL "
            "bit-vector arguments about definitions regenerated on every run from the LLVM IR of thin wrappers around entity.hpp / "
            "id_deff.hpp; a changed shift/mask/width changes the definitions and the proofs stop checking; the property oracle is "
            "additionally evaluated on the natively compiled functions.",
            "Lean kernel + propext/Classical.choice/Quot.sound; clang-14 -O1 front end; tools/ir2lean.py (validated differentially every run); "
            "nuw/nsw flags ignored; division by zero excluded via generated *_defined predicates; no 32-bit overflow in align_up"),
    "C04": ("proof", "Lean 4 theorems over a hand-written executable model of the iteration cursors + exhaustive small-scope correspondence",
            "blocks_exact / tasks_partition / arrays_wellformed / entity_index_bijective / unrolled_eq_range / pieces_in_bounds proved for all "
            "archetype lists, populations, chunk sizes, capacities, dirty patterns, task counts and modes; the model is tied to the code by "
            "running model and library on an exhaustively enumerated small scope plus random large configurations and diffing arrays and invocations.",
            "Lean kernel + standard axioms; hand model (Model/Iteration.lean) validated by differential execution only on explored configurations; "
            "32-bit counter overflow excluded; user component code outside the model"),
    "C15": ("proof", "Lean 4 refinement proof (model of EventManager -> subscriber-map spec) + per-history correspondence in fresh processes",
            "model_refines_spec, post_delivers_subscribers, each_subscriber_once, nobody_else, slots_grow_only, model_never_ub for every legal "
            "history over any number of managers, types and receivers; every history is also run on the real EventManager (one process per history) "
            "and compared with spec and model.",
            "Lean kernel + standard axioms; hand model validated by differential execution on explored histories; contract: named objects alive, "
            "subscribe_ given a receiver not currently subscribed"),
    "C14": ("proof", "Lean 4 theorems over an executable model of SystemManager/ASystem + correspondence (implementation's order judged by the decidable ValidOrder)",
            "reorder_perm/respects/priority/fails_iff_cyclic, update_each_once, lifecycle_legal, removed_never_updated, remove_keeps_running proved for all "
            "constraint graphs, priorities, groups and add/remove/init/update histories; the implementation's own update order and callback traces are fed to "
            "the Lean driver, which evaluates ValidOrder/ValidUpdate and the lifecycle acceptor on them (equal-priority order is never compared).",
            "Lean kernel + standard axioms; hand model validated by differential execution on explored graphs/histories (exhaustive on <= 3-4 systems); "
            "contract: unique system names; removeSystem after an already reported contradictory ordering terminates (noexcept) - outside the generated histories"),
}
WORLD_NOTE = ("Lean kernel + standard axioms for the theorems that exist; hand-written world model and spec tied to /repo by differential execution on the "
              "explored op files only; locked API calls taken as atomic; contract of DESIGN.md 3.3; component values are opaque tokens")
for _pid, _what in {
    "C01": "id table / free list / validity of every handle ever issued after every step, locked creation from scripted dispatcher threads",
    "C02": "component values and archetype membership of every entity after every structural change, storage-chunk capacity 2",
    "C03": "instrumented component types (per-address live/dead automaton, live counts, afterAssign/beforeRemove), teardown with non-empty buffers",
    "C05": "locked sections from several scripted dispatcher threads, nested locks, snapshot isolation while locked, flush = sequential meaning",
    "C09": "every issued handle, null, foreign and random 64-bit patterns to every checked entry point, immediate and deferred",
    "C12": "shared assign/replace/remove mixed with ordinary/builder edits and creation with shared types; instance identity classes",
    "C13": "random dependency graphs incl. cycles; all ways of gaining a component, immediate and deferred",
}.items():
    CLAIMS[_pid] = ("other", "executable Lean world model + abstract Lean spec run against the library on the same op files (correspondence tie + spec oracle); "
                    "Lean theorems for this property in progress",
                    "The real library (ASan+UBSan), the Lean world model (mirrors id table, locations, archetype rows, command buffers) and the Lean abstract "
                    "spec (entities as finite maps, deferred commands = sequential meaning) execute the same corpus and generated op files; every observation "
                    "is diffed (model = tie, spec = property oracle): " + _what + ". Claimed as 'other' until the theorem file of this property is complete.",
                    WORLD_NOTE)

DESIGN_REF = {i: "DESIGN.md section 4, ### %s" % i for i in ["C%02d" % k for k in range(1, 19)]}


def main():
    extra = os.path.join(VERIF, "tools", "manifest_claims.json")
    claims = dict(CLAIMS)
    if os.path.exists(extra):
        for k, v in json.load(open(extra)).items():
            claims[k] = tuple(v)
    hooks = []
    try:
        out = subprocess.run(["git", "-C", "/repo", "log", "--format=%h %s"], capture_output=True, text=True).stdout
        hooks = [l.split()[0] for l in out.splitlines() if "verif hook" in l]
    except Exception:  # noqa: BLE001
        pass
    checks = []
    na = []
    for k in range(1, 19):
        pid = "C%02d" % k
        if pid in claims:
            cat, tech, text, note = claims[pid]
            checks.append({
                "property_id": pid,
                "quick_cmd": "python3 tools/check.py %s --tier quick" % pid,
                "thorough_cmd": "python3 tools/check.py %s --tier thorough" % pid,
                "evidence_file": "evidence/%s.json" % pid,
                "replay_cmd_template": "python3 tools/check.py %s --replay {path}" % pid,
                "engine": "lean-model+correspondence",
                "level_claimed": {"category": cat, "text": text, "design_ref": DESIGN_REF[pid]},
                "level_note": note,
                "technique": tech,
            })
        else:
            na.append({"property_id": pid, "reason": "check not finished yet in this round (model/proofs in progress, see DESIGN.md section 4); not claimed"})
    m = {
        "version": 1,
        "setup_cmd": "python3 tools/check.py --setup",
        "hooks": {
            "guard": "MUSTACHE_VERIF",
            "enable": "every check compiles /repo/src itself with -DMUSTACHE_VERIF (tools/vlib.py build_lib); the repository's own build never defines it",
            "baseline_off_cmd": "bash tools/baseline_off.sh",
            "source_commits": hooks,
            "add_only": True,
        },
        "engines": [{
            "name": "lean-model+correspondence",
            "path": "tools/check.py",
            "serves_properties": sorted(claims),
            "kind_free_text": "Lean 4 theorems about an executable model (lean/Mustache), model tied to /repo on every run by a translator "
                              "(C16) or by differential execution of model and library on the same op files (all others)",
        }],
        "checks": checks,
        "not_applicable": na,
        "notes": "see DESIGN.md; known findings in known_findings.txt",
    }
    with open(os.path.join(VERIF, "MANIFEST.json"), "w") as f:
        json.dump(m, f, indent=1)
    print("claimed:", sorted(claims), "not claimed:", [x["property_id"] for x in na])


if __name__ == "__main__":
    main()

#!/usr/bin/env python3
"""LLVM-IR (clang-14 -O1, straight-line / acyclic integer code) -> Lean 4 `BitVec` definitions.

Fails closed: any instruction, type or control-flow shape outside the supported set raises
TranslateError (the caller reports a broken tie, it never guesses).

Supported: iN arguments / results (N in 1,8,16,32,64); zext sext trunc shl lshr ashr and or xor add sub mul
udiv urem icmp(eq ne ult ule ugt uge slt sle sgt sge) select freeze br phi ret, the intrinsics
llvm.umin/umax/smin/smax, acyclic control flow (forward branches only).

Semantics: iN = BitVec N (i1 = BitVec 1); nuw/nsw/exact flags are ignored (they only ADD undefined
behaviour; the defined executions are unchanged). For every function `f` a companion `f_defined : Bool`
is emitted: the conjunction, over every udiv/urem (under the reach condition of its block), of
`divisor != 0`, and over every variable shift of `amount < width`. Theorems are stated under `f_defined`.
"""
import re
import sys


class TranslateError(Exception):
    pass


TY = re.compile(r"^i(\d+)$")


def width(t):
    m = TY.match(t)
    if not m:
        raise TranslateError("unsupported type %r" % t)
    n = int(m.group(1))
    if n not in (1, 8, 16, 32, 64):
        raise TranslateError("unsupported width %r" % t)
    return n


class Fn:
    def __init__(self, name, ret, args):
        self.name, self.ret, self.args = name, ret, args   # args: [(type, name)]
        self.blocks = []  # [(label, [instr lines])]


def parse(text):
    fns = []
    cur = None
    for raw in text.splitlines():
        line = raw.split(";")[0].rstrip() if not raw.lstrip().startswith(";") else ""
        if not line.strip():
            continue
        m = re.match(r"define\s+(?:[a-z_]+\s+)*?(i\d+)\s+@(\w+)\((.*?)\)", line)
        if line.startswith("define"):
            if not m:
                raise TranslateError("unsupported function signature: " + line)
            args = []
            a = m.group(3).strip()
            if a:
                for part in a.split(","):
                    toks = part.split()
                    if not TY.match(toks[0]) or not toks[-1].startswith("%"):
                        raise TranslateError("unsupported parameter: " + part)
                    args.append((toks[0], toks[-1]))
            cur = Fn(m.group(2), m.group(1), args)
            # the entry block's implicit label is the next unnamed value number
            cur.blocks.append(("%" + str(len(args)), []))
            continue
        if cur is None:
            continue
        if line.strip() == "}":
            fns.append(cur)
            cur = None
            continue
        m = re.match(r"^(\w+):", line)
        if m:
            cur.blocks.append(("%" + m.group(1), []))
            continue
        cur.blocks[-1][1].append(line.strip())
    return fns


def lean_name(v):
    return "v" + re.sub(r"\W", "_", v[1:])


class Emit:
    def __init__(self, fn):
        self.fn = fn
        self.types = {}   # ssa -> width
        self.lines = []
        self.ub = []      # Bool exprs that must hold
        for t, n in fn.args:
            self.types[n] = width(t)

    def val(self, tok, w):
        tok = tok.strip()
        if tok.startswith("%"):
            if tok not in self.types:
                raise TranslateError("use before definition (cyclic control flow?): " + tok)
            if self.types[tok] != w:
                raise TranslateError("width mismatch for " + tok)
            return lean_name(tok) if tok not in dict((n, 1) for _, n in self.fn.args) else lean_name(tok)
        if tok in ("true", "false"):
            return "(%d#1)" % (1 if tok == "true" else 0)
        if re.fullmatch(r"-?\d+", tok):
            k = int(tok) % (1 << w)
            return "(%d#%d)" % (k, w)
        if tok in ("undef", "poison"):
            raise TranslateError("undef/poison operand")
        raise TranslateError("unsupported operand " + tok)

    def define(self, ssa, w, expr):
        self.types[ssa] = w
        self.lines.append("  let %s : BitVec %d := %s" % (lean_name(ssa), w, expr))

    def translate(self):
        fn = self.fn
        labels = [b[0] for b in fn.blocks]
        order = {l: i for i, l in enumerate(labels)}
        reach = {labels[0]: "true"}     # label -> Bool expr name
        edges = {}                      # (from,to) -> Bool expr
        rets = []                       # (reach cond, value)
        rw = width(fn.ret)
        nb = [0]

        def newbool(expr):
            nb[0] += 1
            n = "c%d" % nb[0]
            self.lines.append("  let %s : Bool := %s" % (n, expr))
            return n

        for bi, (label, instrs) in enumerate(fn.blocks):
            if label not in reach:
                # unreachable or only reached by backward edge
                raise TranslateError("block %s has no forward predecessor" % label)
            rc = reach[label]
            terminated = False
            for ins in instrs:
                if terminated:
                    raise TranslateError("instruction after terminator")
                m = re.match(r"(%[\w.]+)\s*=\s*(.*)$", ins)
                if m:
                    self.instr(m.group(1), m.group(2), rc, edges, label)
                    continue
                m = re.match(r"ret\s+(i\d+)\s+(.+)$", ins)
                if m:
                    rets.append((rc, self.val(m.group(2), width(m.group(1)))))
                    terminated = True
                    continue
                m = re.match(r"br\s+label\s+(%[\w.]+)$", ins)
                if m:
                    self.edge(label, m.group(1), rc, order, reach, edges, newbool)
                    terminated = True
                    continue
                m = re.match(r"br\s+i1\s+(\S+),\s*label\s+(%[\w.]+),\s*label\s+(%[\w.]+)$", ins)
                if m:
                    c = self.val(m.group(1), 1)
                    ct = newbool("(%s && %s == 1#1)" % (rc, c))
                    cf = newbool("(%s && %s != 1#1)" % (rc, c))
                    self.edge(label, m.group(2), ct, order, reach, edges, newbool)
                    self.edge(label, m.group(3), cf, order, reach, edges, newbool)
                    terminated = True
                    continue
                raise TranslateError("unsupported instruction: " + ins)
            if not terminated:
                raise TranslateError("block without terminator: " + label)
        if not rets:
            raise TranslateError("no ret")
        res = rets[-1][1]
        for c, v in reversed(rets[:-1]):
            res = "(if %s then %s else %s)" % (c, v, res)
        return res, rw

    def edge(self, frm, to, cond, order, reach, edges, newbool):
        if to not in order or order[to] <= order[frm]:
            raise TranslateError("backward or unknown branch %s -> %s (loop?)" % (frm, to))
        edges[(frm, to)] = cond
        if to in reach:
            reach[to] = newbool("(%s || %s)" % (reach[to], cond))
        else:
            reach[to] = cond

    def instr(self, dst, rhs, rc, edges, label):
        rhs = re.sub(r"\b(nuw|nsw|exact|noundef)\b\s*", "", rhs)
        m = re.match(r"(zext|sext|trunc)\s+(i\d+)\s+(\S+)\s+to\s+(i\d+)$", rhs)
        if m:
            op, ft, v, tt = m.groups()
            fw, tw = width(ft), width(tt)
            x = self.val(v, fw)
            if op == "zext":
                if tw <= fw:
                    raise TranslateError("bad zext")
                e = "BitVec.setWidth %d %s" % (tw, x)
            elif op == "trunc":
                if tw >= fw:
                    raise TranslateError("bad trunc")
                e = "BitVec.setWidth %d %s" % (tw, x)
            else:
                e = "BitVec.signExtend %d %s" % (tw, x)
            return self.define(dst, tw, e)
        m = re.match(r"(shl|lshr|ashr|and|or|xor|add|sub|mul|udiv|urem)\s+(i\d+)\s+([^,]+),\s*(.+)$", rhs)
        if m:
            op, t, a, b = m.groups()
            w = width(t)
            x, y = self.val(a, w), self.val(b, w)
            if op in ("shl", "lshr", "ashr"):
                if not re.fullmatch(r"\d+", b.strip()):
                    self.ub.append("(!%s || decide (%s.toNat < %d))" % (rc, y, w))
                    amt = "%s.toNat" % y
                else:
                    if int(b) >= w:
                        raise TranslateError("constant shift >= width")
                    amt = b.strip()
                e = {"shl": "%s <<< %s", "lshr": "%s >>> %s", "ashr": "BitVec.sshiftRight %s %s"}[op] % (x, amt)
            elif op in ("udiv", "urem"):
                self.ub.append("(!%s || %s != 0#%d)" % (rc, y, w))
                e = ("%s / %s" if op == "udiv" else "%s %% %s") % (x, y)
            else:
                sym = {"and": "&&&", "or": "|||", "xor": "^^^", "add": "+", "sub": "-", "mul": "*"}[op]
                e = "%s %s %s" % (x, sym, y)
            return self.define(dst, w, e)
        m = re.match(r"icmp\s+(\w+)\s+(i\d+)\s+([^,]+),\s*(.+)$", rhs)
        if m:
            pred, t, a, b = m.groups()
            w = width(t)
            x, y = self.val(a, w), self.val(b, w)
            e = {"eq": "decide (%s = %s)", "ne": "decide (%s ≠ %s)",
                 "ult": "BitVec.ult %s %s", "ule": "BitVec.ule %s %s",
                 "ugt": "BitVec.ult %s %s", "uge": "BitVec.ule %s %s",
                 "slt": "BitVec.slt %s %s", "sle": "BitVec.sle %s %s",
                 "sgt": "BitVec.slt %s %s", "sge": "BitVec.sle %s %s"}.get(pred)
            if e is None:
                raise TranslateError("unsupported icmp predicate " + pred)
            if pred in ("ugt", "uge", "sgt", "sge"):
                x, y = y, x
            return self.define(dst, 1, "(if %s then 1#1 else 0#1)" % (e % (x, y)))
        m = re.match(r"select\s+i1\s+([^,]+),\s*(i\d+)\s+([^,]+),\s*(i\d+)\s+(.+)$", rhs)
        if m:
            c, t1, a, t2, b = m.groups()
            w = width(t1)
            if width(t2) != w:
                raise TranslateError("select width mismatch")
            return self.define(dst, w, "(if %s == 1#1 then %s else %s)" % (self.val(c, 1), self.val(a, w), self.val(b, w)))
        m = re.match(r"freeze\s+(i\d+)\s+(.+)$", rhs)
        if m:
            w = width(m.group(1))
            return self.define(dst, w, self.val(m.group(2), w))
        m = re.match(r"(?:tail\s+)?call\s+(i\d+)\s+@llvm\.(umin|umax|smin|smax)\.i\d+\((i\d+)\s+([^,]+),\s*(i\d+)\s+([^)]+)\)", rhs)
        if m:
            t, op, _, a, _, b = m.groups()
            w = width(t)
            x, y = self.val(a, w), self.val(b, w)
            cmp_ = {"umin": "BitVec.ult %s %s", "umax": "BitVec.ult %s %s",
                    "smin": "BitVec.slt %s %s", "smax": "BitVec.slt %s %s"}[op]
            if op in ("umin", "smin"):
                e = "(if %s then %s else %s)" % (cmp_ % (x, y), x, y)
            else:
                e = "(if %s then %s else %s)" % (cmp_ % (x, y), y, x)
            return self.define(dst, w, e)
        m = re.match(r"phi\s+(i\d+)\s+(.*)$", rhs)
        if m:
            w = width(m.group(1))
            inc = re.findall(r"\[\s*([^,\]]+),\s*(%[\w.]+)\s*\]", m.group(2))
            if not inc:
                raise TranslateError("bad phi")
            expr = None
            for v, frm in reversed(inc):
                key = (frm, label)
                if key not in edges:
                    raise TranslateError("phi from non-predecessor %s" % frm)
                x = self.val(v, w)
                expr = x if expr is None else "(if %s then %s else %s)" % (edges[key], x, expr)
            return self.define(dst, w, expr)
        raise TranslateError("unsupported instruction: %s = %s" % (dst, rhs))


def translate(text, namespace="Mustache.Gen"):
    fns = parse(text)
    if not fns:
        raise TranslateError("no functions found")
    out = ["/-! GENERATED by tools/ir2lean.py from the LLVM IR of harness/wrappers.cpp compiled against the",
           "    current /repo/src. Do not edit: regenerated on every run. -/",
           "set_option linter.unusedVariables false", "namespace " + namespace, ""]
    names = []
    for fn in fns:
        em = Emit(fn)
        res, rw = em.translate()
        params = " ".join("(%s : BitVec %d)" % (lean_name(n), width(t)) for t, n in fn.args)
        out.append("def %s %s : BitVec %d :=" % (fn.name, params, rw))
        out.extend(em.lines)
        out.append("  " + res)
        out.append("")
        # definedness: re-emit the lets so that the Bool conditions can mention them
        out.append("def %s_defined %s : Bool :=" % (fn.name, params))
        if em.ub:
            out.extend(em.lines)
            out.append("  " + " && ".join(em.ub))
        else:
            out.append("  true")
        out.append("")
        names.append((fn.name, [width(t) for t, _ in fn.args], rw))
    out.append("end " + namespace)
    return "\n".join(out) + "\n", names


if __name__ == "__main__":
    src = open(sys.argv[1]).read()
    try:
        lean, names = translate(src)
    except TranslateError as e:
        print("TRANSLATE-ERROR:", e, file=sys.stderr)
        sys.exit(3)
    if len(sys.argv) > 2:
        open(sys.argv[2], "w").write(lean)
    else:
        sys.stdout.write(lean)

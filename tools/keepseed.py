#!/usr/bin/env python3
"""copy a confirmed seeded change into /verif/seeded/<PROP>-<k>/ (patch.diff, demo.cpp, meta.json incl. what was run here)"""
import json, os, shutil, sys
src = os.path.abspath(sys.argv[1])
meta = json.load(open(os.path.join(src, "meta.json")))
res = json.load(open(os.path.join(src, "result.json")))
root = os.path.join(os.path.dirname(os.path.dirname(os.path.abspath(__file__))), "seeded")
os.makedirs(root, exist_ok=True)
k = 1
while os.path.exists(os.path.join(root, "%s-%d" % (meta["property"], k))):
    k += 1
dst = os.path.join(root, "%s-%d" % (meta["property"], k))
os.makedirs(dst)
for f in ("patch.diff", "demo.cpp"):
    shutil.copy(os.path.join(src, f), dst)
meta["lead_verification"] = {
    "ran": "tools/seedtest.py: scratch worktree of /repo HEAD; cmake build + mustache_test with the change; demo with/without the change; "
           "checks with VERIF_REPO=<worktree>",
    "tests_pass_with_change": res.get("tests_pass_with_change"), "demo_without_change_rc": res.get("demo_without_change_rc"),
    "demo_with_change_rc": res.get("demo_with_change_rc"), "confirmed": res.get("confirmed"),
    "checks": {p: {"caught": v["caught"], "lines": v["lines"]} for p, v in res.get("checks", {}).items()},
}
json.dump(meta, open(os.path.join(dst, "meta.json"), "w"), indent=1)
print(dst, {p: v["caught"] for p, v in res.get("checks", {}).items()})

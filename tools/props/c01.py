"""C01 - world-model property (DESIGN.md section 4, ### C01): correspondence of harness/world_driver.cpp with the Lean world
model (tie) and with the Lean world spec (property oracle) on corpus + generated op files; theorems in lean/Mustache/Props/C01.lean."""
from props import world_common as wc

HARNESSES = wc.HARNESSES
LEVEL_WITHOUT_PROOF = "other"

CFG = dict(
    mix=dict(create=5, destroynow=3, destroy=2, update=1, cleararch=1, lock=1, unlock=1, query=2, dump=1, parjob=1),
    corpus=[x for x in "C01".split(",")],
    n_quick=500, n_thorough=6000, len=(8, 45),
    gen=dict(lock_bias=0.2, max_threads=4, malformed=0.15),
    exhaustive=wc.stress_parallel_creates,
    impl_only=wc.stress_impl_only,
    what="id table, free list, validity of every handle ever issued after every step (dump), locked creation from several scripted dispatcher threads",
)


def run(ctx):
    wc.run_world_check(ctx, CFG)

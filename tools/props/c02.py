"""C02 - world-model property (DESIGN.md section 4, ### C02): correspondence of harness/world_driver.cpp with the Lean world
model (tie) and with the Lean world spec (property oracle) on corpus + generated op files; theorems in lean/Mustache/Props/C02.lean."""
from props import world_common as wc

HARNESSES = wc.HARNESSES
LEVEL_WITHOUT_PROOF = "other"
# Props/Refinement.lean: step_refines / flush_refines / run_refines - every history of the world model (WM.step) behaves like
# the abstract spec (WS.step), including the outermost unlock (the pack fold = the commands applied one by one)
EXTRA_PROPS = ["Refinement"]

CFG = dict(
    mix=dict(create=4, assign=4, assign0=2, remove=3, build=3, destroynow=2, destroy=1, update=1, clone=1, cleararch=1, query=1, lock=1, unlock=1, dump=1, clear=0.2, createin=1, sassign=1, sremove=0.5, latescn=0.5),
    corpus=[x for x in "C02,C03".split(",")],
    n_quick=500, n_thorough=6000, len=(8, 45),
    gen=dict(lock_bias=0.12, storagecap=2, ndeps=2, shared=True),
    what="component values per entity after every structural change, archetype membership and row positions; storage-chunk capacity 2 so that chunk boundaries are crossed",
)


def run(ctx):
    wc.run_world_check(ctx, CFG)

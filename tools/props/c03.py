"""C03 - world-model property (DESIGN.md section 4, ### C03): correspondence of harness/world_driver.cpp with the Lean world
model (tie) and with the Lean world spec (property oracle) on corpus + generated op files; theorems in lean/Mustache/Props/C03.lean."""
from props import world_common as wc

HARNESSES = wc.HARNESSES
LEVEL_WITHOUT_PROOF = "other"
# Props/C03.lean: callback / live-count bookkeeping; Props/C03Life.lean: the lifecycle EVENT model (WM.events) and the theorem that
# every step's event log is accepted by the per-slot live/dead automaton (step_events_accepted, run_events_accepted,
# teardown_leaves_nothing); the event counts of the instrumented types are compared with the implementation op by op (EV lines)
EXTRA_PROPS = ["C03Life"]

CFG = dict(
    mix=dict(create=4, assign=4, assign0=3, remove=3, build=3, destroynow=2, destroy=1, update=1, clone=1, cleararch=1, lock=1, unlock=1, dump=1),
    corpus=[x for x in "C03,C05".split(",")],
    n_quick=500, n_thorough=6000, len=(8, 45),
    gen=dict(lock_bias=0.15, letters='BCDFGH', ndeps=1),
    # per-op lifecycle counts of the instrumented types (constructs / move-constructs / move-assigns / destroys) printed by
    # the harness and by the model's event function `WM.events` (Model/Lifecycle.lean) and diffed line by line
    prelude="events on\n",
    what="instrumented component types: per-address live/dead state machine, live-instance counts, afterAssign/beforeRemove callbacks, teardown at the end of every file (also while locked with non-empty buffers)",
)


def run(ctx):
    wc.run_world_check(ctx, CFG)

"""C04 — iteration visits each selected entity exactly once, with its own data.

Tie:    harness/job_driver.cpp (real library) vs `driver iter` (Lean model Model/Iteration.lean), line by line.
Oracle: evaluated on the implementation's own output against a brute-force reference computed here
        (independent of the Lean model): exactly-once multiset of selected entities, own handle / data /
        optional / shared (checked in-process by the harness, reported as `E` lines), entity indices
        bijective, arrays in bounds and pairwise disjoint, no sanitizer report.
A configuration line *is* the failing input; shrinking reduces archetypes, populations, task count.
"""
import itertools
import os
import re
import time
from concurrent.futures import ThreadPoolExecutor

import vlib

HARNESSES = [("job_driver", "asan", ("-D_GLIBCXX_ASSERTIONS",))]

# component ids used on the model side
A, B, M1, M2, M3 = 0, 1, 2, 3, 4
KIND_MASK = {"a": [A], "s": [A], "b": [A, B], "t": [A, B], "c": [A, M1], "u": [A, M1], "d": [A, B, M2],
             "e": [A, M1, M2], "f": [A, B, M3], "n": [B], "m": [M1, M2], "o": [B, M3], "p": [M1], "-": None}
KIND_SHARED = {"s": [0], "t": [0], "u": [0], "p": [0]}
PLAIN_MATCHING = "abcdef"
SHARED_MATCHING = "stu"
NON_MATCHING = "nmo"
# kinds with the same unique mask share one version-chunk size (the size function is keyed by the mask)
SAME_MASK = {"s": "a", "t": "b", "u": "c"}
JOBS_PLAIN = ["idx", "nt", "arr", "ent", "opt", "plain"]
JOBS_SHARED = ["shr", "nts"]
ARRAY_JOBS = ("arr", "nt", "nts")
ENV = {"ASAN_OPTIONS": "detect_leaks=0:abort_on_error=0", "UBSAN_OPTIONS": "print_stacktrace=1"}


# ------------------------------------------------------------------------------------------------
# configurations
# ------------------------------------------------------------------------------------------------

def cfg_line(c):
    archs = ",".join("%s:%d:%s:%s:%d" % (k, n, "-" if cs is None else cs, pat, 1 if ex else 0)
                     for (k, n, cs, pat, ex) in c["archs"])
    line = "cfg id=%d cap=%d defcs=%d job=%s filter=%s mode=%s T=%s archs=%s" % (
        c["id"], c["cap"], c["defcs"], c["job"], c["filter"], c["mode"],
        "-" if c["T"] is None else c["T"], archs)
    if c.get("nreq"):
        line += " nreq=" + c["nreq"]
    if c.get("pre"):
        line += " pre=" + ";".join(c["pre"])
    if c.get("late"):
        line += " late=1"       # harness only: the archetypes exist but are empty during the `pre` runs
    return line


def parse_cfg_line(line):
    c = {"id": 0, "cap": 0, "defcs": 1024, "job": "idx", "filter": "none", "mode": "current", "T": None,
         "archs": []}
    ws = line.split()
    if not ws or ws[0] != "cfg":
        return None
    for w in ws[1:]:
        k, _, v = w.partition("=")
        if k in ("id", "cap", "defcs"):
            c[k] = int(v)
        elif k in ("job", "filter", "mode"):
            c[k] = v
        elif k == "T":
            c["T"] = None if v == "-" else int(v)
        elif k == "nreq":
            c["nreq"] = v
        elif k == "pre":
            c["pre"] = [x for x in v.split(";") if x]
        elif k == "late":
            c["late"] = v == "1"
        elif k == "archs":
            for item in v.split(","):
                if not item:
                    continue
                f = item.split(":")
                c["archs"].append((f[0], int(f[1]), None if f[2] == "-" else int(f[2]), f[3], f[4] == "1"))
    return c


DESC_ID = {"A": A, "B": B, "M": M1}


def observed_desc(c):
    """request list of the observed run of a NonTemplateJob (harness default when the cfg names none)"""
    return c.get("nreq") or ("AbS" if c["job"] == "nts" else "Ab")


def job_req(c):
    """(required component ids, required shared ids) of the OBSERVED run: a function of the current request
    list only, whatever the same job object was asked to do in earlier runs"""
    if c["job"] in ("nt", "nts"):
        d = observed_desc(c)
        return [DESC_ID[ch] for ch in d if ch in DESC_ID], ([0] if "S" in d else [])
    return ([A], [0]) if c["job"] in JOBS_SHARED else ([A], [])


def model_line(c, warchs, threads):
    req, reqs = job_req(c)
    parts = []
    for w in warchs:
        mask = KIND_MASK.get(w["kind"])
        if mask is None:       # archetype created as a side effect (always empty)
            mask = []
        sh = KIND_SHARED.get(w["kind"], [])
        parts.append("%s/%s/%d/%d/%d/%d/%s" % (
            ",".join(map(str, mask)) or "-", ",".join(map(str, sh)) or "-", w["size"], w["cs"], w["cap"],
            0 if w["excl"] else 1, w["pattern"]))
    return "cfg id=%d job=%s mode=%s T=%s threads=%d req=%s reqs=%s archs=%s" % (
        c["id"], c["job"], c["mode"], "-" if c["T"] is None else c["T"], threads,
        ",".join(map(str, req)), ",".join(map(str, reqs)) or "-", ";".join(parts))


# ------------------------------------------------------------------------------------------------
# running both sides
# ------------------------------------------------------------------------------------------------

def split_blocks(out):
    """stdout -> {id: [lines]} (lines up to and including `end <id>`), plus trailing incomplete lines"""
    res = {}
    cur = []
    for line in out.splitlines():
        cur.append(line)
        if line.startswith("end "):
            try:
                res[int(line.split()[1])] = cur
            except ValueError:
                pass
            cur = []
    return res, cur


MAX_CRASHES_PER_BATCH = 6


def run_harness(exe, cfgs, threads, timeout):
    """Returns {id: (lines, crash_text or None)}; a crashing configuration is isolated and the rest re-run.
    After MAX_CRASHES_PER_BATCH crashes the rest of the batch is not evaluated (absent from the result)."""
    results = {}
    todo = list(cfgs)
    crashes = 0
    while todo and crashes < MAX_CRASHES_PER_BATCH:
        inp = "\n".join(cfg_line(c) for c in todo) + "\n"
        rc, out, err = vlib.run([exe, str(threads)], inp=inp, timeout=timeout, env=ENV)
        blocks, tail = split_blocks(out)
        done = 0
        for c in todo:
            if c["id"] in blocks:
                results[c["id"]] = (blocks[c["id"]], None)
                done += 1
            else:
                break
        if done == len(todo):
            if rc != 0:      # all answered but the process still failed (exit-time report)
                results[todo[-1]["id"]] = (results[todo[-1]["id"]][0], "harness exit code %d\n%s" % (rc, err[-3000:]))
            break
        bad = todo[done]
        what = "TIMEOUT (harness hung)" if rc == -999 else "harness died (rc=%d)" % rc
        results[bad["id"]] = (tail, what + "\n" + err[-4000:])
        todo = todo[done + 1:]
        crashes += 1
        if rc == -999:       # a hang costs the whole timeout: give up on the rest of this batch
            break
    return results


def parse_w(lines):
    ws = []
    for l in lines:
        if l.startswith("W "):
            f = l.split()
            ws.append({"index": int(f[1]), "kind": f[2], "size": int(f[3]), "cs": int(f[4]), "cap": int(f[5]),
                       "pattern": f[6], "excl": f[7] == "1"})
    return ws


def run_model(drv, lines, timeout):
    rc, out, err = vlib.run([drv, "iter"], inp="\n".join(lines) + "\n", timeout=timeout)
    blocks, _ = split_blocks(out)
    return rc, blocks, err


# ------------------------------------------------------------------------------------------------
# reference + oracle (on the implementation's output only)
# ------------------------------------------------------------------------------------------------

def reference(c, warchs):
    """brute force: the (world archetype index, entity index) pairs the job must visit"""
    req, reqs = job_req(c)
    sel = []
    for w in warchs:
        mask = KIND_MASK.get(w["kind"])
        if mask is None or w["excl"] or w["size"] == 0:
            continue
        if not all(x in mask for x in req) or not all(x in KIND_SHARED.get(w["kind"], []) for x in reqs):
            continue
        pat = w["pattern"]
        for j in range(w["size"]):
            ch = j // w["cs"]
            if ch < len(pat) and pat[ch] == "1":
                sel.append((w["index"], j))
    return sel


def expected_T(c, n, threads):
    if c["mode"] == "current":
        return 1
    t = c["T"] if c["T"] is not None else min(n, threads + 1)
    return max(1, t)


def oracle(c, lines, crash, warchs, threads):
    """Returns a list of property failures observed on the implementation (empty = property holds here)."""
    fails = []
    if crash:
        first = crash.strip().splitlines()
        summ = [l for l in first if "SUMMARY" in l or "runtime error" in l or "Assertion" in l or "TIMEOUT" in l]
        fails.append("failed observation: " + (summ[0] if summ else first[0] if first else "crash"))
        return fails
    errs = [l for l in lines if l.startswith("E ")]
    for e in errs[:3]:
        fails.append("harness check: " + e[2:])
    sel = reference(c, warchs)
    n = len(sel)
    rline = [l for l in lines if l.startswith("R ")]
    if n == 0:
        if rline:
            fails.append("job ran although nothing is selected: " + rline[0])
        return fails
    if not rline:
        fails.append("job did not run although %d entities are selected" % n)
        return fails
    m = re.match(r"R (\d+) total=(\d+) T=(\d+)", rline[0])
    total, T = int(m.group(2)), int(m.group(3))
    if total != n:
        fails.append("job size %d but %d entities are selected" % (total, n))
    if T != expected_T(c, n, threads):
        fails.append("task count %d, expected %d" % (T, expected_T(c, n, threads)))
    sizes = {}
    for l in lines:
        if l.startswith("K "):
            f = l.split()
            if int(f[1]) in sizes:
                fails.append("task %s begun twice" % f[1])
            sizes[int(f[1])] = int(f[2])
    if sorted(sizes) != list(range(T)):
        fails.append("tasks begun %r, expected 0..%d" % (sorted(sizes), T - 1))
    if sum(sizes.values()) != n:
        fails.append("task sizes sum to %d, expected %d" % (sum(sizes.values()), n))
    size_of = {w["index"]: w["size"] for w in warchs}
    visited = []
    eidx = []
    per_task = {}
    if c["job"] in ARRAY_JOBS:
        for l in lines:
            if not l.startswith("A "):
                continue
            f = l.split()
            t = int(f[1])
            for item in f[2:]:
                a, first, ln, ei, it = map(int, item.split(","))
                if ln < 1:
                    fails.append("empty array handed out")
                if first + ln > size_of.get(a, 0):
                    fails.append("array (%d,%d,%d) out of bounds" % (a, first, ln))
                visited.extend((a, j) for j in range(first, first + ln))
                eidx.extend(range(ei, ei + ln))
                per_task[t] = per_task.get(t, 0) + ln
    else:
        for l in lines:
            if not l.startswith("I "):
                continue
            f = l.split()
            t = int(f[1])
            for item in f[2:]:
                a, j, ei, it = item.split(",")
                visited.append((int(a), int(j)))
                if ei != "-":
                    eidx.append(int(ei))
                per_task[t] = per_task.get(t, 0) + 1
    if sorted(visited) != sorted(sel):
        vs, ss = {}, set(sel)
        for v in visited:
            vs[v] = vs.get(v, 0) + 1
        missing = [v for v in sel if v not in vs]
        twice = [v for v, k in vs.items() if k > 1]
        extra = [v for v in vs if v not in ss]
        fails.append("visited multiset differs from the selected set: missing=%r twice=%r foreign=%r"
                     % (missing[:4], twice[:4], extra[:4]))
    if c["job"] != "plain" and sorted(eidx) != list(range(n)):
        fails.append("entity indices are not a bijection onto 0..%d: %r" % (n - 1, sorted(eidx)[:12]))
    for t, k in per_task.items():
        if sizes.get(t) != k:
            fails.append("task %d announced size %r but visited %d" % (t, sizes.get(t), k))
    return fails


INTERNALS = True     # False when the harness had to be built with -DVERIF_NO_INTERNALS (no `B` lines)


def tie_diff(lines, mlines):
    a = [l for l in lines if l[:2] not in ("W ", "E ")]
    b = list(mlines)
    if not INTERNALS:
        a = [l for l in a if not l.startswith("B")]
        b = [l for l in b if not l.startswith("B")]
    if a == b:
        return None
    for i in range(max(len(a), len(b))):
        x = a[i] if i < len(a) else "<missing>"
        y = b[i] if i < len(b) else "<missing>"
        if x != y:
            return "line %d: impl `%s` model `%s`" % (i, x[:300], y[:300])
    return "differ"


# ------------------------------------------------------------------------------------------------
# generators
# ------------------------------------------------------------------------------------------------

def patterns(size, cs):
    chunks = 0 if size == 0 else (size - 1) // cs + 1
    return ["".join(p) for p in itertools.product("01", repeat=chunks)] if chunks else ["-"]


def n_selected(archs, job="idx", nreq=None):
    n = 0
    req, reqs = job_req({"job": job, "nreq": nreq})
    for (k, size, cs, pat, ex) in archs:
        if ex or not all(x in (KIND_MASK[k] or []) for x in req):
            continue
        if reqs and k not in KIND_SHARED:
            continue
        for j in range(size):
            ch = j // cs
            if pat == "*" or (ch < len(pat) and pat[ch] == "1"):
                n += 1
    return n


class Gen:
    def __init__(self, rng):
        self.rng = rng
        self.next_id = 1
        self.rot = 0

    def mk(self, archs, cap, T, mode, job=None, filt=None, defcs=None, nreq=None, pre=None):
        """archs: [(kind, size, cs, pattern, excl)] with explicit cs"""
        self.rot += 1
        has_shared = any(k in KIND_SHARED for (k, _, _, _, _) in archs)
        if job is None:
            if has_shared and self.rot % 3 == 0:
                job = JOBS_SHARED[(self.rot // 3) % 2]
            else:
                job = JOBS_PLAIN[self.rot % len(JOBS_PLAIN)]
        if filt is None:
            filt = ("extra", "ver", "extra")[self.rot % 3]
        if all(p == "*" for (_, _, _, p, _) in archs) and self.rot % 2:
            filt = "none"
        # version-chunk size: one archetype (if any) takes the default, the others a size function
        if defcs is None:
            defcs = archs[self.rot % len(archs)][2] if archs else 3
        out = []
        for (k, n, cs, pat, ex) in archs:
            out.append((k, n, None if cs == defcs else cs, pat, ex))
        c = {"id": self.next_id, "cap": cap, "defcs": defcs, "job": job, "filter": filt, "mode": mode, "T": T,
             "archs": out}
        if nreq:
            c["nreq"] = nreq
        if pre:
            c["pre"] = list(pre)
        self.next_id += 1
        return c


# request lists of a NonTemplateJob: A/B/M required, a/b optional, S shared, "0" = empty list
PRE_DESCS = [(x + y + z + w) or "0" for x in ("A", "a", "") for y in ("B", "b", "") for z in ("M", "")
             for w in ("S", "")]
OBS_DESCS = ["A" + y + z + w for y in ("B", "b", "") for z in ("M", "") for w in ("S", "")]


def rerun_family(gen, thorough):
    """one job object run several times with a changed description: the observed run must select by its
    CURRENT request list (requirement added / dropped / required <-> optional / shared added / dropped)"""
    out = []
    worlds = [
        [("a", 3, 2, "*", False), ("b", 2, 2, "*", False), ("c", 2, 2, "*", False), ("d", 1, 2, "*", False),
         ("n", 2, 2, "*", False), ("s", 2, 2, "*", False), ("t", 1, 2, "*", False), ("u", 2, 2, "*", False)],
        [("b", 4, 3, "*", False), ("a", 5, 3, "*", False), ("m", 1, 3, "*", False), ("e", 2, 3, "*", False),
         ("t", 3, 3, "*", False)],
    ]
    k = 0
    for wi, world in enumerate(worlds):
        for obs in OBS_DESCS:
            job = "nts" if "S" in obs else "nt"
            n = n_selected(world, job, obs)
            for pre in PRE_DESCS:
                k += 1
                T = (1, 2, n + 1, None, 3)[k % 5]
                filt = ("none", "extra", "ver")[k % 3]
                mode = ("parallel", "current", "single")[(k // 3) % 3]
                d = obs if k % 4 else obs[::-1]          # the order of the requests must not matter
                out.append(gen.mk(world, 2 + wi, T, mode, job=job, filt=filt, defcs=2 + wi, nreq=d, pre=[pre]))
    rng = gen.rng
    for _ in range(1500 if thorough else 250):
        world = worlds[rng.randint(0, 1)]
        obs = rng.choice(OBS_DESCS)
        job = "nts" if "S" in obs else "nt"
        pres = [rng.choice(PRE_DESCS) for _ in range(rng.randint(2, 3))]
        n = n_selected(world, job, obs)
        out.append(gen.mk(world, rng.choice([1, 2, 3]), rng.choice([None, 1, 2, n, n + 1]),
                          rng.choice(["parallel", "current", "single"]), job=job,
                          filt=rng.choice(["none", "extra", "ver"]), defcs=2, nreq=obs, pre=pres))
    # typed jobs cannot change their signature; the same object is simply run again
    for job in JOBS_PLAIN + JOBS_SHARED:
        for T in (1, 3, None):
            out.append(gen.mk(worlds[0], 2, T, "parallel", job=job, filt="none", defcs=2, pre=["x"]))
            out.append(gen.mk(worlds[1], 3, T, "single", job=job, filt="ver", defcs=3, pre=["x", "x"]))
            # ... and it ran before while every archetype was still empty
            out.append(dict(gen.mk(worlds[0], 2, T, "current", job=job, filt="extra", defcs=2, pre=["x"]), late=True))
            out.append(dict(gen.mk(worlds[1], 3, T, "parallel", job=job, filt="ver", defcs=3, pre=["x"]), late=True))
    return out


def exhaustive_small(gen, thorough):
    """small-scope enumeration: every population / chunk size / capacity / dirty pattern / task count / mode"""
    out = []
    modes = ("parallel", "single")
    # E1: one matching archetype (sometimes behind a non-matching one)
    max1 = 9 if thorough else 7
    for size in range(0, max1 + 1):
        for cs in ((1, 2, 3, 4) if thorough else (1, 2, 3)):
            for pat in patterns(size, cs):
                n = n_selected([("a", size, cs, pat, False)])
                for cap in ((1, 2, 3, 4, 5) if thorough else (1, 2, 3, 4)):
                    if n == 0:
                        out.append(gen.mk([("a", size, cs, pat, False)], cap, 1, "parallel"))
                        continue
                    out.append(gen.mk([("a", size, cs, pat, False)], cap, None, "current"))
                    for T in list(range(1, n + 2)) + [n + 3]:
                        for mode in modes:
                            archs = [("a", size, cs, pat, False)]
                            if (T + cap) % 4 == 0:
                                archs = [("n", 2, cs, "*", False)] + archs
                            out.append(gen.mk(archs, cap, T, mode))
    # E2: two matching archetypes with a non-matching one between them
    lim2 = 6 if thorough else 5
    kinds2 = [("a", "b"), ("b", "s"), ("c", "a")]
    for s1 in range(1, lim2 + 1):
        for s2 in range(1, lim2 + 1):
            for (c1, c2) in (((1, 1), (1, 2), (2, 1), (2, 2), (3, 2), (2, 3), (3, 3)) if thorough
                             else ((1, 2), (2, 1), (2, 2), (3, 2), (1, 3))):
                for p1 in patterns(s1, c1):
                    for p2 in patterns(s2, c2):
                        k1, k2 = kinds2[(s1 + s2 + c1) % 3]
                        base = [(k1, s1, c1, p1, False), ("n", 1, 2, "*", False), (k2, s2, c2, p2, False)]
                        n = n_selected(base)
                        if n == 0:
                            continue
                        for cap in ((1, 2, 3, 4) if thorough else (1, 2, 3)):
                            for T in range(1, n + 2):
                                out.append(gen.mk(base, cap, T, modes[(T + cap) % 2]))
    # E3: three matching archetypes
    for s1 in range(1, 4):
        for s2 in range(0, 4):
            for s3 in range(1, 4):
                for (ca, cb) in (((1, 1), (2, 1), (1, 2), (2, 2), (3, 2)) if thorough else ((2, 2), (2, 1), (1, 2))):
                    for p1 in patterns(s1, ca):
                        for p2 in patterns(s2, cb):
                            for p3 in patterns(s3, ca):
                                base = [("a", s1, ca, p1, False), ("b", s2, cb, p2, False),
                                        ("m", 2, 1, "*", False), ("d", s3, ca, p3, False)]
                                n = n_selected(base)
                                if n == 0:
                                    continue
                                for cap in ((1, 2, 3) if thorough else (2,)):
                                    for T in range(1, n + 2):
                                        out.append(gen.mk(base, cap, T, modes[T % 2]))
    return out


def random_cfg(gen, max_pop, max_archs, big=False):
    rng = gen.rng
    k = rng.randint(1, max_archs)
    pool = list(PLAIN_MATCHING + NON_MATCHING)
    rng.shuffle(pool)
    kinds = pool[:k]
    # shared kinds come last (their plain counterpart archetype is created on the way)
    for sk in rng.sample(list(SHARED_MATCHING + "p"), rng.randint(0, 2)):
        kinds.append(sk)
    cs_of = {}
    archs = []
    for kd in kinds:
        base = SAME_MASK.get(kd, kd)
        if base not in cs_of:
            cs_of[base] = rng.choice([1, 2, 3, 4, 5, 7, 8, 16, 64, 1000] if not big else [64, 256, 1000, 4096, 16384])
        cs = cs_of[base]
        r = rng.random()
        size = 0 if r < 0.07 else 1 if r < 0.15 else rng.randint(2, max_pop)
        chunks = 0 if size == 0 else (size - 1) // cs + 1
        mode = rng.random()
        if mode < 0.3:
            pat = "*"
        elif chunks == 0:
            pat = "-"
        else:
            p = rng.choice([0.1, 0.5, 0.9])
            pat = "".join("1" if rng.random() < p else "0" for _ in range(chunks))
        archs.append((kd, size, cs, pat, rng.random() < 0.08))
    cap = rng.choice([1, 2, 3, 4, 5, 8, 16, 33]) if not big else rng.choice([0, 0, 4096, 1000, 16384])
    def draw_T(n):
        r = rng.random()
        if r < 0.15:
            return None
        if r < 0.3:
            return n + 1
        if r < 0.4:
            return n
        if r < 0.45:
            return n + rng.randint(2, 9)
        if r < 0.5:
            return 0
        return rng.randint(1, max(1, min(n, 40 if big else n)))

    T = draw_T(n_selected(archs))
    mode = rng.choice(["current", "parallel", "parallel", "single"])
    c = gen.mk(archs, cap, T, mode)
    if c["job"] in ("nt", "nts") and rng.random() < 0.6:
        # a run-time described job whose description changed since its earlier runs
        c["nreq"] = rng.choice([d for d in OBS_DESCS if ("S" in d) == (c["job"] == "nts")])
        c["pre"] = [rng.choice(PRE_DESCS) for _ in range(rng.randint(0, 2))]
        c["T"] = draw_T(n_selected(archs, c["job"], c["nreq"]))
    elif rng.random() < 0.1 and not big:
        c["pre"] = ["x"]
    if c.get("pre") and rng.random() < 0.5:
        c["late"] = True        # the same job object ran while the archetypes were still empty
    return c


def corpus_cfgs(gen):
    out = []
    d = os.path.join(vlib.VERIF, "corpus", "C04")
    if os.path.isdir(d):
        for f in sorted(os.listdir(d)):
            if f.endswith(".ops"):
                for line in open(os.path.join(d, f)):
                    line = line.strip()
                    if line and not line.startswith("#"):
                        c = parse_cfg_line(line)
                        if c:
                            c["id"] = gen.next_id
                            gen.next_id += 1
                            c["src"] = f
                            out.append(c)
    return out


# ------------------------------------------------------------------------------------------------
# evaluation of a batch
# ------------------------------------------------------------------------------------------------

def batch_timeout(cfgs):
    ents = sum(sum(a[1] for a in c["archs"]) for c in cfgs)
    return 30 + 0.01 * len(cfgs) + ents / 20000.0


def eval_batch(exe, drv, cfgs, threads, timeout=None):
    """Returns list of (cfg, oracle fails, tie diff or None, warchs, impl lines)."""
    if timeout is None:
        timeout = batch_timeout(cfgs)
    hres = run_harness(exe, cfgs, threads, timeout)
    mlines = []
    info = {}
    cfgs = [c for c in cfgs if c["id"] in hres]      # the rest was cut off after repeated crashes
    for c in cfgs:
        lines, crash = hres[c["id"]]
        w = parse_w(lines)
        info[c["id"]] = (lines, crash, w)
        if not crash:
            mlines.append(model_line(c, w, threads))
    rc, mblocks, merr = run_model(drv, mlines, max(timeout, 120)) if mlines else (0, {}, "")
    out = []
    for c in cfgs:
        lines, crash, w = info[c["id"]]
        fails = oracle(c, lines, crash, w, threads)
        tie = None
        if not crash:
            if c["id"] not in mblocks:
                tie = "model produced no output (rc=%d) %s" % (rc, merr[-300:])
            else:
                tie = tie_diff(lines, mblocks[c["id"]])
        out.append((c, fails, tie, w, lines))
    return out


def classify(c, w, lines):
    """feature tags of one evaluated configuration (for the evidence histograms)"""
    tags = []
    n = len(reference(c, w))
    T = c["T"]
    if c["mode"] == "current":
        tags.append("T:current")
    elif T is None:
        tags.append("T:default")
    elif T > n + 1:
        tags.append("T>N+1")
    elif T == n + 1:
        tags.append("T=N+1")
    elif T == n:
        tags.append("T=N")
    elif T <= 1:
        tags.append("T<=1")
    else:
        tags.append("1<T<N")
    tags.append("job:" + c["job"])
    if c.get("pre"):
        tags.append("reruns:%d" % len(c["pre"]))
        if c["job"] in ("nt", "nts"):
            obs = observed_desc(c)
            last = c["pre"][-1]
            if any(ch in last and ch not in obs for ch in "ABM"):
                tags.append("rerun:requirement_dropped")
            if any(ch in obs and ch not in last for ch in "ABM"):
                tags.append("rerun:requirement_added")
            if any(ch.upper() in last and ch in obs for ch in "ab") or any(ch in last and ch.upper() in obs for ch in "ab"):
                tags.append("rerun:required<->optional")
            if ("S" in last) != ("S" in obs):
                tags.append("rerun:shared_changed")
    tags.append("mode:" + c["mode"])
    tags.append("filter:" + c["filter"])
    matched = len({a for (a, _) in reference(c, w)})
    tags.append("matched_archs:%d" % min(matched, 4))
    if any(x["size"] > x["cap"] for x in w):
        tags.append("spans_storage_chunks")
    if any("01" in x["pattern"] or "10" in x["pattern"] for x in w):
        tags.append("partial_dirty")
    if any(x["kind"] in NON_MATCHING + "p" and x["size"] > 0 for x in w):
        tags.append("has_non_matching")
    if n == 0:
        tags.append("nothing_selected")
    return tags, n


# ------------------------------------------------------------------------------------------------
# shrinking
# ------------------------------------------------------------------------------------------------

def shrink(exe, drv, c, threads, want_oracle, budget=150, hang=False):
    """greedy reduction of a failing configuration; keeps the failure class (oracle / tie)"""
    if hang:
        budget = 12

    def failing(x):
        x = dict(x)
        x["id"] = 1
        r = eval_batch(exe, drv, [x], threads, timeout=min(20, batch_timeout([x])) if hang else None)
        if not r:
            return False
        r = r[0]
        return bool(r[1]) if want_oracle else (r[2] is not None and not r[1])

    cur = dict(c)
    steps = 0
    progress = True
    while progress and steps < budget:
        progress = False
        cands = []
        archs = cur["archs"]
        for i in range(len(archs)):
            cands.append(dict(cur, archs=archs[:i] + archs[i + 1:]))
        for i, (k, n, cs, pat, ex) in enumerate(archs):
            for n2 in sorted({0, 1, n // 2, n - 1}):
                if 0 <= n2 < n:
                    eff = cs if cs is not None else cur["defcs"]
                    chunks = 0 if n2 == 0 else (n2 - 1) // eff + 1
                    p2 = pat if pat == "*" else (pat[:chunks] or "-")
                    cands.append(dict(cur, archs=archs[:i] + [(k, n2, cs, p2, ex)] + archs[i + 1:]))
            if pat not in ("*", "-"):
                cands.append(dict(cur, archs=archs[:i] + [(k, n, cs, "*", ex)] + archs[i + 1:]))
            if ex:
                cands.append(dict(cur, archs=archs[:i] + [(k, n, cs, pat, False)] + archs[i + 1:]))
        if cur["T"] is not None:
            for t2 in sorted({1, cur["T"] // 2, cur["T"] - 1}):
                if 1 <= t2 < cur["T"]:
                    cands.append(dict(cur, T=t2))
        if cur.get("late"):
            cands.append(dict(cur, late=False))
        pre = cur.get("pre") or []
        for i in range(len(pre)):
            cands.append(dict(cur, pre=pre[:i] + pre[i + 1:]))
        for i, d in enumerate(pre):
            for j in range(len(d)):
                if len(d) > 1:
                    cands.append(dict(cur, pre=pre[:i] + [d[:j] + d[j + 1:]] + pre[i + 1:]))
        nr = cur.get("nreq")
        if nr:
            for j in range(len(nr)):
                if nr[j] != "A" and not (nr[j] == "S" and cur["job"] == "nts"):
                    cands.append(dict(cur, nreq=nr[:j] + nr[j + 1:]))
        if cur["mode"] == "single":
            cands.append(dict(cur, mode="parallel"))
        if cur["filter"] == "ver":
            cands.append(dict(cur, filter="extra"))
        if cur["filter"] == "extra" and all(p == "*" for (_, _, _, p, _) in archs):
            cands.append(dict(cur, filter="none"))
        if cur["cap"] not in (0, 1):
            cands.append(dict(cur, cap=0))
        for cand in cands:
            steps += 1
            if steps > budget:
                break
            try:
                if failing(cand):
                    cur = cand
                    progress = True
                    break
            except Exception:  # noqa: BLE001
                continue
    cur["id"] = 1
    return cur


# ------------------------------------------------------------------------------------------------
# entry point
# ------------------------------------------------------------------------------------------------

def build(ctx):
    defs = ("-D_GLIBCXX_ASSERTIONS",)
    try:
        return ctx.harness("job_driver", "asan", defs), True
    except vlib.BuildError as first:
        try:
            exe = ctx.harness("job_driver", "asan", defs + ("-DVERIF_NO_INTERNALS",))
        except vlib.BuildError:
            raise first
        ctx.assume("harness built with -DVERIF_NO_INTERNALS: filter blocks (`B` lines) not observed")
        return exe, False


# open known findings (known_findings.txt: `open: property=C04 key=<key> ...`): which failures they explain and
# which configurations the generators then avoid. A finding explains a failure only if BOTH the configuration
# matches its call pattern and the failure message is the one recorded.
KNOWN = {
    # more tasks than selected entities -> ArchetypeGroup constructor reads filtered_archetypes[size]
    "archetype-group-oob": (
        lambda c, n: c["mode"] != "current" and c["T"] is not None and c["T"] > n,
        lambda msg: "task_view.hpp" in msg and "ArchetypeGroup" in msg),
    # job argument is a shared component and an array holds >= 2 entities
    "shared-handler-index": (
        lambda c, n: c["job"] in JOBS_SHARED,
        lambda msg: "shared component is not the archetype's instance" in msg or
        ("component_handler.hpp" in msg) or ("job_driver.cpp" in msg and "heap-buffer-overflow" in msg)),
    # typed forEachArray: invocation index not advanced between the arrays of a task
    "foreacharray-index": (
        lambda c, n: c["job"] == "arr",
        lambda msg: "entity indices are not a bijection" in msg),
}


def known_key(ctx, c, n, fails):
    for key, (pred, match) in KNOWN.items():
        if key in ctx.open_known and pred(c, n) and all(match(f) for f in fails):
            return key
    return None


def run(ctx):
    global INTERNALS
    t0 = time.time()
    exe, internals = build(ctx)
    INTERNALS = internals
    _run(ctx, exe, ctx.driver(), internals, t0)     # vlib hands out a private copy of the driver binary


def _run(ctx, exe, drv, internals, t0):
    gen = Gen(ctx.rng)
    threads_default = 3
    open_keys = [k for k in KNOWN if k in ctx.open_known]

    def avoided(c):
        n = n_selected([(k, sz, cs if cs is not None else c["defcs"], pat, ex) for (k, sz, cs, pat, ex) in c["archs"]],
                       c["job"], c.get("nreq"))
        return any(KNOWN[k][0](c, n) for k in open_keys)

    work = []     # (label, threads, [cfgs])
    if getattr(ctx, "replay", None):
        cf = []
        for line in open(ctx.replay):
            c = parse_cfg_line(line.strip())
            if c:
                c["id"] = gen.next_id
                gen.next_id += 1
                cf.append(c)
        work.append(("replay", threads_default, cf))
    else:
        corp = corpus_cfgs(gen)
        if corp:
            work.append(("corpus", threads_default, corp))
        for key in open_keys:
            f = os.path.join(vlib.VERIF, "known", key + ".ops")
            if os.path.exists(f):
                kc = []
                for line in open(f):
                    c = parse_cfg_line(line.strip())
                    if c:
                        c["id"] = gen.next_id
                        gen.next_id += 1
                        kc.append(c)
                work.append(("known", threads_default, kc))
        small = exhaustive_small(gen, ctx.thorough)
        bs = 2000
        for i in range(0, len(small), bs):
            work.append(("exhaustive", threads_default, small[i:i + bs]))
        rer = rerun_family(gen, ctx.thorough)
        for i in range(0, len(rer), 400):
            work.append(("rerun", threads_default, rer[i:i + 400]))
        nrand = 300000 if ctx.thorough else 6000
        rnd = [random_cfg(gen, 40, 4) for _ in range(nrand)]
        for i in range(0, len(rnd), 1000):
            work.append(("random", (1, 2, 3, 7)[(i // 1000) % 4] if ctx.thorough else threads_default,
                         rnd[i:i + 1000]))
        nmid = 6000 if ctx.thorough else 120
        mid = [random_cfg(gen, 600, 5) for _ in range(nmid)]
        for i in range(0, len(mid), 30):
            work.append(("random-mid", threads_default, mid[i:i + 30]))
        if ctx.thorough:
            bigs = [random_cfg(gen, 50000, 3, big=True) for _ in range(150)]
            # the real 16384 storage-chunk boundary, populations straddling it
            for (size, cs, T) in ((16384, 1000, 3), (16385, 4096, 5), (32769, 16384, 7), (50000, 1024, 9),
                                  (16383, 64, 2), (40000, 16384, 40001), (49999, 16384, 17)):
                for job in ("nt", "idx", "arr"):
                    bigs.append(gen.mk([("a", size, cs, "*", False), ("b", 20000, cs, "*", False)], 0, T,
                                       "parallel", job=job))
            for i in range(0, len(bigs), 3):
                work.append(("large", threads_default, bigs[i:i + 3]))
        else:
            bigs = [gen.mk([("a", 16385, 4096, "*", False), ("b", 3, 2, "*", False)], 0, 3, "parallel", job="nt"),
                    gen.mk([("a", 20000, 1000, "0" * 15 + "11" + "0" * 3, False)], 0, 5, "parallel", job="idx",
                           filt="extra"),
                    gen.mk([("b", 33000, 16384, "*", False)], 0, 2, "single", job="arr")]
            work.append(("large", threads_default, bigs))
    skipped_known = 0
    if open_keys:
        for (label, _, cfgs) in work:
            if label not in ("known", "replay"):
                before = len(cfgs)
                cfgs[:] = [c for c in cfgs if not avoided(c)]
                skipped_known += before - len(cfgs)

    hist = {}
    evaluations = 0
    requested = sum(len(w[2]) for w in work)
    nontrivial = set()
    samples = []
    oracle_fail = []
    tie_fail = []

    state = {"fails": 0}

    def do(item):
        label, threads, cfgs = item
        if state["fails"] >= 40 and label not in ("corpus", "known", "replay"):
            return label, threads, []       # enough failing inputs: do not grind through a broken tree
        res = eval_batch(exe, drv, cfgs, threads)
        state["fails"] += sum(1 for r in res if r[1])
        return label, threads, res

    with ThreadPoolExecutor(max(2, min(10, vlib.NPROC - 4))) as ex:
        for (label, threads, res) in ex.map(do, work):
            for (c, fails, tie, w, lines) in res:
                evaluations += 1
                hist["family:" + label] = hist.get("family:" + label, 0) + 1
                n = 0
                if w:
                    tags, n = classify(c, w, lines)
                    for t in tags:
                        hist[t] = hist.get(t, 0) + 1
                    if n >= 2 and not fails and tie is None:
                        nontrivial.add(cfg_line(dict(c, id=0)))
                    if len(samples) < 6 and n >= 3 and evaluations % 997 == 1:
                        samples.append({"cfg": cfg_line(c), "impl": [l for l in lines if l[:1] in "RBKAI"][:8]})
                if fails:
                    key = known_key(ctx, c, n if w else n_selected(
                        [(k, sz, cs if cs is not None else c["defcs"], pat, ex) for (k, sz, cs, pat, ex) in c["archs"]],
                        c["job"], c.get("nreq")), fails)
                    if key:
                        ctx.known(key, "key=%s %s (%s)" % (key, fails[0][:160], cfg_line(c)))
                        hist["known:" + key] = hist.get("known:" + key, 0) + 1
                    else:
                        oracle_fail.append((c, fails, threads))
                elif tie is not None:
                    tie_fail.append((c, tie, threads))

    # report
    seen = set()
    for (c, fails, threads) in oracle_fail:
        key = re.sub(r"[\d\[\], ]+", "#", fails[0])[:60]
        if key in seen or len(seen) >= 5:
            continue
        seen.add(key)
        hang = "TIMEOUT" in fails[0]
        s = shrink(exe, drv, c, threads, True, hang=hang)
        r = eval_batch(exe, drv, [dict(s)], threads, timeout=20 if hang else None)
        msg = "; ".join((r[0][1] if r else None) or fails)
        ctx.violation(cfg_line(s) + "\n# harness threads=%d" % threads,
                      "property fails on the implementation: " + msg)
    if not oracle_fail and tie_fail:
        c, tie, threads = tie_fail[0]
        s = shrink(exe, drv, c, threads, False)
        r = eval_batch(exe, drv, [dict(s)], threads)
        ctx.violation(cfg_line(s) + "\n# harness threads=%d" % threads,
                      "correspondence Model/Iteration.lean <-> task_view.hpp/base_job.cpp/job.hpp broke (%d of %d "
                      "configurations differ; the property oracle holds on every one of the %d configurations run, "
                      "including the exhaustive small scope): %s" % (len(tie_fail), evaluations, evaluations,
                                                                     (r[0][2] if r else None) or tie),
                      no_input=True)

    ctx.cov(evaluations=evaluations, distinct_nontrivial=len(nontrivial),
            rule="distinct configurations with >= 2 selected entities on which implementation, Lean model and "
                 "brute-force reference agree",
            samples=samples, histogram=dict(sorted(hist.items())),
            exhaustive="exhaustive_small(): one matching archetype: populations 0..%d x version-chunk sizes x storage "
                       "capacities x EVERY dirty pattern x EVERY T in 1..N+1 (and N+3) x {parallel, single} + current; "
                       "two matching archetypes (+1 non-matching): populations 1..%d each, every pattern, every T in "
                       "1..N+1; three (+1 non-matching): populations 0..3, every pattern, every T in 1..N+1"
                       % ((9, 6) if ctx.thorough else (7, 5)),
            configurations_requested=requested, not_evaluated_after_crashes=requested - evaluations,
            skipped_for_open_findings=skipped_known,
            internals_observed=internals,
            oracle_failures=len(oracle_fail), tie_differences=len(tie_fail),
            trusted_base=["harness/job_driver.cpp (address->entity map, ownership checks)",
                          "tools/props/c04.py brute-force reference and oracle",
                          "differential tie covers the configurations run, the Lean theorems cover the model for all inputs",
                          "g++ -fsanitize=address,undefined, -D_GLIBCXX_ASSERTIONS on the harness TU",
                          "world-model row invariant (row i of an archetype holds entity i): checked here by the harness "
                          "per invocation, proved in the world model (C02)"],
            gen_s=round(time.time() - t0, 1))
    ctx.assume("total entity count < 2^32 (the model uses unbounded Nat)",
               "the callback does not change the set of selected entities while the job runs")

"""C05 - world-model property (DESIGN.md section 4, ### C05): correspondence of harness/world_driver.cpp with the Lean world
model (tie) and with the Lean world spec (property oracle) on corpus + generated op files; theorems in lean/Mustache/Props/C05.lean."""
from props import world_common as wc

HARNESSES = wc.HARNESSES
LEVEL_WITHOUT_PROOF = "other"
# Props/Refinement.lean: step_refines / flush_refines / run_refines - every history of the world model (WM.step) behaves like
# the abstract spec (WS.step), including the outermost unlock (the pack fold = the commands applied one by one)
EXTRA_PROPS = ["Refinement"]

CFG = dict(
    mix=dict(create=3, assign=3, assign0=1, remove=3, destroynow=2, destroy=1, build=2, lock=2, unlock=1, update=1, query=1, parjob=1),
    corpus=[x for x in "C05,C13".split(",")],
    n_quick=500, n_thorough=6000, len=(8, 45),
    gen=dict(lock_bias=0.35, max_threads=4, ndeps=1, malformed=0.15, shared=True, reassign=True),
    exhaustive=wc.stress_parallel_creates,
    impl_only=wc.stress_impl_only,
    what="locked sections with several commands per entity from several scripted dispatcher threads, nested locks, dump inside the locked section must equal the pre-lock snapshot",
)


def run(ctx):
    wc.run_world_check(ctx, CFG)

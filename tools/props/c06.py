"""C06 — parallel jobs split work disjointly, complete before run() returns, race-free.

Proof: lean/Mustache/Props/C06.lean — `wait_parallel_post` (barrier) and `lock_discipline` (access table of the
dispatcher model: one protection per variable, plain accesses by the owner only, ownership handed over only
along submit->pop and task-end->barrier edges).  The disjoint-split part is Props/C04.lean (`tasks_partition`).

Tie / validation (this module):
 (a) job-shaped scripts (submit T tasks; wait; repeat) on the real dispatcher, asan build, schedule-point trace
     accepted by the Lean model + oracle (shared with C08);
 (b) the same scripts on a ThreadSanitizer build without tracing: the waiter reads the tasks' plain results
     right after wait() — a report with a library frame is a failed observation;
 (c) ThreadSanitizer build of real parallel jobs (World + forEach kParallel) whose tasks write their components,
     issue deferred commands and trigger first-use registration, 1..32 workers and the default.
Partial by nature: TSan validates the model's access table on the schedules it sees; happens-before itself is the
C++ memory model (DESIGN section 6).
"""
import os
import re
from concurrent.futures import ThreadPoolExecutor

import vlib
from . import c08

# the race-freedom part of C06 is validated (TSan, traces), not proved: partial by nature (DESIGN.md section 6)
FORCE_LEVEL = "other"
HARNESSES = [("world_driver", "asan"), ("dispatch_driver", "asan"), ("dispatch_driver", "tsan"), ("parjob_driver", "tsan")]
CORPUS = os.path.join(vlib.VERIF, "corpus", "C06")

TSAN_ENV = {"TSAN_OPTIONS": "halt_on_error=0 report_signal_unsafe=0 second_deadlock_stack=1"}

KNOWN_REGISTRY = "registry-first-use-race"
KNOWN_BUFFERS = "temporal-storage-sized-by-cores"


def tsan_reports(err):
    """Split TSan stderr into reports; return list of (kind, [library frames 'file:line function'])."""
    out = []
    for blk in re.split(r"(?m)^==================$", err):
        m = re.search(r"(WARNING|ERROR): ThreadSanitizer: ([^\n(]+)", blk)
        if not m:
            continue
        frames = []
        for fm in re.finditer(r"#\d+ (.+?) (/\S*?/src/mustache/\S+?):(\d+)", blk):
            frames.append("%s:%s %s" % (fm.group(2).split("/src/mustache/")[-1], fm.group(3), fm.group(1)[:70]))
        out.append((m.group(2).strip(), frames))
    return out


def classify_report(frames):
    txt = " ".join(frames)
    if "ecs/component_factory.cpp" in txt:
        return KNOWN_REGISTRY                 # registration (getId) racing with a lookup / the growing info vector
    if re.search(r"ecs/temporal_storage", txt):
        return "buffers"
    if frames and frames[0].startswith("utils/dispatch"):
        return "dispatcher"                   # the racing access itself is in the dispatcher
    if frames:
        return "library:" + frames[0].split(":")[0]   # innermost library frame of the racing access
    return "other"


def job_script(rng, n, cores=None, trace=True):
    lines = ["seed %d" % rng.randrange(1, 1 << 30), "inject %d" % rng.choice([0, 50, 200, 500])]
    if not trace:
        lines.insert(0, "trace 0")
    if cores:
        lines.append("cores %d" % cores)
    lines.append("disp 0 %d" % n)
    for _ in range(rng.choice([1, 2, 4, 8])):
        # one job run: T tasks, T = min(entities, workers + 1) in the library; also explicit other counts
        T = rng.choice([1, 2, (n or 3) + 1, (n or 3) + 1, 2 * (n or 3), 40])
        lines.append("par 0 %d %d" % (T, rng.choice([0, 50, 500, 5000])))
        lines.append("wait 0 0")
    lines.append("destroy 0")
    return "\n".join(lines) + "\n"


def run_tsan_script(exe, script):
    try:
        rc, out, err = vlib.run([exe], inp=script, timeout=180, env=TSAN_ENV)
    except FileNotFoundError:   # build cache pruned by a concurrent check of another tree
        exe = vlib.build_harness("dispatch_driver", "tsan")
        rc, out, err = vlib.run([exe], inp=script, timeout=180, env=TSAN_ENV)
    reps = tsan_reports(err)
    bad = []
    if rc == -999:
        bad.append("timeout")
    if rc in (0, 66) and not any(l.startswith("O final") for l in out.splitlines()):
        bad.append("dispatcher harness did not reach the end of the script (rc=%d): %s" % (rc, err.strip()[-200:]))
    for l in out.splitlines():
        if l.startswith("O wait"):
            kv = c08.parse_kv(l)
            if kv["notdone"] != "0" or kv["bad_payload"] != "0" or kv["workers_running"] != "0":
                bad.append("barrier: " + l)
    return reps, bad, rc


def run_parjob(exe, args):
    try:
        rc, out, err = vlib.run([exe] + [str(a) for a in args], timeout=240, env=TSAN_ENV)
    except FileNotFoundError:
        exe = vlib.build_harness("parjob_driver", "tsan")
        rc, out, err = vlib.run([exe] + [str(a) for a in args], timeout=240, env=TSAN_ENV)
    reps = tsan_reports(err)
    bad = []
    if rc == -999:
        bad.append("timeout: a parallel job does not return")
    for l in out.splitlines():
        if l.startswith("round"):
            kv = c08.parse_kv(l)
            if kv["sum_ok"] != "1" or kv["visits"] != kv["alive"]:
                bad.append("after run(): " + l)
            if kv.get("marks_wrong", "0") != "0" or kv.get("marked_early", "0") != "0":
                bad.append("deferred destroy() issued by the tasks of a parallel job: %s entit(ies) are marked / not marked for destruction "
                           "contrary to what the tasks asked for, %s seen marked before the job returned: %s"
                           % (kv.get("marks_wrong"), kv.get("marked_early"), l))
            if kv.get("ntj_ok", "1") != "1":
                bad.append("run-time described job (NonTemplateJob): a requested component was not updated exactly once per entity, "
                           "or a component the job did not request was modified: " + l)
    nrounds = sum(1 for l in out.splitlines() if l.startswith("round"))
    if rc in (0, 66) and nrounds != int(args[2]):
        bad.append("parallel-job harness printed %d of %d rounds (rc=%d): %s" % (nrounds, int(args[2]), rc, err.strip()[-200:]))
    crashed = rc not in (0, 66) and rc != -999
    if crashed and not reps:
        bad.append("parallel job crashed rc=%d: %s" % (rc, err.strip().splitlines()[-1][:200] if err.strip() else ""))
    return reps, bad, rc


def run(ctx):
    rng = ctx.rng
    exe_asan = ctx.harness("dispatch_driver")
    drv = ctx.driver()
    exe_tsan = ctx.harness("dispatch_driver", variant="tsan")
    exe_job = ctx.harness("parjob_driver", variant="tsan")
    cores = os.cpu_count() or 4
    stats = {"violations": 0}
    evaluations = 0
    tsan_runs = 0
    tsan_report_count = 0
    workers_seen = set()
    report_kinds = {}
    samples = []

    if getattr(ctx, "replay", None):
        txt = "".join(l for l in open(ctx.replay) if not l.startswith("#"))
        first = txt.strip().splitlines()[0].split() if txt.strip() else []
        failed = None
        if first[:1] == ["parjob"]:
            for _ in range(10):
                reps, bad, rc = run_parjob(exe_job, first[1:])
                if reps or bad:
                    failed = "; ".join(bad + ["%s %s" % (k, f[:2]) for k, f in reps[:2]])
                    break
        elif txt.startswith("trace 0"):
            for _ in range(20):
                reps, bad, rc = run_tsan_script(exe_tsan, txt)
                if reps or bad:
                    failed = "; ".join(bad + ["%s %s" % (k, f[:2]) for k, f in reps[:2]])
                    break
        else:
            for _ in range(30):
                res = c08.run_script(exe_asan, drv, txt)
                if res.fail or res.tie:
                    failed = "; ".join((res.fail + res.tie)[:3])
                    break
        if failed:
            ctx.violation(txt, "replay fails: " + failed)
        ctx.cov(evaluations=1, rule="replay of %s" % ctx.replay)
        return

    # ---- (a) traces + oracle on job-shaped scripts (asan)
    wlist = list(range(1, 33)) if ctx.thorough else [1, 2, 3, 4, 8, 15, 16, 17, 32]
    scripts = []
    if os.path.isdir(CORPUS):
        for f in sorted(os.listdir(CORPUS)):
            if f.endswith(".ops"):
                scripts.append(open(os.path.join(CORPUS, f)).read())
    reps_per = 100 if ctx.thorough else 8
    for n in wlist:
        for _ in range(reps_per):
            scripts.append(job_script(rng, n))
    for c in ([1, 2, 5, 40] if ctx.thorough else [1, 40]):
        scripts.append(job_script(rng, 0, cores=c))
    total_events = 0
    with ThreadPoolExecutor(6) as ex:
        for script, res in zip(scripts, ex.map(lambda s: c08.run_script(exe_asan, drv, s), scripts)):
            evaluations += 1
            total_events += res.ntrace
            workers_seen.update(res.workers)
            if len(samples) < 3:
                samples.append({"kind": "trace", "script": script.strip().splitlines()[:10], "events": res.ntrace})
            if (res.fail or res.tie) and stats["violations"] < 3:
                c08.classify(ctx, exe_asan, drv, script, res, stats)

    # ---- (b) dispatcher under TSan (no tracing: the hook must not add synchronisation)
    tscripts = []
    for n in (wlist if ctx.thorough else [1, 2, 4, 16, 32]):
        for _ in range(60 if ctx.thorough else 10):
            tscripts.append(job_script(rng, n, trace=False))
    tscripts.append(job_script(rng, 0, cores=1, trace=False))
    with ThreadPoolExecutor(4) as ex:
        for script, (reps, bad, rc) in zip(tscripts, ex.map(lambda s: run_tsan_script(exe_tsan, s), tscripts)):
            tsan_runs += 1
            tsan_report_count += len(reps)
            lib = [(k, f) for (k, f) in reps if f]
            harness_only = [(k, f) for (k, f) in reps if not f]
            if (lib or bad or harness_only) and stats["violations"] < 3:
                what = bad + ["ThreadSanitizer: %s at %s" % (k, "; ".join(f[:3]) if f else
                              "the waiter's read of a task's result right after wait() (no library frame: the barrier gives no happens-before)")
                              for k, f in (lib + harness_only)[:3]]
                ctx.violation(script, "dispatcher is not race-free / barrier does not order the tasks' writes before the return of wait(): "
                              + " | ".join(what))
                stats["violations"] += 1
            for k, f in reps:
                report_kinds["dispatcher-script:" + k] = report_kinds.get("dispatcher-script:" + k, 0) + 1

    # ---- (c) real parallel jobs under TSan
    open_registry = KNOWN_REGISTRY in ctx.open_known
    open_buffers = KNOWN_BUFFERS in ctx.open_known
    jobs = []
    jw = (list(range(1, 33)) + [0]) if ctx.thorough else [1, 2, 4, 7, 15, 16, 24, 32, 0]
    for w in jw:
        for _ in range(80 if ctx.thorough else 10):
            eff = w if w else cores - 1
            if open_buffers and eff >= cores:
                continue                                   # avoid predicate of the open finding
            mode = rng.choice([1, 1, 3, 3, 2]) if not open_registry else rng.choice([0, 1, 1])
            cap = 0
            ents = rng.choice([300, 3000, 30000])
            if rng.random() < 0.5:
                # also a NonTemplateJob in parallel mode over {Bystander, Payload} and {Payload} (requested component at
                # different component indexes), small storage chunks so that every task walks several arrays
                mode |= 4
                cap = rng.choice([8, 64, 256])
                ents = rng.choice([300, 2000, 6000])
            jobs.append((w, ents, rng.choice([3, 6]), rng.randrange(1, 1 << 20), rng.choice([0, 100, 300]), mode, cap))
    # replays of the open findings (printed as KNOWN-FINDING while they still reproduce)
    known_jobs = []
    if open_registry:
        known_jobs.append((KNOWN_REGISTRY, (1, 3000, 3, 1, 100, 3, 0)))
    if open_buffers:
        known_jobs.append((KNOWN_BUFFERS, (cores + 8, 30000, 3, 1, 100, 1, 0)))
    with ThreadPoolExecutor(4) as ex:
        for args, (reps, bad, rc) in zip(jobs, ex.map(lambda a: run_parjob(exe_job, a), jobs)):
            tsan_runs += 1
            tsan_report_count += len(reps)
            workers_seen.add(args[0] if args[0] else cores - 1)
            kinds = {}
            for k, f in reps:
                c = classify_report(f)
                if c == "buffers":
                    c = KNOWN_BUFFERS if (args[0] or cores - 1) >= cores else "buffers"
                kinds.setdefault(c, []).append((k, f))
                report_kinds["job:" + c] = report_kinds.get("job:" + c, 0) + 1
            if rc not in (0, 66, -999) and not reps:
                kinds.setdefault(KNOWN_BUFFERS if (args[0] or cores - 1) >= cores else "crash", []).append(("crash rc=%d" % rc, []))
            for c, items in kinds.items():
                desc = "ThreadSanitizer / crash in a parallel job (workers=%s entities=%d rounds=%d seed=%d inject=%d mode=%d chunk-capacity=%d): %s" % (
                    args + ("; ".join("%s at %s" % (k, "; ".join(f[:3])) for k, f in items[:2]),))
                if c in (KNOWN_REGISTRY, KNOWN_BUFFERS) and ctx.known(c, desc[:300]):
                    continue
                if stats["violations"] < 4:
                    ctx.violation("parjob %d %d %d %d %d %d %d\n" % args, "[%s] %s" % (c, desc))
                    stats["violations"] += 1
            if bad and stats["violations"] < 4:
                ctx.violation("parjob %d %d %d %d %d %d %d\n" % args, "values written by the tasks are not all visible after run() / wrong data handed to a task: " + "; ".join(bad[:3]))
                stats["violations"] += 1
        for key, args in known_jobs:
            for attempt in range(8):
                reps, bad, rc = run_parjob(exe_job, args[:3] + (args[3] + attempt,) + args[4:])
                tsan_runs += 1
                if reps or bad or rc not in (0,):
                    ctx.known(key, "parallel job workers=%d mode=%d still reports %d ThreadSanitizer finding(s) rc=%d" % (args[0], args[5], len(reps), rc))
                    break

    # bookkeeping under real concurrency, functional side: creation storms from every worker of a parallel job (world harness,
    # ASan+UBSan): handles returned concurrently are pairwise distinct and valid after run() - a reservation that is not one
    # atomic step is invisible to ThreadSanitizer (every access is atomic) but shows up here
    storm_runs = 0
    if not getattr(ctx, "replay", None):
        from props import world_common as wc
        wsess = wc.Session(ctx)
        for name, ops in wc.stress_impl_only(ctx):
            storm_runs += 1
            r = wc.check_impl_only(wsess, ops)
            if r:
                ctx.violation(ops, "C06 fails on the implementation (%s, schedule dependent - replay may need repeating): concurrent "
                              "bookkeeping of a parallel job: %s" % (name, r[1][:400]))
                break

    ctx.cov(creation_storms=storm_runs)
    ctx.cov(evaluations=evaluations + tsan_runs + storm_runs, distinct_nontrivial=len(set(scripts)) + len(set(tscripts)) + len(set(jobs)),
            rule="distinct job-shaped scripts (>= 1 job of >= 1 task followed by the barrier) and distinct parallel-job configurations",
            samples=samples + [{"kind": "tsan-job", "args(workers,entities,rounds,seed,inject,mode,chunk_capacity)": list(a)} for a in jobs[:3]],
            trace_scripts=evaluations, trace_events_checked=total_events, tsan_runs=tsan_runs,
            tsan_reports=tsan_report_count, tsan_report_kinds=report_kinds, worker_counts_seen=sorted(workers_seen),
            avoided=[k for k, o in ((KNOWN_REGISTRY, open_registry), (KNOWN_BUFFERS, open_buffers)) if o],
            trusted_base=["Lean kernel; statements in Props/C06.lean (and Props/C04.lean for the split)",
                          "Model/DispatcherAccess.lean (access table) — validated by ThreadSanitizer on the runs made here, not proved",
                          "ThreadSanitizer's happens-before tracking; gcc's -fsanitize=thread instrumentation",
                          "harness/dispatch_driver.cpp, harness/parjob_driver.cpp"])
    ctx.assume("happens-before, atomicity of plain loads/stores and compiler reordering are properties of the C++ memory model, outside the Lean model",
               "user task code writes only the components it was handed (C04) and the job object's own data")
    ctx.level = "proof of the barrier logic and lock discipline of the model; partial on the memory model"

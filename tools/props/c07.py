"""C07 — a version-filtered job never misses a component that was modified.

Proof: lean/Mustache/Props/C07.lean (`no_missed_write`, `no_missed_write_history`, `pending_after_*`,
`cached_stamp_misses_write`) over Model/Versions.lean. Tie: harness/version_driver.cpp vs `driver versions`
on the same op files. Oracle (on the implementation's own output): superset condition against the ghost
`pending` (tools/props/versions_common.py).
"""
import os
import sys

sys.path.insert(0, os.path.dirname(os.path.abspath(__file__)))
import versions_common as vc  # noqa: E402
import vlib  # noqa: E402

HARNESSES = [(vc.HARNESS, "asan")]


def run(ctx):
    rng = ctx.rng
    batches = []
    # exhaustive small scope: every ordering of update / runs of three jobs / writes / structural changes
    batches.append(("frame-orderings-exhaustive", vc.gen_frame_orderings(rng, 4 if ctx.thorough else 3)))
    n_rand = 16000 if ctx.thorough else 420
    hs = []
    for _ in range(n_rand):
        t, _h = vc.gen_history(rng, rng.randint(20, 220 if ctx.thorough else 70))
        hs.append(t)
    batches.append(("random-histories", hs))
    batches.append(("quiescence-shaped", vc.gen_quiescence(rng, 3000 if ctx.thorough else 80)))

    s = vc.run_check(ctx, "C07", os.path.join(vlib.VERIF, "corpus", "C07"), batches, "c07")
    st = s["stats"]
    ctx.cov(evaluations=s["evaluations"], distinct_nontrivial=s["nontrivial"],
            rule="a history counts when the implementation ran >= 2 job runs with work and >= 1 run without, "
                 "and it contains >= 1 successful write access / dirty mark or a relocation by removal",
            samples=s["samples"], trusted_base=vc.TRUSTED_BASE,
            op_histogram=s["hist"], batches=s["per_batch"],
            exhaustive="all %d-op sequences over a 14-op alphabet (update, runs of 3 jobs, mutable/const access, "
                       "markDirty, destroy, assign, remove, create) after a fixed prefix"
                       % (4 if ctx.thorough else 3),
            job_runs=st.get("runs", 0), runs_with_work=st.get("runs_work", 0), runs_without_work=st.get("runs_empty", 0),
            pending_entities_checked=st.get("pending_checked", 0), write_accesses=st.get("writes", 0),
            other_job_write_marks=st.get("other_job_writes", 0), relocations_by_removal=st.get("relocations", 0),
            archetypes_created=st.get("arch_created", 0), chunk_sizes_seen=st.get("cs_seen", {}),
            runs_whose_body_modified_the_world=st.get("body_runs", 0),
            body_immediate_writes=st.get("body_immediate_writes", 0),
            body_deferred_structural_changes=st.get("body_deferred_changes", 0),
            runs_of_jobs_with_chunk_filter=st.get("runs_with_chunk_filter", 0),
            vetoed_chunks_skipped=st.get("vetoed_chunks_skipped", 0),
            runs_of_jobs_with_archetype_filter=st.get("runs_with_archetype_filter", 0),
            archetypes_closed_by_dependency=st.get("archetypes_closed_by_dependency", 0),
            tie_divergences=s["tie_breaks"], searched_after_divergence=s["searched"])
    ctx.assume("32-bit world version does not wrap (w < 2^32)",
               "World::init() (version reset) is outside the operation set",
               "user-supplied extra archetype/chunk filters are constant predicates (harness: archetype-has-none-of / chunk-index parity)",
               "a job body issues at most one deferred command per entity and never one that makes an archetype configuration "
               "contradictory (an exception inside unlock() terminates); deferred commands take valid handles",
               "jobs run in JobRunMode::kCurrentThread (task splitting is C04/C06)")

"""C08 — the dispatcher runs every submitted task exactly once and waits correctly.

Proof: lean/Mustache/Props/C08.lean (transition-system model of dispatch.cpp, invariants by induction
over all schedules).  Tie: harness/dispatch_driver.cpp drives the REAL dispatcher from op scripts under
seeded preemption injected at the schedule-point hook; the logged schedule-point trace must be a run of
the Lean model (`driver dispatch trace`), the `parallelFor` split must equal the model's, and the final
task accounting must agree.  Oracle (evaluated on the implementation only): per-task execution counts,
completion and payload visibility right after wait(), thread ids, serial order / overlap, teardown.
"""
import os
import re
import time
from concurrent.futures import ThreadPoolExecutor

import vlib

HARNESSES = [("dispatch_driver", "asan")]
CORPUS = os.path.join(vlib.VERIF, "corpus", "C08")

SAN_RE = re.compile(r"(AddressSanitizer|UndefinedBehaviorSanitizer|runtime error:|ThreadSanitizer|SUMMARY: \w+Sanitizer)")


# ------------------------------------------------------------------------------------------------
# running one script
# ------------------------------------------------------------------------------------------------

class Result:
    def __init__(self):
        self.fail = []        # property failures observed on the implementation (strings)
        self.kinds = []       # one short category per entry of `fail` (the shrinker preserves the first)
        self.tie = []         # model/implementation disagreements (strings)
        self.olines = []
        self.events = {}      # event kind -> count
        self.model = {}       # dispatcher -> dict from the model's summary line
        self.ntrace = 0
        self.floats = 0
        self.workers = []
        self.invalid = False


def parse_kv(line):
    return dict(m.groups() for m in re.finditer(r"(\w+)=(\S+)", line))


def run_driver(drv, args, inp, timeout=300):
    """The driver executable is shared with other checks and may be re-linked while we run: retry on OS errors."""
    last = None
    for attempt in range(6):
        try:
            return vlib.run([drv] + args, inp=inp, timeout=timeout)
        except OSError as ex:   # ETXTBSY / ENOENT: the (private copy of the) driver was replaced or pruned meanwhile
            last = ex
            time.sleep(1 + attempt)
            try:
                drv = vlib.lean_driver()
            except Exception:  # noqa: BLE001
                pass
    raise last


def expected_pfor(drv, queries):
    """queries: list of (b, e, tc, threads) -> list of non-empty ranges per query, from the Lean model."""
    if not queries:
        return []
    inp = "".join("%d %d %d %d\n" % q for q in queries)
    rc, out, err = run_driver(drv, ["dispatch", "pfor"], inp, timeout=60)
    res = []
    for line in out.splitlines():
        if not line.startswith("pfor "):
            continue
        rs = [(int(a), int(b)) for a, b in re.findall(r"\((\d+),(\d+)\)", line)]
        kv = parse_kv(line)
        res.append((int(kv["n"]), [r for r in rs if r[0] < r[1]]))
    if len(res) != len(queries):
        raise RuntimeError("driver dispatch pfor: %d answers for %d queries: %s" % (len(res), len(queries), (out + err)[-400:]))
    return res


def run_script(exe, drv, script, timeout=90, env=None):
    """Run the harness on a script, evaluate oracle + tie. Returns Result."""
    r = Result()
    e = {"ASAN_OPTIONS": "detect_leaks=1:abort_on_error=0", "UBSAN_OPTIONS": "print_stacktrace=1"}
    if env:
        e.update(env)
    try:
        rc, out, err = vlib.run([exe], inp=script, timeout=timeout, env=e)
    except FileNotFoundError:
        # the build cache was pruned by a concurrent check of another tree: rebuild (same content hash) and retry
        exe = vlib.build_harness("dispatch_driver", "tsan" if "/tsan/" in exe else "asan")
        rc, out, err = vlib.run([exe], inp=script, timeout=timeout, env=e)
    olines = [l for l in out.splitlines() if l.startswith("O ")]
    tlines = [l for l in out.splitlines() if l.startswith("T ")]
    r.olines = olines
    r.ntrace = len(tlines)
    if any(l.startswith("O error") for l in olines):
        r.invalid = True          # malformed script (only produced by the shrinker)
        return r
    if rc == -999:
        r.kinds.append("timeout"); r.fail.append("harness did not finish within %ds (a wait() or the destructor does not return); last op: %s"
                      % (timeout, olines[-1] if olines else "-"))
        return r
    if rc != 0 or SAN_RE.search(err):
        m = SAN_RE.search(err)
        first = ""
        if m:
            ls = err[max(0, m.start() - 200):].splitlines()
            first = next((l for l in ls if SAN_RE.search(l)), "")
        r.kinds.append("abort"); r.fail.append("harness aborted rc=%d %s; last op: %s" % (rc, first.strip()[:300], olines[-1] if olines else "-"))
        return r
    # ---- oracle on the implementation's observations
    submitted = {}      # d -> list of (first, count, queue)
    must_run = {}       # d -> set of ids covered by a wait
    pfor_q = []
    pfor_obs = []
    for l in olines:
        w = l.split()
        kind = w[1]
        kv = parse_kv(l)
        if kind == "disp":
            if kv.get("count_ok") != "1":
                r.kinds.append("threadcount"); r.fail.append("threadCount() differs from the requested worker count: " + l)
            if kv.get("self_tid") != "0":
                r.kinds.append("selftid"); r.fail.append("currentThreadId() of the external thread is not 0: " + l)
        elif kind in ("par", "async", "parg", "asyncg"):
            d = int(w[2])
            submitted.setdefault(d, []).append((int(kv["first"]), int(kv["count"]), int(kv["q"])))
        elif kind == "wait":
            d, q = int(w[2]), int(w[3])
            if kv["notdone"] != "0":
                r.kinds.append("wait-notdone"); r.fail.append("wait(%d) on dispatcher %d returned with %s task(s) of that queue not finished: %s" % (q, d, kv["notdone"], l))
            if kv["bad_payload"] != "0":
                r.kinds.append("wait-payload"); r.fail.append("after wait(%d) the waiter does not see the result of %s finished task(s): %s" % (q, kv["bad_payload"], l))
            if kv["workers_running"] != "0":
                r.kinds.append("wait-running"); r.fail.append("after waitForParallelFinish %s worker(s) are still inside a task: %s" % (kv["workers_running"], l))
            for (first, count, qq) in submitted.get(d, []):
                if qq == q:
                    must_run.setdefault(d, set()).update(range(first, first + count))
        elif kind == "xwait":
            if kv["helper_done"] != "1" or kv["notdone"] != "0":
                r.kinds.append("xwait-notdone"); r.fail.append("a task of dispatcher %s that waited for dispatcher %s returned with work unfinished: %s" % (w[2], w[3], l))
        elif kind == "pfor":
            d, b, e_, tc = int(w[2]), int(w[3]), int(w[4]), int(w[5])
            for k in ("missed", "twice", "outside", "badtask", "noncontig"):
                if kv[k] != "0":
                    r.kinds.append("pfor-" + k); r.fail.append("parallelFor [%d,%d) tasks=%d: %s=%s (%s)" % (b, e_, tc, k, kv[k], l))
            rs = [(int(a), int(b2)) for a, b2 in re.findall(r"\((\d+),(\d+)\)", l)]
            # partition oracle, independent of the model
            pos = b
            for (a, c) in rs:
                if a != pos or c <= a:
                    r.kinds.append("pfor-tile"); r.fail.append("parallelFor [%d,%d) tasks=%d: task ranges %s do not tile the range in task order" % (b, e_, tc, rs))
                    break
                pos = c
            else:
                if pos != max(b, e_):
                    r.kinds.append("pfor-cover"); r.fail.append("parallelFor [%d,%d) tasks=%d: task ranges %s do not cover the range" % (b, e_, tc, rs))
            pfor_q.append((b, e_, tc, int(kv["threads"])))
            pfor_obs.append((int(kv["submitted"]), rs, l))
        elif kind == "final":
            d = int(w[2])
            for k in ("multi", "unfinished", "overlap", "order", "badtid", "duptid", "tidmismatch", "foreign", "ran_after_destroy"):
                if kv[k] != "0":
                    what = {"multi": "task(s) executed more than once", "unfinished": "task(s) begun but not finished after teardown",
                            "overlap": "job(s) of a serial queue started while another job of the same queue was running",
                            "order": "job(s) of a serial queue started out of submission order",
                            "badtid": "task(s) observed a thread id above threadCount()",
                            "duptid": "task(s) observed a thread id that another running task was using",
                            "tidmismatch": "task(s) whose ThreadId argument differs from currentThreadId()",
                            "foreign": "worker(s) reported a non-zero id on a dispatcher they do not belong to",
                            "ran_after_destroy": "task(s) started after the destructor had returned"}[k]
                    r.kinds.append("final-" + k); r.fail.append("dispatcher %d: %s %s (%s)" % (d, kv[k], what, l))
            never = set() if kv["never_ids"] == "-" else set(int(x) for x in kv["never_ids"].split(","))
            lost = sorted(never & must_run.get(d, set()))
            if lost:
                r.kinds.append("lost"); r.fail.append("dispatcher %d: task(s) %s were never executed although a later wait on their queue returned" % (d, lost[:10]))
            r.model.setdefault(d, {})["impl_once"] = int(kv["once"])
            r.model[d]["impl_never"] = int(kv["never"])
    # ---- tie: parallelFor split
    try:
        exp = expected_pfor(drv, pfor_q)
    except Exception as ex:  # noqa: BLE001
        r.tie.append("model parallelFor evaluation failed: %r" % (ex,))
        exp = []
    for (n, rs_model), (nsub, rs_impl, l) in zip(exp, pfor_obs):
        if rs_model != rs_impl or n != nsub:
            r.tie.append("parallelFor split differs: impl tasks=%d ranges=%s, model tasks=%d ranges=%s (%s)" % (nsub, rs_impl, n, rs_model, l))
    # ---- tie: trace acceptance
    if tlines:
        cleared = set()
        late = {}
        for l in tlines:
            w = l.split()
            k = w[3]
            r.events[k] = r.events.get(k, 0) + 1
            if k == "X_new":
                r.workers.append(int(w[5]))
            # oracle on the implementation's own trace: clear() in the destructor holds the mutex after `terminate`
            # was set, so a pop reported after it is a task started during teardown (not an in-flight one)
            if k == "kShutdownCleared":
                cleared.add(w[2])
            elif k in ("kWorkerPop", "kWaiterPop", "kSubmitInline") and w[2] in cleared:
                late[w[2]] = late.get(w[2], 0) + 1
        for d, c in sorted(late.items()):
            r.kinds.append("teardown-start")
            r.fail.append("dispatcher %s: %d task(s) were started after the destructor had set terminate and dropped the pending work" % (d, c))
        rc2, out2, err2 = run_driver(drv, ["dispatch", "trace"], "\n".join(tlines) + "\n")
        seen = False
        for l in out2.splitlines():
            w = l.split()
            if w[:1] == ["model"] and len(w) > 2:
                seen = True
                d = int(w[1])
                if w[2] == "accepted":
                    kv = parse_kv(l)
                    r.floats += int(kv["floats"])
                    m = r.model.setdefault(d, {})
                    m.update({k: int(kv[k]) for k in ("submitted", "started", "done", "dropped", "pending", "running", "actions")})
                    if "impl_once" in m:
                        if m["done"] != m["impl_once"] or m["dropped"] + m["pending"] != m["impl_never"] or m["running"] != 0:
                            r.tie.append("dispatcher %d: model accounting done=%d dropped=%d pending=%d running=%d, implementation once=%d never=%d"
                                         % (d, m["done"], m["dropped"], m["pending"], m["running"], m["impl_once"], m["impl_never"]))
                    if kv["mode"] != "destroyed":
                        r.tie.append("dispatcher %d: trace ends in model mode %s" % (d, kv["mode"]))
                else:
                    r.tie.append("trace of dispatcher %d is not a run of the model: %s" % (d, l))
            elif l.startswith("error"):
                r.tie.append("trace checker: " + l)
        if not seen and not r.tie:
            r.tie.append("trace checker produced no verdict (rc=%d): %s" % (rc2, (out2 + err2)[-300:]))
    return r


# ------------------------------------------------------------------------------------------------
# generators
# ------------------------------------------------------------------------------------------------

def header(rng, inject=None, cores=None, seed=None):
    h = ["seed %d" % (seed if seed is not None else rng.randrange(1, 1 << 30)),
         "inject %d" % (inject if inject is not None else rng.choice([0, 30, 100, 250, 500]))]
    if cores:
        h.append("cores %d" % cores)
    return h


def gen_script(rng, workers_choice, big=False):
    """A random but well-formed script over 1..3 dispatchers."""
    lines = []
    cores = None
    nd = rng.choice([1, 1, 1, 2, 2, 3])
    disps = []
    for d in range(nd):
        n = rng.choice(workers_choice)
        if n == "default":
            if cores is None:
                cores = rng.choice([1, 2, 3, 5, 9, 40])
            n = 0
        disps.append({"n": n, "queues": 0, "alive": True, "single": False})
    lines += header(rng, cores=cores)
    for d, D in enumerate(disps):
        lines.append("disp %d %d" % (d, D["n"]))
    nops = rng.randrange(4, 30 if not big else 80)
    for _ in range(nops):
        alive = [d for d, D in enumerate(disps) if D["alive"]]
        if not alive:
            break
        d = rng.choice(alive)
        D = disps[d]
        x = rng.random()
        work = rng.choice([0, 0, 10, 100, 1000, 5000])
        if x < 0.10 and D["queues"] < 4:
            lines.append("queue %d %d" % (d, rng.choice([0, 0, 100, -100, -1000, 7])))
            D["queues"] += 1
        elif x < 0.35:
            lines.append("par %d %d %d" % (d, rng.choice([1, 1, 2, 3, 5, 8, 20, 50 if big else 12]), work))
        elif x < 0.55 and D["queues"]:
            lines.append("async %d %d %d %d" % (d, rng.randrange(1, D["queues"] + 1), rng.choice([1, 2, 3, 6, 15]), work))
        elif x < 0.75:
            lines.append("wait %d %d" % (d, rng.randrange(0, D["queues"] + 1)))
        elif x < 0.80:
            D["single"] = not D["single"]
            lines.append("single %d %d" % (d, 1 if D["single"] else 0))
        elif x < 0.93:
            b = rng.choice([0, 0, 3, 1000])
            size = rng.choice([0, 0, 1, 2, 3, 7, 16, 33, 100])
            tc = rng.choice([0, 0, 0, 1, 2, 3, 5, size + 1, 40])
            lines.append("pfor %d %d %d %d" % (d, b, b + size, tc))
        elif x < 0.97 and len(alive) > 1:
            D["alive"] = False
            lines.append("destroy %d" % d)
        else:
            # make sure waits on every queue happen now and then
            for q in range(0, D["queues"] + 1):
                lines.append("wait %d %d" % (d, q))
    return "\n".join(lines) + "\n"


def gen_serial_busy(rng, n):
    """Deterministic interleaving: a worker is inside job 0 of a serial queue (held at a gate) while the
    external thread waits on that queue with further jobs pending."""
    k = rng.choice([1, 2, 4])
    lines = header(rng, inject=rng.choice([0, 100])) + [
        "disp 0 %d" % n, "queue 0 %d" % rng.choice([0, 5]), "asyncg 0 1 7", "started 0 0",
        "async 0 1 %d %d" % (k, rng.choice([0, 100])), "autoopen 7", "wait 0 1", "destroy 0"]
    return "\n".join(lines) + "\n"


def gen_xwait(rng, na, nb):
    """several dispatchers alive at once: a WORKER of dispatcher 0 helps to drain dispatcher 1 (it waits for 1's parallel
    tasks while 1's own workers are held at a gate): the tasks it runs must see an id of dispatcher 1 (0: it is not one of
    1's threads), in range, not shared with a running task of 1. Oracle only (`trace 0`)."""
    k = rng.choice([1, 2, 5, 12])
    lines = header(rng, inject=rng.choice([0, 100])) + ["trace 0", "disp 0 %d" % na, "disp 1 %d" % nb]
    for i in range(nb):
        lines += ["parg 1 7", "started 1 %d" % i]
    lines += ["par 1 %d %d" % (k, rng.choice([0, 100, 1000])), "xwait 0 1 7", "wait 1 0", "wait 0 0"]
    if rng.random() < 0.5:
        lines += ["par 1 3 0", "wait 1 0"]
    lines += ["destroy 0", "destroy 1"]
    return "\n".join(lines) + "\n"


def gen_pfor_block(threads, sizes, tcs, rng):
    """threads = 0 means: dispatcher without workers (cores 1)."""
    lines = header(rng, inject=rng.choice([0, 50]))
    if threads == 0:
        lines.append("cores 1")
    lines.append("disp 0 %d" % threads)
    for size in sizes:
        for tc in tcs:
            b = rng.choice([0, 5])
            lines.append("pfor 0 %d %d %d" % (b, b + size, tc))
    lines.append("destroy 0")
    return "\n".join(lines) + "\n"


def gen_shutdown(rng, n):
    """destruction with pending / running work"""
    lines = header(rng, inject=rng.choice([0, 100, 400]))
    lines.append("disp 0 %d" % n)
    if rng.random() < 0.5:
        lines.append("queue 0 0")
        lines.append("async 0 1 %d %d" % (rng.choice([1, 3, 10]), rng.choice([0, 1000, 20000])))
    lines.append("par 0 %d %d" % (rng.choice([1, 5, 30, 100]), rng.choice([0, 1000, 20000])))
    if rng.random() < 0.3:
        lines.append("wait 0 0")
        lines.append("par 0 %d %d" % (rng.choice([1, 5, 30]), rng.choice([0, 1000])))
    lines.append("destroy 0")
    return "\n".join(lines) + "\n"


# ------------------------------------------------------------------------------------------------
# shrinking
# ------------------------------------------------------------------------------------------------

HEADER_OPS = ("seed", "inject", "cores", "trace")


def shrink(exe, drv, script, still_fails, budget_s=60):
    """delta-debugging on lines; `still_fails(script) -> bool` may run the script several times."""
    t0 = time.time()
    lines = script.strip().splitlines()
    n = 2
    while len(lines) >= 2 and time.time() - t0 < budget_s:
        chunk = max(1, len(lines) // n)
        removed = False
        for i in range(0, len(lines), chunk):
            cand = lines[:i] + lines[i + chunk:]
            if not cand or cand == lines:
                continue
            if still_fails("\n".join(cand) + "\n"):
                lines = cand
                n = max(n - 1, 2)
                removed = True
                break
            if time.time() - t0 > budget_s:
                break
        if not removed:
            if chunk == 1:
                break
            n = min(n * 2, len(lines))
    return "\n".join(lines) + "\n"


# ------------------------------------------------------------------------------------------------
# the check
# ------------------------------------------------------------------------------------------------

def classify(ctx, exe, drv, script, res, stats, attempts=6):
    """A script whose run showed a problem: decide property failure vs. broken tie; report."""
    def fails_prop(s, tries=attempts, kind=None):
        for _ in range(tries):
            rr = run_script(exe, drv, s, timeout=90 if kind == "timeout" else 40)
            if rr.invalid:
                return None
            if rr.fail and (kind is None or kind in rr.kinds):
                return rr
            if rr.fail and "timeout" in rr.kinds:
                return None          # a different way of failing (e.g. a gate the shrinker orphaned): not this failure
        return None

    if res.fail:
        kind = res.kinds[0]
        small = shrink(exe, drv, script, lambda s: fails_prop(s, 4, kind) is not None, budget_s=90 if ctx.thorough else 45)
        rr = fails_prop(small, 8, kind)
        msg = (rr.fail if rr else res.fail)
        ctx.violation(small if rr else script,
                      "property fails on the implementation: " + "; ".join(msg[:4]) +
                      "\n(replay: python3 tools/check.py C08 --replay <this file>; the schedule is seeded but scheduling remains "
                      "nondeterministic: the replay repeats the script until the failure shows)")
        stats["violations"] += 1
        return
    # only the tie broke: search for a failing input around it
    found = None
    variants = [script]
    for inj in (0, 100, 400, 800):
        variants.append(re.sub(r"^inject \d+$", "inject %d" % inj, script, flags=re.M))
    for v in variants:
        found = fails_prop(v, 4)
        if found:
            ctx.violation(v, "property fails on the implementation: " + "; ".join(found.fail[:4]))
            stats["violations"] += 1
            return
    ctx.violation(script + "# --- correspondence broken ---\n# " + "\n# ".join(res.tie[:6]) + "\n",
                  "the implementation's schedule-point trace / observations are not a run of the Lean model "
                  "(Model/Dispatcher.lean) — " + res.tie[0][:400] +
                  " — searched %d variants x 4 runs for a property failure, none found" % len(variants),
                  no_input=True)
    stats["violations"] += 1


def nontrivial(res):
    ev = res.events
    return (ev.get("kWorkerPop", 0) >= 3 and ev.get("X_waitBegin", 0) + ev.get("kWaiterBeforeLock", 0) >= 1
            and (ev.get("kWaiterPop", 0) + ev.get("kWaiterSpin", 0) + ev.get("kWaiterBlocked", 0)) >= 1)


def run(ctx):
    exe = ctx.harness("dispatch_driver")
    drv = ctx.driver()
    rng = ctx.rng
    stats = {"violations": 0}
    hist_events = {}
    hist_ops = {}
    workers_seen = set()
    samples = []
    distinct = set()
    evaluations = 0
    floats = 0
    total_events = 0
    total_actions = 0

    # ---- replay mode
    if getattr(ctx, "replay", None):
        script = "".join(l for l in open(ctx.replay) if not l.startswith("#"))
        bad = None
        for _ in range(40):
            res = run_script(exe, drv, script)
            evaluations += 1
            if res.fail or res.tie:
                bad = res
                break
        if bad:
            ctx.violation(script, "replay fails: " + "; ".join((bad.fail + bad.tie)[:4]), no_input=not bad.fail)
        ctx.cov(evaluations=evaluations, rule="replay of %s" % ctx.replay)
        return

    scripts = []
    # 1. corpus first
    if os.path.isdir(CORPUS):
        for f in sorted(os.listdir(CORPUS)):
            if f.endswith(".ops"):
                scripts.append(("corpus/" + f, open(os.path.join(CORPUS, f)).read()))
    ncorpus = len(scripts)

    # 2. structured cases
    all_workers = list(range(1, 33))
    quick_workers = [1, 2, 3, 4, 7, 16, 32]
    wchoice = (all_workers if ctx.thorough else quick_workers) + ["default"]
    for n in (all_workers if ctx.thorough else [1, 2, 5, 32]):
        for _ in range(3 if ctx.thorough else 1):
            scripts.append(("serial-busy n=%d" % n, gen_serial_busy(rng, n)))
    for n in ([1, 2, 4, 8, 16, 32] if ctx.thorough else [1, 3, 16]):
        for _ in range(8 if ctx.thorough else 2):
            scripts.append(("shutdown n=%d" % n, gen_shutdown(rng, n)))
    for na, nb in ([(a, b) for a in (1, 2, 3, 8) for b in (1, 2, 5)] if ctx.thorough else [(3, 1), (1, 1), (4, 2)]):
        for _ in range(3 if ctx.thorough else 2):
            scripts.append(("xwait na=%d nb=%d" % (na, nb), gen_xwait(rng, na, nb)))
    # parallelFor: exhaustive small scope in the thorough tier, a sample in the quick tier
    if ctx.thorough:
        for threads in (0, 1, 2, 3, 4, 7):
            for lo in range(0, 13, 4):
                scripts.append(("pfor-exhaustive threads=%d sizes=%d..%d" % (threads, lo, lo + 3),
                                gen_pfor_block(threads, range(lo, lo + 4), range(0, 15), rng)))
    else:
        for threads in (0, 1, 3):
            scripts.append(("pfor threads=%d" % threads, gen_pfor_block(threads, [0, 1, 2, 5, 9], [0, 1, 2, 4, 11], rng)))
    # 3. random scripts
    nrand = 60000 if ctx.thorough else 4000
    for i in range(nrand):
        scripts.append(("random-%d" % i, gen_script(rng, wchoice, big=ctx.thorough and i % 4 == 0)))

    t0 = time.time()
    budget = 1200 if ctx.thorough else 75
    par = 6

    def work(item):
        name, script = item
        if time.time() - t0 > budget:
            return name, script, None
        return name, script, run_script(exe, drv, script)

    skipped = 0
    with ThreadPoolExecutor(par) as ex:
        for name, script, res in ex.map(work, scripts):
            if res is None:
                skipped += 1
                continue
            evaluations += 1
            for l in script.splitlines():
                op = l.split()[0]
                hist_ops[op] = hist_ops.get(op, 0) + 1
            for k, v in res.events.items():
                hist_events[k] = hist_events.get(k, 0) + v
            total_events += res.ntrace
            total_actions += sum(m.get("actions", 0) for m in res.model.values())
            floats += res.floats
            workers_seen.update(res.workers)
            if nontrivial(res):
                distinct.add(script)
            if len(samples) < 6 and nontrivial(res):
                samples.append({"name": name, "script": script.strip().splitlines()[:14], "trace_events": res.ntrace,
                                "model": {str(k): v for k, v in res.model.items()}})
            if (res.fail or res.tie) and stats["violations"] < 3:
                classify(ctx, exe, drv, script, res, stats)

    ctx.cov(evaluations=evaluations, distinct_nontrivial=len(distinct),
            rule="distinct op scripts whose trace has >= 3 worker pops and a wait() in which the waiter helped, spun or was blocked",
            samples=samples, corpus_files=ncorpus, scripts_skipped_for_time=skipped,
            trace_events_checked=total_events, model_actions_accepted=total_actions,
            floated_reads=floats, event_histogram=dict(sorted(hist_events.items())),
            op_histogram=dict(sorted(hist_ops.items())), worker_counts_seen=sorted(workers_seen),
            exhaustive=("parallelFor: sizes 0..15 x explicit task counts 0..14 x workers {0,1,2,3,4,7}" if ctx.thorough else None),
            partial_theorems=["liveness: wait_returns is proved for the MODEL under WeaklyFair + FinitelyManyWakes; that the OS scheduler "
                              "is weakly fair and condition variables wake spuriously only finitely often is assumed, not proved"],
            trusted_base=["Lean kernel; statement of the theorems in Props/C08.lean",
                          "Model/Dispatcher.lean follows dispatch.cpp: validated by trace acceptance on the runs made here, not proved",
                          "harness/dispatch_driver.cpp, the hook points in dispatch.cpp, Driver/Dispatch.lean (event -> action elaboration, 3 documented floats)",
                          "OS scheduler explores only some interleavings: the tie is a test, the theorems cover all schedules of the model"])
    ctx.assume("critical sections under Data::mutex are atomic; std::mutex / std::condition_variable / std::atomic behave as specified",
               "one external thread drives a dispatcher at a time; tasks do not submit to or wait on their own dispatcher",
               "liveness ('wait always returns') is proved for the model under weak fairness and finitely many spurious wake-ups (wait_returns); real scheduler fairness is outside the model")
    ctx.level = "proof (safety); partial (liveness under fairness)"

"""C09 - world-model property (DESIGN.md section 4, ### C09): correspondence of harness/world_driver.cpp with the Lean world
model (tie) and with the Lean world spec (property oracle) on corpus + generated op files; theorems in lean/Mustache/Props/C09.lean."""
from props import world_common as wc

HARNESSES = wc.HARNESSES
LEVEL_WITHOUT_PROOF = "other"

CFG = dict(
    mix=dict(create=4, assign=2, remove=3, destroynow=3, destroy=2, update=1, clone=1, sassign=1, sremove=2, query=6, cleararch=1, lock=1, unlock=1, dump=1),
    corpus=[x for x in "C09,C05".split(",")],
    n_quick=500, n_thorough=6000, len=(8, 45),
    gen=dict(lock_bias=0.15, malformed=0.5, ndeps=1, shared_frac=0.5, locked_immediate=True),
    what="malformed stream: every issued handle, null, foreign-world and random 64-bit patterns presented to every checked entry point, immediate and deferred; never-deferred guarded calls (removeSharedComponent, clone) on dead handles inside locked sections, half of the histories with shared components",
)


def run(ctx):
    wc.run_world_check(ctx, CFG)

"""C10 - component storage handed out is in-bounds, live and correctly aligned (DESIGN.md section 4 "### C10", section 6:
PARTIAL BY NATURE - the Lean theorems cover address arithmetic and index ranges, the C++ abstract machine is validated by
sanitizers on the explored histories).

prepare(): regenerates lean/Mustache/Gen/EntityIR.lean from the current source (the bridge theorems `alignUp_eq_generated`,
           `layout32_eq_generated`, `split_index` of Props/C10.lean are about those definitions).
run():     1. layout cases (corpus/C10/*.lay, then generated): run-time described and compiled component types of chosen
              size/alignment in random registration order, archetypes from random subsets, populations crossing the
              hook-shrunk storage-chunk capacity, every way of constructing a world. harness/layout_driver.cpp reports
              every pointer the library hands out (lookup const/mutable, assignment immediate / under lock, iteration
              arrays, typed forEach). Each case runs twice: ASan+UBSan build, and a plain build whose `aligned_alloc` is
              interposed by a worst-case allocator (exactly the requested alignment, never twice it) because sanitizer and
              glibc allocators over-align and hide a too small chunk alignment.
              tie:    offsets / chunk size / chunk alignment / address of every slot / command-buffer offsets
                      == `driver layout` (Lean model, rule `largest`);
              oracle: address % align == 0, inside a live chunk of the entity's archetype, distinct (column, slot) pairs
                      disjoint, stable across non-structural calls, content intact, null exactly where there is no
                      component, command-buffer blocks aligned / inside their chunk / disjoint, no sanitizer report.
           2. the world-model corpus (corpus/C01..C05,C09,C10,C12,C13/*.ops) and seeded random world histories through
              harness/world_driver.cpp under ASan+UBSan: any sanitizer report / abort is a failed observation.
"""
import concurrent.futures as cf
import os
import re
import shutil
import vlib
from props import c16
from props import world_common as wc

WORST = ("-DLAYOUT_WORSTCASE_ALLOC",)
HARNESSES = [("layout_driver", "asan"), ("layout_driver", "plain", WORST), ("world_driver", "asan")]

DEFAULT_CAP = 16384
SIZES = [0, 1, 3, 4, 8, 24, 64, 4096]
MORE_SIZES = [2, 5, 6, 12, 16, 32, 48, 96, 128, 100, 4095, 192]
ALIGNS = [1, 2, 4, 8, 16, 32, 64]
TYPED = [(1, 1), (3, 1), (4, 2), (8, 8), (24, 8), (64, 64), (64, 32), (4096, 16), (16, 16), (4, 4)]
WORLDS = ["default", "id", "shared", "explicit"]
# leaks are not reported here: a leaked component is a lifecycle matter (C03), not an out-of-bounds / use-after-free / undefined-behaviour one
ENV = {"ASAN_OPTIONS": "detect_leaks=0:abort_on_error=0:exitcode=99", "UBSAN_OPTIONS": "print_stacktrace=1:halt_on_error=1"}

PROPERTY_KINDS = ("abort", "misaligned", "oob", "overlap", "unstable", "content", "null", "error", "fn-misaligned",
                  "temp-misaligned", "temp-oob", "temp-overlap", "capacity")


def prepare(ctx):
    c16.prepare(ctx)


def shapes(thorough):
    sizes = SIZES + (MORE_SIZES if thorough else [])
    return [(s, a) for s in sizes for a in ALIGNS if s % a == 0]


# ----------------------------------------------------------------------------------------------
# reference state: keeps generated (and shrunk) op files inside the documented contract
# ----------------------------------------------------------------------------------------------
class Ref:
    def __init__(self, avoid_allzero=False):
        self.cap = DEFAULT_CAP
        self.world = None
        self.comps = {}          # name -> (size, align, typed index or -1)
        self.order = []
        self.typed_used = set()
        self.ents = []           # ord -> set(names) or None (dead)
        self.locked = False
        self.pending = {}        # ord -> set(names) assigned under lock
        self.ended = False
        self.avoid_allzero = avoid_allzero

    def allzero(self, names):
        return bool(names) and all(self.comps[n][0] == 0 for n in names)

    def alive(self, o):
        return 0 <= o < len(self.ents) and self.ents[o] is not None

    def names_ok(self, s, allow_opt=False):
        if s == "-":
            return []
        out = []
        for n in s.split(","):
            opt = allow_opt and n.endswith("?")
            n = n[:-1] if opt else n
            if n not in self.comps or n in [x for x, _ in out]:
                return None
            out.append((n, opt))
        return out

    def apply(self, line):
        """True iff the op is inside the contract in the current state (and then the state is advanced)."""
        w = line.split()
        if not w or self.ended:
            return False
        op = w[0]
        try:
            if op == "cap":
                if self.world is not None or len(w) != 2:
                    return False
                n = int(w[1])
                self.cap = n if n > 0 else DEFAULT_CAP
                return n >= 0
            if op == "world":
                if self.world is not None or w[1] not in WORLDS:
                    return False
                self.world = w[1]
                return True
            if op == "comp":
                name, size, align = w[1], int(w[2]), int(w[3])
                if name in self.comps or align <= 0 or size % align != 0 or not re.fullmatch(r"[a-z][a-z0-9]*", name):
                    return False
                typed = -1
                if len(w) > 4:
                    if w[4] != "typed":
                        return False
                    cand = [k for k, sh in enumerate(TYPED) if sh == (size, align) and k not in self.typed_used]
                    if not cand:
                        return False
                    typed = cand[0]
                    self.typed_used.add(typed)
                self.comps[name] = (size, align, typed)
                self.order.append(name)
                return True
            if self.world is None:
                return False
            if op == "create":
                ns = self.names_ok(w[1])
                n = int(w[2])
                if ns is None or self.locked or n < 1 or n > 200:
                    return False
                names = set(x for x, _ in ns)
                if self.avoid_allzero and self.allzero(names):
                    return False
                for _ in range(n):
                    self.ents.append(set(names))
                return True
            if op in ("get", "cget"):
                return int(w[1]) < len(self.ents) and w[2] in self.comps
            if op in ("assign", "tassign"):
                o, c = int(w[1]), w[2]
                if not self.alive(o) or c not in self.comps or c in self.ents[o]:
                    return False
                if op == "tassign" and self.comps[c][2] < 0:
                    return False
                if self.locked:
                    if c in self.pending.get(o, set()):
                        return False
                    if self.avoid_allzero and self.allzero(self.ents[o] | self.pending.get(o, set()) | {c}):
                        return False
                    self.pending.setdefault(o, set()).add(c)
                else:
                    if self.avoid_allzero and self.allzero(self.ents[o] | {c}):
                        return False
                    self.ents[o].add(c)
                return True
            if op == "remove":
                o, c = int(w[1]), w[2]
                if self.locked or not self.alive(o) or c not in self.ents[o]:
                    return False
                if self.avoid_allzero and self.allzero(self.ents[o] - {c}):
                    return False
                self.ents[o].discard(c)
                return True
            if op == "destroy":
                o = int(w[1])
                if self.locked or not self.alive(o):
                    return False
                self.ents[o] = None
                return True
            if op == "lock":
                if self.locked:
                    return False
                self.locked = True
                return True
            if op == "unlock":
                if not self.locked:
                    return False
                self.locked = False
                for o, cs in self.pending.items():
                    if self.alive(o):
                        self.ents[o] |= cs
                self.pending = {}
                return True
            if op == "update":
                return not self.locked
            if op == "clear":
                if self.locked:
                    return False
                self.ents = [None] * len(self.ents)
                return True
            if op == "iter":
                ns = self.names_ok(w[1], allow_opt=True)
                if not ns or all(o for _, o in ns):
                    return False
                if len(w) > 2 and (w[2] != "par" or self.locked):
                    return False
                return True
            if op == "titer":
                return w[1] in self.comps and self.comps[w[1]][2] >= 0
            if op in ("sweep", "layout"):
                return True
            if op == "end":
                if self.locked:
                    return False
                self.ended = True
                return True
        except (ValueError, IndexError):
            return False
        return False


def in_contract(text, avoid_allzero=False):
    ref = Ref(avoid_allzero)
    for l in wc.op_lines(text):
        if not ref.apply(l):
            return None
    return ref


# ----------------------------------------------------------------------------------------------
# generator
# ----------------------------------------------------------------------------------------------
def gen_case(rng, thorough, avoid_allzero=False, fixed_comps=None):
    ref = Ref(avoid_allzero)
    lines = []

    def emit(l):
        if ref.apply(l):
            lines.append(l)
            return True
        return False

    cap = rng.choice([1, 2, 3, 4, 5, 8, 16, 0]) if rng.random() < 0.9 else rng.choice([64, 1000])
    emit("cap %d" % cap)
    emit("world %s" % rng.choice(WORLDS))
    eff = cap if cap > 0 else DEFAULT_CAP
    if fixed_comps is None:
        sh = shapes(thorough)
        n = rng.randint(2, 7)
        comps = []
        for i in range(n):
            if rng.random() < 0.35:
                s, a = rng.choice(TYPED)
                comps.append((s, a, True))
            else:
                s, a = rng.choice(sh)
                # bias towards the interesting orders: small alignment registered before a large one
                comps.append((s, a, False))
        if rng.random() < 0.5:
            comps.sort(key=lambda c: c[1] if rng.random() < 0.8 else rng.random())
    else:
        comps = list(fixed_comps)
    for i, (s, a, t) in enumerate(comps):
        if not (t and emit("comp c%d %d %d typed" % (i, s, a))):
            emit("comp c%d %d %d" % (i, s, a))
    names = list(ref.order)
    steps = rng.randint(6, 30 if not thorough else 60)
    for _ in range(steps):
        r = rng.random()
        alive = [o for o in range(len(ref.ents)) if ref.ents[o] is not None]
        if r < 0.22 or not alive:
            k = rng.randint(0, min(len(names), 5))
            sub = sorted(rng.sample(names, k), key=names.index)
            hi = min(3 * eff + 2, 40) if eff <= 16 else 25
            cnt = rng.choice([1, eff, eff + 1, 2 * eff, 2 * eff + 1, rng.randint(1, hi)]) if eff <= 16 else rng.randint(1, hi)
            emit("create %s %d" % (",".join(sub) if sub else "-", cnt))
        elif r < 0.36:
            o = rng.choice(alive)
            c = rng.choice(sorted(ref.ents[o])) if ref.ents[o] and rng.random() < 0.85 else rng.choice(names)
            emit("%s %d %s" % (rng.choice(["get", "cget"]), o, c))
        elif r < 0.50:
            o = rng.choice(alive)
            lack = [c for c in names if c not in ref.ents[o]]
            if lack:
                c = rng.choice(lack)
                emit("%s %d %s" % ("tassign" if ref.comps[c][2] >= 0 and rng.random() < 0.5 else "assign", o, c))
        elif r < 0.57:
            o = rng.choice(alive)
            if ref.ents[o]:
                emit("remove %d %s" % (o, rng.choice(sorted(ref.ents[o]))))
        elif r < 0.62:
            emit("destroy %d" % rng.choice(alive))
        elif r < 0.72:
            if ref.locked:
                emit("unlock")
            else:
                emit("lock")
                # a burst of deferred assignments: the command buffer has to pack blocks of mixed alignment
                for _ in range(rng.randint(1, 8)):
                    al = [o for o in alive if ref.ents[o] is not None]
                    if not al:
                        break
                    o = rng.choice(al)
                    lack = [c for c in names if c not in ref.ents[o] and c not in ref.pending.get(o, set())]
                    if lack:
                        c = rng.choice(lack)
                        emit("%s %d %s" % ("tassign" if ref.comps[c][2] >= 0 and rng.random() < 0.5 else "assign", o, c))
        elif r < 0.82:
            k = rng.randint(1, min(3, len(names)))
            sub = rng.sample(names, k)
            req = [sub[0]] + [c + ("?" if rng.random() < 0.4 else "") for c in sub[1:]]
            emit("iter %s%s" % (",".join(req), " par" if rng.random() < 0.3 else ""))
        elif r < 0.88:
            typed = [c for c in names if ref.comps[c][2] >= 0]
            if typed:
                emit("titer %s" % rng.choice(typed))
        elif r < 0.94:
            emit("sweep")
        elif r < 0.97:
            emit("update")
        elif r < 0.98:
            emit("clear")
        else:
            emit("layout")
    if ref.locked:
        emit("unlock")
    emit("layout")
    emit("sweep")
    emit("end")
    return "\n".join(lines) + "\n"


# ----------------------------------------------------------------------------------------------
# running and evaluating
# ----------------------------------------------------------------------------------------------
def kv(line):
    d = {}
    for t in line.split():
        if "=" in t:
            k, v = t.split("=", 1)
            d[k] = v
    return d


def parse_blocks(out):
    blocks = []
    for l in out.splitlines():
        if l.startswith("> "):
            blocks.append((l[2:], []))
        elif blocks:
            blocks[-1][1].append(l)
    return blocks


class Runner:
    def __init__(self, ctx):
        self.ctx = ctx
        self.internals = True
        try:
            self.asan = ctx.harness("layout_driver", "asan")
            self.plain = ctx.harness("layout_driver", "plain", WORST)
        except vlib.BuildError as e:
            # a renamed internal alone is not an alarm: drop the internal observations (DESIGN 2.6)
            self.internals = False
            self.build_note = e.what + ": " + e.output[-400:]
            self.asan = ctx.harness("layout_driver", "asan", ("-DVERIF_NO_INTERNALS",))
            self.plain = ctx.harness("layout_driver", "plain", WORST + ("-DVERIF_NO_INTERNALS",))
        # private copy of the model driver: another worker's `lake build driver` unlinks the shared one mid-run
        src = ctx.driver()
        self.drv = os.path.join(vlib.CACHE, "driver_c10_%d" % os.getpid())
        shutil.copy2(src, self.drv)

    def close(self):
        try:
            os.unlink(self.drv)
        except OSError:
            pass

    def run_variant(self, exe, text, sanitized):
        for attempt in (0, 1):
            try:
                rc, out, err = vlib.run([exe], inp=text, timeout=120, env=ENV if sanitized else None)
                break
            except FileNotFoundError:
                # the shared build cache was pruned by a concurrent check of another tree: rebuild once
                if attempt:
                    raise
                defs = () if self.internals else ("-DVERIF_NO_INTERNALS",)
                self.asan = self.ctx.harness("layout_driver", "asan", defs)
                self.plain = self.ctx.harness("layout_driver", "plain", WORST + defs)
                exe = self.asan if sanitized else self.plain
        note = None
        if rc != 0 or wc.SAN.search(err):
            m = wc.SAN.search(err)
            first = ""
            if m:
                ls = err[m.start():].splitlines()
                first = " | ".join(x.strip() for x in ls[:1] + [x for x in ls if " in " in x and "/src/mustache" in x][:3])
            note = "rc=%s %s" % (rc, first[:500] or err[-300:].replace("\n", " | "))
        return out, note

    def model(self, queries):
        rc, out, err = vlib.run([self.drv, "layout"], inp="\n".join(queries) + "\n", timeout=120)
        if rc != 0:
            return None
        return out.splitlines()


def comps_of_arch(ref_comps, order, arch):
    names = [] if arch == "-" else arch.split(",")
    return names


def evaluate(runner, text, variant_out, variant_name):
    """Returns list of (kind, message). Oracle kinds are property failures; 'tie-*' kinds are model/impl differences."""
    probs = []
    ref = Ref()
    blocks = parse_blocks(variant_out)
    ops = wc.op_lines(text)
    if len(blocks) != len(ops):
        probs.append(("proto", "%s: %d ops but %d answered" % (variant_name, len(ops), len(blocks))))
    queries = []
    expect = []       # (query index, kind, payload)
    cur_arch = [None]
    arch_slots = {}   # (arch, chunk) -> {(i, j): (r, size)}
    temp_section = {}  # (t, k) -> [(o, size)]

    def shape_of(names):
        return ",".join("%d:%d" % ref.comps[n][:2] for n in names) if names else "-"

    def ask_layout(arch):
        if cur_arch[0] != arch:
            names = [] if arch == "-" else arch.split(",")
            queries.append("layout largest %d %s" % (ref.cap, shape_of(names)))
            expect.append((len(queries) - 1, "skip", None))
            cur_arch[0] = arch

    for (op, lines), opref in zip(blocks, ops):
        pre_ents = [None if e is None else set(e) for e in ref.ents]
        pre_locked = ref.locked
        ref.apply(op)
        w = op.split()
        if w[0] == "unlock":
            temp_section.clear()
        for l in lines:
            if l.startswith("error "):
                probs.append(("error", "%s: op `%s` inside the contract threw: %s" % (variant_name, op, l[6:200])))
            elif l.startswith("X "):
                probs.append(("fn-misaligned", "%s: op `%s`: a component function was called on a misaligned object: %s" % (variant_name, op, l[2:])))
            elif l.startswith("L "):
                d = kv(l)
                if "CHUNK-OVERLAP" in l:
                    probs.append(("overlap", "%s: two chunks of archetype {%s} overlap" % (variant_name, d["a"])))
                names = [] if d["a"] == "-" else d["a"].split(",")
                cap = int(d["cap"])
                if int(d["pop"]) > cap * int(d["nch"]) and any(ref.comps[n][0] for n in names):
                    probs.append(("capacity", "%s: archetype {%s} holds %s entities in %s chunks of %d" % (variant_name, d["a"], d["pop"], d["nch"], cap)))
                # chunk bases honour every member alignment
                if d["bm"] != "-":
                    for bm in d["bm"].split(","):
                        for n in names:
                            if int(bm) % min(ref.comps[n][1], 64) != 0:
                                probs.append(("misaligned", "%s: archetype {%s}: chunk base %% 64 = %s but component %s needs alignment %d (chunk_align_=%s)"
                                              % (variant_name, d["a"], bm, n, ref.comps[n][1], d["al"])))
                                break
                queries.append("layout largest %d %s" % (cap, shape_of(names)))
                cur_arch[0] = None
                expect.append((len(queries) - 1, "layout", (d, op)))
            elif l.startswith("P "):
                d = kv(l)
                how = l.split()[1]
                o = int(d["e"])
                c = d["c"]
                size, align, _ = ref.comps[c]
                # which component set does the entity have when the pointer is handed out?
                state = ref.ents if w[0] in ("assign", "tassign") else pre_ents
                has = 0 <= o < len(state) and state[o] is not None and c in state[o]
                if " null" in l:
                    if has:
                        probs.append(("null", "%s: op `%s`: null returned for entity %d which has component %s" % (variant_name, op, o, c)))
                    continue
                if not has:
                    probs.append(("null", "%s: op `%s`: non-null pointer for entity %d which has no component %s" % (variant_name, op, o, c)))
                    continue
                if int(d["m"]) % min(align, 64) != 0:
                    probs.append(("misaligned", "%s: op `%s`: component %s (size %d, alignment %d) of entity %d handed out at address %% 64 = %s (%s)"
                                  % (variant_name, op, c, size, align, o, d["m"], how)))
                if "STABLE-ERROR" in l:
                    probs.append(("unstable", "%s: op `%s`: address of component %s of entity %d changed without a structural change" % (variant_name, op, c, o)))
                if "CONTENT-ERROR" in l:
                    probs.append(("content", "%s: op `%s`: bytes of component %s of entity %d were overwritten" % (variant_name, op, c, o)))
                if "k" in d:
                    n = int(d["n"])
                    j = int(d["j"])
                    if int(d["k"]) < 0:
                        probs.append(("oob", "%s: op `%s`: pointer to component %s of entity %d (slot %d, %d elements) lies in no chunk of archetype {%s}"
                                      % (variant_name, op, c, o, j, n, d["a"])))
                        continue
                    if j % ref.cap + n > ref.cap:
                        probs.append(("oob", "%s: op `%s`: array of %d elements starting at slot %d crosses the chunk capacity %d" % (variant_name, op, n, j, ref.cap)))
                    names = [] if d["a"] == "-" else d["a"].split(",")
                    want_i = names.index(c) if c in names else -1
                    slots = arch_slots.setdefault((d["a"], int(d["k"])), {})
                    for t in range(n):
                        slots[(int(d["i"]), j + t)] = (int(d["r"]) + t * size, size, c)
                    ask_layout(d["a"])
                    queries.append("addr %s %d" % (d["i"], j))
                    expect.append((len(queries) - 1, "addr", (d, op, want_i)))
            elif l.startswith("T "):
                d = kv(l)
                c = d["c"]
                size, align, _ = ref.comps[c]
                if " null" in l:
                    probs.append(("null", "%s: op `%s`: assignment under lock returned null" % (variant_name, op)))
                    continue
                if int(d["m"]) % min(align, 64) != 0:
                    probs.append(("temp-misaligned", "%s: op `%s`: temporary of component %s (alignment %d) parked at address %% 64 = %s"
                                  % (variant_name, op, c, align, d["m"])))
                if "k" in d:
                    if int(d["k"]) < 0:
                        probs.append(("temp-oob", "%s: op `%s`: temporary of %s lies in no command-buffer chunk" % (variant_name, op, c)))
                        continue
                    if int(d["o"]) + size > int(d["cap"]):
                        probs.append(("temp-oob", "%s: op `%s`: temporary of %s at offset %s + %d exceeds the chunk capacity %s" % (variant_name, op, c, d["o"], size, d["cap"])))
                    temp_section.setdefault((d["t"], d["k"]), []).append((int(d["o"]), size, c))
                    pre = d.get("pre", "-").split("/")
                    if d["t"] == "0" and len(pre) == 3:
                        # single-step tie: the model's allocate from the OBSERVED buffer state
                        for ch in ([] if pre[2] == "-" else pre[2].split(",")):
                            b_, c_, f_ = ch.split(":")
                            if int(f_) > int(c_):
                                probs.append(("temp-oob", "%s: op `%s`: command-buffer chunk with free_space %s > capacity %s" % (variant_name, op, f_, c_)))
                        queries.append("tset %s %s %s" % (pre[0], pre[1], pre[2]))
                        expect.append((len(queries) - 1, "skip", None))
                        queries.append("talloc %s %d %d" % (d["b"], size, align))
                        expect.append((len(queries) - 1, "talloc", (d, op)))
                    iv = sorted(x for x in temp_section[(d["t"], d["k"])] if x[1] > 0)
                    for a, b in zip(iv, iv[1:]):
                        if a[0] + a[1] > b[0]:
                            probs.append(("temp-overlap", "%s: op `%s`: temporaries %s@%d+%d and %s@%d overlap in one command-buffer chunk"
                                          % (variant_name, op, a[2], a[0], a[1], b[2], b[0])))
    # disjointness of distinct (column, slot) pairs inside one chunk
    for (arch, k), slots in arch_slots.items():
        iv = sorted((r, size, c, ij) for ij, (r, size, c) in slots.items() if size > 0)
        for a, b in zip(iv, iv[1:]):
            if a[0] + a[1] > b[0]:
                probs.append(("overlap", "%s: archetype {%s} chunk %d: component %s slot %d at [%d,%d) overlaps component %s slot %d at %d"
                              % (variant_name, arch, k, a[2], a[3][1], a[0], a[0] + a[1], b[2], b[3][1], b[0])))
                break
    # ---- tie: the Lean model on the same questions ----
    if queries:
        ans = runner.model(queries)
        if ans is None or len(ans) != len(queries):
            probs.append(("tie-driver", "model driver failed on %d queries" % len(queries)))
        else:
            for qi, kind, payload in expect:
                a = kv(ans[qi])
                if kind == "layout":
                    d, op = payload
                    for f in ("al", "sz", "offs", "sizes"):
                        if a.get(f) != d[f]:
                            probs.append(("tie-layout", "%s: archetype {%s} cap %s: implementation %s=%s, model %s=%s (impl offs=%s sz=%s al=%s | model offs=%s sz=%s al=%s)"
                                          % (variant_name, d["a"], d["cap"], f, d[f], f, a.get(f), d["offs"], d["sz"], d["al"], a.get("offs"), a.get("sz"), a.get("al"))))
                            break
                elif kind == "addr":
                    d, op, want_i = payload
                    if str(want_i) != d["i"] or a.get("k") != d["k"] or a.get("r") != d["r"]:
                        probs.append(("tie-addr", "%s: op `%s`: component %s slot %s of {%s}: implementation column %s chunk %s offset %s, model column %d chunk %s offset %s"
                                      % (variant_name, op, d["c"], d["j"], d["a"], d["i"], d["k"], d["r"], want_i, a.get("k"), a.get("r"))))
                elif kind == "talloc":
                    d, op = payload
                    if a.get("k") != d["k"] or a.get("o") != d["o"] or a.get("cap") != d["cap"]:
                        probs.append(("tie-temp", "%s: op `%s`: command buffer: implementation chunk %s offset %s capacity %s, model chunk %s offset %s capacity %s"
                                      % (variant_name, op, d["k"], d["o"], d["cap"], a.get("k"), a.get("o"), a.get("cap"))))
    return probs


def check_case(runner, text):
    """-> (problems, stats)"""
    probs = []
    stats = {"pointers": 0, "temps": 0, "layouts": 0, "arrays": 0}
    for name, exe, san in (("asan+ubsan", runner.asan, True), ("plain+worst-case-allocator", runner.plain, False)):
        out, note = runner.run_variant(exe, text, san)
        if note:
            probs.append(("abort", "%s: %s" % (name, note)))
        try:
            probs += evaluate(runner, text, out, name)
        except (KeyError, ValueError, IndexError) as e:
            # an observation line that does not parse: output cut short by a crash, or memory corrupted in the unsanitized run
            probs.append(("proto", "%s: unparseable observation (%r)" % (name, e)))
        if san:
            stats["pointers"] = out.count("\nP ")
            stats["temps"] = out.count("\nT ")
            stats["layouts"] = out.count("\nL ")
            stats["arrays"] = out.count("\nP iter ")
    return probs, stats


def is_property(kind):
    return kind in PROPERTY_KINDS


def features(text):
    f = {}
    for l in wc.op_lines(text):
        w = l.split()
        f[w[0]] = f.get(w[0], 0) + 1
        if w[0] == "world":
            f["world:" + w[1]] = 1
        if w[0] == "comp":
            f["align:%s" % w[3]] = f.get("align:%s" % w[3], 0) + 1
            if int(w[2]) == 0:
                f["zero-size"] = f.get("zero-size", 0) + 1
            if len(w) > 4:
                f["typed"] = f.get("typed", 0) + 1
    return f


def exhaustive_cases(thorough):
    """small scopes: every ordered pair (thorough: triple) of a reduced shape set, registered in that order, one archetype
    holding all of them, populations around the capacity"""
    base = [(1, 1), (3, 1), (4, 4), (24, 8), (16, 16), (64, 64), (0, 8), (4096, 32)]
    out = []
    import itertools
    tuples = list(itertools.permutations(base, 2))
    if thorough:
        tuples += list(itertools.permutations(base, 3))
    for idx, tup in enumerate(tuples):
        cap = [1, 2, 3][idx % 3]
        lines = ["cap %d" % cap, "world %s" % WORLDS[idx % 4]]
        for i, (s, a) in enumerate(tup):
            lines.append("comp c%d %d %d%s" % (i, s, a, " typed" if (s, a) in TYPED and idx % 2 == 0 else ""))
        names = ",".join("c%d" % i for i in range(len(tup)))
        lines += ["create %s %d" % (names, 2 * cap + 1), "layout", "sweep", "iter %s" % names,
                  "create c0 1", "lock", "assign %d c1" % (2 * cap + 1), "unlock", "sweep", "end"]
        out.append(("exhaustive:%d" % idx, "\n".join(lines) + "\n"))
    return out


# ----------------------------------------------------------------------------------------------
# the check
# ----------------------------------------------------------------------------------------------
def run_layout_part(ctx, runner):
    rng = ctx.rng
    avoid_allzero = "zero_size_archetype" in ctx.open_known
    cases = []
    if getattr(ctx, "replay", None):
        cases.append(("replay:" + ctx.replay, open(ctx.replay).read()))
    else:
        d = os.path.join(vlib.VERIF, "corpus", "C10")
        for f in sorted(os.listdir(d)) if os.path.isdir(d) else []:
            if f.endswith(".lay"):
                cases.append(("corpus:corpus/C10/" + f, open(os.path.join(d, f)).read()))
        cases += exhaustive_cases(ctx.thorough)
        n = 40000 if ctx.thorough else 2000
        for i in range(n):
            cases.append(("random:%d" % i, gen_case(rng, ctx.thorough, avoid_allzero)))
    with cf.ThreadPoolExecutor(max(2, vlib.NPROC - 2)) as ex:
        results = list(ex.map(lambda c: check_case(runner, c[1]), cases))
    hist = {}
    totals = {"pointers": 0, "temps": 0, "layouts": 0, "arrays": 0}
    nontrivial = set()
    prop_fail, tie_fail = [], []
    known_hits = 0
    for (name, text), (probs, stats) in zip(cases, results):
        for k, v in features(text).items():
            hist[k] = hist.get(k, 0) + v
        for k in totals:
            totals[k] += stats[k]
        if stats["pointers"] >= 6 and stats["layouts"] >= 1:
            nontrivial.add(hash(text))
        pf = [p for p in probs if is_property(p[0])]
        if pf and name.startswith("corpus:") and "zero_size_archetype" in name and avoid_allzero:
            if ctx.known("zero_size_archetype", "an archetype made only of zero-size components has no chunk: lookups index an empty chunk table (%s)" % pf[0][1][:200]):
                known_hits += 1
                continue
        if pf:
            prop_fail.append((name, text, pf))
        elif probs:
            tie_fail.append((name, text, probs))
    reported = 0
    seen = set()
    for name, text, pf in prop_fail:
        kind = pf[0][0]
        if kind in seen or reported >= 3:
            continue
        seen.add(kind)

        def fails(t, kind=kind):
            if in_contract(t, avoid_allzero) is None:
                return False
            ps, _ = check_case(runner, t)
            return any(p[0] == kind for p in ps)
        small = wc.shrink(text, fails, budget=150)
        ps, _ = check_case(runner, small)
        msgs = [p[1] for p in ps if p[0] == kind] or [pf[0][1]]
        ctx.violation(small, "C10 fails on the implementation (%s, %s): %s" % (kind, name, msgs[0][:600]))
        reported += 1
    searched = 0
    if not reported and tie_fail:
        # search: the model and the code disagree - look for an input on which the PROPERTY fails, around the divergence
        name, text, probs = tie_fail[0]
        ref = in_contract(text)
        fixed = [(ref.comps[n][0], ref.comps[n][1], ref.comps[n][2] >= 0) for n in ref.order] if ref else None
        extra = [gen_case(rng, ctx.thorough, avoid_allzero, fixed_comps=fixed if i % 2 == 0 else None)
                 for i in range(1500 if ctx.thorough else 300)]
        with cf.ThreadPoolExecutor(max(2, vlib.NPROC - 2)) as ex:
            res = list(ex.map(lambda t: check_case(runner, t), extra))
        searched = len(extra)
        for t, (ps, _) in zip(extra, res):
            pf = [p for p in ps if is_property(p[0])]
            if pf:
                kind = pf[0][0]

                def fails2(x, kind=kind):
                    if in_contract(x, avoid_allzero) is None:
                        return False
                    q, _ = check_case(runner, x)
                    return any(p[0] == kind for p in q)
                small = wc.shrink(t, fails2, budget=150)
                ctx.violation(small, "C10 fails on the implementation (%s, found by the search after a broken tie): %s" % (kind, pf[0][1][:600]))
                reported += 1
                break
        if not reported:
            kind = probs[0][0]

            def fails3(x, kind=kind):
                if in_contract(x, avoid_allzero) is None:
                    return False
                q, _ = check_case(runner, x)
                return any(p[0] == kind for p in q)
            small = wc.shrink(text, fails3, budget=100)
            ctx.violation(small, "correspondence model<->implementation broken (%s; %d of %d cases; first %s): %s; the property oracle "
                          "(alignment, bounds, disjointness, stability, sanitizers) found no failing input in %d cases + %d searched around the divergence"
                          % (kind, len(tie_fail), len(cases), name, probs[0][1][:500], len(cases), searched), no_input=True)
    samples = [wc.op_lines(t)[:14] for _, t in cases[-3:]]
    ctx.cov(evaluations=len(cases), distinct_nontrivial=len(nontrivial),
            layout_cases=len(cases), pointers_checked=totals["pointers"], command_buffer_blocks_checked=totals["temps"],
            layouts_compared=totals["layouts"], iteration_arrays_checked=totals["arrays"],
            layout_op_histogram=dict(sorted(hist.items())), layout_property_failures=len(prop_fail), layout_tie_differences=len(tie_fail),
            searched_after_tie=searched, internals_observed=runner.internals, samples=samples)
    return reported


def world_cfgs():
    """generator configurations of the world-model properties (C01 C02 C03 C05 C09 C12 C13): their histories are inside the contract"""
    import importlib
    out = []
    for m in ("c01", "c02", "c03", "c05", "c09", "c12", "c13"):
        try:
            mod = importlib.import_module("props." + m)
            out.append((m.upper(), mod.CFG["mix"], dict(mod.CFG.get("gen", {})), mod.CFG.get("len", (8, 45))))
        except Exception:  # noqa: BLE001  (a module that is not there yet only narrows the histories)
            continue
    return out


OBSERVE_ONLY = {"dump", "valid", "has", "get", "archof", "marked"}


def shrink_world(ops, fails):
    """Contract-preserving reduction of a world history: the shortest failing prefix (a prefix of a history inside the contract is
    inside the contract), then removal of observation-only lines. Arbitrary line deletion could leave the contract (an op on an entity
    whose creation was deleted), so it is not attempted here."""
    lines = wc.op_lines(ops)
    lo, hi = 0, len(lines) - 1
    if not fails("\n".join(lines) + "\n"):
        return ops
    while lo < hi:
        mid = (lo + hi) // 2
        if fails("\n".join(lines[:mid + 1]) + "\n"):
            hi = mid
        else:
            lo = mid + 1
    lines = lines[:lo + 1]
    i = 0
    tries = 0
    while i < len(lines) - 1 and tries < 80:
        w = lines[i].split()
        if w and w[0].startswith("t") and w[0][1:].isdigit():
            w = w[1:]
        if w and w[0] in OBSERVE_ONLY:
            cand = lines[:i] + lines[i + 1:]
            tries += 1
            if fails("\n".join(cand) + "\n"):
                lines = cand
                continue
        i += 1
    return "\n".join(lines) + "\n"


def run_world(exe, ops, timeout=60):
    """world_driver under ASan+UBSan, leak detection off (see ENV). -> (output lines, note or None)"""
    rc, out, err = vlib.run([exe], inp=ops, timeout=timeout, env=ENV)
    note = None
    if rc != 0 or wc.SAN.search(err):
        m = wc.SAN.search(err)
        first = ""
        if m:
            ls = err[m.start():].splitlines()
            first = " | ".join(x.strip() for x in ls[:1] + [x for x in ls if " in " in x and "/src/mustache" in x][:3])
        note = "abort rc=%s %s" % (rc, first[:600] or err[-300:].replace("\n", " | "))
    return out.splitlines(), note


def run_world_part(ctx):
    exe = ctx.harness("world_driver", "asan")
    rng = ctx.rng
    files = []
    if getattr(ctx, "replay", None):
        return 0, 0
    for f in wc.corpus_files(["C01", "C02", "C03", "C05", "C09", "C10", "C12", "C13"]):
        files.append(("corpus:" + os.path.relpath(f, vlib.VERIF), open(f).read()))
    n = 20000 if ctx.thorough else 1200
    cfgs = world_cfgs()
    per_cfg = {}
    for i in range(n if cfgs else 0):
        cid, mix, gen, (lo, hi) = cfgs[i % len(cfgs)]
        # no malformed-handle stream here (C09's subject): a random or small raw handle can coincide with a live entity, the generator's
        # reference state does not see that kill, and a later `assign` on the dead entity is outside the contract (unguarded in the code)
        gen = {k: v for k, v in gen.items() if k != "malformed"}
        if "storagecap" not in gen and rng.random() < 0.5:
            gen = dict(gen, storagecap=rng.choice([1, 2, 3]))
        g = wc.Gen(rng, mix, **gen)
        files.append(("random-world:%s:%d" % (cid, i), g.run(rng.randint(lo, hi * (3 if ctx.thorough else 1)))))
        per_cfg[cid] = per_cfg.get(cid, 0) + 1
    # keep every history inside the documented contract: the Lean world model says where a history first leaves it (an unguarded
    # entry point given a handle that is not valid at that moment, an assignment of a component the entity already has, ...)
    class _Shim:
        pass
    shim = _Shim()
    shim.drv = ctx.driver()
    if hasattr(wc.Session, "in_contract"):
        with cf.ThreadPoolExecutor(max(2, vlib.NPROC - 2)) as ex:
            files = list(zip([f[0] for f in files], ex.map(lambda f: wc.Session.in_contract(shim, f[1]), files)))
    truncated = getattr(shim, "truncated", 0)
    with cf.ThreadPoolExecutor(max(2, vlib.NPROC - 2)) as ex:
        results = list(ex.map(lambda f: run_world(exe, f[1]), files))
    bad = [(name, ops, note) for (name, ops), (_, note) in zip(files, results) if note]
    # construct-over-live / destroy-of-dead reports of the harness are C03's subject (component lifecycle); counted, not judged here
    life = [(name, ops, [l for l in out if "LIFECYCLE-ERROR" in l][0]) for (name, ops), (out, note) in zip(files, results)
            if not note and any("LIFECYCLE-ERROR" in l for l in out)]
    reported = 0
    seen = set()
    for name, ops, note in bad:
        sig = re.sub(r"0x[0-9a-f]+|\d+", "#", note)[:60]
        if sig in seen or reported >= 2:
            continue
        seen.add(sig)

        def fails(t):
            return run_world(exe, t)[1] is not None
        small = shrink_world(ops, fails)
        ctx.violation(small, "C10 fails on the implementation: world history (%s) aborts / raises a sanitizer report: %s" % (name, note[:500]))
        reported += 1
    ctx.cov(world_histories=len(files), world_history_aborts=len(bad), world_histories_per_generator=per_cfg,
            lifecycle_reports_not_judged_here=len(life), world_histories_truncated_at_contract=truncated,
            lifecycle_report_sample=(life[0][0] + ": " + life[0][2][:200]) if life else None)
    return reported, len(files)


def run(ctx):
    if getattr(ctx, "prep_error", None) is not None:
        raise ctx.prep_error
    replay = getattr(ctx, "replay", None)
    world_replay = False
    if replay:
        first = (wc.op_lines(open(replay).read()) or ["?"])[0].split()[0]
        world_replay = first not in ("cap", "world", "comp")
    wn = 0
    if world_replay:
        exe = ctx.harness("world_driver", "asan")
        text = open(replay).read()
        out, note = run_world(exe, text)
        if note:
            ctx.violation(text, "C10 fails on the implementation: world history %s: %s" % (replay, note))
        ctx.cov(evaluations=1, internals_observed=True)
        internals = True
    else:
        runner = Runner(ctx)
        try:
            run_layout_part(ctx, runner)
        finally:
            runner.close()
        internals = runner.internals
        _, wn = run_world_part(ctx)
    ctx.cov(evaluations=wn,
            rule="layout case = one op file (capacity hook, way of constructing the world, 2-7 component types of size in {0,1,3,4,8,24,64,4096} "
                 "[thorough: more] x power-of-two alignment 1..64 with size % align = 0, run-time described or compiled, in that registration "
                 "order, then creates / lookups / assignments immediate and under lock / removes / destroys / iteration arrays / typed forEach / "
                 "sweeps) executed twice on the real library (ASan+UBSan; plain build with an allocator returning EXACTLY the requested "
                 "alignment) and compared with the Lean layout model; non-trivial = distinct cases with >= 6 pointers observed and >= 1 "
                 "archetype layout compared. world history = one world-model op file run under ASan+UBSan (sanitizer oracle only).",
            trusted_base=["Lean 4.33 kernel and the axioms listed under axioms_used",
                          "theorem statements in lean/Mustache/Props/C10.lean; generated lean/Mustache/Gen/EntityIR.lean (translator tie, see C16)",
                          "harness/layout_driver.cpp (pointer classification, worst-case aligned_alloc interposer), harness/world_driver.cpp",
                          "tools/props/c10.py generator / oracle; the differential tie shows agreement on what it ran only",
                          "AddressSanitizer / UndefinedBehaviorSanitizer for lifetime, aliasing-independent bounds and misaligned construction"])
    ctx.assume("PARTIAL: undefined behaviour of the C++ abstract machine (object lifetime, aliasing, allocator behaviour) is validated by "
               "sanitizers on the explored histories, not proved; the theorems cover address arithmetic and index ranges",
               "aligned_alloc(a, n) returns a multiple of a; distinct chunks are distinct live allocations",
               "alignments are powers of two and size % align = 0 (true of every C++ type; required of run-time described components)",
               "no 32-bit overflow of chunk offsets (chunk size + largest alignment < 2^32)")
    if not internals:
        ctx.assume("internal observations dropped (harness does not compile with them against this tree): " + getattr(runner, "build_note", "")[:300])

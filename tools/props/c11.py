"""C11 — change detection is quiescent and chunk-precise.

Proof: lean/Mustache/Props/C11.lean (`quiescent`, `no_self_retrigger`, `const_access_never_stamps`,
`chunk_precise`, `processed_whole_chunks`, `quiescent_untouched`, `chunk_size_resolution`, ...) over
Model/Versions.lean + Model/ChunkSize.lean. Tie: harness/version_driver.cpp vs `driver versions`.
Oracle (on the implementation's own output): processed entities of a job with a check mask lie in `touched`
chunks (ghost), whole chunks clipped to the population, none when nothing is touched; every archetype's
chunkCapacity equals the specified resolution, contradictory configurations are rejected.
Open known finding `check-outside-archetype` (known_findings.txt): corpus/C11/corner-check-outside-required.ops is
replayed on every run; while it reproduces, KNOWN-FINDING is printed (ctx.known); without the entry it is a VIOLATION.
"""
import os
import sys

sys.path.insert(0, os.path.dirname(os.path.abspath(__file__)))
import versions_common as vc  # noqa: E402
import vlib  # noqa: E402

HARNESSES = [(vc.HARNESS, "asan")]


def run(ctx):
    rng = ctx.rng
    batches = []
    batches.append(("chunk-size-configurations", vc.gen_chunk_configs(rng, 5000 if ctx.thorough else 150)))
    batches.append(("quiescence-shaped", vc.gen_quiescence(rng, 4000 if ctx.thorough else 250)))
    batches.append(("frame-orderings-exhaustive", vc.gen_frame_orderings(rng, 4 if ctx.thorough else 3)))
    hs = []
    for _ in range(14000 if ctx.thorough else 380):
        t, _h = vc.gen_history(rng, rng.randint(20, 220 if ctx.thorough else 70))
        hs.append(t)
    batches.append(("random-histories", hs))

    s = vc.run_check(ctx, "C11", os.path.join(vlib.VERIF, "corpus", "C11"), batches, "c11")
    st = s["stats"]
    ctx.cov(evaluations=s["evaluations"], distinct_nontrivial=s["nontrivial"],
            rule="a history counts when the implementation ran >= 2 job runs with work and >= 1 run without, "
                 "and it contains >= 1 successful write access / dirty mark or a relocation by removal",
            samples=s["samples"], trusted_base=vc.TRUSTED_BASE,
            op_histogram=s["hist"], batches=s["per_batch"],
            exhaustive="all %d-op sequences over a 14-op alphabet after a fixed prefix (chunk size 2, populations 3 and 2)"
                       % (4 if ctx.thorough else 3),
            job_runs=st.get("runs", 0), runs_with_work=st.get("runs_work", 0), runs_without_work=st.get("runs_empty", 0),
            runs_where_quiescence_was_demanded=st.get("runs_quiescent_checked", 0),
            of_which_with_matching_entities_present=st.get("runs_quiescent_with_entities", 0),
            runs_of_jobs_writing_their_own_check_mask=st.get("self_write_runs", 0),
            chunks_processed=st.get("chunks_processed", 0),
            partial_last_chunks_processed=st.get("partial_last_chunk_processed", 0),
            archetypes_created=st.get("arch_created", 0), rejected_configurations=st.get("rejections", 0),
            chunk_sizes_seen=st.get("cs_seen", {}), relocations_by_removal=st.get("relocations", 0),
            histories_showing_known_finding_check_outside_archetype=s["known_outside_histories"],
            runs_whose_body_modified_the_world=st.get("body_runs", 0),
            body_immediate_writes=st.get("body_immediate_writes", 0),
            body_deferred_structural_changes=st.get("body_deferred_changes", 0),
            runs_of_jobs_with_chunk_filter=st.get("runs_with_chunk_filter", 0),
            vetoed_chunks_skipped=st.get("vetoed_chunks_skipped", 0),
            runs_of_jobs_with_archetype_filter=st.get("runs_with_archetype_filter", 0),
            archetypes_closed_by_dependency=st.get("archetypes_closed_by_dependency", 0),
            tie_divergences=s["tie_breaks"], searched_after_divergence=s["searched"])
    ctx.assume("open known finding key=check-outside-archetype: a job with a non-empty check mask none of whose "
               "components the matched archetype has is never quiescent there (corpus/C11/corner-check-outside-required.ops "
               "is replayed on every run; generated jobs keep the check mask inside the required mask); every other "
               "quiescence / precision failure is a violation",
               "a job with an EMPTY check mask is unfiltered by design (PerEntityJob default) and selects everything",
               "default chunk size >= 1 (DESIGN 3.3); min = 0 / max = 0 of a chunk-size function mean no bound",
               "32-bit world version does not wrap (w < 2^32); World::init() outside the operation set",
               "jobs run in JobRunMode::kCurrentThread (task splitting is C04/C06)")

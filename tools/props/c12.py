"""C12 - world-model property (DESIGN.md section 4, ### C12): correspondence of harness/world_driver.cpp with the Lean world
model (tie) and with the Lean world spec (property oracle) on corpus + generated op files; theorems in lean/Mustache/Props/C12.lean."""
from props import world_common as wc

HARNESSES = wc.HARNESSES
LEVEL_WITHOUT_PROOF = "other"

CFG = dict(
    mix=dict(create=3, assign=2, remove=2, sassign=4, sremove=2, build=2, destroynow=1, clone=1, dump=1, clear=0.3, createin=1, latedep=0.6),
    corpus=[x for x in "C12".split(",")],
    n_quick=500, n_thorough=6000, len=(8, 45),
    gen=dict(lock_bias=0.0, shared=True, latedep_held=True, ndeps=1),
    what="shared assign/replace/remove mixed with ordinary and builder edits and creation with shared types; instance identity classes and values",
)


def run(ctx):
    wc.run_world_check(ctx, CFG)

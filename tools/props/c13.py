"""C13 - world-model property (DESIGN.md section 4, ### C13): correspondence of harness/world_driver.cpp with the Lean world
model (tie) and with the Lean world spec (property oracle) on corpus + generated op files; theorems in lean/Mustache/Props/C13.lean."""
from props import world_common as wc

HARNESSES = wc.HARNESSES
LEVEL_WITHOUT_PROOF = "other"

CFG = dict(
    mix=dict(create=4, assign=4, assign0=2, remove=4, build=3, destroynow=1, lock=1, unlock=1, dump=1, latedep=1, latescn=1),
    corpus=[x for x in "C13".split(",")],
    n_quick=500, n_thorough=6000, len=(8, 45),
    gen=dict(lock_bias=0.15, ndeps=3, letters='BCDFGH', latedep_held=True, reassign=True),
    what="random dependency graphs (chains, diamonds, cycles) declared up front; all four ways of gaining a component, immediate and deferred",
)


def run(ctx):
    wc.run_world_check(ctx, CFG)

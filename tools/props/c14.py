"""C14 — systems run in a constraint- and priority-respecting order; lifecycle is legal.

Tie / oracle (DESIGN.md section 4, C14): every case (a short op file, grammar in
harness/systems_driver.cpp) is executed on the real SystemManager by `systems_driver`; the
implementation's observation of every op (outcome, callbacks in order) is handed to the Lean driver
(`driver systems`), which runs the proved model on the same op and judges the IMPLEMENTATION's
observation: outcome equal to the model's (success / "Invalid state" / "Can not reorder systems" /
terminate), per-object callbacks equal to the model's, the implementation's own update sequence
accepted by `validUpdateB` (spec `ValidOrder`), every callback accepted by the lifecycle acceptor,
no callback on a removed object.  Equal-priority order is never compared with the model's order.
"""
import itertools
import os
from concurrent.futures import ThreadPoolExecutor

import vlib

HARNESSES = [("systems_driver", "asan")]

CORPUS = os.path.join(vlib.VERIF, "corpus", "C14")
KINDS = ("crash", "outcome", "order", "life", "removed", "events", "machinery")
# kinds on which the PROPERTY fails on the implementation's own output ("events" alone is a broken tie)
PROPERTY_KINDS = ("crash", "outcome", "order", "life", "removed")


# ------------------------------------------------------------------------------------------------
# running cases
# ------------------------------------------------------------------------------------------------

class Runner:
    def __init__(self, ctx):
        self.ctx = ctx
        self.exe = ctx.harness("systems_driver")
        self.drv = ctx.driver()
        self.harness_runs = 0
        self.crashes = 0

    def _impl(self, cases):
        """cases: list of list-of-op-lines. Returns per case (list of (outcome, events)), crash text or None."""
        res = [None] * len(cases)
        start = 0
        while start < len(cases):
            text = []
            for i in range(start, len(cases)):
                text.append("case %d" % i)
                text.extend(cases[i])
            try:
                rc, out, err = vlib.run([self.exe], inp="\n".join(text) + "\n", timeout=600)
            except FileNotFoundError:
                # the shared build cache was pruned by a concurrent check of another tree: rebuild
                self.exe = self.ctx.harness("systems_driver")
                rc, out, err = vlib.run([self.exe], inp="\n".join(text) + "\n", timeout=600)
            self.harness_runs += 1
            per = {}
            begun = -1
            for line in out.splitlines():
                w = line.split()
                if len(w) == 2 and w[0].isdigit() and w[1] == "begin":
                    begun = max(begun, int(w[0]))
                    per.setdefault(int(w[0]), [])
                elif len(w) == 4 and w[0].isdigit() and w[1].isdigit():
                    per.setdefault(int(w[0]), []).append((int(w[1]), w[2], w[3]))
            for i in range(start, len(cases)):
                if i in per:
                    res[i] = ([(o, e) for (_, o, e) in per[i]], None)
            done = (rc == 0 and begun == len(cases) - 1 and len(res[begun][0]) == len(cases[begun]))
            if done:
                break
            # the process died in the last case that had begun (during one of its ops or while its World
            # was destroyed), or before the first case of this batch existed
            self.crashes += 1
            bad = begun if begun >= start else start
            obs = res[bad][0] if res[bad] else []
            if obs and obs[-1][0] == "aborted":
                why = None              # the harness reported std::terminate itself; the model judges it
            else:
                why = "rc=%s %s" % (rc, _sanitizer_summary(err))
            res[bad] = (obs, why)
            start = bad + 1
        return res

    def run(self, cases):
        """Returns list of dict(kind, detail, lines(verdict), obs) per case; kind None = pass."""
        impl = self._impl(cases)
        inp = []
        for i, (ops, (obs, crash)) in enumerate(zip(cases, impl)):
            inp.append("case %d" % i)
            for j, (o, e) in enumerate(obs):
                inp.append("op " + ops[j])
                inp.append("impl %s %s" % (o, e))
            if crash is not None and len(obs) < len(ops):
                inp.append("op " + ops[len(obs)])
                inp.append("impl crashed -")
        rc, out, err = vlib.run([self.drv, "systems"], inp="\n".join(inp) + "\n", timeout=600)
        per = {}
        for line in out.splitlines():
            w = line.split()
            if w and w[0].isdigit():
                per.setdefault(int(w[0]), []).append(line)
        results = []
        for i, (ops, (obs, crash)) in enumerate(zip(cases, impl)):
            lines = per.get(i, [])
            r = {"kind": None, "detail": "", "lines": lines, "obs": obs, "op": None, "malformed": False}
            expect = len(obs) + (1 if crash is not None and len(obs) < len(ops) else 0)
            if rc not in (0, 1) or len(lines) != expect or any("PARSE-ERROR" in l for l in lines):
                r["kind"] = "machinery"
                r["detail"] = "Lean driver failed (rc=%s): %s %s" % (rc, err[-300:], [l for l in lines if "PARSE" in l][:1])
                results.append(r)
                continue
            if any(" MALFORMED " in l for l in lines):
                # outside the contract (a second system under a registered name): nothing is claimed
                r["malformed"] = True
                results.append(r)
                continue
            for j, l in enumerate(lines):
                k = _line_kind(l)
                if crash is not None and j == len(obs):
                    k = "crash"
                if k == "outcome" and j < len(obs) and obs[j][0] == "aborted":
                    k = "crash"      # std::terminate where the specification expects the call to return
                if k:
                    r["kind"] = k
                    r["op"] = j
                    r["detail"] = ("implementation crashed on op %d `%s`: %s | %s"
                                   % (j, ops[j], crash or "std::terminate (an exception escaped a noexcept function)", l)
                                   if k == "crash" else
                                   "op %d `%s`: impl %s -> %s" % (j, ops[j], " ".join(obs[j]), l))
                    break
            if r["kind"] is None and crash is not None:
                r["kind"] = "crash"
                r["detail"] = "implementation crashed after the last op: %s" % crash
            results.append(r)
        return results


def _sanitizer_summary(err):
    for l in err.splitlines():
        if "runtime error" in l or "ERROR: AddressSanitizer" in l or "SUMMARY" in l:
            return l.strip()[:300]
    return err.strip()[-300:]


def _line_kind(line):
    head = line.split("|")[0]
    if "outcome=DIFF" in head:
        return "outcome"
    if "removed=BAD" in head:
        return "removed"
    if "life=BAD" in head:
        return "life"
    if "order=BAD" in head:
        return "order"
    if "events=DIFF" in head:
        return "events"
    return None


# ------------------------------------------------------------------------------------------------
# reference bookkeeping for the generators (guidance only — never used as an oracle)
# ------------------------------------------------------------------------------------------------

def _cyclic(present):
    """present: dict name -> (after set, before set). Is the constraint relation on present names cyclic?"""
    succ = {n: set() for n in present}       # edge b -> a : b must precede a
    for a, (after, before) in present.items():
        for b in after:
            if b in present:
                succ[b].add(a)
        for b in before:
            if b in present:
                succ[a].add(b)
    color = {}

    def dfs(n):
        color[n] = 1
        for k in succ[n]:
            if color.get(k) == 1 or (k not in color and dfs(k)):
                return True
        color[n] = 2
        return False
    return any(n not in color and dfs(n) for n in present)


def csv(xs):
    xs = sorted(set(xs))
    return ",".join(map(str, xs)) if xs else "-"


def add_line(name, pre, group, prio, after, before):
    return "add %d %d %d %d %s %s" % (name, 1 if pre else 0, group, prio, csv(after), csv(before))


class Ref:
    """What the generator needs to know to stay inside the contract."""

    def __init__(self):
        self.present = {}      # name -> (after, before)
        self.was_init = False
        self.stuck = False     # the last ordering attempt failed (exception reported)

    def constraints(self):
        # before init nothing is configured: configs are empty
        return self.present if self.was_init else {n: (set(), set()) for n in self.present}

    def would_be_cyclic_without(self, name):
        p = dict(self.constraints())
        p.pop(name, None)
        return _cyclic(p)


# ------------------------------------------------------------------------------------------------
# generators
# ------------------------------------------------------------------------------------------------

def gen_exhaustive(n, prio_patterns, splits, with_remove, self_loops=False, absent=False):
    """All constraint graphs on systems 1..n: every system picks any subset of the others as update_after
    and any subset as update_before. `splits`: how many systems are added before init."""
    names = list(range(1, n + 1))
    choices = []
    for a in names:
        others = [b for b in names if b != a]
        pool_after = others + ([a] if self_loops else []) + ([9] if absent else [])
        pool_before = others + ([9] if absent else [])
        subs_a = [s for r in range(len(pool_after) + 1) for s in itertools.combinations(pool_after, r)]
        subs_b = [s for r in range(len(pool_before) + 1) for s in itertools.combinations(pool_before, r)]
        choices.append([(set(x), set(y)) for x in subs_a for y in subs_b])
    for graph in itertools.product(*choices):
        decl = dict(zip(names, graph))
        for prios in prio_patterns:
            for k in splits:
                ops = []
                for a in names[:k]:
                    ops.append(add_line(a, False, 0, prios[a - 1], *decl[a]))
                ops.append("init")
                ops.append("update")
                for a in names[k:]:
                    ops.append(add_line(a, False, 0, prios[a - 1], *decl[a]))
                if k < n:
                    ops.append("update")
                if with_remove:
                    # remove one system so that the rest is consistent (removeSystem is noexcept), update again
                    for victim in names:
                        rest = {m: decl[m] for m in names if m != victim}
                        if not _cyclic(rest):
                            ops.append("remove %d" % victim)
                            ops.append("update")
                            break
                ops.append("end")
                yield ops


def gen_random(rng, max_sys=8, max_ops=22):
    """One random history: adds before/after init, update_before/update_after incl. absent names and cycles,
    groups, removal, re-adding a removed name, pause/resume/stop (legal and illegal), updates."""
    ref = Ref()
    ops = []
    nsys = rng.randint(1, max_sys)
    pool = list(range(1, nsys + 1))
    density = rng.choice([0.0, 0.1, 0.2, 0.35, 0.6])
    before_share = rng.random()
    prio_range = rng.choice([0, 1, 2, 5])
    ngroups = rng.choice([1, 1, 2, 3])
    cyclic_ok = rng.random() < 0.35
    length = rng.randint(3, max_ops)
    init_at = rng.randint(0, length)

    def new_decl(name):
        after, before = set(), set()
        for other in pool + [9, 10]:
            if rng.random() < density:
                if other == name and rng.random() < 0.8:
                    continue
                (before if rng.random() < before_share else after).add(other)
        return after, before

    for i in range(length):
        if i == init_at and not ref.was_init:
            ops.append("init")
            ref.was_init = True
            ref.stuck = _cyclic(ref.constraints())
            continue
        r = rng.random()
        absent_names = [n for n in pool if n not in ref.present]
        if r < 0.40 and absent_names:
            name = rng.choice(absent_names)
            after, before = new_decl(name)
            if not cyclic_ok:
                trial = dict(ref.present)
                trial[name] = (after, before)
                if _cyclic(trial):
                    after, before = set(), set()
            ref.present[name] = (after, before)
            ops.append(add_line(name, rng.random() < 0.2, rng.randrange(ngroups),
                                rng.randint(-prio_range, prio_range), after, before))
            if ref.was_init:
                ref.stuck = _cyclic(ref.constraints())
        elif r < 0.52 and ref.present:
            cands = [n for n in ref.present if not ref.would_be_cyclic_without(n)]
            if rng.random() < 0.1:
                ops.append("remove %d" % rng.choice([9, 10] + absent_names))      # unknown name: no-op
            elif cands:
                name = rng.choice(cands)
                ref.present.pop(name)
                ref.stuck = False
                ops.append("remove %d" % name)
        elif r < 0.60:
            ops.append("group %d %d" % (rng.randrange(ngroups + 1), rng.randint(-2, 2)))
        elif r < 0.72 and ref.present:
            ops.append("%s %d" % (rng.choice(["pause", "pause", "resume", "stop"]), rng.choice(list(ref.present))))
        else:
            ops.append("update")
    if not ref.was_init and rng.random() < 0.8:
        ops.append("init")
    ops.append("update")
    ops.append("end")
    return ops


# ------------------------------------------------------------------------------------------------
# shrinking
# ------------------------------------------------------------------------------------------------

def _simplify_line(line):
    w = line.split()
    out = []
    if w[0] == "add":
        n, pre, g, p, after, before = w[1:]
        if pre != "0":
            out.append("add %s 0 %s %s %s %s" % (n, g, p, after, before))
        if g != "0":
            out.append("add %s %s 0 %s %s %s" % (n, pre, p, after, before))
        if p != "0":
            out.append("add %s %s %s 0 %s %s" % (n, pre, g, after, before))
        for idx, fld in ((4, after), (5, before)):
            if fld != "-":
                items = fld.split(",")
                for k in range(len(items)):
                    rest = items[:k] + items[k + 1:]
                    ww = list(w[1:])
                    ww[idx] = ",".join(rest) if rest else "-"
                    out.append("add " + " ".join(ww))
    return out


def shrink(runner, ops, kind, budget=400):
    """Delta debugging on lines, then on the fields of add lines, preserving the failure kind."""
    def fails(cands):
        # crashes kill the harness process: cases after a crash are re-run by the runner anyway
        rs = runner.run(cands)
        return [r["kind"] == kind for r in rs]

    cur = list(ops)
    spent = 0
    changed = True
    while changed and spent < budget:
        changed = False
        # chunks first, then single lines
        n = len(cur)
        for size in (n // 2, n // 4, 1):
            if size < 1:
                continue
            cands = [cur[:i] + cur[i + size:] for i in range(0, n, size) if cur[:i] + cur[i + size:]]
            if not cands:
                continue
            spent += len(cands)
            ok = fails(cands)
            hit = [c for c, f in zip(cands, ok) if f]
            if hit:
                cur = min(hit, key=len)
                changed = True
                break
        if changed:
            continue
        cands = []
        for i, l in enumerate(cur):
            for s in _simplify_line(l):
                cands.append(cur[:i] + [s] + cur[i + 1:])
        if cands:
            spent += len(cands)
            ok = fails(cands)
            for c, f in zip(cands, ok):
                if f:
                    cur = c
                    changed = True
                    break
    return cur


# ------------------------------------------------------------------------------------------------
# the check
# ------------------------------------------------------------------------------------------------

def read_ops_file(path):
    """An op file holds one case, or several separated by `case` lines."""
    cases, cur = [], []
    for raw in open(path):
        l = raw.strip()
        if not l or l.startswith("#"):
            continue
        if l.split()[0] == "case":
            if cur:
                cases.append(cur)
            cur = []
        else:
            cur.append(l)
    if cur:
        cases.append(cur)
    return cases


def _features(ops):
    f = set()
    seen_init = False
    for l in ops:
        w = l.split()
        if w[0] == "init":
            seen_init = True
        elif w[0] == "add":
            f.add("add_after_init" if seen_init else "add_before_init")
            if w[5] != "-":
                f.add("update_after")
            if w[6] != "-":
                f.add("update_before")
            if w[3] != "0":
                f.add("group")
            if w[2] == "1":
                f.add("precreated")
            if "9" in (w[5] + "," + w[6]).split(",") or "10" in (w[5] + "," + w[6]).split(","):
                f.add("absent_reference")
        elif w[0] in ("remove", "group", "pause", "resume", "stop", "update"):
            f.add(w[0])
    return f


def run(ctx):
    runner = Runner(ctx)
    rng = ctx.rng
    stats = {"cases": 0, "ops": 0, "order_judged": 0, "outcomes": {}, "features": {}, "kinds": {},
             "sizes": {}, "nontrivial": set()}
    failures = {}          # kind -> (ops, detail) first seen
    samples = []

    def account(cases, results):
        for ops, r in zip(cases, results):
            stats["cases"] += 1
            stats["ops"] += len(r["lines"])
            for f in _features(ops):
                stats["features"][f] = stats["features"].get(f, 0) + 1
            nadd = sum(1 for l in ops if l.startswith("add "))
            stats["sizes"][nadd] = stats["sizes"].get(nadd, 0) + 1
            judged = 0
            cons = any(l.startswith("add ") and (l.split()[5] != "-" or l.split()[6] != "-") for l in ops)
            for l in r["lines"]:
                head, _, model = l.partition("| model ")
                mo = model.split()[0] if model else "?"
                stats["outcomes"][mo] = stats["outcomes"].get(mo, 0) + 1
                if "order=ok" in head and model.count(":") >= 2:
                    judged += 1
            stats["order_judged"] += judged
            if judged and cons and nadd >= 2:
                stats["nontrivial"].add(hash("\n".join(ops)))
            if r["malformed"]:
                stats["malformed"] = stats.get("malformed", 0) + 1
            if r["kind"]:
                stats["kinds"][r["kind"]] = stats["kinds"].get(r["kind"], 0) + 1
                lst = failures.setdefault(r["kind"], [])
                if len(lst) < 60:
                    lst.append((ops, r["detail"]))

    def run_all(cases, chunk=400):
        """cases: list or generator of op-line lists; evaluated in waves of parallel chunks."""
        it = iter(cases)
        nthreads = max(1, min(vlib.NPROC, 16))
        with ThreadPoolExecutor(nthreads) as ex:
            while True:
                wave = []
                for _ in range(nthreads * 2):
                    c = list(itertools.islice(it, chunk))
                    if not c:
                        break
                    wave.append(c)
                if not wave:
                    return True
                for cs, rs in zip(wave, ex.map(runner.run, wave)):
                    account(cs, rs)
                # a tree that crashes everywhere: stop burning time once the evidence is there
                if runner.crashes > 200:
                    return False

    # ---- replay mode -------------------------------------------------------------------------
    if getattr(ctx, "replay", None):
        cases = read_ops_file(ctx.replay)
        rs = runner.run(cases)
        account(cases, rs)
        for ops, r in zip(cases, rs):
            log_case(ops, r)
            if r["malformed"]:
                vlib.log("[C14] replay is outside the contract (adds a system under a name that is already "
                         "registered): nothing to decide")
            if r["kind"]:
                ctx.violation("\n".join(ops), "replay fails (%s): %s" % (r["kind"], r["detail"]),
                              no_input=(r["kind"] in ("events", "machinery")))
        finish(ctx, runner, stats, samples, replay=True)
        return

    # ---- corpus first ------------------------------------------------------------------------
    corpus = []
    if os.path.isdir(CORPUS):
        for f in sorted(os.listdir(CORPUS)):
            if f.endswith(".ops"):
                corpus.extend(read_ops_file(os.path.join(CORPUS, f)))
    run_all(corpus)
    stats["corpus_cases"] = len(corpus)

    # ---- exhaustive small scopes -------------------------------------------------------------
    scopes = []
    P1 = [(0,)]
    P2 = [(0, 0), (1, 2), (2, 1)]
    P3 = [(0, 0, 0), (1, 2, 3), (3, 2, 1)]
    before = stats["cases"]
    exhaustive = itertools.chain(
        gen_exhaustive(1, P1, [0, 1], True, self_loops=True, absent=True),
        gen_exhaustive(2, P2, [0, 1, 2], True, self_loops=True, absent=True),
        gen_exhaustive(3, P3, [3], False),
        gen_exhaustive(3, [(0, 0, 0)], [0, 1, 2], True),
        _gen_n4("after"), _gen_n4("before"))
    scopes.append("n<=2: all update_after/update_before graphs incl. self loops and an absent name, "
                  "3 priority patterns, every init position, with removal")
    scopes.append("n=3: all 4096 graphs x {3 priority patterns, all added before init} + "
                  "x {0,1,2 added before init, rest after, equal priorities, removal}")
    scopes.append("n=4: all 4096 graphs using only update_after and all 4096 using only update_before, "
                  "priorities (0,1,0,1), 2 added before init, 2 after")
    if ctx.thorough:
        exhaustive = itertools.chain(
            exhaustive,
            gen_exhaustive(3, [(2, 1, 2), (1, 1, 0)], [0, 1, 2, 3], True),
            gen_exhaustive(3, [(0, 0, 0)], [3], True, self_loops=True),
            _gen_n4("mixed"))
        scopes.append("n=3: 2 more priority patterns x every init position with removal; self loops")
        scopes.append("n=4: all 3^12 graphs where every ordered pair (a,b) is unconstrained, a update_after b, "
                      "or a update_before b; priorities (0,1,0,1), 2 added before init, 2 after")
    cont = run_all(exhaustive)
    stats["exhaustive_cases"] = stats["cases"] - before

    # ---- random histories --------------------------------------------------------------------
    nrand = 1000000 if ctx.thorough else 30000
    first = [gen_random(rng, max_sys=8, max_ops=22) for _ in range(5)]
    samples = ["; ".join(c) for c in first[:3]] + ["; ".join(c) for c in itertools.islice(gen_exhaustive(3, P3, [3], False), 1000, 1002)]
    before = stats["cases"]
    if cont:
        run_all(itertools.chain(first, (gen_random(rng, max_sys=8, max_ops=(30 if ctx.thorough else 22))
                                        for _ in range(nrand - len(first)))))
    stats["random_cases"] = stats["cases"] - before

    # ---- verdicts ----------------------------------------------------------------------------
    report(ctx, runner, failures, rng)
    finish(ctx, runner, stats, samples, scopes=scopes)


def _gen_n4(mode):
    names = [1, 2, 3, 4]
    pairs = [(a, b) for a in names for b in names if a != b]
    prios = (0, 1, 0, 1)
    if mode == "mixed":
        codes = itertools.product((0, 1, 2), repeat=len(pairs))      # 0 none, 1 after, 2 before
    else:
        k = 1 if mode == "after" else 2
        codes = (tuple(k if bits >> i & 1 else 0 for i in range(len(pairs))) for bits in range(1 << len(pairs)))
    for code in codes:
        decl = {a: (set(), set()) for a in names}
        for (a, b), c in zip(pairs, code):
            if c:
                decl[a][c - 1].add(b)
        ops = []
        for a in names[:2]:
            ops.append(add_line(a, False, 0, prios[a - 1], *decl[a]))
        ops += ["init", "update"]
        for a in names[2:]:
            ops.append(add_line(a, False, 0, prios[a - 1], *decl[a]))
        ops += ["update", "end"]
        yield ops


def log_case(ops, r):
    vlib.log("[C14] case: " + "; ".join(ops))
    for l in r["lines"]:
        vlib.log("[C14]   " + l)
    if r["kind"]:
        vlib.log("[C14]   => %s: %s" % (r["kind"], r["detail"]))


def report(ctx, runner, failures, rng):
    """Property-level failures are reported with a shrunk replay; a broken tie with no property failure
    among everything that was run is reported as no-failing-input-found."""
    prop_kinds = [k for k in PROPERTY_KINDS if k in failures]
    for k in prop_kinds:
        # shrink the shortest few, keep the smallest
        cands = sorted(failures[k], key=lambda x: (len(x[0]), x[0]))[:3]
        best = None
        for ops, detail in cands:
            small = shrink(runner, ops, k)
            if best is None or len(small) < len(best):
                best = small
        r = runner.run([best])[0]
        what = {
            "crash": "the implementation crashed / was terminated (sanitizer report, segfault or exception in a noexcept function)",
            "outcome": "success/exception outcome differs from the specification (contradictory constraints must throw, consistent ones must not)",
            "order": "the implementation's update sequence is not an admissible order (constraint or priority violated, or an active system not updated exactly once)",
            "life": "a system saw an illegal lifecycle transition",
            "removed": "a removed system received a callback",
        }[k]
        ctx.violation("\n".join(best), "%s\n%s\n(%d failing cases of this kind in this run)"
                      % (what, r["detail"] or cands[0][1], len(failures[k])))
    if not prop_kinds:
        for k in ("events", "machinery"):
            if k in failures:
                ops, detail = sorted(failures[k], key=lambda x: len(x[0]))[0]
                small = shrink(runner, ops, k) if k == "events" else ops
                # search around the divergence for an input on which the PROPERTY fails
                found = search_near(runner, [small] + [o for o, _ in failures[k][:10]], rng) if k == "events" else None
                if found:
                    fk, fops = found
                    fops = shrink(runner, fops, fk)
                    r = runner.run([fops])[0]
                    ctx.violation("\n".join(fops), "found by the search around a model/implementation divergence (%s): %s"
                                  % (fk, r["detail"]))
                    return
                r = runner.run([small])[0]
                ctx.violation("\n".join(small),
                              "correspondence model<->implementation broken (%s): %s\nthe order/lifecycle/removal oracles "
                              "and the outcome comparison found no failing input among all cases of this run "
                              "nor in the search around the divergence" % (k, r["detail"] or detail), no_input=True)
                return


def search_near(runner, seeds, rng, rounds=3):
    """Mutate diverging cases (insert / duplicate / drop ops, continue them randomly) and look for a
    property-level failure on the implementation."""
    pool = [list(s) for s in seeds]
    for _ in range(rounds):
        cands = []
        for ops in pool[:20]:
            names = sorted({l.split()[1] for l in ops if l.split()[0] in ("add", "remove", "pause", "resume", "stop")}) or ["1"]
            body = [l for l in ops if l != "end"]
            for i in range(len(body) + 1):
                for ins in ["update", "init"] + ["%s %s" % (o, n) for o in ("pause", "resume", "stop", "remove") for n in names]:
                    cands.append(body[:i] + [ins] + body[i:] + ["update", "end"])
            for _ in range(30):
                tail = [l for l in gen_random(rng, max_sys=5, max_ops=10) if l not in ("init", "end")]
                cands.append(body + tail + ["update", "end"])
        rs = runner.run(cands)
        for c, r in zip(cands, rs):
            if r["kind"] in PROPERTY_KINDS:
                return r["kind"], c
        pool = [c for c, r in zip(cands, rs) if r["kind"] == "events"] or pool
        rng.shuffle(pool)
    return None


def finish(ctx, runner, stats, samples, scopes=None, replay=False):
    ctx.assume(
        "user callbacks do not throw and do not call back into the SystemManager",
        "system names are unique among present systems (the manager indexes by name)",
        "removeSystem is only called when the remaining constraints are consistent (it is noexcept; "
        "a still-contradictory remainder terminates the process — modelled as outcome `aborted`, not generated)",
        "validUpdateB (the search used on the implementation's update sequence) is proved sound (it accepts only "
        "ValidUpdate sequences, theorem validUpdate_sound); that it accepts every ValidUpdate sequence is validated by "
        "the runs on the repaired tree, not proved",
        "World::init() reaches the SystemManager only if World::systems() was called before; the harness calls "
        "World::systems().init() as tests/system.cpp does",
        "external lifecycle calls are pause/resume/stop; create/configure/start/destroy are driven by the manager "
        "(create optionally by the user before addSystem)",
    )
    ctx.cov(
        evaluations=stats["cases"],
        distinct_nontrivial=len(stats["nontrivial"]),
        rule="distinct op files with >= 2 systems, at least one declared constraint, and at least one manager update "
             "whose implementation order (>= 2 systems updated) was judged by validUpdateB",
        ops_judged=stats["ops"],
        updates_judged_by_order_oracle=stats["order_judged"],
        model_outcomes=stats["outcomes"],
        op_features=stats["features"],
        systems_per_case=stats["sizes"],
        failure_kinds=stats["kinds"],
        malformed_cases_discarded=stats.get("malformed", 0),
        corpus_cases=stats.get("corpus_cases", 0),
        exhaustive_cases=stats.get("exhaustive_cases", 0),
        random_cases=stats.get("random_cases", 0),
        exhaustive=scopes or [],
        harness_processes=runner.harness_runs,
        samples=samples,
        trusted_base=[
            "Lean 4 kernel; statements of Spec/Systems.lean (ValidOrder, ValidUpdate, Cyclic, legalTrace) and of Props/C14.lean",
            "harness/systems_driver.cpp (instrumented systems log every callback; outcome mapping)",
            "Driver/Systems.lean judge (feeds the implementation's observation to validUpdateB / allowedNext)",
            "differential tie: agreement shown on the cases run, not for all inputs",
        ],
    )

"""C15 — events reach exactly the current subscribers, once, in any manager.

Three streams per history (= one op file, run in a FRESH process of the harness, because the event-type
registry is process-global):

  impl   harness/events_driver.cpp on the real library (ASan+UBSan, -D_GLIBCXX_ASSERTIONS)
  model  `driver events`, lines `M …`  (Mustache.Model.Events: id registry, slot vectors, weak homes)
  spec   `driver events`, lines `S …`  (Mustache.Spec.Events: subs : manager × type -> receivers)

  oracle : public part of every impl line (ordinals returned, the delivery list of every post) == spec
  tie    : whole impl line (plus process-global type id and every live manager's slot table) == model

The theorems of Props/C15.lean (checked by check.py before this module runs) say model == spec for all
legal histories; the tie says impl == model on what was run.
"""
import glob
import os
import shutil
import sys
import threading
import time
from concurrent.futures import ThreadPoolExecutor

sys.path.insert(0, os.path.dirname(os.path.dirname(os.path.abspath(__file__))))
import vlib  # noqa: E402

HARNESS_DEFS = ("-D_GLIBCXX_ASSERTIONS",)
HARNESSES = [("events_driver", "asan", HARNESS_DEFS)]

N_TYPES = 8          # Ev<0..7> in the harness
CORPUS = os.path.join(vlib.VERIF, "corpus", "C15")
KNOWN = os.path.join(vlib.VERIF, "known")


# ------------------------------------------------------------------------------------------------
# abstract histories: ops with symbolic names, rendered to ordinals (so that shrinking can delete lines)
# ------------------------------------------------------------------------------------------------
# ("newManager", mname) ("dropManager", mname) ("newReceiver", rname, T) ("subscribeFn", rname, mname, T)
# ("subscribe", mname, rname) ("unsubscribe", rname) ("unsubscribeAt", mname, rname)
# ("dropReceiver", rname) ("post", mname, T)

class Ref:
    """Light reference state: legality of the next op + which situations a history exercises.
    Used for generation and coverage counting only — never for a verdict."""

    def __init__(self):
        self.mgr = {}       # name -> dict(ord, alive, seen=[types in first-use order])
        self.rcv = {}       # name -> dict(ord, type, alive, home, sub)
        self.registry = []  # types in id order
        self.flags = set()
        self.changes = 0
        self.delivered = 0
        self.subs = {}      # (mname, T) -> [rname]

    def legal(self, op):
        k = op[0]
        M, R = self.mgr, self.rcv
        alive_m = lambda n: n in M and M[n]["alive"]
        alive_r = lambda n: n in R and R[n]["alive"]
        if k == "newManager":
            return op[1] not in M
        if k == "dropManager":
            return alive_m(op[1])
        if k == "newReceiver":
            return op[1] not in R
        if k == "subscribeFn":
            return op[1] not in R and alive_m(op[2])
        if k == "subscribe":
            return alive_m(op[1]) and alive_r(op[2]) and not R[op[2]]["sub"]
        if k == "unsubscribe":
            return alive_r(op[1])
        if k == "unsubscribeAt":
            return alive_m(op[1]) and alive_r(op[2])
        if k == "dropReceiver":
            return alive_r(op[1])
        if k == "post":
            return alive_m(op[1])
        return False

    def _touch(self, m, T):
        """registerEventType<T>() executed on manager m."""
        mg = self.mgr[m]
        if T not in self.registry:
            self.registry.append(T)
            if mg["ord"] >= 1:
                self.flags.add("type_first_seen_by_later_manager")
        if T not in mg["seen"]:
            i = self.registry.index(T)
            if mg["seen"] and i < max(self.registry.index(x) for x in mg["seen"]):
                self.flags.add("ids_seen_out_of_registration_order")
            mg["seen"].append(T)

    def _remove(self, m, r):
        T = self.rcv[r]["type"]
        l = self.subs.get((m, T), [])
        if r in l:
            l.remove(r)
            self.rcv[r]["sub"] = False
            self.changes += 1

    def apply(self, op):
        k = op[0]
        M, R = self.mgr, self.rcv
        if k == "newManager":
            M[op[1]] = dict(ord=len(M), alive=True, seen=[])
            self.changes += 1
        elif k == "dropManager":
            M[op[1]]["alive"] = False
            for (m, T), l in self.subs.items():
                if m == op[1] and l:
                    self.flags.add("manager_dropped_with_subscribers")
                    for r in l:
                        R[r]["sub"] = False
                    l.clear()
            self.changes += 1
        elif k == "newReceiver":
            R[op[1]] = dict(ord=len(R), type=op[2], alive=True, home=None, sub=False)
        elif k in ("subscribeFn", "subscribe"):
            if k == "subscribeFn":
                r, m, T = op[1], op[2], op[3]
                R[r] = dict(ord=len(R), type=T, alive=True, home=None, sub=False)
            else:
                m, r = op[1], op[2]
                T = R[r]["type"]
                if R[r]["home"] is not None and R[r]["home"] != m:
                    self.flags.add("resubscribed_to_other_manager")
            self._touch(m, T)
            R[r]["home"] = m
            R[r]["sub"] = True
            self.subs.setdefault((m, T), []).append(r)
            if len(self.subs[(m, T)]) >= 2:
                self.flags.add("two_subscribers_same_slot")
            self.changes += 1
        elif k in ("unsubscribe", "dropReceiver"):
            r = op[1]
            h = R[r]["home"]
            if h is not None and M[h]["alive"]:
                self._touch(h, R[r]["type"])
                self._remove(h, r)
            elif h is not None and k == "dropReceiver":
                self.flags.add("receiver_destroyed_after_its_manager")
            if k == "dropReceiver":
                R[r]["alive"] = False
        elif k == "unsubscribeAt":
            m, r = op[1], op[2]
            T = R[r]["type"]
            if R[r]["home"] != m:
                self.flags.add("unsubscribeAt_foreign_manager")
            if T not in M[m]["seen"]:
                self.flags.add("unsubscribeAt_type_never_seen")
            self._touch(m, T)
            self._remove(m, r)
        elif k == "post":
            m, T = op[1], op[2]
            if T not in M[m]["seen"]:
                self.flags.add("post_on_type_never_seen")
                if T in self.registry:
                    self.flags.add("post_on_type_registered_elsewhere")
            self._touch(m, T)
            n = len(self.subs.get((m, T), []))
            self.delivered += n
            if n >= 1 and M[m]["ord"] >= 1:
                self.flags.add("delivery_in_later_manager")


def render(ops):
    """abstract ops -> op-file text; None if some op is not legal at its position."""
    ref = Ref()
    out = []
    for op in ops:
        if not ref.legal(op):
            return None, ref
        k = op[0]
        if k == "newManager":
            out.append("newManager")
        elif k == "dropManager":
            out.append("dropManager %d" % ref.mgr[op[1]]["ord"])
        elif k == "newReceiver":
            out.append("newReceiver %d" % op[2])
        elif k == "subscribeFn":
            out.append("subscribeFn %d %d" % (ref.mgr[op[2]]["ord"], op[3]))
        elif k == "subscribe":
            out.append("subscribe %d %d" % (ref.mgr[op[1]]["ord"], ref.rcv[op[2]]["ord"]))
        elif k == "unsubscribe":
            out.append("unsubscribe %d" % ref.rcv[op[1]]["ord"])
        elif k == "unsubscribeAt":
            out.append("unsubscribeAt %d %d" % (ref.mgr[op[1]]["ord"], ref.rcv[op[2]]["ord"]))
        elif k == "dropReceiver":
            out.append("dropReceiver %d" % ref.rcv[op[1]]["ord"])
        elif k == "post":
            out.append("post %d %d" % (ref.mgr[op[1]]["ord"], op[2]))
        ref.apply(op)
    return "\n".join(out) + "\n", ref


def parse(text):
    """op-file text -> abstract ops (names = ordinals of the file). Raises ValueError."""
    ops = []
    nm = nr = 0
    for line in text.splitlines():
        line = line.strip()
        if not line or line.startswith("#"):
            continue
        w = line.split()
        k, a = w[0], [int(x) for x in w[1:]]
        if k == "newManager" and len(a) == 0:
            ops.append((k, "m%d" % nm)); nm += 1
        elif k == "dropManager" and len(a) == 1:
            ops.append((k, "m%d" % a[0]))
        elif k == "newReceiver" and len(a) == 1:
            ops.append((k, "r%d" % nr, a[0])); nr += 1
        elif k == "subscribeFn" and len(a) == 2:
            ops.append((k, "r%d" % nr, "m%d" % a[0], a[1])); nr += 1
        elif k in ("subscribe", "unsubscribeAt") and len(a) == 2:
            ops.append((k, "m%d" % a[0], "r%d" % a[1]))
        elif k in ("unsubscribe", "dropReceiver") and len(a) == 1:
            ops.append((k, "r%d" % a[0]))
        elif k == "post" and len(a) == 2:
            ops.append((k, "m%d" % a[0], a[1]))
        else:
            raise ValueError("bad op line: " + line)
    return ops


# ------------------------------------------------------------------------------------------------
# generators
# ------------------------------------------------------------------------------------------------

def probe_suffix(ref, types):
    """post every type on every live manager (makes every lost / misplaced subscription visible)."""
    return [("post", m, T) for m, mg in ref.mgr.items() if mg["alive"] for T in types]


def gen_history(rng, length, max_m, n_types, max_r, profile):
    """Structured random legal history. `profile` biases the op mix."""
    types = rng.sample(range(N_TYPES), n_types)
    ref = Ref()
    ops = []
    # every manager gets its own preferred order of the types (ids are met in different orders)
    pref = {}

    def add(op):
        assert ref.legal(op), op
        ops.append(op)
        ref.apply(op)

    add(("newManager", "m0"))
    pref["m0"] = rng.sample(types, len(types))
    w = dict(profile)
    while len(ops) < length:
        alive_m = [m for m, g in ref.mgr.items() if g["alive"]]
        alive_r = [r for r, g in ref.rcv.items() if g["alive"]]
        free_r = [r for r in alive_r if not ref.rcv[r]["sub"]]
        sub_r = [r for r in alive_r if ref.rcv[r]["sub"]]
        cands = []
        if len(ref.mgr) < max_m:
            cands.append(("newManager", w["newManager"]))
        if alive_m:
            cands.append(("post", w["post"]))
            if len(ref.rcv) < max_r:
                cands.append(("subscribeFn", w["subscribeFn"]))
            if free_r:
                cands.append(("subscribe", w["subscribe"]))
            if alive_r:
                cands.append(("unsubscribeAt", w["unsubscribeAt"]))
            if len(alive_m) > 1 or len(ops) > length // 2:
                cands.append(("dropManager", w["dropManager"]))
        if len(ref.rcv) < max_r:
            cands.append(("newReceiver", w["newReceiver"]))
        if alive_r:
            cands.append(("unsubscribe", w["unsubscribe"]))
            cands.append(("dropReceiver", w["dropReceiver"]))
        if not cands:
            break
        k = rng.choices([c[0] for c in cands], [c[1] for c in cands])[0]

        def pick_type(m):
            # follow the manager's own order most of the time
            unseen = [T for T in pref[m] if T not in ref.mgr[m]["seen"]]
            if unseen and rng.random() < 0.6:
                return unseen[0]
            return rng.choice(types)

        if k == "newManager":
            name = "m%d" % len(ref.mgr)
            add((k, name))
            pref[name] = rng.sample(types, len(types))
        elif k == "dropManager":
            add((k, rng.choice(alive_m)))
        elif k == "newReceiver":
            add((k, "r%d" % len(ref.rcv), rng.choice(types)))
        elif k == "subscribeFn":
            m = rng.choice(alive_m)
            add((k, "r%d" % len(ref.rcv), m, pick_type(m)))
        elif k == "subscribe":
            add((k, rng.choice(alive_m), rng.choice(free_r)))
        elif k == "unsubscribe":
            add((k, rng.choice(sub_r if sub_r and rng.random() < 0.7 else alive_r)))
        elif k == "unsubscribeAt":
            r = rng.choice(sub_r if sub_r and rng.random() < 0.7 else alive_r)
            h = ref.rcv[r]["home"]
            m = h if (h in alive_m and rng.random() < 0.6) else rng.choice(alive_m)
            add((k, m, r))
        elif k == "dropReceiver":
            add((k, rng.choice(alive_r)))
        elif k == "post":
            m = rng.choice(alive_m)
            add((k, m, pick_type(m) if rng.random() < 0.5 else rng.choice(types)))
    extra = [T for T in range(N_TYPES) if T not in types][:1]
    for op in probe_suffix(ref, types + extra):
        add(op)
    return ops


PROFILES = {
    "balanced": dict(newManager=2, post=5, subscribeFn=5, subscribe=3, unsubscribeAt=1.5, dropManager=1,
                     newReceiver=2, unsubscribe=2, dropReceiver=1.5),
    "many_managers": dict(newManager=5, post=4, subscribeFn=6, subscribe=2, unsubscribeAt=1, dropManager=2,
                          newReceiver=1.5, unsubscribe=1, dropReceiver=1),
    "churn": dict(newManager=1.5, post=3, subscribeFn=3, subscribe=5, unsubscribeAt=3, dropManager=1.5,
                  newReceiver=3, unsubscribe=4, dropReceiver=3),
    "post_heavy": dict(newManager=3, post=9, subscribeFn=3, subscribe=1, unsubscribeAt=0.5, dropManager=0.5,
                       newReceiver=0.5, unsubscribe=1, dropReceiver=0.5),
}


def small_scope(max_len, n_m, n_t, n_r):
    """EVERY legal history of at most `max_len` ops after `newManager` over n_m managers, n_t types,
    n_r receivers (unsubscribeAt only on a manager other than the home: the home case is `unsubscribe`),
    each followed by the probe suffix."""
    types = list(range(n_t))
    out = []

    def alphabet(ref):
        a = []
        if len(ref.mgr) < n_m:
            a.append(("newManager", "m%d" % len(ref.mgr)))
        for m, g in ref.mgr.items():
            if not g["alive"]:
                continue
            if len(ref.mgr) > 1:
                a.append(("dropManager", m))
            for T in types:
                a.append(("post", m, T))
                if len(ref.rcv) < n_r:
                    a.append(("subscribeFn", "r%d" % len(ref.rcv), m, T))
            for r, rg in ref.rcv.items():
                if rg["alive"] and not rg["sub"]:
                    a.append(("subscribe", m, r))
                if rg["alive"] and rg["home"] is not None and rg["home"] != m:
                    a.append(("unsubscribeAt", m, r))
        for r, rg in ref.rcv.items():
            if rg["alive"]:
                a.append(("unsubscribe", r))
                a.append(("dropReceiver", r))
        return a

    def rec(prefix):
        _, ref = render(prefix)
        if len(prefix) > 1:
            out.append(prefix + probe_suffix(ref, types))
        if len(prefix) - 1 >= max_len:
            return
        for op in alphabet(ref):
            rec(prefix + [op])

    rec([("newManager", "m0")])
    return out


# ------------------------------------------------------------------------------------------------
# running
# ------------------------------------------------------------------------------------------------

class Runner:
    def __init__(self, ctx):
        self.ctx = ctx
        self.internals = True
        self.defs = HARNESS_DEFS
        self.rebuild_lock = threading.Lock()
        try:
            self.exe = ctx.harness("events_driver", "asan", self.defs)
        except vlib.BuildError as e:
            # a renamed private member must not raise an alarm: drop the internal observations
            vlib.log("[c15] harness with internals does not compile (%s); retrying without" % e.what)
            self.defs = HARNESS_DEFS + ("-DVERIF_NO_INTERNALS",)
            self.exe = ctx.harness("events_driver", "asan", self.defs)
            self.internals = False
        # ctx.driver() already returns a private, content-addressed copy of the Lean driver
        self.drv = ctx.driver()
        self.impl_runs = 0
        self.pool = ThreadPoolExecutor(vlib.NPROC)

    def impl(self, text):
        """one history = one fresh process. Returns (lines, crash_description or None)."""
        self.impl_runs += 1
        env = {"ASAN_OPTIONS": "detect_leaks=1:abort_on_error=0", "UBSAN_OPTIONS": "print_stacktrace=0"}
        try:
            rc, out, err = vlib.run([self.exe], inp=text, timeout=60, env=env)
        except OSError:
            # the shared build cache was pruned by a concurrent check of another tree: rebuild once
            with self.rebuild_lock:
                if not os.path.exists(self.exe):
                    self.exe = self.ctx.harness("events_driver", "asan", self.defs)
            rc, out, err = vlib.run([self.exe], inp=text, timeout=60, env=env)
        if rc == -999:
            # a history takes milliseconds: a timeout is machine load, not an observation — once more, patiently
            rc, out, err = vlib.run([self.exe], inp=text, timeout=600, env=env)
        lines = out.splitlines()
        crash = None
        if rc != 0 or not lines or lines[-1] != "end":
            first = ""
            for l in err.splitlines():
                if "ERROR" in l or "Assertion" in l or "runtime error" in l or "malformed" in l or "TIMEOUT" in l:
                    first = l.strip()[:300]
                    break
            crash = "harness died (rc=%s) after %d op lines: %s" % (rc, len([l for l in lines if l != "end"]), first)
        return [l for l in lines if l != "end"], crash

    def model_batch(self, texts):
        """many histories through one driver process. Returns list of (model_lines, spec_lines)."""
        if not texts:
            return []
        inp = "reset\n".join(texts)
        rc, out, err = vlib.run([self.drv, "events"], inp=inp, timeout=600)
        if rc != 0:
            raise RuntimeError("lean driver failed rc=%s: %s" % (rc, err[-500:]))
        res = []
        cur_m, cur_s = [], []
        for l in out.splitlines():
            if l == "end":
                res.append((cur_m, cur_s))
                cur_m, cur_s = [], []
            elif l.startswith("M "):
                cur_m.append(l[2:])
            elif l.startswith("S "):
                cur_s.append(l[2:])
        if len(res) != len(texts):
            raise RuntimeError("lean driver: %d histories in, %d out" % (len(texts), len(res)))
        return res

    def strip_internals(self, line):
        pub, _, internal = line.partition(" |")
        if self.internals:
            return line
        # keep only the id observation
        toks = [t for t in internal.split() if t.startswith("id=")]
        return pub + " |" + ("".join(" " + t for t in toks))

    def judge(self, text, impl_lines, crash, model_lines, spec_lines):
        """-> dict(kind in None|'oracle'|'tie'|'illegal', index, what)"""
        for i, s in enumerate(spec_lines):
            if s.endswith(" illegal"):
                return dict(kind="illegal", index=i, what="op outside the contract: " + s)
        # oracle first: public observations vs spec
        for i, s in enumerate(spec_lines):
            if i >= len(impl_lines):
                return dict(kind="oracle", index=i,
                            what="op %d: %s; specification expects `%s`" % (i, crash or "no observation", s))
            pub = impl_lines[i].partition(" |")[0]
            if pub != s:
                return dict(kind="oracle", index=i,
                            what="op %d: implementation `%s` but specification `%s`" % (i, pub, s))
        if crash:
            return dict(kind="oracle", index=len(spec_lines), what="after the last op (teardown): " + crash)
        for i, m in enumerate(model_lines):
            a = self.strip_internals(impl_lines[i])
            b = self.strip_internals(m)
            if a != b:
                return dict(kind="tie", index=i, what="op %d: implementation `%s` but model `%s`" % (i, a, b))
        return dict(kind=None, index=None, what="")

    def run_many(self, texts):
        """-> list of verdict dicts (same order)."""
        impl_res = list(self.pool.map(self.impl, texts))
        mod = self.model_batch(texts)
        return [self.judge(t, il, cr, ml, sl) for t, (il, cr), (ml, sl) in zip(texts, impl_res, mod)]

    def run_one(self, text):
        return self.run_many([text])[0]


def shrink(runner, ops, kind):
    """delta debugging on the abstract ops, preserving the failure kind. Returns (ops, verdict)."""
    def fails(cand):
        text, _ = render(cand)
        if text is None:
            return None
        v = runner.run_one(text)
        return v if v["kind"] == kind else None

    best = fails(ops)
    if best is None:
        return ops, None
    cur = list(ops)
    n = 2
    budget = 400
    while len(cur) >= 2 and budget > 0:
        chunk = max(1, len(cur) // n)
        reduced = False
        # try all complements of this granularity in parallel
        cands = []
        for i in range(0, len(cur), chunk):
            c = cur[:i] + cur[i + chunk:]
            text, _ = render(c)
            if text is not None and c:
                cands.append((c, text))
        budget -= len(cands)
        verdicts = runner.run_many([t for _, t in cands]) if cands else []
        for (c, _), v in sorted(zip(cands, verdicts), key=lambda x: len(x[0][0])):
            if v["kind"] == kind:
                cur, best = c, v
                n = max(n - 1, 2)
                reduced = True
                break
        if not reduced:
            if chunk == 1:
                break
            n = min(n * 2, len(cur))
    return cur, best


def search_property_failure(runner, rng, ops, index, tries):
    """After a tie divergence at op `index` that the oracle did not see: look for a nearby history on
    which the PROPERTY fails (probe every (manager, type) right after the divergence; random legal
    continuations)."""
    prefix = ops[:index + 1]
    text, ref = render(prefix)
    if text is None:
        return None
    types = list(range(N_TYPES))
    cands = [prefix + probe_suffix(ref, types), ops + probe_suffix(render(ops)[1], types)]
    for _ in range(tries):
        cont = gen_history(rng, rng.randint(4, 14), 4, 4, 8, PROFILES[rng.choice(list(PROFILES))])
        # graft: rename the continuation's objects so that they do not clash, keep it legal by re-rendering
        ren = [tuple(("x" + a if isinstance(a, str) and a[:1] in "mr" and a[1:].isdigit() else a) for a in op)
               for op in cont[1:]]
        # let the continuation also act on the objects of the prefix
        live_m = [m for m, g in ref.mgr.items() if g["alive"]]
        mixed = []
        for op in ren:
            if live_m and rng.random() < 0.6:
                op = tuple((rng.choice(live_m) if isinstance(a, str) and a.startswith("xm") else a) for a in op)
            mixed.append(op)
        cand = list(prefix)
        r2 = Ref()
        for op in prefix:
            r2.apply(op)
        for op in mixed:
            if r2.legal(op):
                cand.append(op)
                r2.apply(op)
        cands.append(cand + probe_suffix(r2, types))
    texts = []
    keep = []
    for c in cands:
        t, _ = render(c)
        if t is not None:
            texts.append(t)
            keep.append(c)
    for c, v in zip(keep, runner.run_many(texts)):
        if v["kind"] == "oracle":
            return c
    return None


# ------------------------------------------------------------------------------------------------
# entry point
# ------------------------------------------------------------------------------------------------

def run(ctx):
    runner = Runner(ctx)
    try:
        _run(ctx, runner)
    finally:
        runner.pool.shutdown(wait=False)     # runner.drv is the shared content-addressed copy: never unlinked here


def _run(ctx, runner):
    rng = ctx.rng
    t0 = time.time()
    stats = dict(histories=0, ops=0, posts=0, deliveries=0, op_kinds={}, flags={}, managers_hist={},
                 types_hist={}, length_hist={})
    nontrivial = set()
    samples = []
    reported = {"n": 0}
    MAX_REPORTS = 3
    REQUIRED = ["type_first_seen_by_later_manager", "ids_seen_out_of_registration_order",
                "post_on_type_never_seen", "receiver_destroyed_after_its_manager"]

    def account(ops, text, ref):
        stats["histories"] += 1
        stats["ops"] += len(ops)
        for op in ops:
            stats["op_kinds"][op[0]] = stats["op_kinds"].get(op[0], 0) + 1
        stats["posts"] += sum(1 for op in ops if op[0] == "post")
        stats["deliveries"] += ref.delivered
        for f in ref.flags:
            stats["flags"][f] = stats["flags"].get(f, 0) + 1
        nm = str(len(ref.mgr))
        stats["managers_hist"][nm] = stats["managers_hist"].get(nm, 0) + 1
        nt = str(len(ref.registry))
        stats["types_hist"][nt] = stats["types_hist"].get(nt, 0) + 1
        lb = str(10 * (len(ops) // 10))
        stats["length_hist"][lb] = stats["length_hist"].get(lb, 0) + 1
        if ref.changes >= 3 and len(ref.mgr) >= 2 and ref.delivered >= 1 and any(f in ref.flags for f in REQUIRED):
            nontrivial.add(text)
            if len(samples) < 4 and len(ops) <= 24:
                samples.append(text.strip().replace("\n", "; "))

    def report(ops, v, origin):
        """a history failed: shrink, classify, report."""
        sig = v["kind"] + ("/crash" if "harness died" in v["what"] else "")
        if reported["n"] >= MAX_REPORTS or reported.get(sig, 0) >= 2:
            return
        reported["n"] += 1
        reported[sig] = reported.get(sig, 0) + 1
        kind = v["kind"]
        if kind == "illegal":
            text, _ = render(ops)
            ctx.violation(text or repr(ops), "check machinery: generated history is outside the contract (%s): %s"
                          % (origin, v["what"]), no_input=True)
            return
        if kind == "tie":
            # the model and the code disagree on an internal observation; does the PROPERTY fail nearby?
            found = search_property_failure(runner, rng, ops, v["index"], 60 if ctx.thorough else 25)
            if found is not None:
                ops, kind = found, "oracle"
            else:
                small, best = shrink(runner, ops, "tie")
                text, _ = render(small)
                ctx.violation(text, "correspondence model<->implementation broken (%s), no history found on which "
                              "the delivery lists differ from the specification. %s\n"
                              "searched: probes of every (manager,type) after the divergence, random continuations"
                              % (origin, (best or v)["what"]), no_input=True)
                return
        small, best = shrink(runner, ops, "oracle")
        text, _ = render(small)
        ctx.violation(text, "C15 fails on the implementation (%s): %s" % (origin, (best or v)["what"]))

    def run_batch(batch, origin):
        """batch: list of abstract histories."""
        rendered = []
        for ops in batch:
            text, ref = render(ops)
            if text is None:
                raise RuntimeError("generator produced an illegal history: %r" % (ops,))
            rendered.append((ops, text, ref))
        verdicts = runner.run_many([t for _, t, _ in rendered])
        for (ops, text, ref), v in zip(rendered, verdicts):
            account(ops, text, ref)
            if v["kind"] is not None:
                report(ops, v, origin)

    # ---- replay mode -------------------------------------------------------------------------
    if getattr(ctx, "replay", None):
        text = open(ctx.replay).read()
        ops = parse(text)
        t, ref = render(ops)
        if t is None:
            ctx.violation(text, "replay file is outside the contract of the op language", no_input=True)
            return
        v = runner.run_one(t)
        account(ops, t, ref)
        if v["kind"] is not None:
            report(ops, v, "replay " + os.path.basename(ctx.replay))
        ctx.cov(evaluations=1, rule="replay of one op file", samples=[t.strip().replace("\n", "; ")])
        return

    # ---- known findings ----------------------------------------------------------------------
    for key in list(ctx.open_known):
        p = os.path.join(KNOWN, key + ".ops")
        if os.path.exists(p):
            ops = parse(open(p).read())
            t, _ = render(ops)
            if t is not None:
                v = runner.run_one(t)
                if v["kind"] is not None:
                    ctx.known(key, v["what"])

    # ---- corpus first ------------------------------------------------------------------------
    corpus = []
    for f in sorted(glob.glob(os.path.join(CORPUS, "*.ops"))):
        corpus.append(parse(open(f).read()))
    run_batch(corpus, "corpus")
    n_corpus = len(corpus)

    # ---- exhaustive small scope --------------------------------------------------------------
    # (max_len after the first newManager, managers, event types, receivers)
    scopes = [(5, 2, 2, 2), (4, 3, 3, 3)] if ctx.thorough else [(4, 2, 2, 2)]
    exhaustive = []
    for (max_len, n_m, n_t, n_r) in scopes:
        if reported["n"] >= MAX_REPORTS:
            break
        ex = small_scope(max_len, n_m, n_t, n_r)
        origin = "exhaustive small scope: every legal history of <= %d ops after newManager, %d managers, " \
                 "%d event types, %d receivers" % (max_len, n_m, n_t, n_r)
        ran = 0
        for i in range(0, len(ex), 1024):
            if reported["n"] >= MAX_REPORTS:
                break
            run_batch(ex[i:i + 1024], origin)
            ran += len(ex[i:i + 1024])
        exhaustive.append(dict(max_len=max_len, managers=n_m, types=n_t, receivers=n_r, histories=len(ex),
                               complete=(ran == len(ex))))

    # ---- structured random -------------------------------------------------------------------
    n_random = 120000 if ctx.thorough else 2000
    done = 0
    import time as _time
    # quick tier: one fresh ASan process per history is expensive on a loaded or small machine: stop adding random
    # histories once the run has used ~2.5 minutes (the corpus and the exhaustive scope are always completed)
    while done < n_random and reported["n"] < MAX_REPORTS and (ctx.thorough or _time.time() - ctx.t0 < 150 or done == 0):
        batch = []
        for _ in range(min(1024 if ctx.thorough else 256, n_random - done)):
            prof = rng.choice(list(PROFILES))
            length = rng.choice([6, 10, 16, 24, 40] if not ctx.thorough else [6, 10, 16, 24, 40, 70, 120])
            batch.append(gen_history(rng, length, rng.randint(2, 5), rng.randint(2, 6), rng.randint(3, 10),
                                     PROFILES[prof]))
        run_batch(batch, "random")
        done += len(batch)

    # ---- machinery self-check: the situations the property names were all exercised -----------
    if reported["n"] == 0:
        missing = [f for f in REQUIRED if stats["flags"].get(f, 0) == 0]
        if missing:
            ctx.violation("stage=generator\nmissing: %r" % (missing,),
                          "check machinery: generated histories never exercised %r" % (missing,),
                          no_input=True, suffix="txt")

    ctx.cov(evaluations=stats["histories"], distinct_nontrivial=len(nontrivial),
            rule="distinct op files with >= 3 subscription-state changes, >= 2 managers, >= 1 actual delivery and "
                 "at least one of: a type first registered by a later manager, a manager meeting ids out of "
                 "registration order, a post on a type the manager never saw, a receiver destroyed after its manager",
            samples=samples,
            trusted_base=["Lean kernel; axioms propext, Classical.choice, Quot.sound",
                          "statements of Props/C15.lean and Spec/Events.lean (45 lines); contract `legal` of Model/Events.lean",
                          "tie model<->code is differential: harness/events_driver.cpp (fresh process per history, "
                          "ASan+UBSan, _GLIBCXX_ASSERTIONS), agreement shown only on the histories run",
                          "C++ object lifetime, std::vector/std::map/weak_ptr behaviour are modelled, not verified"],
            corpus_files=n_corpus, exhaustive=exhaustive, random_histories=done,
            impl_process_runs=runner.impl_runs, ops_executed=stats["ops"], posts=stats["posts"],
            deliveries_checked=stats["deliveries"], op_kinds=stats["op_kinds"], situations_hit=stats["flags"],
            managers_per_history=stats["managers_hist"], types_registered_per_history=stats["types_hist"],
            history_length_hist=stats["length_hist"], internal_observations=runner.internals,
            tie_wall_s=round(time.time() - t0, 1))
    ctx.assume("contract: ops name live managers / receivers; subscribe_ is called with a receiver that is not "
               "subscribed at that moment (otherwise the library keeps a dangling pointer when it is destroyed)",
               "one process = one history (the event-type registry is process-global); single-threaded use")
    if not runner.internals:
        ctx.assume("harness built with -DVERIF_NO_INTERNALS: slot tables not observed, tie on public observations + ids only")

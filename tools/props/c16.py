"""C16 — handle packing is lossless (translator tie).

prepare(): wrappers.cpp --clang-14 -O1--> LLVM IR --ir2lean.py--> lean/Mustache/Gen/EntityIR.lean
           (regenerated from the CURRENT /repo/src on every run; Props/C16.lean is about those defs)
run():     differential validation of the translation (native g++ build of the same wrappers vs the
           generated Lean functions on boundary + random arguments), the property oracle evaluated on
           the native implementation, and - when a theorem no longer checks - the search for a witness.
"""
import os
import vlib
import ir2lean

HARNESSES = [("entity_driver", "plain")]
GEN = os.path.join(vlib.LEAN, "Mustache", "Gen", "EntityIR.lean")
M64 = (1 << 64) - 1
M32 = (1 << 32) - 1


def prepare(ctx):
    inc = vlib.export_include()
    ll = os.path.join(vlib.CACHE, "wrappers_%d.ll" % os.getpid())
    cmd = ["clang++-14", "-std=gnu++17", "-O1", "-S", "-emit-llvm", "-w",
           "-I" + os.path.join(vlib.REPO, "src"), "-I" + inc,
           "-DBUILD_WITH_EASY_PROFILER=0", "-DMUSTACHE_STATIC_DEFINE", "-D" + vlib.GUARD,
           os.path.join(vlib.HARNESS, "wrappers.cpp"), "-o", ll]
    rc, out, err = vlib.run(cmd, timeout=300)
    if rc != 0:
        raise vlib.BuildError("wrappers.cpp does not compile to IR against the current tree", err)
    text = open(ll).read()
    os.unlink(ll)
    ctx.ir_text = text
    try:
        lean, names = ir2lean.translate(text)
    except ir2lean.TranslateError as e:
        raise vlib.BuildError("ir2lean: %s (translator fails closed)" % e, text[-3000:])
    ctx.gen_names = names
    with vlib.Lock("lake"):
        old = open(GEN).read() if os.path.exists(GEN) else None
        if old != lean:
            with open(GEN + ".tmp", "w") as f:
                f.write(lean)
            os.rename(GEN + ".tmp", GEN)
            ctx.regenerated = True
        else:
            ctx.regenerated = False


def boundary64():
    s = {0, 1, M64, M64 - 1}
    for b in range(64):
        s.add(1 << b)
        s.add((1 << b) - 1)
        s.add(M64 ^ (1 << b))
    for b in (30, 40):
        for d in (-1, 0, 1):
            s.add(((1 << b) + d) & M64)
            s.add((M64 << b) & M64)
    s.add(((1 << 30) - 1) | (((1 << 10) - 1) << 30) | (((1 << 24) - 1) << 40))
    return sorted(s)


def boundary32():
    s = {0, 1, 2, 3, 4, 7, 8, 15, 16, 63, 64, 4095, 4096, 16383, 16384, M32, M32 - 1}
    for b in (10, 24, 30, 31):
        for d in (-1, 0, 1):
            s.add(((1 << b) + d) & M32)
    return sorted(s)


def gen_calls(ctx, n_random):
    r = ctx.rng
    calls = []
    b64, b32 = boundary64(), boundary32()
    ids = [0, 1, 2, (1 << 30) - 1, (1 << 30) - 2, 1 << 29, 12345]
    vers = [0, 1, (1 << 24) - 1, (1 << 24) - 2, 1 << 23, 77]
    worlds = [0, 1, 1023, 1022, 512, 5]
    for i in ids:
        for v in vers:
            for w in worlds:
                calls.append(("w_reset", (i, v, w)))
                calls.append(("w_ctor", (i, v, w)))
    # out-of-range arguments too (translation must agree everywhere, not only in range)
    for _ in range(n_random // 4):
        calls.append(("w_reset", (r.getrandbits(32), r.getrandbits(32), r.getrandbits(32))))
        calls.append(("w_reset", (r.getrandbits(30), r.getrandbits(24), r.getrandbits(10))))
    xs = list(b64) + [r.getrandbits(64) for _ in range(n_random)]
    for x in xs:
        for f in ("w_id", "w_version", "w_world", "w_isnull", "w_next", "w_incr"):
            calls.append((f, (x,)))
        calls.append(("w_setversion", (x, r.getrandbits(24))))
        calls.append(("w_resetid", (x, r.getrandbits(30))))
        y = r.choice(xs)
        for f in ("w_eq", "w_ne", "w_lt"):
            calls.append((f, (x, y)))
            calls.append((f, (x, x)))
            calls.append((f, (x, x ^ (1 << r.randrange(64)))))
    calls.append(("w_default", ()))
    aligns = [1, 2, 3, 4, 8, 16, 32, 64, 128, 4096, 1 << 31, M32, 0]
    for off in b32 + [r.getrandbits(r.randrange(1, 33)) for _ in range(n_random // 8)]:
        for a in aligns + [r.getrandbits(r.randrange(1, 33))]:
            calls.append(("w_align", (off, a)))
            calls.append(("w_makealigned", (off, a)))
            calls.append(("w_div", (off, a)))
            calls.append(("w_mod", (off, a)))
    return calls


def fmt(calls):
    return "".join("%s %s\n" % (f, " ".join(map(str, a))) for f, a in calls)


def run(ctx):
    if ctx.prep_error is not None:
        raise ctx.prep_error
    exe = ctx.harness("entity_driver", "plain")
    drv = ctx.driver()
    n_random = 20000 if ctx.thorough else 1500
    calls = gen_calls(ctx, n_random)
    # first pass: native only, to learn packed handles, then add read-back calls on them
    rc, out, err = vlib.run([exe], inp=fmt(calls), timeout=600)
    if rc != 0:
        ctx.violation(fmt(calls[:50]), "native wrapper driver failed rc=%d: %s" % (rc, err[-500:]), no_input=True)
        return
    outs = out.split()
    extra = []
    for (f, a), o in zip(calls, outs):
        if f == "w_reset" and o.isdigit():
            h = int(o)
            extra += [("w_id", (h,)), ("w_version", (h,)), ("w_world", (h,)), ("w_isnull", (h,))]
    allcalls = calls + extra
    text = fmt(allcalls)
    rc, nat, err = vlib.run([exe], inp=text, timeout=600)
    rc2, lean, err2 = vlib.run([drv, "entity"], inp=text, timeout=1200)
    nat, lean = nat.split("\n")[:-1], lean.split("\n")[:-1]
    if rc != 0 or rc2 != 0 or len(nat) != len(allcalls) or len(lean) != len(allcalls):
        ctx.violation(text[:2000], "driver run failed (native rc=%d lines=%d, lean rc=%d lines=%d) %s %s"
                      % (rc, len(nat), rc2, len(lean), err[-300:], err2[-300:]), no_input=True)
        return
    # --- tie: translation validation -------------------------------------------------------------
    diffs = [(c, n, l) for c, n, l in zip(allcalls, nat, lean) if n != l]
    res = dict(zip(allcalls, nat))

    def val(f, *a):
        o = res.get((f, tuple(a)))
        return int(o) if o is not None and o.isdigit() else None

    # --- oracle: the property itself on the native implementation ---------------------------------
    viol = []
    seen = {}
    for (f, a) in calls:
        if f == "w_reset":
            i, v, w = a
            if i < (1 << 30) and v < (1 << 24) and w < (1 << 10):
                h = val(f, i, v, w)
                back = (val("w_id", h), val("w_version", h), val("w_world", h))
                if back != (i, v, w):
                    viol.append(("round-trip: reset(%d,%d,%d)=%d reads back as %r" % (i, v, w, h, back),
                                 [(f, a), ("w_id", (h,)), ("w_version", (h,)), ("w_world", (h,))]))
                if h in seen and seen[h] != a:
                    viol.append(("injectivity: %r and %r both pack to %d" % (seen[h], a, h), [(f, seen[h]), (f, a)]))
                seen[h] = a
                if ("w_ctor", a) in res and val("w_ctor", i, v, w) != h:
                    viol.append(("constructor packs (%d,%d,%d) differently from reset" % a, [(f, a), ("w_ctor", a)]))
        elif f == "w_next":
            x, = a
            n = val(f, x)
            flds = lambda y: ((y & ((1 << 30) - 1)), (y >> 30) & 1023, y >> 40)
            if n is None or flds(n)[0] != flds(x)[0] or flds(n)[1] != flds(x)[1] or flds(n)[2] != (flds(x)[2] + 1) % (1 << 24):
                viol.append(("next-version of %d gives %r: must change only the version field, wrapping in 24 bits" % (x, n),
                             [(f, a)]))
            if val("w_incr", x) != n:
                viol.append(("incrementVersion(%d) != makeEntityWithNextVersion" % x, [(f, a), ("w_incr", a)]))
        elif f == "w_isnull":
            x, = a
            if val(f, x) != (1 if x == M64 else 0):
                viol.append(("isNull(%d) = %r" % (x, val(f, x)), [(f, a)]))
        elif f in ("w_id", "w_version", "w_world"):
            x, = a
            exp = {"w_id": x & ((1 << 30) - 1), "w_world": (x >> 30) & 1023, "w_version": x >> 40}[f]
            if val(f, x) != exp:
                viol.append(("%s(%d) = %r, the field layout says %d" % (f, x, val(f, x), exp), [(f, a)]))
        elif f in ("w_eq", "w_ne"):
            x, y = a
            same = all(val(g, x) == val(g, y) for g in ("w_id", "w_version", "w_world")) if \
                all(val(g, z) is not None for g in ("w_id", "w_version", "w_world") for z in (x, y)) else (x == y)
            exp = (1 if same else 0) if f == "w_eq" else (0 if same else 1)
            if val(f, x, y) != exp:
                viol.append(("%s(%d,%d) = %r but fields %s" % (f, x, y, val(f, x, y), "agree" if same else "differ"), [(f, a)]))
        elif f in ("w_align", "w_makealigned"):
            off, al = a
            if al != 0 and off + al <= (1 << 32):
                r = val(f, off, al)
                if r is None or r % al != 0 or not (off <= r < off + al):
                    viol.append(("%s(%d,%d) = %r is not the least multiple of the alignment >= offset" % (f, off, al, r), [(f, a)]))
        elif f == "w_div":
            i, c = a
            d, m = val("w_div", i, c), val("w_mod", i, c)
            if c != 0:
                if d is None or m is None or d * c + m != i or not (m < c):
                    viol.append(("split %d by capacity %d gives chunk %r item %r" % (i, c, d, m), [(f, a), ("w_mod", a)]))
            elif d != M32 or m != M32:
                viol.append(("split by null capacity gives %r/%r, not the null index" % (d, m), [(f, a), ("w_mod", a)]))
    if val("w_default") != M64:
        viol.append(("default-constructed handle is %r, not the null pattern" % val("w_default"), [("w_default", ())]))

    proof_ok = ctx.proof is not None and ctx.proof["ok"]
    nontrivial = len({c for c in allcalls if c[0] in ("w_reset", "w_next", "w_align", "w_div", "w_eq")})
    ctx.cov(evaluations=len(allcalls), distinct_nontrivial=nontrivial, programs=len(ctx.gen_names),
            disagreements_checked=len(allcalls),
            rule="every call = one wrapper function on one argument tuple: all single-bit / field-boundary +-1 / all-ones / zero "
                 "patterns, the 6x6x6 in-range boundary triples, seeded random 64/32-bit words; evaluated natively (g++) and by the "
                 "generated Lean definitions; non-trivial = distinct calls of reset/next/align/div/eq",
            samples=[fmt([c]).strip() + " -> " + res[c] for c in ctx.rng.sample(allcalls, 6)],
            translated_functions=[n for n, _, _ in ctx.gen_names], regenerated=ctx.regenerated,
            tie_disagreements=len(diffs), oracle_failures=len(viol),
            trusted_base=["Lean 4.33 kernel; axioms propext/Classical.choice/Quot.sound at most (see axioms_used)",
                          "clang++-14 front end and -O1 on harness/wrappers.cpp (thin extern \"C\" wrappers)",
                          "tools/ir2lean.py (validated differentially on this run: %d calls, %d disagreements)" % (len(allcalls), len(diffs)),
                          "theorem statements in lean/Mustache/Props/C16.lean"])
    ctx.assume("nuw/nsw/exact flags in the IR are ignored (they only add undefined behaviour)",
               "udiv/urem by zero and over-wide shifts are excluded through the generated *_defined predicates",
               "32-bit overflow of offset+align is excluded by hypothesis in align_up")
    for msg, cs in viol[:3]:
        ctx.violation(fmt(cs) + "# native outputs: " + ", ".join(str(res.get(c)) for c in cs), "C16 fails on the implementation: " + msg)
    if viol:
        return
    if diffs:
        c, n, l = diffs[0]
        ctx.violation(fmt([c]) + "# native=%s generated-lean=%s\n" % (n, l),
                      "translator tie broken: native and generated Lean disagree on %d calls (first: %s native=%s lean=%s); "
                      "property oracle found no failing input" % (len(diffs), fmt([c]).strip(), n, l), no_input=True)
    # a broken proof with no witness is reported by check.py as no-failing-input-found

"""C17 - worlds are independent, however many a process creates (DESIGN.md section 4, ### C17).

One case = one op file = one PROCESS HISTORY: worlds built (automatic / explicit ids, own / shared dispatcher + memory
manager), destroyed, bare nextWorldId() calls, and the world_driver ops of the world properties addressed to the current
world, all from one thread. It is executed

  * on the real library by harness/worlds_driver.cpp (ASan+UBSan). After EVERY op the harness re-observes every live
    world (validity of all its handles, component and shared values, archetypes, id table, lock depth, command-buffer
    lengths, marked set, world version) and presents every handle of every live world to every other live world:
    `ORACLE frame` (a world other than the addressed one changed), `ORACLE foreign-valid` (a handle accepted by a world
    with another id), `ORACLE own-handle-invalid` (a fresh handle rejected by its own world / not carrying its id),
    `ORACLE duplicate-id` (an automatically numbered world got the id of a live world), `ORACLE alien-handle` (a world keeps /
    hands out a handle that is not its own), `ORACLE buffers` (a locked world has fewer command buffers than its own
    dispatcher has threads), `ORACLE deferred-lost` (a creation recorded in a world's locked section was not applied to it) = the property fails on the implementation;
  * on the Lean process model (`driver worlds`, Model/Worlds.lean: the allocator of the fixed code + one WM per world):
    the tie, line by line (ids handed out, handles, per-world dumps, cross-world queries).

Theorems: lean/Mustache/Props/C17.lean.
"""
import hashlib
import os
import re
import shutil
import concurrent.futures as cf

import vlib
from props import world_common as wc


def _wd_hash():
    try:
        with open(os.path.join(vlib.HARNESS, "world_driver.cpp"), "rb") as f:
            return hashlib.sha256(f.read()).hexdigest()[:10]
    except OSError:
        return "none"


# worlds_driver.cpp #includes world_driver.cpp: its content is part of the cache key
EXTRA = ("-DVERIF_WORLD_DRIVER_REV=0x%s" % _wd_hash(),)
HARNESSES = [("worlds_driver", "asan", EXTRA)]

MIX = dict(create=5, assign=3, assign0=1, remove=2, build=1, destroynow=2, destroy=1, update=1, clone=1, sassign=1, sremove=1,
           query=2, lock=1, unlock=1, dump=1)
MAX_LIVE = 8
CAP = 1024


# ----------------------------------------------------------------------------------------------
# generator
# ----------------------------------------------------------------------------------------------
class WorldGen(wc.Gen):
    """per-world op generator of the world properties, restricted to the calling thread"""

    def __init__(self, rng, malformed, wid, threads=0):
        super().__init__(rng, MIX, max_threads=1, malformed=malformed, lock_bias=0.08 if threads else 0.06, shared=True)
        # threads = workers of the world's PRIVATE dispatcher that scripted `tK` ops may run on (0: calling thread only;
        # worlds on the shared dispatcher are driven from the calling thread - its workers cannot be parked for two worlds)
        self.ref.threads = threads
        self.lines = []
        self.wid = wid
        # every world declares its OWN dependencies (often different ones for the same master): a closure cached per
        # process or per thread instead of per manager would leak them from one world into another
        for _ in range(rng.choice([0, 1, 2, 2])):
            m = rng.choice(self.letters)
            ds = [d for d in rng.sample(self.letters, rng.randint(1, 2)) if d != m]
            if ds:
                self.ref.add_dep(m, ds)
                self.emit("dep %s %s" % (m, ",".join(sorted(ds))))

    def any_handle(self):
        """malformed stream: stale own handles, null, and patterns stamped with ANOTHER world's id (a raw pattern carrying
        this world's id could coincide with a handle this world issues later - that is the business of C09, not of C17)"""
        k = self.r.random()
        if k < 0.45 and self.ref.n > 0:
            return str(self.r.randrange(self.ref.n))
        if k < 0.55:
            return "null"
        other = (self.wid + self.r.choice([1, 2, 3, 512, 1023])) % 1024
        if k < 0.85:
            v = self.r.randrange(0, 8) | (other << 30) | (self.r.randrange(0, 4) << 40)
        else:
            v = (self.r.getrandbits(64) & ~(0x3ff << 30)) | (other << 30)
        return "raw:%x" % v

    def one(self):
        r = self.r
        if self.ref.lock == 0 and r.random() < self.lock_bias:
            self.ref.lock += 1
            self.emit("lock")
        elif self.ref.lock > 0 and r.random() < 0.15:
            self.do_unlock()
        else:
            self.step()
        out, self.lines = self.lines, []
        return out


class ProcGen:
    """process history: python mirror of the FIXED allocator only to pick legal explicit ids and to bound the load"""

    def __init__(self, rng, malformed=0.15, p_shared=0.5, explicit=True, scripted=True):
        self.r = rng
        self.lines = []
        self.live = {}            # ordinal -> dict(id, gen, shared)
        self.n = 0                # next ordinal
        self.reserved = set()
        self.pending = []         # ids from bare reservations not used yet
        self.cur = None
        self.malformed = malformed
        self.p_shared = p_shared
        self.explicit = explicit
        self.scripted = scripted
        self.created = 0
        self.dead = []            # recently destroyed ordinals whose storage block can be reused (harness keeps 32)
        self.p_reuse = 0.5

    def emit(self, s):
        self.lines.append(s)

    def live_ids(self):
        return [w["id"] for w in self.live.values()]

    def next_id(self):
        used = self.reserved | set(self.live_ids())
        k = 0
        while k in used:
            k += 1
        self.reserved.add(k)
        return k

    def load(self):
        return len(self.live) + len([x for x in self.reserved if x not in self.live_ids()])

    def new(self, explicit_id=None, shared=None, threads=None):
        shared = (self.r.random() < self.p_shared) if shared is None else shared
        # private dispatchers of different sizes; small ones first as often as big ones first
        threads = 0 if shared else (self.r.choice([1, 1, 2, 3, 4]) if threads is None else threads)
        ctx = "ctx=shared" if shared else "ctx=own threads=%d" % threads
        if self.dead and self.r.random() < self.p_reuse:
            # the new World object is built at the address of a destroyed one
            ctx += " reuse=%d" % self.dead.pop(self.r.randrange(len(self.dead)))
        if explicit_id is None:
            wid = self.next_id()
            self.emit("world new auto %s" % ctx)
        else:
            wid = explicit_id
            self.emit("world new id=%d %s" % (wid, ctx))
        self.live[self.n] = dict(id=wid, gen=WorldGen(self.r, self.malformed, wid, threads if self.scripted else 0), shared=shared)
        self.cur = self.n
        self.n += 1
        self.created += 1
        return self.n - 1

    def drop(self, k):
        w = self.live[k]
        self.use(k)
        while w["gen"].ref.lock > 0:           # a world is destroyed outside its locked sections
            w["gen"].do_unlock()
        for l in w["gen"].lines:
            self.emit(l)
        w["gen"].lines = []
        self.emit("world drop %d" % k)
        del self.live[k]
        self.dead = (self.dead + [k])[-8:]
        if w["id"] not in self.live_ids():
            self.reserved.discard(w["id"])
        if self.cur == k:
            self.cur = None

    def churn(self, n, shared=True):
        self.emit("world churn %d ctx=%s" % (n, "shared" if shared else "own"))
        self.n += n
        self.created += n

    def use(self, k):
        if self.cur != k:
            self.emit("use %d" % k)
            self.cur = k

    def world_ops(self, k, n):
        self.use(k)
        g = self.live[k]["gen"]
        for _ in range(n):
            for l in g.one():
                self.emit(l)

    def cross_query(self):
        if len(self.live) < 1:
            return
        a = self.r.choice(sorted(self.live))
        b = self.r.choice(sorted(self.live))
        g = self.live[a]["gen"]
        if g.ref.n == 0:
            return
        self.use(a)
        e = self.r.randrange(g.ref.n)
        k = self.r.random()
        if a != b and k < 0.45:
            # world b is operated on through a handle of world a (often with the id and version of one of b's own entities)
            locked = self.live[b]["gen"].ref.lock > 0
            op = self.r.choice(["remove", "destroynow", "destroy"] + (["assign", "assign", "remove"] if locked else []))
            if op == "assign":
                self.emit("in %d assign %d %s %d" % (b, e, self.r.choice("ABCFGH"), 900000 + self.r.randrange(1000)))
            elif op == "remove":
                self.emit("in %d remove %d %s" % (b, e, self.r.choice(wc.LETTERS)))
            else:
                self.emit("in %d %s %d" % (b, op, e))
        elif k < 0.8:
            self.emit("validin %d %d" % (b, e))
        else:
            self.emit("getin %d %d %s" % (b, e, self.r.choice(wc.LETTERS)))

    def step(self):
        r = self.r
        k = r.random()
        if len(self.live) < 2 or (k < 0.10 and len(self.live) < MAX_LIVE):
            if self.explicit and self.pending and r.random() < 0.5:
                self.new(self.pending.pop())
            elif self.explicit and r.random() < 0.12:
                # small ids (they compete with the automatic ones) and the edges of the 10-bit world field
                free = [i for i in list(range(0, 12)) + [255, 256, 511, 512, 767, 1022, 1023]
                        if i not in self.live_ids() and i not in self.reserved]
                if free:
                    self.new(r.choice(free))
                else:
                    self.new()
            else:
                self.new()
            self.world_ops(self.cur, r.randint(1, 3))
        elif k < 0.15 and self.live:
            self.drop(r.choice(sorted(self.live)))
        elif k < 0.20:
            self.churn(r.choice([1, 2, 3, 5, 17, 40]), shared=r.random() < 0.7)
        elif k < 0.22 and self.explicit and len(self.pending) < 2:
            self.pending.append(self.next_id())
            self.emit("world reserve")
        elif k < 0.34:
            self.cross_query()
        elif k < 0.37:
            self.emit("dumpall")
        else:
            self.world_ops(r.choice(sorted(self.live)), r.randint(1, 4))

    def finish(self):
        for k in sorted(self.live):
            g = self.live[k]["gen"]
            if g.ref.lock > 0:
                self.use(k)
                while g.ref.lock > 0:
                    g.do_unlock()
                for l in g.lines:
                    self.emit(l)
                g.lines = []
        self.emit("dumpall")
        return "\n".join(self.lines) + "\n"


def gen_interleaved(rng, n, **kw):
    g = ProcGen(rng, **kw)
    for _ in range(n):
        g.step()
    return g.finish()


def gen_sequential(rng, total, keep, with_churn):
    """`total` worlds built one after the other, at most `keep` alive at once, every one used (an entity created, written,
    queried in its own and in a neighbour world) - crosses 1024 / 2048 when total does"""
    g = ProcGen(rng, malformed=0.0, explicit=False, scripted=False)
    g.p_reuse = 0.9
    while g.created < total:
        if with_churn and rng.random() < 0.05:
            g.churn(rng.randint(50, 300), shared=rng.random() < 0.8)
            continue
        while len(g.live) >= keep:
            g.drop(min(g.live) if rng.random() < 0.7 else rng.choice(sorted(g.live)))
        k = g.new()
        g.emit("create A,B")
        g.emit("assign 0 C %d" % (100000 + k))
        g.emit("valid 0")
        g.live[k]["gen"].ref.n = 1
        if rng.random() < 0.3:
            # a locked section in this incarnation: its deferred commands are applied to THIS world
            g.emit("lock")
            g.emit("create F")
            g.emit("assign 0 H %d" % (200000 + k))
            g.emit("unlock")
            g.emit("valid 1")
            g.emit("get 0 H")
            g.live[k]["gen"].ref.n = 2
        if len(g.live) > 1:
            other = rng.choice([x for x in g.live if x != k])
            g.emit("validin %d 0" % other)
            if rng.random() < 0.3:
                g.use(other)
                if g.live[other]["gen"].ref.n:
                    g.emit("validin %d 0" % k)
                    g.emit("get 0 C")
    return g.finish()


LETTERS6 = ["A", "S", "X0", "X1", "D<", "D>"]


def exhaustive_allocator(maxlen):
    """every sequence of length `maxlen` over {new auto own, new auto shared, new id=0, new id=1, drop oldest, drop newest}
    (letters that are illegal where they stand - an explicit id naming a live world, a drop with no world - are left out,
    which also yields every shorter sequence), each followed by a cross query and the destruction of what is left (the
    allocator is back in its initial state), concatenated into op files of bounded size."""
    import itertools
    seen = set()
    files, cur, n = [], [], 0
    for seq in itertools.product(LETTERS6, repeat=maxlen):
        live, eff = [], []       # python mirror of the fixed allocator, for the caller's contract only
        for a in seq:
            ids = [i for (_, i) in live]
            if a in ("A", "S"):
                k = 0
                while k in ids:
                    k += 1
                live.append((len(eff), k)); eff.append(a)
            elif a in ("X0", "X1"):
                if int(a[1]) not in ids:
                    live.append((len(eff), int(a[1]))); eff.append(a)
            elif live:
                live.pop(0 if a == "D<" else -1); eff.append(a)
        key = tuple(eff)
        if key in seen or not eff:
            continue
        seen.add(key)
        alive = []
        for a in eff:
            if a in ("A", "S"):
                cur.append("world new auto ctx=%s" % ("own" if a == "A" else "shared"))
                cur.append("create A")
                alive.append(n); n += 1
            elif a in ("X0", "X1"):
                cur.append("world new id=%s ctx=shared" % a[1])
                cur.append("create A")
                alive.append(n); n += 1
            else:
                cur.append("world drop %d" % alive.pop(0 if a == "D<" else -1))
        if len(alive) >= 2:
            cur.append("use %d" % alive[0])
            cur.append("validin %d 0" % alive[-1])
        for o in alive:
            cur.append("world drop %d" % o)
        if len(cur) > 3000:
            files.append("\n".join(cur) + "\n")
            cur, n = [], 0
    if cur:
        files.append("\n".join(cur) + "\n")
    return files, len(seen)


def boundary_cases():
    out = []
    out.append(("boundary:churn-1024-then-use", "world churn 1024 ctx=shared\nworld new auto ctx=shared\ncreate A\nvalid 0\n"
                "world new auto ctx=own\ncreate B\nvalidin 1024 0\nuse 1024\nvalidin 1025 0\ndumpall\n"))
    out.append(("boundary:churn-2048-own-ctx", "world new auto ctx=own\ncreate A\nworld churn 1100 ctx=own\nworld new auto\ncreate A\n"
                "world churn 1100 ctx=shared\nworld new auto ctx=shared\ncreate F\nvalid 0\nvalidin 0 0\nvalidin 1101 0\ndumpall\n"))
    out.append(("boundary:explicit-vs-auto", "world new id=2 ctx=shared\ncreate A\nworld new auto\ncreate A\nworld new auto\ncreate A\n"
                "world new auto\ncreate A\nworld new auto\ncreate A\nvalidin 0 0\nuse 0\nvalidin 3 0\nvalidin 4 0\ndumpall\n"))
    out.append(("boundary:reserve-then-explicit", "world reserve\nworld new auto\ncreate A\nworld new id=0 ctx=own\ncreate A\nworld drop 1\n"
                "world new auto\ncreate A\nworld drop 0\nworld new auto\ncreate A\nworld new auto\ncreate A\ndumpall\n"))
    out.append(("boundary:small-dispatcher-locks-first", "world new auto ctx=own threads=1\ncreate A\nlock\nt1 create A\nunlock\n"
                "world new auto ctx=own threads=4\ncreate A\nlock\nt4 create B\nt3 assign 0 C 5\nt2 create -\nt1 destroynow 0\nunlock\n"
                "world new auto ctx=own threads=2\ncreate A\nlock\nt2 create B\nunlock\ndumpall\n"))
    out.append(("boundary:big-dispatcher-locks-first", "world new auto ctx=own threads=4\ncreate A\nlock\nt4 create A\nunlock\n"
                "world new auto ctx=own threads=1\ncreate A\nlock\nt1 create B\nunlock\nuse 0\nlock\nt3 create B\nunlock\ndumpall\n"))
    out.append(("boundary:churn-3-one-address", "world churn 3 ctx=own\n"))
    out.append(("boundary:same-address-incarnations", "world new auto ctx=own threads=1\nlock\ncreate A\nunlock\nworld drop 0\n"
                "world new auto ctx=own threads=3 reuse=0\ncreate B\nlock\ncreate A\nassign 0 C 9\nt2 create F\nunlock\ndump\nworld drop 1\n"
                "world new auto ctx=shared reuse=1\nlock\ncreate G\nunlock\ndump\nworld churn 7 ctx=own\nworld churn 5 ctx=shared\ndumpall\n"))
    out.append(("boundary:deferred-through-foreign-handle", "world new auto ctx=shared\ncreate A\ncreate A,B\nworld new auto ctx=shared\n"
                "create A\ncreate A,B\nlock\nuse 0\nin 1 assign 0 C 7\nin 1 remove 1 B\nin 1 destroynow 0\nin 1 destroy 1\nuse 1\nunlock\n"
                "update\ndumpall\nuse 0\nin 1 remove 1 B\nin 1 destroynow 0\ndumpall\n"))
    return out


# ----------------------------------------------------------------------------------------------
# running
# ----------------------------------------------------------------------------------------------
_STATS = re.compile(r"(\w+)=(\d+)")


def split_stats(lines):
    st = {}
    if lines and lines[-1].startswith("stats "):
        st = {k: int(v) for k, v in _STATS.findall(lines[-1])}
        lines = lines[:-1]
    return lines, st


class Session:
    def __init__(self, ctx):
        self.ctx = ctx
        try:
            self.exe = ctx.harness("worlds_driver", "asan", EXTRA)
        except FileNotFoundError:
            self.exe = ctx.harness("worlds_driver", "asan", EXTRA)
        # private copy of the model driver: a concurrent `lake build driver` replaces the shared binary
        src = ctx.driver()
        self.drv = os.path.join(vlib.CACHE, "c17_driver_%d" % os.getpid())
        shutil.copy2(src, self.drv)
        self.stats = {}
        self.hist = {}
        self.nontrivial = set()
        self.samples = []
        self.n = 0

    def close(self):
        try:
            os.unlink(self.drv)
        except OSError:
            pass

    def add_stats(self, st):
        for k, v in st.items():
            if k.startswith("max_"):
                self.stats[k] = max(self.stats.get(k, 0), v)
            else:
                self.stats[k] = self.stats.get(k, 0) + v

    def check(self, ops, account=None):
        """None, or (kind, message) with kind in oracle / abort / tie"""
        try:
            impl, note, err = wc.run_impl(self.exe, ops, timeout=300)
        except FileNotFoundError:
            self.exe = self.ctx.harness("worlds_driver", "asan", EXTRA)
            impl, note, err = wc.run_impl(self.exe, ops, timeout=300)
        impl, st = split_stats(impl)
        if account is not False and account is not None and isinstance(account, dict):
            account.update(st)
        orc = [l for l in impl if l.startswith("ORACLE ")]
        if orc:
            return ("oracle", orc[0][:400])
        life = [l for l in impl if "LIFECYCLE-ERROR" in l]
        if life:
            return ("oracle", "component lifecycle violated: " + life[0][:300])
        if note:
            return ("abort", note)
        model, mnote = wc.run_model(self.drv, ops, sub="worlds", timeout=300)
        if mnote:
            return ("tie", "model driver failed: " + mnote)
        d = wc.first_diff(impl, model)
        if d:
            return ("tie", "output line %d: impl `%s` model `%s`" % (d[0], d[1][:200], d[2][:200]))
        return None

    def account(self, ops):
        self.n += 1
        nw = 0
        for l in wc.op_lines(ops):
            w = l.split()
            key = " ".join(w[:2]) if w[0] == "world" else w[0]
            self.hist[key] = self.hist.get(key, 0) + 1
            if w[0] == "world" and w[1] == "new":
                nw += 1
            if w[0] == "world" and w[1] == "churn":
                nw += int(w[2])
        if nw >= 2:
            self.nontrivial.add(hash(ops))
        if len(self.samples) < 3:
            self.samples.append(wc.op_lines(ops)[:30])


def isolation_failure(sess, ops):
    """Property oracle on the implementation alone, used when the model tie broke: "every world behaves identically, alone or
    alongside others". For every world built by `world new`, the ops addressed to it are run on a process that contains ONLY
    that world (same id, same context kind); its final dump must equal its dump in the full history (taken right before it is
    dropped, or at the end). Returns None or (history, message): the history is the full one cut after the differing dump."""
    lines = wc.op_lines(ops)
    cur = None
    n = 0
    worlds = {}          # ordinal -> dict(new=line index, args, ops=[lines], end=index of its drop or None)
    for i, l in enumerate(lines):
        w = l.split()
        if w[0] == "world":
            if w[1] == "new":
                worlds[n] = dict(new=i, args=[a for a in w[2:] if not a.startswith("reuse=")], ops=[], end=None)
                cur = n
                n += 1
            elif w[1] == "churn":
                n += int(w[2])
            elif w[1] == "drop":
                k = int(w[2])
                if k in worlds and worlds[k]["end"] is None:
                    worlds[k]["end"] = i
                if cur == k:
                    cur = None
        elif w[0] == "use":
            cur = int(w[1])
        elif w[0] in ("validin", "getin", "in", "dumpall"):
            continue
        elif cur in worlds and worlds[cur]["end"] is None:
            worlds[cur]["ops"].append(l)

    def last_dump(out):
        idx = [i for i, l in enumerate(out) if l == "dump"]
        if not idx:
            return None
        blk = []
        for l in out[idx[-1]:]:
            blk.append(l)
            if l == "end":
                break
        return blk

    for k, W in sorted(worlds.items()):
        cut = W["end"] if W["end"] is not None else len(lines)
        full = "\n".join(lines[:cut] + ["use %d" % k, "dump"]) + "\n"
        out_full, note, _ = wc.run_impl(sess.exe, full, timeout=300)
        if note:
            continue
        wid = None
        for l in out_full:
            m = re.match(r"world %d id=(\d+)" % k, l)
            if m:
                wid = int(m.group(1))
        if wid is None:
            continue
        args = [a for a in W["args"] if a != "auto" and not a.startswith("id=")]
        alone = "\n".join(["world new id=%d %s" % (wid, " ".join(args))] + W["ops"] + ["dump"]) + "\n"
        out_alone, note2, _ = wc.run_impl(sess.exe, alone, timeout=300)
        if note2:
            continue
        a, b = last_dump(out_full), last_dump(out_alone)
        if a is None or b is None or a == b:
            continue
        d = wc.first_diff(a, b, eq=lambda x, y: x == y)
        return full, ("world %d (id %d) ends in a different state alongside the other worlds than when the same operations are "
                      "run on it alone: dump line %d is `%s` here but `%s` alone" % (k, wid, d[0], d[1][:160], d[2][:160]))
    return None


def search_inputs(rng):
    """inputs tried when only the tie broke: histories known to stress each clause of the property"""
    out = [t for (_, t) in boundary_cases()]
    for total in (1030, 2060):
        out.append(gen_sequential(rng, total, 4, False))
    for _ in range(20):
        out.append(gen_interleaved(rng, 60))
    return out


def run(ctx):
    rng = ctx.rng
    sess = Session(ctx)
    try:
        _run(ctx, rng, sess)
    finally:
        sess.close()


def _run(ctx, rng, sess):
    files = []
    if getattr(ctx, "replay", None):
        files.append(("replay:" + ctx.replay, open(ctx.replay).read()))
    else:
        for f in wc.corpus_files(["C17"]):
            files.append(("corpus:" + os.path.relpath(f, vlib.VERIF), open(f).read()))
        files += boundary_cases()
        ex_files, nseq = exhaustive_allocator(6 if ctx.thorough else 5)
        ctx.cov(exhaustive_allocator_histories=nseq)
        for i, t in enumerate(ex_files):
            files.append(("exhaustive-allocator:%d" % i, t))
        # thousands of worlds one after the other, few alive at once
        seq = [(1100, 8, False), (2100, 4, True), (1300, 2, True), (10500, 8, True), (4200, 8, False)]
        if ctx.thorough:
            seq += [(30000, 8, True), (3000, 3, True)] + [(rng.randint(1025, 2600), rng.randint(1, 8), rng.random() < 0.5) for _ in range(40)]
        for (total, keep, ch) in seq:
            files.append(("sequential:%d/keep%d" % (total, keep), gen_sequential(rng, total, keep, ch)))
        n = 25000 if ctx.thorough else 1000
        for i in range(n):
            ln = rng.randint(20, 120) if not ctx.thorough else rng.randint(20, 180)
            files.append(("interleaved:%d" % i, gen_interleaved(rng, ln, malformed=rng.choice([0.0, 0.15, 0.4]),
                                                                 p_shared=rng.choice([0.0, 0.5, 1.0]))))
    def one(f):
        st = {}
        return sess.check(f[1], account=st), st

    with cf.ThreadPoolExecutor(max(2, vlib.NPROC - 2)) as ex:
        results = list(ex.map(one, files))
    failures = {"oracle": [], "abort": [], "tie": []}
    for (name, ops), (r, st) in zip(files, results):
        sess.account(ops)
        sess.add_stats(st)
        if r:
            failures[r[0]].append((name, ops, r[1]))
    reported = 0
    for kind in ("oracle", "abort"):
        seen = set()
        # smallest failing inputs first: they shrink fastest and read best
        for name, ops, msg in sorted(failures[kind], key=lambda x: len(x[1])):
            sig = re.sub(r"\d+", "#", msg)[:60]
            if sig in seen or reported >= 3:
                continue
            seen.add(sig)
            keep = sig[:25]
            small = wc.shrink(ops, lambda t, k=kind, kp=keep: (lambda x: x is not None and x[0] == k and re.sub(r"\d+", "#", x[1]).startswith(kp))(sess.check(t)),
                              budget=80, wall_s=90.0)
            r2 = sess.check(small)
            ctx.violation(small, "C17 fails on the implementation (%s, %s): %s" % (kind, name, (r2 or (0, msg))[1][:500]))
            reported += 1
    if not reported and failures["tie"]:
        # the tie broke: does the PROPERTY fail nearby? targeted search on the implementation alone
        found = None
        for t in search_inputs(rng):
            r = sess.check(t)
            if r and r[0] in ("oracle", "abort"):
                found = (t, r)
                break
        name, ops, msg = failures["tie"][0]
        iso = None
        if not found:
            # the histories on which the tie broke: does a world behave differently because of the others?
            for (_n, t, _m) in failures["tie"][:5]:
                iso = isolation_failure(sess, t)
                if iso:
                    break
        if iso:
            ctx.violation(iso[0], "C17 fails on the implementation (isolation oracle, after the model tie broke at %s): %s" % (name, iso[1][:600]))
        elif found:
            small = wc.shrink(found[0], lambda t: (lambda x: x is not None and x[0] == found[1][0])(sess.check(t)), budget=80, wall_s=120.0)
            r2 = sess.check(small)
            ctx.violation(small, "C17 fails on the implementation (found by the search after the model tie broke at %s): %s"
                          % (name, (r2 or found[1])[1][:500]))
        else:
            small = wc.shrink(ops, lambda t: (lambda x: x is not None and x[0] == "tie")(sess.check(t)), budget=60, wall_s=120.0)
            r2 = sess.check(small)
            ctx.violation(small, "correspondence process model <-> implementation broken (%d of %d files; first %s): %s; the property "
                          "oracle (frame / foreign / own handles / duplicate ids, evaluated on the implementation after every op) found no "
                          "failing input in %d files + the targeted search" % (len(failures["tie"]), len(files), name,
                                                                              (r2 or (0, msg))[1][:400], len(files)), no_input=True)
    st = sess.stats
    ctx.cov(evaluations=len(files), distinct_nontrivial=len(sess.nontrivial),
            rule="one case = one process history (op file) executed on the real library (ASan+UBSan, harness/worlds_driver.cpp) and on the "
                 "Lean process model; corpus + boundary cases, exhaustive allocator histories over {new auto own/shared, new id=0/1, drop "
                 "oldest/newest} up to the stated length, sequential histories of thousands of worlds (crossing 1024 and 2048) with few "
                 "alive at once, seeded interleaved histories (<= 8 worlds alive, shared/private contexts, locked sections open in several "
                 "worlds at once, malformed handles); non-trivial = distinct files building >= 2 worlds. After every op the harness "
                 "re-observes all live worlds and cross-presents all handles (counts below are measured by the harness).",
            samples=sess.samples, op_histogram=dict(sorted(sess.hist.items())),
            worlds_built=st.get("worlds", 0), max_worlds_alive=st.get("max_live", 0), max_world_id_seen=st.get("max_id", 0),
            ops_executed=st.get("ops", 0), frame_checks=st.get("frame_checks", 0), foreign_handle_checks=st.get("foreign_checks", 0),
            own_handle_checks=st.get("own_checks", 0), archetype_handle_checks=st.get("archetype_handle_checks", 0),
            exhaustive_allocator_len=(6 if ctx.thorough else 5),
            oracle_failures=len(failures["oracle"]), aborts=len(failures["abort"]), tie_differences=len(failures["tie"]),
            trusted_base=["Lean 4.33 kernel and the axioms listed under axioms_used",
                          "harness/worlds_driver.cpp (+ the included world_driver.cpp) and its in-harness oracle; tools/props/c17.py",
                          "hand-written process model lean/Mustache/Model/Worlds.lean (allocator of the fixed code) over the world model "
                          "Model/World.lean: tied to /repo by differential execution on the explored histories only",
                          "C16 translator tie for the packing functions used by own_handle_roundtrip",
                          "C++ abstract machine, compiler, std containers: outside the model"])
    ctx.assume("all operations come from one thread (the property's quantifier); worlds are destroyed outside their locked sections",
               "explicit ids passed by the caller are below 2^10 and do not name a live world (two live worlds with one id are the caller's error)",
               "at most 2^10 worlds (plus unused bare nextWorldId() results) exist at once; beyond that no 10-bit id is left",
               "systems, events and jobs of different worlds are covered per world by C14/C15/C04-C08, not here")

"""C18 - the C API behaves like the C++ API on the same operations (DESIGN.md section 4, ### C18).

One case = one op file of the C18 grammar (world op grammar subset expressible through mustache/c_api.h + job runs +
`capi_flags <mask> <dv> [<L>=<mask>:<dv> ...]` selecting the optional lifecycle functions of the run-time registered
component types). Every file is executed
  * through the C interface        harness/capi_driver.cpp (+ capi_peek.cpp: observations needing C++ headers)
  * through the C++ interface      harness/capi_ref_driver.cpp (= world_driver.cpp + job / write / clear ops)
  * on the Lean model              `driver capi`  (C description built from the flags)  and  `driver capi cxx`
                                   (C++ catalogue; used for the positions whose value is indeterminate there)
PROPERTY ORACLE: the two drivers' observations (per-op results, entity lines of every dump: validity, archetype, row,
component set, values; job callback logs: arrays, entities, values) are equal except where one interface's value is
indeterminate (a component default-constructed without constructor / default value).
TIE: capi_driver == `driver capi`, capi_ref_driver == `driver capi cxx` (with `?` wildcards of the model).
Theorems: lean/Mustache/Props/C18.lean."""
import hashlib
import os
import re
import shutil
import concurrent.futures as cf

import vlib
from props import world_common as wc

LETTERS = "ABCDEFGH"


def _wd_hash():
    try:
        return hashlib.sha256(open(os.path.join(vlib.HARNESS, "world_driver.cpp"), "rb").read()).hexdigest()[:10]
    except OSError:
        return "none"


# capi_ref_driver.cpp #includes world_driver.cpp: make the cache key follow it
REF_DEFS = ("-DVERIF_WD_HASH=0x" + _wd_hash(),)
HARNESSES = [("capi_driver", "asan", (), ["capi_peek.cpp"]), ("capi_ref_driver", "asan", REF_DEFS)]
LEVEL_WITHOUT_PROOF = "other"

FN_NAMES = ["create", "copy", "move", "move_constructor", "destroy"]


# ----------------------------------------------------------------------------------------------------------------
# generator: world_common.Gen (exact abstract reference state keeps histories inside the contract), thread 0 only,
# no dependencies / shared components / builder (not expressible in the C interface), plus the C18-specific ops
# ----------------------------------------------------------------------------------------------------------------
class CGen(wc.Gen):
    def __init__(self, rng, mix, flags_line, **kw):
        super().__init__(rng, mix, max_threads=1, malformed=0.0, **kw)
        # the flags line replaces the `threads` line: the C API creates its world with the default context
        self.lines = [flags_line] + [l for l in self.lines if l.startswith("storagecap")]

    def thread(self):
        return 0

    def step(self):
        r, ref = self.r, self.ref
        ops = [o for o in self.mix if self.mix[o] > 0]
        op = r.choices(ops, [self.mix[o] for o in ops])[0]
        locked = ref.lock > 0
        if op == "set":
            if not ref.alive:
                return
            o = r.choice(sorted(ref.alive))
            cs = sorted(c for c in ref.alive[o]["c"])
            if not cs:
                return
            self.emit("set %d %s %d" % (o, r.choice(cs), self.newtok()))
        elif op == "creategroup":
            comps = sorted(r.sample(self.letters, r.randint(0, 3)))
            n = r.randint(1, 4)
            self.emit("creategroup %s %d" % (",".join(comps) or "-", n))
            for _ in range(n):
                o = ref.n
                ref.n += 1
                if locked:
                    self.cmd(0, ("create", o, set(comps), {}))
                    ref.pending_new.add(o)
                else:
                    ref.alive[o] = {"c": set(comps), "s": {}}
        elif op == "createb":
            comps = sorted(r.sample(self.letters, r.randint(0, 3)))
            o = ref.n
            ref.n += 1
            self.emit("createb %s" % (",".join(comps) or "-"))
            if locked:
                self.cmd(0, ("create", o, set(comps), {}))
                ref.pending_new.add(o)
            else:
                ref.alive[o] = {"c": set(comps), "s": {}}
        elif op == "destroymany":
            alive = ref.projected()[0] if locked else ref.alive
            if len(alive) < 2:
                return
            es = r.sample(sorted(alive), r.randint(2, min(3, len(alive))))
            now = r.random() < 0.7
            for o in es:
                if locked:
                    self.cmd(0, ("destroynow" if now else "destroy", o))
                elif now:
                    ref.alive.pop(o, None)
                else:
                    ref.marked.add(o)
            self.emit("%s %s" % ("destroynow" if now else "destroy", " ".join(map(str, es))))
        elif op == "clear":
            if locked or ref.marked:
                return
            ref.alive = {}
            self.emit("clear")
        elif op == "foreach":
            if locked:
                return
            req = sorted(r.sample(self.letters, r.choice([0, 1, 1, 1, 2, 2, 3])))
            opt = sorted(c for c in r.sample(self.letters, r.choice([0, 0, 1, 2])) if c not in req)
            both = req + opt
            cst = sorted(c for c in both if r.random() < 0.4)
            line = "foreach req=%s opt=%s const=%s ent=%d" % (",".join(req) or "-", ",".join(opt) or "-", ",".join(cst) or "-",
                                                              0 if r.random() < 0.1 else 1)
            wr = [c for c in both if c not in cst and c != "D"]
            if wr and r.random() < 0.45:
                line += " w=%s:%d" % (r.choice(wr), 100000 + 1000 * r.randint(1, 800))
            if r.random() < 0.2:
                line += " mode=par"
            self.emit(line)
        elif op == "query":
            h = self.any_handle() if r.random() < 0.4 else (str(r.randrange(ref.n)) if ref.n else "null")
            q = r.choice(["valid", "has", "get", "getmut"])
            if q == "valid":
                self.emit("valid %s" % h)
            else:
                self.emit("%s %s %s" % (q, h, r.choice(self.letters)))
        else:
            saved = self.mix
            self.mix = {op: 1}
            try:
                super().step()
            finally:
                self.mix = saved

    def text(self, n):
        t = self.run(n)
        out = []
        for l in t.splitlines():
            out.append("wupdate" if l == "update" else l)
        return "\n".join(out) + "\n"


MIX = dict(create=5, creategroup=1, createb=1, assign=4, assign0=3, set=4, remove=3, destroynow=3, destroymany=1, destroy=1,
           update=1, clone=1, clear=0.3, foreach=3, query=2, lock=0, unlock=0, dump=1)


def flags_line(rng, mask, dv, mixed):
    s = "capi_flags %d %d" % (mask, dv)
    if mixed:
        for c in rng.sample(LETTERS, rng.randint(1, 4)):
            s += " %s=%d:%d" % (c, rng.randrange(32), rng.randrange(2))
    return s


def systematic(mask, dv, x, y, mixed_y=None):
    """the design-time scenario for one function subset and one pair of component types: three entities sharing an
    archetype, distinct values, destruction of a non-last one, removal / assignment moving rows between archetypes,
    deferred forms, a job, a clone"""
    fl = "capi_flags %d %d" % (mask, dv)
    if mixed_y is not None:
        fl += " %s=%d:%d" % (y, mixed_y[0], mixed_y[1])
    L = [fl, "creategroup %s,%s 3" % (x, y)]
    t = 20
    for o in range(3):
        for c in (x, y):
            t += 1
            L.append("set %d %s %d" % (o, c, t))
    z = [c for c in LETTERS if c not in (x, y, "D")][0]
    L += ["dump", "destroynow 0", "dump", "create %s" % x, "assign0 3 %s" % y, "assign 1 %s 77" % z, "dump", "remove 2 %s" % x,
          "dump", "foreach req=%s opt=%s const=%s ent=1 w=%s:5000" % (x, y, x, y), "dump",
          "lock", "assign0 3 %s" % z, "assign 2 %s 88" % x, "remove 1 %s" % y, "create %s,%s" % (x, y), "unlock", "dump",
          "clone 1", "clone 4", "dump", "destroy 1 3", "wupdate", "dump", "clear", "create %s" % y, "dump", "teardown"]
    return "\n".join(L) + "\n"


# ----------------------------------------------------------------------------------------------------------------
# running and comparing
# ----------------------------------------------------------------------------------------------------------------
_CB = re.compile(r" cb=\S+")
_TOK = re.compile(r"([ ,|:=])")


def norm_ref(lines):
    """capi_ref_driver (world_driver format) -> the lines capi_driver prints: no callbacks (not expressible in the C table),
    no archetype / id-table / live-instance lines"""
    out = []
    for l in lines:
        if l.startswith(("A ", "T ", "L ")):
            continue
        l = _CB.sub("", l)
        if l.startswith("teardown"):
            l = "teardown" + "".join(wc._LIFE.findall(l))
        out.append(l)
    return out


def norm_c(lines):
    return [("teardown" + l[len("teardown"):]) if l.startswith("teardown") else l for l in lines]


def lines_agree(c, x, mc, mx):
    """observation of the C interface vs the C++ interface; mc / mx: the model lines (indeterminate values are `?`)"""
    if c == x:
        return True
    tc, tx = _TOK.split(c), _TOK.split(x)
    if len(tc) != len(tx):
        return False
    tmc = _TOK.split(mc) if mc is not None else []
    tmx = _TOK.split(mx) if mx is not None else []
    for i, (a, b) in enumerate(zip(tc, tx)):
        if a == b:
            continue
        # a difference is legitimate only where the two DESCRIPTIONS differ (a default-constructed value: the C table's
        # create / default_value token vs the C++ type's constructor, or indeterminate on one side) and each interface shows
        # what its own description says
        if len(tmc) != len(tc) or len(tmx) != len(tx):
            return False
        ok_c = tmc[i] == "?" or a == tmc[i]
        ok_x = tmx[i] == "?" or b == tmx[i]
        explained = tmc[i] == "?" or tmx[i] == "?" or tmc[i] != tmx[i]
        if not (ok_c and ok_x and explained):
            return False
    return True


def direct_diff(ic, ix, mc, mx):
    n = max(len(ic), len(ix))
    for i in range(n):
        a = ic[i] if i < len(ic) else "<missing>"
        b = ix[i] if i < len(ix) else "<missing>"
        if not lines_agree(a, b, mc[i] if i < len(mc) else None, mx[i] if i < len(mx) else None):
            return i, a, b
    return None


_CALLS = re.compile(r"CALLS create=(\d+) copy=(\d+) move=(\d+) move_constructor=(\d+) destroy=(\d+)")


class Session:
    def __init__(self, ctx):
        self.ctx = ctx
        self.exe_c = ctx.harness("capi_driver", sources=["capi_peek.cpp"])
        self.exe_x = ctx.harness("capi_ref_driver", extra_defs=REF_DEFS)
        # private copy of the Lean driver: a concurrent `lake build driver` of another check unlinks the shared one
        self.tmp = os.path.join(vlib.CACHE, "c18_run_%d" % os.getpid())
        os.makedirs(self.tmp, exist_ok=True)
        self.drv = os.path.join(self.tmp, "driver")
        shutil.copy2(ctx.driver(), self.drv)
        self.calls = [0] * 5
        self.hist = {}
        self.combos = set()
        self.nontrivial = set()
        self.samples = []
        self.n = 0
        self.job_shapes = set()

    def close(self):
        shutil.rmtree(self.tmp, ignore_errors=True)

    def check_file(self, ops, count=False):
        """None, or (kind, message): kind in oracle (C != C++), abort (C driver died), tie"""
        ic, note_c, err_c = wc.run_impl(self.exe_c, ops)
        if count:
            m = _CALLS.search(err_c or "")
            if m:
                for i in range(5):
                    self.calls[i] += int(m.group(i + 1))
        ix, note_x, _ = wc.run_impl(self.exe_x, ops)
        mc, mn = wc.run_model(self.drv, ops, sub="capi")
        mx, mxn = wc.run_model(self.drv, ops, sub="capi", extra=["cxx"])
        if mn or mxn:
            return ("tie", "model driver failed: %s" % (mn or mxn))
        ic, ix = norm_c(ic), norm_ref(ix)
        if any(a.startswith("bad-op") and b.startswith("bad-op") for a, b in zip(ic, ix)):
            return ("malformed", "op file outside the grammar (both drivers answered bad-op)")
        if note_c and note_x and len(ic) == len(ix):
            return ("tie", "both interfaces die at the same observation %d (not a difference between them): C: %s | C++: %s"
                    % (len(ic), note_c[:250], note_x[:250]))
        if note_c:
            # where did the C interface stop? the C++ interface's next observation is what it should have produced
            nxt = ix[len(ic)] if len(ic) < len(ix) else "<end>"
            return ("abort", "through the C interface the run dies after %d observations (%s); the C++ interface continues with `%s`"
                    % (len(ic), note_c[:400], nxt[:200]))
        if note_x:
            return ("tie", "the C++ reference driver died (not a statement about the C interface): " + note_x[:400])
        harn = [l for l in ic if "HARNESS-ERROR" in l]
        if harn:
            return ("oracle", "a lifecycle function of a run-time described component was called in a way no C++ type would be used (misaligned pointer, or assignment onto storage no object was ever built in): " + harn[0][:300])
        d = direct_diff(ic, ix, mc, mx)
        if d:
            return ("oracle", "observation %d: through the C interface `%s`, through the C++ interface `%s`" % (d[0], d[1][:400], d[2][:400]))
        d = wc.first_diff(ic, mc)
        if d:
            return ("tie", "C driver vs model, line %d: impl `%s` model `%s`" % (d[0], d[1][:300], d[2][:300]))
        d = wc.first_diff(ix, mx)
        if d:
            return ("tie", "C++ reference driver vs model (cxx), line %d: impl `%s` model `%s`" % (d[0], d[1][:300], d[2][:300]))
        return None

    def account(self, ops):
        self.n += 1
        f = wc.classify(ops)
        for k, v in f.items():
            if k == "capi_flags":
                continue
            self.hist[k] = self.hist.get(k, 0) + v
        first = wc.op_lines(ops)[0].split()
        if first[0] == "capi_flags":
            self.combos.add((int(first[1]) & 31, int(first[2]) != 0))
            for o in first[3:]:
                m = re.match(r"[A-H]=(\d+):(\d)", o)
                if m:
                    self.combos.add((int(m.group(1)) & 31, m.group(2) != "0"))
        for l in wc.op_lines(ops):
            if l.startswith("foreach"):
                w = l.split()
                self.job_shapes.add((len(w[1]), len(w[2]), "w=" in l, "mode=par" in l, "ent=0" in l))
        structural = sum(f.get(k, 0) for k in ("create", "createb", "creategroup", "assign", "assign0", "remove", "destroynow", "destroy",
                                               "clone", "clear", "unlock", "foreach", "set"))
        moves = sum(f.get(k, 0) for k in ("assign", "assign0", "remove", "destroynow", "destroy", "clear", "unlock"))
        if structural >= 3 and moves >= 1:
            self.nontrivial.add(hash(ops))
        if len(self.samples) < 3:
            self.samples.append(wc.op_lines(ops)[:40])


def klass(msg):
    """coarse class of a failure message (kept while shrinking): what kind of observation differs"""
    m = re.search(r"`([^` ]*)", msg)
    first = re.sub(r"\d+", "#", m.group(1)) if m else ""
    if "dies after" in msg:
        m2 = re.search(r"(AddressSanitizer: [\w-]+|runtime error|terminate called[^|]*|Segmentation fault|LeakSanitizer)", msg)
        first = m2.group(1) if m2 else "abort"
    return first


def shrink_keep_flags(ops, fails, budget=150):
    lines = wc.op_lines(ops)
    head = [lines[0]] if lines and lines[0].startswith("capi_flags") else []
    body = lines[len(head):]
    small = wc.shrink("\n".join(body) + "\n", lambda t: fails("\n".join(head) + "\n" + t), budget=budget)
    return "\n".join(head) + ("\n" if head else "") + small


def corpus_files():
    d = os.path.join(vlib.VERIF, "corpus", "C18")
    if not os.path.isdir(d):
        return []
    return [os.path.join(d, f) for f in sorted(os.listdir(d)) if f.endswith(".ops")]


def run(ctx):
    sess = Session(ctx)
    try:
        _run(ctx, sess)
    finally:
        sess.close()


def _run(ctx, sess):
    rng = ctx.rng
    files = []
    if getattr(ctx, "replay", None):
        files.append(("replay:" + ctx.replay, open(ctx.replay).read()))
    else:
        for f in corpus_files():
            files.append(("corpus:" + os.path.relpath(f, vlib.VERIF), open(f).read()))
        # systematic: every function subset x default value on/off, rotating pairs of component types
        pairs = [(x, y) for x in LETTERS for y in LETTERS if x < y]
        k = 0
        for mask in range(32):
            for dv in (0, 1):
                npairs = len(pairs) if ctx.thorough else 2
                for j in range(npairs):
                    x, y = pairs[(k + j * 11) % len(pairs)]
                    if rng.random() < 0.5:
                        x, y = y, x
                    files.append(("systematic:%d/%d/%s%s" % (mask, dv, x, y), systematic(mask, dv, x, y)))
                k += 1
        # mixed tables inside one archetype: a component with a subset next to one with another subset
        subsets = [0, 4, 8, 27, 23, 31, 1, 16] if ctx.thorough else [0, 4, 27, 31]
        for m1 in subsets:
            for m2 in subsets:
                x, y = rng.sample(LETTERS, 2)
                files.append(("mixed:%d/%d/%s%s" % (m1, m2, x, y), systematic(m1, rng.randrange(2), x, y, (m2, rng.randrange(2)))))
        per_combo = 250 if ctx.thorough else 12
        for mask in range(32):
            for dv in (0, 1):
                for i in range(per_combo):
                    mix = dict(MIX)
                    if i % 3 == 1:
                        mix["lock"], mix["unlock"] = 1, 1
                    g = CGen(rng, mix, flags_line(rng, mask, dv, i % 2 == 1), lock_bias=(0.12 if i % 3 == 1 else 0.0),
                             storagecap=(2 if i % 5 == 4 else None))
                    n = rng.randint(10, 45) * (3 if ctx.thorough and i % 4 == 0 else 1)
                    files.append(("random:%d/%d/%d" % (mask, dv, i), g.text(n)))
    with cf.ThreadPoolExecutor(max(2, vlib.NPROC - 2)) as ex:
        results = list(ex.map(lambda f: sess.check_file(f[1], count=True), files))
    failures = {"oracle": [], "abort": [], "tie": [], "malformed": []}
    for (name, ops), r in zip(files, results):
        sess.account(ops)
        if r:
            failures[r[0]].append((name, ops, r[1]))
    reported = 0
    for kind in ("oracle", "abort"):
        seen = set()
        for name, ops, msg in failures[kind]:
            sig = klass(msg) + ("|misaligned" if "misaligned" in msg else "")
            if sig in seen or reported >= 6:
                continue
            seen.add(sig)
            small = shrink_keep_flags(ops, lambda t, k=kind, c=klass(msg): (lambda x: x is not None and x[0] == k and klass(x[1]) == c)(sess.check_file(t)))
            r2 = sess.check_file(small)
            ctx.violation(small, "C18 fails on the implementation (%s, %s): %s" % (kind, name, (r2 or (0, msg))[1][:700]))
            reported += 1
    if not reported and failures["malformed"] and not failures["tie"]:
        name, ops, msg = failures["malformed"][0]
        ctx.violation(ops, "check machinery: %d generated op files are outside the harness grammar (first %s): %s"
                      % (len(failures["malformed"]), name, msg), no_input=True)
    if not reported and failures["tie"]:
        name, ops, msg = failures["tie"][0]
        small = shrink_keep_flags(ops, lambda t: (lambda x: x is not None and x[0] == "tie")(sess.check_file(t)))
        r2 = sess.check_file(small)
        ctx.violation(small, "correspondence model<->implementation broken (%d of %d files; first %s): %s; the property oracle (C interface vs "
                      "C++ interface on the same op files) found no difference in %d files"
                      % (len(failures["tie"]), len(files), name, (r2 or (0, msg))[1][:500], len(files)), no_input=True)
    ctx.cov(evaluations=len(files), distinct_nontrivial=len(sess.nontrivial),
            rule="one case = one op file executed through the C interface (capi_driver, ASan+UBSan), through the C++ interface "
                 "(capi_ref_driver = world_driver + jobs), on the Lean C-API model with the file's function-table subset and on the model "
                 "with the C++ catalogue; oracle = the two interfaces' observations agree (per-op results, every dump's entity lines, job "
                 "callback logs) except for values indeterminate in one interface; corpus, then systematic scenario x all 32 function subsets "
                 "x default value on/off x pairs of component types, mixed tables, then seeded structured random histories (exact abstract "
                 "reference state keeps them inside the contract). non-trivial = distinct files with >= 3 structural operations of which "
                 ">= 1 relocates component data.",
            samples=sess.samples, op_histogram=dict(sorted(sess.hist.items())),
            function_subsets_covered=len({m for (m, _) in sess.combos}), subset_x_default_covered=len(sess.combos),
            lifecycle_function_calls=dict(zip(FN_NAMES, sess.calls)), job_shapes=len(sess.job_shapes),
            oracle_failures=len(failures["oracle"]), aborts=len(failures["abort"]), tie_differences=len(failures["tie"]),
            trusted_base=["Lean 4.33 kernel and the axioms listed under axioms_used",
                          "harness/capi_driver.cpp + capi_peek.cpp (C side), harness/capi_ref_driver.cpp + world_driver.cpp (C++ side): "
                          "canonicalisation, token encoding over the whole component, poisoning of moved-from / destroyed storage",
                          "tools/props/c18.py + world_common.py: generator, wildcard diff",
                          "lean/Mustache/Model/CApi.lean, Model/World.lean, Model/Iteration.lean: tied to /repo by differential execution on "
                          "the explored op files only",
                          "what user-supplied lifecycle functions do with the bytes (assumed: constructor writes its token, copy/move preserve it)",
                          "C++ abstract machine, compiler, std containers: outside the model"])
    ctx.assume("contract of DESIGN.md 3.3: assignComponent[WithoutInit] / removeComponent get valid handles; assign only of a component the entity lacks",
               "lock / unlock ops stand for the state job callbacks run in (BaseJob::run locks the entity manager around the callbacks); "
               "thread 0 only",
               "version-filtered jobs (check_update) are C07's subject: jobs here select every chunk",
               "component values are opaque tokens")

"""Shared machinery of the C07 / C11 checks (version stamps, version-filtered jobs).

  * op-file generators (structured random histories, exhaustive small scopes, chunk-size configurations);
  * running an op file on the implementation (harness/version_driver.cpp) and on the Lean model
    (`driver versions`), line-by-line tie diff;
  * the property oracles, evaluated on the IMPLEMENTATION's own output:
      - C07 superset oracle: every entity with a pending write of a checked component (ghost `pending`,
        maintained from the history and from what the implementation itself processed) is processed;
      - C11 subset / precision oracle: a version-filtered job processes only chunks that are `touched`
        (ghost), whole chunks clipped to the population, nothing when nothing is touched; the chunk size
        of every archetype equals the specified resolution (default clamped by the largest minimum and the
        smallest maximum of the applying functions; contradictory -> rejected);
  * delta-debugging shrinker on lines, search near a broken tie.

Stdlib only. All randomness comes from the `random.Random` handed in by the caller (ctx.rng).
"""
import os
import re
import sys
from concurrent.futures import ThreadPoolExecutor

sys.path.insert(0, os.path.dirname(os.path.dirname(os.path.abspath(__file__))))
import vlib  # noqa: E402

COMPS = "ABCD"
KNOWN_OUTSIDE_KEY = "check-outside-archetype"
HARNESS = "version_driver"
NULL_VER = 4294967295

TRUSTED_BASE = [
    "Lean 4 kernel; axioms propext, Classical.choice, Quot.sound",
    "statements of Props/C07.lean, Props/C11.lean and the readable model Model/Versions.lean, Model/ChunkSize.lean",
    "correspondence tie is a differential test: harness/version_driver.cpp (public API only), canonical "
    "line format, the generators' distribution and the bounded number/length of histories",
    "the python ghost oracle (pending / touched bookkeeping, ~150 lines) mirrors the Lean ghost; positions "
    "are cross-checked against the implementation's dump",
    "C++ abstract machine, compiler, sanitizers; 32-bit version wrap-around excluded (w < 2^32); "
    "World::init() outside the operation set; user chunk/archetype filters constant",
]


# ------------------------------------------------------------------------------------------------
# small helpers

def norm(mask):
    """canonical mask string: sorted letters or '-'"""
    s = "".join(sorted(set(c for c in mask if c in COMPS)))
    return s if s else "-"


def mset(mask):
    return frozenset(c for c in mask if c in COMPS)


def parse_job(line):
    ws = line.split()
    d = {"req": "-", "write": "-", "check": "-", "opt": "-", "kind": "dyn", "af": "-", "cf": "all"}
    for w in ws[2:]:
        k, v = w.split("=", 1)
        d[k] = v
    return {"req": mset(d["req"]), "write": mset(d["write"]), "check": mset(d["check"]),
            "opt": mset(d["opt"]), "kind": d["kind"], "af": mset(d["af"]), "cf": d["cf"]}


def arch_ok(J, mask):
    """required components present and the job's constant archetype filter accepts"""
    return J["req"] <= mset(mask) and not (J["af"] & mset(mask))


def chunk_ok(J, k):
    return J["cf"] == "all" or (k % 2 == 0) == (J["cf"] == "even")


def close_mask(deps, mask):
    """mask closed under the declared dependencies (transitive)"""
    m = set(mset(mask))
    changed = True
    while changed:
        changed = False
        for (c, ds) in deps:
            if c in m and not ds <= m:
                m |= ds
                changed = True
    return norm("".join(m))


def clean_lines(text):
    out = []
    for l in text.splitlines():
        l = l.strip()
        if l and not l.startswith("#"):
            out.append(l)
    return out


# ------------------------------------------------------------------------------------------------
# chunk-size specification (the property's wording, not the code's fold)

def spec_chunk_size(default, fns, mask):
    """fns: list of (mask set, min, max); min = 0 / max = 0 mean "no minimum" / "no maximum".
    Returns ('ok', size) or ('error', max, min)."""
    app = [(mn, mx) for (m, mn, mx) in fns if m <= mset(mask)]
    lo = max([mn for (mn, _) in app], default=0)
    his = [mx for (_, mx) in app if mx != 0]
    hi = min(his) if his else 0
    if hi and hi < lo:      # contradictory: the largest minimum exceeds the smallest maximum
        return ("error", hi, lo)
    c = max(default, lo)
    if hi:
        c = min(c, hi)
    return ("ok", c)


# ------------------------------------------------------------------------------------------------
# running

class HarnessGone(Exception):
    """the cached harness binary disappeared (cache pruned by a concurrent build): rebuild and retry"""


TIMEOUT = [40]


def run_pair(exe, drv, text, timeout=None):
    timeout = timeout or TIMEOUT[0]
    try:
        rc, out, err = vlib.run([exe], inp=text, timeout=timeout)
    except FileNotFoundError:
        raise HarnessGone(exe)
    rc2, out2, err2 = vlib.run([drv, "versions"], inp=text, timeout=timeout)
    return (rc, out.splitlines(), err), (rc2, out2.splitlines(), err2)


def first_diff(a, b):
    n = min(len(a), len(b))
    for i in range(n):
        if a[i] != b[i]:
            return i
    if len(a) != len(b):
        return n
    return None


# ------------------------------------------------------------------------------------------------
# the ghost oracle

class Oracle:
    """Replays an op file against the implementation's output lines and evaluates C07 / C11."""

    def __init__(self, ops):
        self.ops = ops
        self.jobs = [parse_job(l) for l in ops if l.startswith("job ")]
        nj = len(self.jobs)
        self.pending = [set() for _ in range(nj)]       # (e, c)
        self.touched = [set() for _ in range(nj)]       # (mask, k)
        self.arch = {}                                   # mask -> {'ents': [...], 'cs': n}
        self.emask = {}                                  # ordinal -> mask or None
        self.default = 1024
        self.fns = []
        self.deps = []
        self.next_ord = 0
        self.c07 = []        # (op index, message)
        self.c11 = []
        self.sanity = []     # oracle bookkeeping disagrees with the implementation (tie-level)
        # open known finding key=check-outside-archetype: a job with a non-empty check mask re-selects an
        # untouched chunk of an archetype that has NONE of the checked components
        self.known_outside = []
        self.stats = {"runs": 0, "runs_work": 0, "runs_empty": 0, "runs_quiescent_checked": 0, "runs_quiescent_with_entities": 0,
                      "pending_checked": 0, "relocations": 0, "arch_created": 0, "rejections": 0,
                      "chunks_processed": 0, "partial_last_chunk_processed": 0, "writes": 0,
                      "other_job_writes": 0, "self_write_runs": 0, "cs_seen": {},
                      "body_runs": 0, "body_immediate_writes": 0, "body_deferred_changes": 0,
                      "runs_with_chunk_filter": 0, "vetoed_chunks_skipped": 0, "runs_with_archetype_filter": 0,
                      "archetypes_closed_by_dependency": 0}

    # -- structural bookkeeping
    def _get_arch(self, mask, cs_obs, i):
        if mask not in self.arch:
            spec = spec_chunk_size(self.default, self.fns, mask)
            self.stats["arch_created"] += 1
            if spec[0] != "ok":
                self.c11.append((i, "archetype %s created with chunk size %s although the configuration is "
                                    "contradictory (max %d < min %d)" % (mask, cs_obs, spec[1], spec[2])))
            elif cs_obs is not None and spec[1] != cs_obs:
                self.c11.append((i, "archetype %s: chunkCapacity %s, specified resolution %d "
                                    "(default %d, functions %r)" % (mask, cs_obs, spec[1], self.default,
                                                                    [(norm(m), a, b) for (m, a, b) in self.fns])))
            self.arch[mask] = {"ents": [], "cs": cs_obs if cs_obs else (spec[1] if spec[0] == "ok" else 1)}
            self.stats["cs_seen"][str(self.arch[mask]["cs"])] = self.stats["cs_seen"].get(str(self.arch[mask]["cs"]), 0) + 1
        elif cs_obs is not None and self.arch[mask]["cs"] != cs_obs:
            self.c11.append((i, "archetype %s changed its chunk size %d -> %d" % (mask, self.arch[mask]["cs"], cs_obs)))
        return self.arch[mask]

    def _arrive(self, e, mask, cs_obs, i):
        a = self._get_arch(mask, cs_obs, i)
        k = len(a["ents"]) // a["cs"]
        a["ents"].append(e)
        self.emask[e] = mask
        for j in range(len(self.jobs)):
            for c in mask:
                if c in COMPS:
                    self.pending[j].add((e, c))
            self.touched[j].add((mask, k))

    def _depart(self, e):
        mask = self.emask[e]
        a = self.arch[mask]
        idx = a["ents"].index(e)
        l = len(a["ents"]) - 1
        for j in range(len(self.jobs)):
            self.touched[j].add((mask, idx // a["cs"]))
            self.touched[j].add((mask, l // a["cs"]))
        if idx != l:
            moved = a["ents"][l]
            a["ents"][idx] = moved
            self.stats["relocations"] += 1
            for j in range(len(self.jobs)):
                for c in mask:
                    if c in COMPS:
                        self.pending[j].add((moved, c))
        a["ents"].pop()
        self.emask[e] = None

    def _expect_rejection(self, mask, out, i):
        spec = spec_chunk_size(self.default, self.fns, mask)
        self.stats["rejections"] += 1
        ws = out.split()
        if spec[0] != "error" or mask in self.arch:
            self.c11.append((i, "archetype %s rejected (%s) although its configuration resolves to %r"
                             % (mask, out, spec)))
        elif ws[1:] != [str(spec[1]), str(spec[2])]:
            self.c11.append((i, "archetype %s rejected with %s, specified max/min %d/%d" % (mask, out, spec[1], spec[2])))

    # -- one op
    def step(self, i, op, out):
        ws = op.split()
        o = out.split()
        kind = ws[0]
        if kind == "job":
            return
        if kind == "chunkdefault":
            if o and o[0] == "ok":
                self.default = int(ws[1])
            return
        if kind == "chunkfn":
            self.fns.append((mset(ws[1]), int(ws[2]), int(ws[3])))
            return
        if kind == "dep":
            self.deps.append((ws[1], mset(ws[2])))
            return
        if kind == "create":
            mask = close_mask(self.deps, ws[1])
            if mask != norm(ws[1]) and mask not in self.arch:
                self.stats["archetypes_closed_by_dependency"] += 1
            if o[0] == "created":
                e = int(o[1])
                cs = int(o[2].split("=")[1])
                if e != self.next_ord:
                    self.sanity.append((i, "ordinal %d expected %d" % (e, self.next_ord)))
                self.next_ord = e + 1
                self._arrive(e, mask, cs, i)
            elif o[0] == "error":
                self._expect_rejection(mask, out, i)
            else:
                self.sanity.append((i, "unexpected output %r" % out))
            return
        if kind in ("assign", "remove"):
            e = int(ws[1])
            c = ws[2]
            old = self.emask.get(e)
            if o[0] == "ok":
                if old is None:
                    self.sanity.append((i, "structural change of a dead entity reported ok"))
                    return
                new = old.replace("-", "") + c if kind == "assign" else old.replace(c, "")
                new = close_mask(self.deps, new)
                if new == old:
                    self.sanity.append((i, "structural change reported although the closed mask is unchanged"))
                    return
                cs = int(o[1].split("=")[1]) if len(o) > 1 else None
                self._depart(e)
                self._arrive(e, new, cs, i)
            elif o[0] == "error":
                new = (old or "").replace("-", "") + c if kind == "assign" else (old or "").replace(c, "")
                self._expect_rejection(close_mask(self.deps, new), out, i)
            return
        if kind == "destroy":
            e = int(ws[1])
            if o[0] == "ok" and self.emask.get(e) is not None:
                self._depart(e)
            return
        if kind in ("getmut", "dirty"):
            e = int(ws[1])
            c = ws[2]
            if o[0] == "access" and o[1] == "1":
                mask = self.emask.get(e)
                if mask is None or c not in mask:
                    self.sanity.append((i, "write access succeeded on a component the entity does not have"))
                    return
                self.stats["writes"] += 1
                a = self.arch[mask]
                k = a["ents"].index(e) // a["cs"]
                for j, J in enumerate(self.jobs):
                    self.pending[j].add((e, c))
                    if c in J["check"]:
                        self.touched[j].add((mask, k))
            return
        if kind == "getconst" or kind == "update":
            return
        if kind == "run":
            self._run(i, int(ws[1]), out)
            if len(ws) > 2 and ws[2] == "do":
                self._body(i, op, out)
            return
        if kind == "dump":
            self._dump(i, out)
            return

    def _body(self, i, op, out):
        """the body of a run: immediate accesses first, then the deferred commands (applied at unlock)"""
        acts = [a.strip() for a in op.split(" do ", 1)[1].split(";") if a.strip()]
        m = re.search(r" do=(\S+)", out)
        codes = m.group(1).split(";") if m else []
        if len(codes) != len(acts):
            self.sanity.append((i, "body results %r do not match the actions %r" % (codes, acts)))
            return
        if all(c == "-" for c in codes):
            return                                  # nothing selected: the body never ran
        self.stats["body_runs"] += 1
        pairs = list(zip(acts, codes))
        imm = [(a, c) for (a, c) in pairs if a.split()[0] in ("getmut", "dirty", "getconst")]
        dfr = [(a, c) for (a, c) in pairs if a.split()[0] not in ("getmut", "dirty", "getconst")]
        for (a, c) in imm + dfr:
            if c == "a1":
                synth = "access 1 ver=0"
                if a.split()[0] != "getconst":
                    self.stats["body_immediate_writes"] += 1
            elif c == "a0":
                synth = "access 0"
            elif c.startswith("c"):
                e, cs = c[1:].split(":")
                synth = "created %s cs=%s" % (e, cs)
                self.stats["body_deferred_changes"] += 1
            elif c == "ok":
                synth = "ok"
                self.stats["body_deferred_changes"] += 1
            else:
                synth = "noop"
            self.step(i, a, synth)

    def _run(self, i, j, out):
        m = re.match(r"run (\d+) n=(\d+) sel=(\d+) ents=(\S+) ", out)
        if not m:
            self.sanity.append((i, "unparsable run line %r" % out))
            return
        P = [] if m.group(4) == "-" else [int(x) if x != "?" else -1 for x in m.group(4).split(",")]
        if int(m.group(3)) != len(P):
            self.c11.append((i, "job %d: the filter selected %s rows but %d entities exist in the selected blocks "
                                "(blocks not clipped to the population?)" % (j, m.group(3), len(P))))
        J = self.jobs[j]
        st = self.stats
        st["runs"] += 1
        st["runs_work" if P else "runs_empty"] += 1
        Pset = set(P)
        if len(Pset) != len(P) or -1 in Pset:
            self.c11.append((i, "job %d processed an entity twice or a dead entity: %r" % (j, P)))
        # ---- C07: every pending checked write of an entity in a matching archetype is processed
        must = set()
        for (e, c) in self.pending[j]:
            mask = self.emask.get(e)
            if mask is None:
                continue
            if c in J["check"] and c in mask and arch_ok(J, mask):
                a = self.arch[mask]
                if chunk_ok(J, a["ents"].index(e) // a["cs"]):
                    must.add(e)
        st["pending_checked"] += len(must)
        missed = sorted(must - Pset)
        if missed:
            self.c07.append((i, "job %d (req=%s check=%s) missed modified entities %r; processed %r"
                             % (j, norm(J["req"]), norm(J["check"]), missed, sorted(Pset))))
        # ---- C11: only touched chunks, whole chunks, nothing when nothing is touched
        chunks = set()
        any_touched = False
        all_vf = True
        if J["cf"] != "all":
            st["runs_with_chunk_filter"] += 1
        if J["af"]:
            st["runs_with_archetype_filter"] += 1
        for mask, a in self.arch.items():
            if not a["ents"] or not arch_ok(J, mask):
                continue
            vf = bool(J["check"] & mset(mask))
            all_vf = all_vf and vf
            for k in range((len(a["ents"]) - 1) // a["cs"] + 1):
                if not chunk_ok(J, k):
                    st["vetoed_chunks_skipped"] += 1
                elif (mask, k) in self.touched[j]:
                    any_touched = True
        if all_vf and not any_touched:
            st["runs_quiescent_checked"] += 1
            if any(a["ents"] and arch_ok(J, mask) for mask, a in self.arch.items()):
                st["runs_quiescent_with_entities"] += 1
        for e in Pset:
            mask = self.emask.get(e)
            if mask is None:
                continue
            a = self.arch[mask]
            if not arch_ok(J, mask):
                self.c11.append((i, "job %d processed entity %d of archetype %s, which does not match it or is vetoed "
                                    "by its archetype filter" % (j, e, mask)))
                continue
            k = a["ents"].index(e) // a["cs"]
            chunks.add((mask, k))
            if not chunk_ok(J, k):
                self.c11.append((i, "job %d (chunk filter %s) processed entity %d in version chunk %d of archetype %s, "
                                    "which its own chunk filter vetoes" % (j, J["cf"], e, k, mask)))
                continue
            if J["check"] and (mask, k) not in self.touched[j]:
                msg = ("job %d (req=%s check=%s) processed entity %d in version chunk %d of archetype %s "
                       "(chunk size %d) in which nothing was written, arrived or departed since it "
                       "last processed it" % (j, norm(J["req"]), norm(J["check"]), e, k, mask, a["cs"]))
                if J["check"] & mset(mask):
                    self.c11.append((i, msg))
                else:
                    self.known_outside.append((i, msg + " — the archetype has none of the checked components"))
        for (mask, k) in chunks:
            a = self.arch[mask]
            members = a["ents"][k * a["cs"]:(k + 1) * a["cs"]]
            st["chunks_processed"] += 1
            if len(members) < a["cs"]:
                st["partial_last_chunk_processed"] += 1
            if not set(members) <= Pset:
                self.c11.append((i, "job %d processed version chunk %d of archetype %s only in part: %r of %r"
                                 % (j, k, mask, sorted(set(members) & Pset), members)))
        # ---- ghost update
        if P and J["write"] & J["check"]:
            st["self_write_runs"] += 1
        for e in Pset:
            mask = self.emask.get(e)
            self.pending[j] = {(x, c) for (x, c) in self.pending[j] if x != e}
            if mask is None:
                continue
            for j2, J2 in enumerate(self.jobs):
                if j2 != j:
                    for c in J["write"] & mset(mask):
                        self.pending[j2].add((e, c))
                        st["other_job_writes"] += 1
        for (mask, k) in chunks:
            self.touched[j].discard((mask, k))
            for j2, J2 in enumerate(self.jobs):
                if j2 != j and (J["write"] & mset(mask) & J2["check"]):
                    self.touched[j2].add((mask, k))

    def _dump(self, i, out):
        for part in out.split(" | ")[1:]:
            ws = part.split()
            mask = ws[1]
            kv = dict(w.split("=", 1) for w in ws[2:])
            ents = [] if "ents" not in kv or kv["ents"] == "-" else [int(x) for x in kv["ents"].split(",") if x != "?"]
            mine = self.arch.get(mask, {"ents": [], "cs": None})
            if ents != mine["ents"]:
                self.sanity.append((i, "row order of archetype %s: implementation %r, oracle bookkeeping %r"
                                    % (mask, ents, mine["ents"])))
            if mine["cs"] is not None and int(kv["cs"]) != mine["cs"]:
                self.c11.append((i, "archetype %s reports chunk size %s, %d at creation" % (mask, kv["cs"], mine["cs"])))

    def replay(self, outs):
        n = min(len(self.ops), len(outs))
        for i in range(n):
            try:
                self.step(i, self.ops[i], outs[i])
            except Exception as ex:  # noqa: BLE001  (malformed output = failed observation)
                self.sanity.append((i, "oracle could not interpret %r / %r: %r" % (self.ops[i], outs[i], ex)))
                break
        return self


# ------------------------------------------------------------------------------------------------
# evaluation of one op file

class Result:
    __slots__ = ("text", "ops", "impl", "model", "tie", "oracle", "crash", "nontrivial")

    def __init__(self):
        self.crash = None
        self.tie = None


def sanitizer_problem(rc, err):
    if rc == -999:
        return "timeout"
    if rc < 0:
        return "killed by signal %d" % -rc
    if "ERROR: AddressSanitizer" in err or "runtime error:" in err or "ERROR: LeakSanitizer" in err:
        return "sanitizer report: " + "; ".join(l for l in err.splitlines() if "ERROR" in l or "runtime error" in l)[:300]
    if rc != 0:
        return "exit code %d: %s" % (rc, err.strip()[-200:])
    return None


def evaluate(exe, drv, text):
    if "ctx" in _EXE and not os.path.exists(exe):
        exe = current_exe()
    r = Result()
    r.text = text
    r.ops = clean_lines(text)
    (rc, out, err), (rc2, out2, err2) = run_pair(exe, drv, "\n".join(r.ops) + "\n")
    r.impl, r.model = out, out2
    r.crash = sanitizer_problem(rc, err)
    if rc2 != 0:
        r.tie = (-1, "model driver failed rc=%d %s" % (rc2, err2[-200:]))
    else:
        d = first_diff(out, out2)
        if d is not None:
            r.tie = (d, "op %d `%s`: implementation `%s` / model `%s`"
                     % (d, r.ops[d] if d < len(r.ops) else "<eof>",
                        out[d] if d < len(out) else "<missing>", out2[d] if d < len(out2) else "<missing>"))
    r.oracle = Oracle(r.ops).replay(out)
    st = r.oracle.stats
    r.nontrivial = (st["runs_work"] >= 2 and st["runs_empty"] >= 1 and (st["writes"] + st["relocations"]) >= 1)
    return r


_EXE = {}


def current_exe(ctx=None):
    """path of the harness binary; (re)built on demand"""
    if ctx is not None:
        _EXE["ctx"] = ctx
    if "exe" not in _EXE or not os.path.exists(_EXE["exe"]):
        _EXE["exe"] = _EXE["ctx"].harness(HARNESS)
    return _EXE["exe"]


def evaluate_many(exe, drv, texts, workers=None):
    for attempt in range(4):
        try:
            with ThreadPoolExecutor(workers or vlib.NPROC) as ex:
                return list(ex.map(lambda t: evaluate(exe, drv, t), texts))
        except HarnessGone:
            if "ctx" not in _EXE:
                raise
            _EXE.pop("exe", None)
            exe = current_exe()
    raise vlib.BuildError("harness binary keeps disappearing from the build cache", exe)


# ------------------------------------------------------------------------------------------------
# shrinking

def ddmin(lines, fails, max_tests=400):
    """delta debugging on lines; `fails(lines)` -> bool"""
    tests = [0]

    def t(ls):
        tests[0] += 1
        return fails(ls)

    n = 2
    while len(lines) >= 2 and tests[0] < max_tests:
        chunk = max(1, len(lines) // n)
        reduced = False
        for start in range(0, len(lines), chunk):
            cand = lines[:start] + lines[start + chunk:]
            if cand and t(cand):
                lines = cand
                n = max(n - 1, 2)
                reduced = True
                break
        if not reduced:
            if chunk == 1:
                break
            n = min(len(lines), n * 2)
    return lines


def shrink(exe, drv, text, which):
    """which: 'c07' | 'c11' | 'crash' | 'tie'"""
    def fails(ls):
        r = evaluate(exe, drv, "\n".join(ls) + "\n")
        if which == "crash":
            return r.crash is not None and "exit code 3" not in r.crash
        if r.crash:
            return False
        if which == "tie":
            return r.tie is not None
        return bool(getattr(r.oracle, which))
    lines = clean_lines(text)
    budget = 400
    saved = TIMEOUT[0]
    if which == "crash":
        # a hang costs its timeout on every probe: few probes, short timeout
        r0 = evaluate(exe, drv, "\n".join(lines) + "\n")
        if r0.crash and "timeout" in r0.crash:
            budget = 16
            TIMEOUT[0] = 10
    try:
        if not fails(lines):
            return lines
        return ddmin(lines, fails, max_tests=budget)
    finally:
        TIMEOUT[0] = saved


# ------------------------------------------------------------------------------------------------
# generators

def rand_mask(rng, nonempty=True, comps=COMPS, p=0.45):
    while True:
        m = "".join(c for c in comps if rng.random() < p)
        if m or not nonempty:
            return m if m else "-"


def gen_job(rng, j, vf_bias=0.7):
    """a job declaration line"""
    kind = "tpl" if rng.random() < 0.5 else "dyn"
    if kind == "tpl":
        req = rand_mask(rng, True, "ABC", 0.5)
        write = "".join(c for c in req if c != "-" and rng.random() < 0.4) or "-"
        opt = "-"
    else:
        req = rand_mask(rng, rng.random() < 0.9, COMPS, 0.4)
        opt = "".join(c for c in COMPS if c not in req and rng.random() < 0.2) or "-"
        pool = (req + opt).replace("-", "")
        write = "".join(c for c in pool if rng.random() < 0.4) or "-"
    # avoid predicate of the open finding key=check-outside-archetype: the check mask never names a component
    # outside the required mask (so every matched archetype has every checked component)
    if rng.random() < vf_bias + 0.1 and req != "-":
        check = "".join(c for c in req if rng.random() < 0.6) or req[0]        # non-empty subset of req
    else:
        check = "-"                                                            # unfiltered job
    extra = ""
    if rng.random() < 0.18:
        extra += " cf=%s" % rng.choice(["even", "odd"])                         # constant chunk filter
    if rng.random() < 0.10:
        deny = [c for c in COMPS if c not in req]
        if deny:
            extra += " af=%s" % rng.choice(deny)                                # constant archetype filter
    return "job %d req=%s write=%s check=%s opt=%s kind=%s%s" % (j, req, write, check, opt, kind, extra)


def rand_bounds(rng, top):
    """(min, max) of a chunk-size function: both, a minimum only (max = 0) or a maximum only (min = 0)"""
    r = rng.random()
    a = rng.randint(1, top)
    if r < 0.2:
        return a, 0
    if r < 0.3:
        return 0, a
    return a, rng.randint(a, top)


def gen_chunk_cfg(rng, contradictory_p=0.15):
    lines = ["chunkdefault %d" % rng.randint(1, 9)]
    for _ in range(rng.choice([0, 0, 1, 1, 2, 3])):
        m = rand_mask(rng, rng.random() < 0.85, COMPS, 0.35)
        a, b = rand_bounds(rng, 9)
        lines.append("chunkfn %s %d %d" % (m, a, b))
    if rng.random() < contradictory_p:
        m = rand_mask(rng, True, COMPS, 0.4)
        lines.append("chunkfn %s %d %d" % (m, 1, rng.randint(1, 3)))
        lines.append("chunkfn %s %d %d" % (m, rng.randint(4, 6), 9))
    return lines


def gen_consistent_chunk_cfg(rng):
    """every function's interval contains one pivot: no archetype is ever rejected (a rejection while the
    command buffer is applied inside unlock() would terminate the process)"""
    pivot = rng.randint(1, 9)
    lines = ["chunkdefault %d" % rng.randint(1, 9)]
    for _ in range(rng.choice([0, 1, 1, 2, 3])):
        m = rand_mask(rng, rng.random() < 0.85, COMPS, 0.35)
        r = rng.random()
        a = rng.randint(1, pivot)
        b = rng.randint(pivot, 9)
        if r < 0.2:
            b = 0
        elif r < 0.3:
            a = 0
        lines.append("chunkfn %s %d %d" % (m, a, b))
    return lines


def gen_deps(rng):
    lines = []
    for _ in range(rng.choice([1, 1, 2, 3])):
        c = rng.choice(COMPS)
        ds = rand_mask(rng, True, COMPS.replace(c, ""), 0.4)
        lines.append("dep %s %s" % (c, ds))
    return lines


def gen_body(rng, alive):
    """actions of a job body: immediate accesses anywhere; at most one deferred command per entity"""
    acts = []
    used = set()
    for _ in range(rng.choice([1, 1, 2, 3])):
        r = rng.random()
        ids = sorted(alive)
        if r < 0.45 and ids:
            e = rng.choice(ids)
            c = rng.choice(sorted(alive[e])) if alive[e] and rng.random() < 0.9 else rng.choice(COMPS)
            a = "%s %d %s" % (rng.choice(["getmut", "getmut", "dirty", "getconst"]), e, c)
        elif r < 0.6:
            a = "create %s" % rand_mask(rng, True, COMPS, 0.45)
        else:
            free = [e for e in ids if e not in used]
            if not free:
                continue
            e = rng.choice(free)
            used.add(e)
            k = rng.random()
            missing = [c for c in COMPS if c not in alive[e]]
            if k < 0.35 and missing:
                a = "assign %d %s" % (e, rng.choice(missing))
            elif k < 0.7 and alive[e]:
                a = "remove %d %s" % (e, rng.choice(sorted(alive[e])))
            else:
                a = "destroy %d" % e
        if a not in acts:
            acts.append(a)
    return acts


def gen_history(rng, length, njobs=None, late_jobs=True):
    """structured random history; a light reference state keeps the ops mostly valid.
    Three flavours: plain (chunk configurations incl. contradictory ones), with dependencies, and with job
    bodies that modify the world (never-contradictory chunk configuration, no dependencies)."""
    njobs = njobs or rng.randint(2, 4)
    flavour = rng.choice(["plain", "plain", "deps", "body", "body"])
    if flavour == "body":
        lines = gen_consistent_chunk_cfg(rng)
    else:
        lines = gen_chunk_cfg(rng)
    if flavour == "deps":
        lines = gen_deps(rng) + lines
    declared = 0
    first = rng.randint(1, njobs) if late_jobs else njobs
    for _ in range(first):
        lines.append(gen_job(rng, declared))
        declared += 1
    alive = {}          # ordinal -> set of comps
    nxt = 0
    masks = [rand_mask(rng, True, COMPS, 0.5) for _ in range(rng.randint(1, 3))]
    hist = {}

    def emit(l):
        lines.append(l)
        k = l.split()[0]
        hist[k] = hist.get(k, 0) + 1

    for _ in range(rng.randint(2, 8)):
        emit("create %s" % rng.choice(masks))
        alive[nxt] = set(lines[-1].split()[1])
        nxt += 1
    for _ in range(length):
        r = rng.random()
        if declared < njobs and rng.random() < 0.05:
            lines.append(gen_job(rng, declared))
            declared += 1
            continue
        if r < 0.22:
            if flavour == "body" and rng.random() < 0.6:
                acts = gen_body(rng, alive)
                emit("run %d do %s" % (rng.randrange(declared), " ; ".join(acts)) if acts
                     else "run %d" % rng.randrange(declared))
                # the reference follows the body as if it ran (it may not have: harmless drift)
                for a in acts:
                    w = a.split()
                    if w[0] == "create":
                        alive[nxt] = set(w[1])
                        nxt += 1
                    elif w[0] == "assign" and int(w[1]) in alive:
                        alive[int(w[1])].add(w[2])
                    elif w[0] == "remove" and int(w[1]) in alive:
                        alive[int(w[1])].discard(w[2])
                    elif w[0] == "destroy":
                        alive.pop(int(w[1]), None)
            else:
                emit("run %d" % rng.randrange(declared))
        elif flavour == "deps" and r < 0.235:
            emit(gen_deps(rng)[0])
        elif r < 0.32:
            emit("update")
        elif r < 0.50 and alive:
            e = rng.choice(sorted(alive))
            c = rng.choice(sorted(alive[e])) if alive[e] and rng.random() < 0.9 else rng.choice(COMPS)
            emit("%s %d %s" % (rng.choice(["getmut", "getmut", "dirty"]), e, c))
        elif r < 0.57 and alive:
            e = rng.choice(sorted(alive))
            c = rng.choice(sorted(alive[e])) if alive[e] and rng.random() < 0.9 else rng.choice(COMPS)
            emit("getconst %d %s" % (e, c))
        elif r < 0.72:
            m = rng.choice(masks) if rng.random() < 0.8 else rand_mask(rng, True, COMPS, 0.5)
            for _ in range(rng.choice([1, 1, 1, 2, 3, 5])):
                emit("create %s" % m)
                alive[nxt] = set(m)
                nxt += 1
        elif r < 0.80 and alive:
            e = rng.choice(sorted(alive))
            missing = [c for c in COMPS if c not in alive[e]]
            if missing and rng.random() < 0.93:
                c = rng.choice(missing)
                alive[e].add(c)            # (a rejected archetype leaves the reference slightly off: harmless)
            else:
                c = rng.choice(COMPS)
            emit("assign %d %s" % (e, c))
        elif r < 0.87 and alive:
            e = rng.choice(sorted(alive))
            if alive[e] and rng.random() < 0.9:
                c = rng.choice(sorted(alive[e]))
                alive[e].discard(c)
            else:
                c = rng.choice(COMPS)
            emit("remove %d %s" % (e, c))
        elif r < 0.95 and alive:
            e = rng.choice(sorted(alive))
            del alive[e]
            emit("destroy %d" % e)
        elif r < 0.97:
            emit("chunkdefault %d" % rng.randint(1, 9))
        elif nxt and rng.random() < 0.5:
            emit("getmut %d %s" % (rng.randrange(nxt), rng.choice(COMPS)))     # possibly dead
        else:
            emit("dump")
    while declared < njobs:
        lines.append(gen_job(rng, declared))
        declared += 1
    for j in range(declared):
        emit("run %d" % j)
    for j in rng.sample(range(declared), declared):
        emit("run %d" % j)
    emit("dump")
    return "\n".join(lines) + "\n", hist


def gen_frame_orderings(rng, depth):
    """exhaustive small scope: every sequence of `depth` operations from a small alphabet after a fixed
    prefix (job 0 checks A; job 1 writes A with a chunk filter; job 2 checks+writes A; 3 entities AB + 2
    entities A, chunk size 2); two of the operations are runs whose body modifies the world"""
    prefix = ["chunkdefault 2",
              "job 0 req=A write=- check=A kind=tpl",
              "job 1 req=AB write=A check=- kind=tpl cf=odd",
              "job 2 req=A write=A check=A kind=dyn",
              "create AB", "create AB", "create AB", "create A", "create A",
              "update", "run 0", "run 2"]
    alphabet = ["update", "run 0", "run 1", "run 2", "getmut 0 A", "dirty 4 A", "getmut 1 B", "getconst 2 A",
                "destroy 0", "remove 1 B", "assign 3 B", "create A",
                "run 0 do getmut 1 A ; create A", "run 2 do dirty 3 A ; destroy 2"]
    out = []

    def rec(seq):
        if len(seq) == depth:
            out.append("\n".join(prefix + seq + ["run 0", "run 2", "run 0", "dump"]) + "\n")
            return
        for a in alphabet:
            rec(seq + [a])
    rec([])
    return out


def gen_chunk_configs(rng, n):
    """chunk-size resolution: defaults, overlapping functions, contradictions; every non-empty mask created"""
    out = []
    all_masks = []
    for k in range(1, 16):
        all_masks.append("".join(c for i, c in enumerate(COMPS) if k >> i & 1))
    for _ in range(n):
        lines = ["chunkdefault %d" % rng.randint(1, 12)]
        deps = []
        if rng.random() < 0.5:                      # dependencies: the archetype's mask is the CLOSED mask
            deps = gen_deps(rng)
            lines += deps
        for _ in range(rng.randint(0, 5)):
            if deps and rng.random() < 0.5:         # a function on a dependent component only
                m = rng.choice(deps).split()[2]
                m = rng.choice(m) if m != "-" else "A"
            else:
                m = rand_mask(rng, rng.random() < 0.9, COMPS, 0.35)
            a, b = rand_bounds(rng, 12)
            lines.append("chunkfn %s %d %d" % (m, a, b))
        masks = rng.sample(all_masks, rng.randint(3, 15))
        if deps:                                    # make sure masters are requested alone
            masks = [d.split()[1] for d in deps] + masks
        for idx, m in enumerate(masks):
            if idx and rng.random() < 0.2:
                lines.append("chunkdefault %d" % rng.randint(1, 12))
            if idx and rng.random() < 0.2:
                a, b = rand_bounds(rng, 12)
                lines.append("chunkfn %s %d %d" % (rand_mask(rng, True, COMPS, 0.35), a, b))
            lines.append("create %s" % m)
            if rng.random() < 0.3:
                lines.append("create %s" % m)
        lines.append("dump")
        out.append("\n".join(lines) + "\n")
    return out


def gen_quiescence(rng, n):
    """after a run of a version-filtered job only non-interfering operations: the re-run must be empty"""
    out = []
    for _ in range(n):
        cs = rng.randint(1, 5)
        lines = ["chunkdefault %d" % cs,
                 "job 0 req=AB write=%s check=%s kind=%s" % (rng.choice(["-", "A", "B", "AB"]), rng.choice(["A", "B", "AB"]),
                                                             rng.choice(["tpl", "dyn"])),
                 "job 1 req=%s write=%s check=%s kind=dyn" % (rng.choice(["C", "AC", "ABC"]), rng.choice(["C", "-"]),
                                                              rng.choice(["-", "C"])),
                 "job 2 req=AB write=%s check=- kind=tpl%s" % (rng.choice(["-", "-", "B"]),
                                                               rng.choice(["", "", " cf=even", " cf=odd"]))]
        for _ in range(rng.randint(1, 11)):
            lines.append("create %s" % rng.choice(["AB", "ABC", "ABCD", "A", "C"]))
        lines += ["run 0", "run 1"]
        for _ in range(rng.randint(0, 10)):
            r = rng.random()
            if r < 0.25:
                lines.append("update")
            elif r < 0.45:
                lines.append("getconst %d %s" % (rng.randrange(8), rng.choice("ABC")))
            elif r < 0.65:
                lines.append("getmut %d %s" % (rng.randrange(8), rng.choice("CD")))
            elif r < 0.85:
                lines.append("run %d" % rng.choice([0, 1, 2]))
            else:
                lines.append("dirty %d C" % rng.randrange(8))
        lines += ["run 0", "update", "run 0", "dump"]
        out.append("\n".join(lines) + "\n")
    return out


def near_variants(ops, div, njobs):
    """inputs around a tie divergence on which the property oracles are evaluated (search stage)"""
    out = []
    runs = ["run %d" % j for j in range(njobs)]
    for cut in sorted({max(1, div), div + 1, len(ops)}):
        head = ops[:cut]
        if not any(l.startswith("job ") for l in head):
            continue
        dj = sum(1 for l in head if l.startswith("job "))
        rr = [r for r in runs if int(r.split()[1]) < dj]
        out.append("\n".join(head + rr + rr + ["dump"]) + "\n")
        out.append("\n".join(head + ["update"] + rr + rr + ["dump"]) + "\n")
        for r in rr:
            out.append("\n".join(head + [r, "update", r] + rr + ["dump"]) + "\n")
    return out


def merge_stats(total, st):
    for k, v in st.items():
        if isinstance(v, dict):
            d = total.setdefault(k, {})
            for kk, vv in v.items():
                d[kk] = d.get(kk, 0) + vv
        else:
            total[k] = total.get(k, 0) + v


# ------------------------------------------------------------------------------------------------
# the common driver of both checks

def run_check(ctx, prop, corpus_dir, batches, oracle_attr):
    """batches: list of (name, [op file text]). oracle_attr: 'c07' or 'c11'.
    Reports violations through ctx; returns the summary dict."""
    exe = current_exe(ctx)
    drv = ctx.driver()
    total = {}
    hist = {}
    evaluations = 0
    nontrivial = set()
    samples = []
    tie_breaks = []
    reported = {"oracle": 0, "crash": 0, "tie": 0}
    per_batch = {}
    known_seen = [0, 0]      # histories showing the known pattern, violation already reported

    corpus = []
    if os.path.isdir(corpus_dir):
        for f in sorted(os.listdir(corpus_dir)):
            if f.endswith(".ops"):
                corpus.append(open(os.path.join(corpus_dir, f)).read())
    if getattr(ctx, "replay", None):
        batches = [("replay", [open(ctx.replay).read()])]
        corpus = []

    def handle(name, results):
        nonlocal evaluations
        for r in results:
            evaluations += 1
            for l in r.ops:
                k = l.split()[0]
                hist[k] = hist.get(k, 0) + 1
            merge_stats(total, r.oracle.stats)
            per_batch[name] = per_batch.get(name, 0) + 1
            if r.nontrivial:
                nontrivial.add(r.text)
                if len(samples) < 4:
                    samples.append(r.text if len(r.text) < 900 else r.text[:900] + "...")
            if r.crash and "exit code 3" not in r.crash:
                if reported["crash"] < 2:
                    reported["crash"] += 1
                    small = shrink(exe, drv, r.text, "crash")
                    ctx.violation("\n".join(small), "%s: harness did not survive the history (%s) — failed observation"
                                  % (prop, r.crash))
                continue
            if oracle_attr == "c11" and r.oracle.known_outside and not r.crash:
                i, msg = r.oracle.known_outside[0]
                known_seen[0] += 1
                if not ctx.known(KNOWN_OUTSIDE_KEY,
                                 "a job whose check mask names a component the matched archetype lacks is never "
                                 "quiescent: " + msg) and known_seen[1] == 0:
                    known_seen[1] = 1
                    ctx.violation("\n".join(r.ops),
                                  "C11 violated on the implementation at op %d (no open known finding `%s` in "
                                  "known_findings.txt covers it): %s" % (i, KNOWN_OUTSIDE_KEY, msg))
            bad = getattr(r.oracle, oracle_attr)
            if bad:
                if reported["oracle"] < 3:
                    reported["oracle"] += 1
                    small = shrink(exe, drv, r.text, oracle_attr)
                    rs = evaluate(exe, drv, "\n".join(small) + "\n")
                    msgs = getattr(rs.oracle, oracle_attr) or bad
                    i, msg = msgs[0]
                    ctx.violation("\n".join(small),
                                  "%s violated on the implementation at op %d `%s`: %s\nimplementation output:\n%s"
                                  % (prop, i, small[i] if i < len(small) else "?", msg, "\n".join(rs.impl)))
                continue
            if r.tie is not None or r.oracle.sanity:
                tie_breaks.append(r)

    def enough():
        return reported["oracle"] >= 3 or reported["crash"] >= 2

    if corpus:
        handle("corpus", evaluate_many(exe, drv, corpus))
    for name, texts in batches:
        # in slices (a small one first), so that a violation / hang found early stops the volume
        pos = 0
        step = 32
        while pos < len(texts) and not enough():
            handle(name, evaluate_many(exe, drv, texts[pos:pos + step]))
            pos += step
            step = 256
        if enough():
            break

    # search stage: the tie broke somewhere but the property held on those inputs
    searched = 0
    if tie_breaks and reported["oracle"] == 0 and reported["crash"] == 0:
        found = False
        for r in tie_breaks[:6]:
            div = r.tie[0] if r.tie else 0
            nj = sum(1 for l in r.ops if l.startswith("job "))
            vs = near_variants(r.ops, max(div, 0), nj)
            res = evaluate_many(exe, drv, vs)
            searched += len(res)
            for rr in res:
                if getattr(rr.oracle, oracle_attr) and not rr.crash:
                    small = shrink(exe, drv, rr.text, oracle_attr)
                    rs = evaluate(exe, drv, "\n".join(small) + "\n")
                    i, msg = (getattr(rs.oracle, oracle_attr) or getattr(rr.oracle, oracle_attr))[0]
                    ctx.violation("\n".join(small), "%s violated on the implementation (found by the search around a "
                                  "model/implementation divergence) at op %d: %s" % (prop, i, msg))
                    found = True
                    break
            if found:
                break
        if not found:
            r = tie_breaks[0]
            small = shrink(exe, drv, r.text, "tie") if r.tie else r.ops
            rs = evaluate(exe, drv, "\n".join(small) + "\n")
            what = rs.tie[1] if rs.tie else (r.tie[1] if r.tie else "oracle bookkeeping: %r" % (r.oracle.sanity[:2],))
            ctx.violation("\n".join(small) + "\n# stage=tie\n# " + what +
                          "\n# searched %d nearby histories (truncations at the divergence followed by runs of every job, "
                          "with and without update) for a failure of the property: none" % searched,
                          "correspondence Model/Versions.lean <-> implementation broke (%d of %d histories): %s"
                          % (len(tie_breaks), evaluations, what), no_input=True)

    return {"known_outside_histories": known_seen[0],
            "evaluations": evaluations, "nontrivial": len(nontrivial), "samples": samples, "hist": hist,
            "stats": total, "tie_breaks": len(tie_breaks), "searched": searched, "per_batch": per_batch}

"""Shared machinery of the world-model properties (C01 C02 C03 C05 C09 C12 C13):
op-file generator driven by an exact abstract reference state (so that generated histories stay inside the
documented contract), runners for the C++ harness and the Lean model, wildcard-aware diff, delta-debugging
shrinker. DESIGN.md 2.4, Appendix A."""
import copy
import os
import re
import time
import vlib

LETTERS = "ABCDEFGH"
BUILDABLE = "BCFH"          # types the harness's builder op supports
SHARED = "STU"

HARNESSES = [("world_driver", "asan")]


# ----------------------------------------------------------------------------------------------
# abstract reference state (what the property's spec says), used ONLY to keep generation in-contract
# ----------------------------------------------------------------------------------------------
class Ref:
    def __init__(self):
        self.alive = {}          # ord -> {"c": set(letters), "s": {S: value}}
        self.n = 0               # handles issued so far
        self.deps = {}           # letter -> set(letters)   (already closed at declaration time, as the code stores it)
        self.lock = 0
        self.buf = {}            # thread -> [cmd]
        self.marked = set()
        self.threads = 2
        self.pending_new = set()  # ordinals created in the current locked section
        self.dead = set()

    def closure(self, comps):
        res = set()
        cur = set(comps)
        while True:
            prev = set(res)
            for c in cur:
                res |= self.deps.get(c, set())
            cur = set(res)
            if prev == res:
                break
        return set(comps) | res

    def add_dep(self, m, ds):
        extra = set(ds)
        extra |= (self.closure(extra) - set())
        self.deps[m] = self.deps.get(m, set()) | extra

    # --- sequential meaning of commands on a state dict -------------------------------------------
    @staticmethod
    def _apply(alive, marked, cmd, closure):
        """apply one abstract command; returns None or a contract-violation string"""
        k = cmd[0]
        if k == "create":
            _, o, comps, sh = cmd
            alive[o] = {"c": closure(comps), "s": dict(sh)}
        elif k == "destroynow":
            alive.pop(cmd[1], None)
        elif k == "destroy":
            marked.add(cmd[1])
        elif k == "remove":
            e = alive.get(cmd[1])
            if e is not None and cmd[2] in e["c"]:
                e["c"] = closure(e["c"] - {cmd[2]})
        elif k == "assign":
            e = alive.get(cmd[1])
            if e is not None:
                if cmd[2] in e["c"]:
                    # a RECORDED assign of a held component replaces the value when it is applied (the immediate call throws)
                    return None if (len(cmd) > 3 and cmd[3] == "re") else "assign of a component the entity already has"
                e["c"] = closure(e["c"] | {cmd[2]})
        return None

    def projected(self, extra=None):
        """state after the flush of the current buffers (+ one extra command on thread t);
        returns (alive, marked, violation)"""
        alive = copy.deepcopy(self.alive)
        marked = set(self.marked)
        viol = None
        for t in sorted(set(self.buf) | ({extra[0]} if extra else set())):
            cmds = list(self.buf.get(t, []))
            if extra and extra[0] == t:
                cmds.append(extra[1])
            # pack semantics: a pack whose target is not alive when the pack starts is skipped as a whole;
            # a create pack ends at its destroynow
            i = 0
            while i < len(cmds):
                j = i + 1
                while j < len(cmds) and cmds[j][1] == cmds[i][1] and cmds[j][0] != "create":
                    j += 1
                pack = cmds[i:j]
                tgt = pack[0][1]
                if pack[0][0] != "create" and tgt not in alive:
                    i = j
                    continue
                for c in pack:
                    if c[0] == "create" and c is not pack[0]:
                        viol = viol or "create not first in pack"
                    v = self._apply(alive, marked, c, self.closure)
                    viol = viol or v
                    if c[0] == "destroynow":
                        break
                # within one pack the same component may not be both assigned and removed (open finding avoided
                # by construction when avoid_assign_remove is set by the caller)
                i = j
        return alive, marked, viol


class Gen:
    """Structured op-sequence generator. `mix` = dict op -> weight."""

    def __init__(self, rng, mix, max_threads=3, storagecap=None, malformed=0.0, lock_bias=0.15,
                 avoid=frozenset(), letters=LETTERS, ndeps=0, shared=False, latedep_held=False, reassign=False,
                 locked_immediate=False, shared_frac=None):
        self.r = rng
        self.mix = mix
        self.ref = Ref()
        self.lines = []
        self.max_threads = max_threads
        self.malformed = malformed
        self.lock_bias = lock_bias
        self.avoid = avoid
        self.letters = letters
        self.shared = shared if shared_frac is None else (rng.random() < shared_frac)   # shared_frac: share of the histories that use shared components
        self.locked_immediate = locked_immediate   # never-deferred guarded calls (sremove, clone) on dead handles while locked
        self.reassign = reassign           # recorded assigns of a component the entity will hold when they are applied
        self.latedep_held = latedep_held   # late declarations also for components that live entities hold
        self.ref.threads = rng.randint(1, max_threads)
        self.emit("threads %d" % self.ref.threads)
        if storagecap:
            self.emit("storagecap %d" % storagecap)
        self.tok = 10
        self.after_parjob = False
        self.shared_used = False     # a shared component was used at some point of this history (its archetypes stay)
        self.opaque = set()          # ordinals whose component set this reference state does not know (createin, their clones)
        self.seen_keys = set()       # (component set, shared values) of placed entities: each is an archetype that exists
        for _ in range(ndeps):
            m = rng.choice(self.letters)
            ds = [d for d in rng.sample(self.letters, rng.randint(1, 2)) if d != m]
            if ds:
                self.ref.add_dep(m, ds)
                self.emit("dep %s %s" % (m, ",".join(sorted(ds))))

    def emit(self, s):
        self.lines.append(s)

    def newtok(self):
        self.tok += 1
        return self.tok

    def thread(self):
        if self.ref.lock > 0 and self.ref.threads > 0 and self.r.random() < 0.6:
            return self.r.randint(0, self.ref.threads)
        return 0

    def pre(self, t):
        return "" if t == 0 else "t%d " % t

    def pick_alive(self, projected=True, opaque_ok=False):
        alive = self.ref.projected()[0] if (projected and self.ref.lock) else self.ref.alive
        cands = sorted(o for o in alive if opaque_ok or o not in self.opaque)
        if not cands:
            return None, None
        o = self.r.choice(cands)
        return o, alive[o]

    def any_handle(self):
        """malformed stream: stale / null / raw / not-yet-alive handles"""
        k = self.r.random()
        if self.after_parjob and k >= 0.65:
            k = 0.6      # after a free-running job only issued ordinals and null (raw patterns could alias entities it created)
        if k < 0.5 and self.ref.n > 0:
            return str(self.r.randrange(self.ref.n))
        if k < 0.65:
            return "null"
        if k < 0.8:
            # plausible pattern: small id, small version, world 0 or another world. While locked only other-world patterns:
            # a same-world pattern may be the handle a creation of this very section receives, and what a command recorded
            # for a not-yet-issued handle "means" at unlock is not fixed by the property (DESIGN.md 9.3)
            world = self.r.choice([1, 5]) if self.ref.lock > 0 else self.r.choice([0, 0, 1, 5])
            v = self.r.randrange(0, 8) | (world << 30) | (self.r.randrange(0, 4) << 40)
            return "raw:%x" % v
        return "raw:%x" % self.r.getrandbits(64)

    def dead_handle_locked(self):
        """a handle that is certainly invalid for the whole locked section: an ordinal that was dead before the section began
        (its id may have been recycled by a live entity), null, or a pattern of another world"""
        ref = self.ref
        dead = [o for o in range(ref.n) if o not in ref.alive and o not in ref.pending_new and o not in self.opaque]
        k = self.r.random()
        if dead and k < 0.7:
            return str(self.r.choice(dead))
        if k < 0.85:
            return "null"
        v = self.r.randrange(0, 8) | (self.r.choice([1, 5]) << 30) | (self.r.randrange(0, 4) << 40)
        return "raw:%x" % v

    def cmd(self, t, c):
        self.ref.buf.setdefault(t, []).append(c)

    def step(self):
        r, ref = self.r, self.ref
        ops = [o for o in self.mix if self.mix[o] > 0]
        op = r.choices(ops, [self.mix[o] for o in ops])[0]
        locked = ref.lock > 0
        t = self.thread() if locked else 0
        p = self.pre(t)
        if op == "create":
            comps = set(r.sample(self.letters, r.randint(0, min(3, len(self.letters)))))
            sh = []
            if self.shared and r.random() < 0.25:
                sh = sorted(r.sample(SHARED, r.randint(1, 3)))
                self.shared_used = True
            o = ref.n
            ref.n += 1
            self.emit("%screate %s%s" % (p, ",".join(sorted(comps)) or "-", "".join(" " + s for s in sh)))
            if locked:
                self.cmd(t, ("create", o, comps, {s: 0 for s in sh}))
                ref.pending_new.add(o)
            else:
                ref.alive[o] = {"c": ref.closure(comps), "s": {s: 0 for s in sh}}
        elif op in ("assign", "assign0"):
            o, e = self.pick_alive()
            if o is None:
                return
            cands = [c for c in self.letters if c not in e["c"]]
            held = sorted(ref.projected()[0].get(o, {"c": set()})["c"]) if (locked and self.reassign) else []
            if held and op == "assign" and r.random() < 0.15 and "assign_remove_same_pack" not in self.avoid:
                # deferred re-assignment of a component the entity holds when the command is applied: the value is replaced
                c = r.choice([x for x in held if x != "D"] or held)
                if c != "D" and not self._touches(t, o, c) and not ref.projected((t, ("assign", o, c, "re")))[2]:
                    self.cmd(t, ("assign", o, c, "re"))
                    self.emit("%sassign %d %s %d" % (p, o, c, self.newtok()))
                return
            if not cands:
                return
            c = r.choice(cands)
            cmd = ("assign", o, c)
            if locked:
                if "assign_remove_same_pack" in self.avoid and self._touches(t, o, c):
                    return
                if ref.projected((t, cmd))[2]:
                    return
                if o not in ref.alive and o not in ref.pending_new:
                    return
                # the unguarded entry point needs a handle that is valid when the command is APPLIED; a command on an
                # entity created in this section is only legal on the creating thread's buffer order -> keep it simple:
                self.cmd(t, cmd)
            else:
                ref.alive[o]["c"] = ref.closure(e["c"] | {c})
            if op == "assign" and c != "D":
                self.emit("%sassign %d %s %d" % (p, o, c, self.newtok()))
            else:
                self.emit("%sassign0 %d %s" % (p, o, c))
        elif op == "remove":
            if r.random() < self.malformed:
                self.emit("%sremove %s %s" % (p, self.any_handle(), r.choice(self.letters)))
                if locked:
                    pass  # target resolved at flush: dead/unknown targets are skipped; a live ordinal is handled below
                return self._fix_malformed_remove(t)
            o, e = self.pick_alive()
            if o is None:
                return
            c = r.choice(self.letters)
            if locked:
                if "assign_remove_same_pack" in self.avoid and self._touches(t, o, c):
                    return
                self.cmd(t, ("remove", o, c))
            elif c in e["c"]:
                ref.alive[o]["c"] = ref.closure(e["c"] - {c})
            self.emit("%sremove %d %s" % (p, o, c))
        elif op == "build":
            if locked and "locked_build" in self.avoid:
                return
            new = r.random() < 0.3
            if new:
                adds = r.sample(BUILDABLE, r.randint(0, 2))
                o = ref.n
                ref.n += 1
                comps = set(adds)
                if locked:
                    self.cmd(t, ("create", o, set(), {}))
                    for c in adds:
                        self.cmd(t, ("assign", o, c))
                    ref.pending_new.add(o)
                else:
                    ref.alive[o] = {"c": ref.closure(comps), "s": {}}
                self.emit("%sbuild new %s" % (p, " ".join("+%s%s" % (c, "=%d" % self.newtok() if r.random() < 0.7 else "") for c in adds)))
                return
            o, e = self.pick_alive()
            if o is None:
                return
            adds = [c for c in r.sample(BUILDABLE, r.randint(0, 2)) if c not in e["c"]]
            rems = [c for c in r.sample(self.letters, r.randint(0, 2)) if c not in adds]
            if locked:
                if any(self._touches(t, o, c) for c in adds + rems) and "assign_remove_same_pack" in self.avoid:
                    return
                for c in adds:
                    if ref.projected((t, ("assign", o, c)))[2]:
                        return
                for c in adds:
                    self.cmd(t, ("assign", o, c))
                for c in sorted(rems):      # the builder's removals are a mask: recorded in component-id order
                    self.cmd(t, ("remove", o, c))
            else:
                new_c = ref.closure((e["c"] | set(adds)) - set(rems))
                if new_c == e["c"] and "builder_self_move" in self.avoid:
                    return
                if new_c != e["c"]:
                    ref.alive[o]["c"] = new_c
                # equal -> the library throws "to itself"; state unchanged
            self.emit("%sbuild %d %s" % (p, o, " ".join(["+%s%s" % (c, "=%d" % self.newtok() if r.random() < 0.7 else "") for c in adds] + ["-" + c for c in rems])))
        elif op == "destroynow":
            if r.random() < self.malformed:
                h = self.any_handle()
                self.emit("%sdestroynow %s" % (p, h))
                return self._after_malformed(t, "destroynow", h)
            o, e = self.pick_alive(opaque_ok=True)
            if o is None:
                return
            if locked:
                self.cmd(t, ("destroynow", o))
            else:
                ref.alive.pop(o)
            self.emit("%sdestroynow %d" % (p, o))
        elif op == "destroy":
            if r.random() < self.malformed:
                h = self.any_handle()
                self.emit("%sdestroy %s" % (p, h))
                return self._after_malformed(t, "destroy", h)
            o, e = self.pick_alive(opaque_ok=True)
            if o is None:
                return
            if locked:
                self.cmd(t, ("destroy", o))
            else:
                ref.marked.add(o)
            self.emit("%sdestroy %d" % (p, o))
        elif op == "update":
            if locked:
                if r.random() < 0.2:
                    self.emit("update")       # throws: locked-update
                return
            for o in list(ref.marked):
                ref.alive.pop(o, None)
            ref.marked.clear()
            self.emit("update")
        elif op == "cleararch":
            if locked or self.opaque:
                return      # an opaque entity may live in the cleared archetype without this reference state knowing
            o, e = self.pick_alive(False)
            if o is None:
                return
            mask = e["c"]
            # clears the FIRST archetype with this component mask: every alive entity with this mask and the
            # shared values of that first archetype; keep it unambiguous: only when no shared components are in play
            if any(x["s"] for x in ref.alive.values()) or self.shared_used:
                return      # an archetype with this mask and shared values may exist (even empty) and come first
            for k in [k for k, x in ref.alive.items() if x["c"] == mask]:
                ref.alive.pop(k)
            self.emit("cleararch %s" % (",".join(sorted(mask)) or "-"))
        elif op == "clone":
            if locked:
                # the guard of clone() does not depend on the lock: a stale / null / foreign handle gives null at once
                if self.locked_immediate and r.random() < self.malformed:
                    self.emit("clone %s" % self.dead_handle_locked())
                return
            if r.random() < self.malformed:
                h = self.any_handle()
                if h.isdigit() and int(h) in ref.alive:
                    return
                self.emit("clone %s" % h)
                return
            o, e = self.pick_alive(False)
            if o is None:
                return
            n = ref.n
            ref.n += 1
            ref.alive[n] = copy.deepcopy(e)
            self.emit("clone %d" % o)
        elif op == "sassign":
            if locked:
                return
            o, e = self.pick_alive(False)
            if o is None:
                return
            s = r.choice(SHARED)
            v = r.randint(0, 2)
            e["s"][s] = v
            self.shared_used = True
            self.emit("sassign %d %s %d" % (o, s, v))
        elif op == "sremove":
            if locked:
                # removeSharedComponent<S>() is never deferred: under lock its guard alone keeps a stale handle harmless
                if self.locked_immediate and r.random() < self.malformed:
                    self.emit("sremove %s %s" % (self.dead_handle_locked(), r.choice(SHARED)))
                return
            if r.random() < self.malformed:
                h = self.any_handle()
                if h.isdigit() and int(h) in ref.alive:
                    return
                self.emit("sremove %s %s" % (h, r.choice(SHARED)))
                return
            o, e = self.pick_alive(False)
            if o is None:
                return
            s = r.choice(SHARED)
            e["s"].pop(s, None)
            self.emit("sremove %d %s" % (o, s))
        elif op == "lock":
            if ref.lock < 3:
                ref.lock += 1
                self.emit("lock")
        elif op == "unlock":
            self.do_unlock()
        elif op == "query":
            h = self.any_handle() if r.random() < max(self.malformed, 0.3) else (str(r.randrange(ref.n)) if ref.n else "null")
            q = r.choice(["valid", "has", "get", "getmut", "archof", "markdirty", "marked"])
            if q in ("has", "get", "getmut", "markdirty"):
                self.emit("%s%s %s %s" % (p if q != "getmut" or True else "", q, h, r.choice(self.letters)))
            else:
                self.emit("%s%s %s" % (p, q, h))
        elif op == "dump":
            self.emit("dump")
        elif op == "clear":
            # EntityManager::clear(): everything dies, ids are re-issued from (0,0) afterwards. Only when nothing is pending.
            if locked or ref.marked:
                return
            ref.alive.clear()
            self.cleared = True
            self.emit("clear")
        elif op == "createin":
            # create(Archetype&): reuse an archetype the history has made before (also one emptied by clear()). Which component
            # set index K has is only known to the model, so the new entity is OPAQUE to this reference state: it is only ever
            # used with checked entry points. K stays below the number of archetypes that certainly exist.
            if not self.seen_keys:
                return
            o = ref.n
            ref.n += 1
            k = r.randrange(len(self.seen_keys))
            if locked:
                self.cmd(t, ("create", o, set(), {}))
                ref.pending_new.add(o)
                self.opaque.add(o)
            else:
                ref.alive[o] = {"c": set(), "s": {}}
                self.opaque.add(o)
            self.emit("%screatein %d" % (p, k))
        elif op == "latedep":
            if locked:
                return
            alive = ref.projected()[0]
            cands = [m for m in self.letters if self.latedep_held or not any(m in e["c"] for e in alive.values())]
            if not cands:
                return
            m = r.choice(cands)
            ds = [d for d in r.sample(self.letters, r.randint(1, 2)) if d != m]
            if ds:
                ref.add_dep(m, ds)
                self.emit("dep %s %s" % (m, ",".join(sorted(ds))))
        elif op == "latescn":
            # a transition "archetype X + component m" is used, and only then m's dependents are declared; a second
            # member of X must still get them (an archetype-transition cache that a declaration does not invalidate)
            if locked:
                return
            cands = [m for m in self.letters if not any(m in e["c"] for e in ref.alive.values())]
            if not cands:
                return
            m = r.choice(cands)
            base = [c for c in r.sample(self.letters, r.randint(0, 2)) if c != m]
            if m in ref.closure(set(base)):
                return
            ds = [d for d in r.sample(self.letters, r.randint(1, 2)) if d != m]
            if not ds:
                return
            mask = ",".join(sorted(base)) or "-"
            o1 = ref.n
            ref.n += 1
            self.emit("create %s" % mask)
            self.emit("assign0 %d %s" % (o1, m) if m == "D" or r.random() < 0.5 else "assign %d %s %d" % (o1, m, self.newtok()))
            if r.random() < 0.5:
                self.emit("destroynow %d" % o1)
            else:
                self.emit("remove %d %s" % (o1, m))
                ref.alive[o1] = {"c": ref.closure(ref.closure(set(base) | {m}) - {m}), "s": {}}
            ref.add_dep(m, ds)
            self.emit("dep %s %s" % (m, ",".join(sorted(ds))))
            o2 = ref.n
            ref.n += 1
            self.emit("create %s" % mask)
            self.emit("assign0 %d %s" % (o2, m) if m == "D" or r.random() < 0.5 else "assign %d %s %d" % (o2, m, self.newtok()))
            ref.alive[o2] = {"c": ref.closure(set(base) | {m}), "s": {}}
            self.emit("dump")
        elif op == "parjob":
            if locked or ref.threads < 1:
                return
            hit = sorted(o for o, e in ref.alive.items() if "A" in e["c"])
            if not hit:
                return
            base = self.newtok() * 1000
            for o in hit:
                k = o % 4
                if k == 0:
                    ref.alive[ref.n] = {"c": ref.closure({"E"}), "s": {}}
                    ref.n += 1
                elif k == 1:
                    ref.alive.pop(o)
                elif k == 2 and "H" not in ref.alive[o]["c"]:
                    ref.alive[o]["c"] = ref.closure(ref.alive[o]["c"] | {"H"})
            self.emit("parjob tasks=%d tok=%d" % (r.randint(1, len(hit) + 1), base))
            self.after_parjob = True

    def _touches(self, t, o, c):
        """is component c of entity o already assigned/removed in the pack currently open on thread t?"""
        cmds = self.ref.buf.get(t, [])
        i = len(cmds) - 1
        while i >= 0 and cmds[i][1] == o:
            if cmds[i][0] in ("assign", "remove") and cmds[i][2] == c:
                return True
            if cmds[i][0] == "create":
                break
            i -= 1
        return False

    def _fix_malformed_remove(self, t):
        # the emitted line is the last one; if it names a live ordinal account for it
        line = self.lines[-1].split()
        if line[0].startswith("t") and line[0][1:].isdigit():
            line = line[1:]
        h, c = line[1], line[2]
        if not h.isdigit():
            return
        o = int(h)
        if self.ref.lock > 0:
            if "assign_remove_same_pack" in self.avoid and self._touches(t, o, c):
                self.lines.pop()
                return
            self.cmd(t, ("remove", o, c))
        elif o in self.ref.alive and c in self.ref.alive[o]["c"]:
            self.ref.alive[o]["c"] = self.ref.closure(self.ref.alive[o]["c"] - {c})

    def _after_malformed(self, t, kind, h):
        if not h.isdigit():
            return
        o = int(h)
        if self.ref.lock > 0:
            self.cmd(t, (kind, o))
        elif kind == "destroynow":
            self.ref.alive.pop(o, None)
        else:
            self.ref.marked.add(o)

    def do_unlock(self):
        ref = self.ref
        if ref.lock == 0:
            if self.r.random() < 0.1:
                self.emit("unlock")      # unlock of an unlocked manager: flushes empty buffers
            return
        ref.lock -= 1
        self.emit("unlock")
        if ref.lock == 0:
            alive, marked, _ = ref.projected()
            ref.alive, ref.marked = alive, marked
            ref.buf = {}
            ref.pending_new = set()

    def note_keys(self):
        if self.ref.lock == 0:
            for o, e in self.ref.alive.items():
                if o not in self.opaque:
                    self.seen_keys.add((frozenset(e["c"]), tuple(sorted(e["s"].items()))))

    def run(self, n):
        for _ in range(n):
            self.note_keys()
            if self.ref.lock == 0 and self.r.random() < self.lock_bias:
                self.ref.lock += 1
                self.emit("lock")
                continue
            if self.ref.lock > 0 and self.r.random() < 0.12:
                self.do_unlock()
                continue
            self.step()
            if self.r.random() < 0.15:
                self.emit("dump")
        while self.ref.lock > 0:
            self.do_unlock()
        self.emit("dump")
        self.emit("teardown")
        return "\n".join(self.lines) + "\n"


# ----------------------------------------------------------------------------------------------
# running and comparing
# ----------------------------------------------------------------------------------------------
SAN = re.compile(r"(ERROR: AddressSanitizer|runtime error:|LeakSanitizer|SUMMARY: \w+Sanitizer|terminate called|Segmentation fault|double free|Assertion)")


def run_impl(exe, ops, timeout=60):
    env = {"ASAN_OPTIONS": "detect_leaks=1:abort_on_error=0:exitcode=99", "UBSAN_OPTIONS": "print_stacktrace=1:halt_on_error=1"}
    rc, out, err = vlib.run([exe], inp=ops, timeout=timeout, env=env)
    note = None
    if rc != 0 or SAN.search(err):
        m = SAN.search(err)
        first = ""
        if m:
            # first informative lines of the report
            lines = err[m.start():].splitlines()
            first = " | ".join(l.strip() for l in lines[:1] + [l for l in lines if " in " in l and "/src/mustache" in l][:3])
        note = "abort rc=%s %s" % (rc, first[:600])
    return out.splitlines(), note, err


def run_model(drv, ops, sub="world", timeout=120, extra=()):
    rc, out, err = vlib.run([drv, sub] + list(extra), inp=ops, timeout=timeout)
    return out.splitlines(), (None if rc == 0 else "model driver rc=%s %s" % (rc, err[-300:]))


_WILD = re.compile(r"([A-H]):\?")


def line_eq(impl, model):
    """model tokens `X:?` (indeterminate value) match any implementation value"""
    if impl == model:
        return True
    if "?" not in model:
        return False
    pat = re.escape(model).replace(re.escape("?"), r"[^, ]+")
    return re.fullmatch(pat, impl) is not None


def first_diff(impl, model, eq=None):
    eq = eq or line_eq
    n = max(len(impl), len(model))
    for i in range(n):
        a = impl[i] if i < len(impl) else "<missing>"
        b = model[i] if i < len(model) else "<missing>"
        if not eq(a, b):
            return i, a, b
    return None


def spec_line_eq(impl, spec):
    """projection line vs spec line. Callbacks of a flush (`ret=` lines): the spec lists them command by command;
    an attachment cancelled inside the same locked section never takes effect, so the implementation may fire fewer -
    but never more than the sequential count, and the net effect per (component, entity) must agree."""
    if line_eq(impl, spec):
        return True
    if not (impl.startswith("ret=") and spec.startswith("ret=")):
        return False
    if _CB.sub("", impl) != _CB.sub("", spec):
        return False

    def count(l):
        c = {}
        for x in _CB.findall(l):
            kind, comp, ent = x.strip()[3:].split(":")
            k = (comp, ent)
            a, r = c.get(k, (0, 0))
            c[k] = (a + (kind == "assign"), r + (kind == "remove"))
        return c
    ci, cs = count(impl), count(spec)
    for k in set(ci) | set(cs):
        ia, ir = ci.get(k, (0, 0))
        sa, sr = cs.get(k, (0, 0))
        if ia - ir != sa - sr or ia > sa or ir > sr:
            return False
    return True


_CB = re.compile(r" cb=\S+")
_LIFE = re.compile(r" LIFECYCLE-ERROR\[[^\]]*\]")


def project(lines):
    """implementation observation lines -> the property-level projection the spec stream prints"""
    out = []
    for l in lines:
        if l.startswith(("A ", "T ", "L ", "EV ")):      # `EV`: per-op lifecycle counts (C03, op line `events on`)
            continue
        cbs = sorted(_CB.findall(l))
        base = _CB.sub("", l)
        if base.startswith("h "):
            base = " ".join(base.split()[:2])
        elif base.startswith("E ") and "valid=1" in base:
            w = base.split()
            comps = [x for x in w if x.startswith("comps=")][0]
            sh = [x for x in w if x.startswith("shared=")][0][7:]
            if sh != "-":
                sh = ",".join(x.split(":")[0] + ":" + x.split("/")[-1] for x in sh.split(","))
            base = "%s %s valid=1 %s shared=%s" % (w[0], w[1], comps, sh)
        elif base.startswith("arch="):
            base = "arch=null" if base == "arch=null" else "arch=some"
        elif base.startswith("marked="):
            base = "marked=*"
        elif base == "none":
            base = "ok"                       # cleararch of a component set no archetype has
        elif base.startswith("teardown"):
            base = "teardown" + "".join(_LIFE.findall(base))
        out.append(base + "".join(cbs))
    return out


def shared_instances_ok(lines):
    """C12 on the implementation's own dump: within one dump, per shared type, instance class <-> value is a bijection"""
    cur = {}
    for l in lines:
        if l == "dump":
            cur = {}
        if l.startswith("E ") and "shared=" in l and "valid=1" in l:
            sh = l.split("shared=")[1].split()[0]
            if sh == "-":
                continue
            for x in sh.split(","):
                t, rest = x.split(":")
                if rest == "null":
                    return "entity line `%s`: shared component %s reported present but its instance is null" % (l, t)
                cls, val = rest.split("/")
                m = cur.setdefault(t, ({}, {}))
                if m[0].setdefault(cls, val) != val:
                    return "one %s instance carries two values (%s, %s): `%s`" % (t, m[0][cls], val, l)
                if m[1].setdefault(val, cls) != cls:
                    return "equal %s values (%s) observed through two different instances: `%s`" % (t, val, l)
    return None


def expand_parjobs(ops, impl):
    """replace every `parjob` op by `lock`, the ops the implementation recorded (X lines), `unlock`"""
    new_ops, new_impl = [], []
    it = iter(impl)
    for l in op_lines(ops):
        if l.split()[0] != "parjob":
            new_ops.append(l)
            # copy this op's output lines (dump blocks span several lines)
            first = next(it, None)
            if first is None:
                break
            new_impl.append(first)
            if first == "dump":
                for x in it:
                    new_impl.append(x)
                    if x == "end":
                        break
            continue
        first = next(it, None)
        if first is None:
            break
        if first == "bad-op":
            new_ops.append(l)
            new_impl.append(first)
            continue
        new_ops.append("lock")
        new_impl.append(first)           # "ok"
        for x in it:
            if x.startswith("X "):
                new_ops.append(x[2:])
            else:
                new_impl.append(x)
                if x.startswith("ret="):
                    new_ops.append("unlock")
                    break
    return "\n".join(new_ops) + "\n", new_impl


def handles_distinct(lines):
    """C01 on the implementation's own output: creation calls never return one (id, version, world) triple twice"""
    seen = {}
    for l in lines:
        if l.startswith("cleared"):
            seen = {}          # EntityManager::clear() resets the id table: handles are re-issued from (0, 0) by design
        if l.startswith("h ") and " id=" in l:
            w = l.split()
            key = tuple(w[2:5])
            if key in seen:
                return "creation calls %s and %s returned the same handle %s" % (seen[key], w[1], " ".join(key))
            seen[key] = w[1]
    return None


def op_lines(ops):
    return [l for l in ops.splitlines() if l.strip() and not l.startswith("#")]


def shrink(ops, fails, budget=120, wall_s=240.0):
    """delta debugging on lines; `fails(text) -> bool`. Keeps the failure, returns minimal text. Bounded by a number of
    tries and by wall-clock time (an input that is expensive to replay is reported less shrunk, not later)."""
    lines = op_lines(ops)
    n = 2
    tries = 0
    t_end = time.time() + wall_s
    while len(lines) >= 2 and tries < budget and time.time() < t_end:
        chunk = max(1, len(lines) // n)
        reduced = False
        for i in range(0, len(lines), chunk):
            cand = lines[:i] + lines[i + chunk:]
            if not cand:
                continue
            tries += 1
            if fails("\n".join(cand) + "\n"):
                lines = cand
                n = max(n - 1, 2)
                reduced = True
                break
            if tries >= budget or time.time() >= t_end:
                break
        if not reduced:
            if chunk == 1:
                break
            n = min(n * 2, len(lines))
    return "\n".join(lines) + "\n"


def classify(ops):
    """features of an op file for the evidence histograms"""
    feats = {}
    for l in op_lines(ops):
        w = l.split()
        if w[0].startswith("t") and w[0][1:].isdigit():
            feats["threaded"] = feats.get("threaded", 0) + 1
            w = w[1:]
        feats[w[0]] = feats.get(w[0], 0) + 1
        if len(w) > 1 and (w[1].startswith("raw:") or w[1] == "null"):
            feats["malformed-handle"] = feats.get("malformed-handle", 0) + 1
    return feats


class Session:
    """tie + oracle over many op files for one property"""

    def __init__(self, ctx, prop_oracle=None):
        self.ctx = ctx
        self.no_internals = False
        try:
            self.exe = ctx.harness("world_driver")
        except vlib.BuildError as e:
            # a renamed private member (the friend accessor no longer compiles) is not a property violation: drop the
            # internal observations (id table, row positions) from both streams and keep the public tie + the oracle
            vlib.log("[world] harness with internals does not compile (%s); retrying with -DVERIF_NO_INTERNALS" % e.what)
            self.exe = ctx.harness("world_driver", extra_defs=("-DVERIF_NO_INTERNALS",))
            self.no_internals = True
            ctx.cov(internals_dropped=True)
        self.drv = ctx.driver()
        self.n = 0
        self.nontrivial = set()
        self.hist = {}
        self.samples = []
        self.prop_oracle = prop_oracle
        self.tie_breaks = []
        self.known_hits = {}

    def check_file(self, ops, label=""):
        """returns None if fine, else (kind, message) where kind in {'oracle','abort','tie'}"""
        ops = self.in_contract(ops)
        impl, note, err = run_impl(self.exe, ops)
        if "parjob" in ops and not note:
            # free-running parallel job: the implementation's recorded interleaving becomes a scripted section
            ops, impl = expand_parjobs(ops, impl)
        model, mnote = run_model(self.drv, ops)
        if mnote:
            return ("tie", "model driver failed: " + mnote)
        if note:
            return ("abort", note)
        msg = handles_distinct(impl)
        if msg:
            return ("oracle", msg)
        life = [l for l in impl if "LIFECYCLE-ERROR" in l]
        if life:
            return ("oracle", "component lifecycle violated: " + life[0][:300])
        # property oracle: the abstract spec (Lean, executed) against the implementation's own observations
        spec, snote = run_model(self.drv, ops, sub="world", extra=["spec"])
        if snote:
            return ("tie", "spec driver failed: " + snote)
        d = first_diff(project(impl), spec, spec_line_eq)
        if d:
            return ("oracle", "observation %d: implementation `%s` but the specification says `%s`" % (d[0], d[1][:300], d[2][:300]))
        msg = shared_instances_ok(impl) or handles_distinct(impl)
        if msg:
            return ("oracle", msg)
        if self.prop_oracle:
            msg = self.prop_oracle(ops, impl, model)
            if msg:
                return ("oracle", msg)
        if self.no_internals:
            strip = lambda ls: [re.sub(r" pos=\S+", "", l) for l in ls if not l.startswith("T ")]
            impl, model = strip(impl), strip(model)
        d = first_diff(impl, model)
        if d:
            return ("tie", "output line %d: impl `%s` model `%s`" % (d[0], d[1][:300], d[2][:300]))
        return None

    def in_contract(self, ops):
        """truncate the history before the first op that leaves the documented contract (an unguarded entry point given a
        handle that is not valid at that moment - raw patterns may alias live entities, which only the model can know)"""
        rc, out, err = vlib.run([self.drv, "worldcontract"], inp=ops, timeout=120)
        try:
            k = int(out.strip().splitlines()[-1])
        except (ValueError, IndexError):
            return ops
        if k < 0:
            return ops
        self.truncated = getattr(self, "truncated", 0) + 1
        lines = op_lines(ops)[:k]
        return "\n".join(lines + ["dump", "teardown"]) + "\n"

    def account(self, ops):
        self.n += 1
        f = classify(ops)
        for k, v in f.items():
            self.hist[k] = self.hist.get(k, 0) + v
        structural = sum(f.get(k, 0) for k in ("create", "assign", "assign0", "remove", "build", "destroynow", "destroy",
                                               "clone", "sassign", "sremove", "cleararch", "unlock"))
        if structural >= 3:
            self.nontrivial.add(hash(ops))
        if len(self.samples) < 3:
            self.samples.append(op_lines(ops)[:40])


# ----------------------------------------------------------------------------------------------
# the check itself (shared by C01 C02 C03 C05 C09 C12 C13; each module supplies its configuration)
# ----------------------------------------------------------------------------------------------
def corpus_files(props):
    out = []
    for p in props:
        d = os.path.join(vlib.VERIF, "corpus", p)
        if os.path.isdir(d):
            out += [os.path.join(d, f) for f in sorted(os.listdir(d)) if f.endswith(".ops")]
    return out


def stress_parallel_creates(ctx):
    """free-running parallel jobs whose tasks create / destroy / assign concurrently from every dispatcher thread:
    thousands of deferred creations reserve ids at the same time (C01, C05, C06)"""
    out = []
    for k in range(3 if ctx.thorough else 1):
        n = 2400 + 4 * k          # the list-based model is quadratic in the population: keep it where a file takes ~1 minute
        lines = ["threads %d" % (8 if k % 2 == 0 else 3)]
        lines += ["create A"] * n
        tok = 100000
        for j in range(3):
            if j == 1:
                # every task only creates: thousands of id reservations racing on the manager's atomic counter
                lines.append("parjob tasks=%d tok=%d creates=6" % ((9 if k % 2 == 0 else 4), tok))
            else:
                lines.append("parjob tasks=%d tok=%d" % ((9 if k % 2 == 0 else 4), tok))
            tok += 100000
            lines += ["valid %d" % ctx.rng.randrange(n) for _ in range(20)]
        lines += ["valid %d" % (n + i) for i in range(0, 40, 3)]
        lines.append("teardown")
        out.append(("stress:parallel-creates-%d" % k, "\n".join(lines) + "\n"))
    return out


def stress_impl_only(ctx):
    """creation storms checked on the implementation's own output only (distinct handles, every created handle valid
    after the job, no sanitizer report): cheap enough to repeat, so that a schedule-dependent reservation race has many chances"""
    out = []
    for k in range(12 if ctx.thorough else 5):
        n = 1500 + 7 * k
        th = [8, 3, 15, 5, 2][k % 5]
        lines = ["threads %d" % th] + ["create A"] * n
        for j in range(4):
            lines.append("parjob tasks=%d tok=%d creates=%d" % (th + 1, 1000000 * (j + 1), 4 + j))
        lines += ["valid %d" % (n + i) for i in range(0, 4 * n, 97)]
        lines.append("teardown")
        out.append(("stress:creation-storm-%d" % k, "\n".join(lines) + "\n"))
    return out


def check_impl_only(sess, ops):
    impl, note, err = run_impl(sess.exe, ops, timeout=120)
    if note:
        return ("abort", note)
    msg = handles_distinct(impl)
    if msg:
        return ("oracle", msg)
    bad = [l for l in impl if l == "valid=0"]
    if bad:
        return ("oracle", "%d handles returned by creations inside a parallel job are invalid after the job" % len(bad))
    return None


def run_world_check(ctx, cfg):
    """cfg: dict(mix, corpus=[prop ids], n_quick, n_thorough, len=(lo,hi), gen=dict(kwargs for Gen), what=str,
                 extra_oracle=callable|None, exhaustive=callable|None,
                 prelude=str|None: op lines put in front of every corpus / generated file (not of a replay file, which
                 is run as recorded), e.g. "events on\\n"; files with a `parjob` op are left alone)"""
    sess = Session(ctx, cfg.get("extra_oracle"))
    rng = ctx.rng
    files = []
    prelude = cfg.get("prelude") or ""

    def with_prelude(text):
        return text if (not prelude or "parjob" in text) else prelude + text
    if getattr(ctx, "replay", None):
        files.append(("replay:" + ctx.replay, open(ctx.replay).read()))
    else:
        for f in corpus_files(cfg.get("corpus", [])):
            files.append(("corpus:" + os.path.relpath(f, vlib.VERIF), with_prelude(open(f).read())))
        for name, text in (cfg["exhaustive"](ctx) if cfg.get("exhaustive") else []):
            files.append((name, with_prelude(text)))
        n = cfg["n_thorough"] if ctx.thorough else cfg["n_quick"]
        for i in range(n):
            g = Gen(rng, cfg["mix"], **cfg.get("gen", {}))
            lo, hi = cfg.get("len", (8, 45))
            if ctx.thorough:
                hi = hi * 3
            files.append(("random:%d" % i, with_prelude(g.run(rng.randint(lo, hi)))))
    failures = {"oracle": [], "abort": [], "tie": []}
    storms = cfg["impl_only"](ctx) if (cfg.get("impl_only") and not getattr(ctx, "replay", None)) else []
    for name, ops in storms:
        r = check_impl_only(sess, ops)
        sess.n += 1
        if r:
            failures[r[0]].append((name, ops, r[1]))
            break
    import concurrent.futures as cf
    with cf.ThreadPoolExecutor(max(2, vlib.NPROC - 2)) as ex:
        results = list(ex.map(lambda f: sess.check_file(f[1]), files))
    for (name, ops), r in zip(files, results):
        sess.account(ops)
        if r:
            failures[r[0]].append((name, ops, r[1]))
    reported = 0
    # property failures (oracle / sanitizer aborts): shrink, report with the op file as replay
    for kind in ("oracle", "abort"):
        seen = set()
        for name, ops, msg in failures[kind]:
            sig = re.sub(r"0x[0-9a-f]+|\d+", "#", msg)[:80]
            if sig in seen or reported >= 3:
                continue
            seen.add(sig)
            if name.startswith("stress:"):
                ctx.violation(ops, "%s fails on the implementation (%s, %s; schedule dependent - replay may need repeating): %s"
                              % (ctx.prop, kind, name, msg[:500]))
                reported += 1
                continue
            small = shrink(ops, lambda t, k=kind: (lambda x: x is not None and x[0] == k)(sess.check_file(t)), budget=60)
            r2 = sess.check_file(small)
            ctx.violation(small, "%s fails on the implementation (%s, %s): %s" % (ctx.prop, kind, name, (r2 or (0, msg))[1][:500]))
            reported += 1
    if not reported and failures["tie"]:
        # stage S: the correspondence broke but no explored history violated the property. Search around the divergences:
        # continue each shrunk diverging history with random suffixes of CHECKED operations only (always inside the contract)
        # and let the spec oracle judge the implementation.
        searched = 0
        for name, ops, msg in failures["tie"][:3]:
            small = shrink(ops, lambda t: (lambda x: x is not None and x[0] == "tie")(sess.check_file(t)), budget=40)
            base = [l for l in op_lines(small) if l not in ("teardown",)]
            n_ord = sum(1 for l in base if l.split()[0] in ("create", "clone") or l.startswith("build new") or (l.split()[0][0] == "t" and len(l.split()) > 1 and l.split()[1] == "create"))
            depth = 0
            for l in base:
                w = l.split()
                depth += (w[0] == "lock") - (w[0] == "unlock" and depth > 0)
            base += ["unlock"] * depth
            for j in range(40):
                suf = []
                k = n_ord
                for _ in range(rng.randint(4, 24)):
                    c = rng.random()
                    if c < 0.4:
                        suf.append("create %s" % (",".join(sorted(rng.sample("ABFH", rng.randint(0, 2)))) or "-"))
                        k += 1
                    elif c < 0.6 and k:
                        suf.append("destroynow %d" % rng.randrange(k))
                    elif c < 0.7 and k:
                        suf.append("destroy %d" % rng.randrange(k))
                    elif c < 0.75:
                        suf.append("update")
                    elif c < 0.85 and k:
                        suf.append("remove %d %s" % (rng.randrange(k), rng.choice("ABFH")))
                    elif c < 0.9 and k:
                        suf.append("clone %d" % rng.randrange(k))
                        k += 1
                    else:
                        suf.append("dump")
                cand = "\n".join(base + suf + ["dump", "teardown"]) + "\n"
                searched += 1
                r = sess.check_file(cand)
                if r and r[0] in ("oracle", "abort"):
                    small2 = shrink(cand, lambda t, kk=r[0]: (lambda x: x is not None and x[0] == kk)(sess.check_file(t)), budget=60)
                    r2 = sess.check_file(small2)
                    ctx.violation(small2, "%s fails on the implementation (%s; found by the search around the broken correspondence of %s): %s"
                                  % (ctx.prop, r[0], name, (r2 or r)[1][:500]))
                    reported += 1
                    break
            if reported:
                break
        ctx.cov(search_after_tie_cases=searched)
    if not reported and failures["tie"]:
        name, ops, msg = failures["tie"][0]
        small = shrink(ops, lambda t: (lambda x: x is not None and x[0] == "tie")(sess.check_file(t)), budget=60)
        r2 = sess.check_file(small)
        ctx.violation(small, "correspondence model<->implementation broken (%d of %d files; first %s): %s; the property oracle "
                      "(abstract spec vs implementation) found no failing input in %d files"
                      % (len(failures["tie"]), len(files), name, (r2 or (0, msg))[1][:400], len(files)), no_input=True)
    ctx.cov(evaluations=len(files) + len(storms), distinct_nontrivial=len(sess.nontrivial), creation_storms=len(storms),
            rule="one case = one op file executed on the real library (ASan+UBSan), on the Lean world model and on the Lean spec; "
                 "corpus first, then seeded structured random histories (generator keeps an exact abstract reference state so that "
                 "histories stay inside the documented contract; a separate malformed stream feeds stale/null/foreign/random handles "
                 "to the checked entry points); non-trivial = distinct files with >= 3 structural operations. " + cfg.get("what", ""),
            samples=sess.samples, op_histogram=dict(sorted(sess.hist.items())),
            oracle_failures=len(failures["oracle"]), aborts=len(failures["abort"]), tie_differences=len(failures["tie"]),
            truncated_at_contract_boundary=getattr(sess, "truncated", 0),
            trusted_base=["Lean 4.33 kernel and the axioms listed under axioms_used",
                          "harness/world_driver.cpp + canonicalisation; tools/props/world_common.py generator and diff",
                          "hand-written model lean/Mustache/Model/World.lean and spec lean/Mustache/Spec/World.lean: tied to /repo by "
                          "differential execution on the explored op files only",
                          "C++ abstract machine, compiler, std containers, user component code: outside the model"])
    ctx.assume("one API call issued while locked is atomic w.r.t. other threads' calls (scripted interleavings run one call at a time)",
               "contract of DESIGN.md 3.3: unguarded entry points get valid handles; assign only of a component the entity lacks",
               "component values are opaque tokens")

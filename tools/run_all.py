#!/usr/bin/env python3
"""run every claimed check (quick tier by default) and summarise; validates each evidence file against the schema"""
import json, os, subprocess, sys, time
V = os.path.dirname(os.path.dirname(os.path.abspath(__file__)))
tier = sys.argv[1] if len(sys.argv) > 1 else "quick"
m = json.load(open(os.path.join(V, "MANIFEST.json")))
bad = 0
for c in m["checks"]:
    cmd = c["quick_cmd"] if tier == "quick" else c["thorough_cmd"]
    t0 = time.time()
    p = subprocess.run(cmd, shell=True, cwd=V, stdout=subprocess.PIPE, stderr=subprocess.DEVNULL, text=True)
    last = [l for l in p.stdout.splitlines() if l.startswith(("OK", "VIOLATION", "KNOWN"))]
    ev = json.load(open(os.path.join(V, c["evidence_file"])))
    lvl_ok = ev["level"] == c["level_claimed"]["category"]
    print("%s rc=%d %.0fs level=%s%s | %s" % (c["property_id"], p.returncode, time.time() - t0, ev["level"],
                                             "" if lvl_ok else " (MANIFEST says %s!)" % c["level_claimed"]["category"],
                                             " ; ".join(l[:110] for l in last[-2:])), flush=True)
    bad += (p.returncode != 0) or (not lvl_ok)
v = subprocess.run(["python3-vt", "-c", """
import json, jsonschema, glob, sys
s = json.load(open('/root/.vp/EVIDENCE.schema.json'))
for f in sorted(glob.glob('%s/evidence/*.json')):
    try:
        jsonschema.validate(json.load(open(f)), s)
    except Exception as e:
        print('INVALID', f, str(e)[:200]); sys.exit(1)
print('all evidence files valid')
""" % V], stdout=subprocess.PIPE, stderr=subprocess.STDOUT, text=True)
print(v.stdout.strip())
sys.exit(1 if bad or v.returncode else 0)

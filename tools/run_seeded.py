#!/usr/bin/env python3
"""Final pass over /verif/seeded: for every kept seeded change apply it to /repo ITSELF (git -C /repo apply), run the checks
named in its meta.json (own property + the ones that caught it before), undo it straight afterwards (git -C /repo checkout -- .),
and record the outcome in meta.json["final_run"]. Run only when nothing else is using /repo.

  python3 tools/run_seeded.py [seed names...]        (default: all)
"""
import glob
import json
import os
import subprocess
import sys
import time

V = os.path.dirname(os.path.dirname(os.path.abspath(__file__)))


def sh(cmd):
    p = subprocess.run(cmd, shell=True, stdout=subprocess.PIPE, stderr=subprocess.STDOUT, text=True)
    return p.returncode, p.stdout


def main():
    names = sys.argv[1:] or sorted(os.path.basename(d) for d in glob.glob(os.path.join(V, "seeded", "*")))
    rc, out = sh("git -C /repo status --porcelain --untracked-files=no")
    if out.strip():
        print("refusing: /repo has uncommitted changes:\n" + out)
        return 1
    summary = []
    for n in names:
        d = os.path.join(V, "seeded", n)
        meta = json.load(open(os.path.join(d, "meta.json")))
        props = sorted(set([meta["property"]] + [p for p, v in meta.get("lead_verification", {}).get("checks", {}).items() if v.get("caught")]))
        rc, out = sh("git -C /repo apply %s/patch.diff" % d)
        if rc != 0:
            meta["final_run"] = {"applies_to_head": False, "note": "the patch no longer applies to /repo HEAD (the code it changes was repaired "
                                 "later); last verified against the HEAD it was made for, see lead_verification", "error": out[-200:]}
            json.dump(meta, open(os.path.join(d, "meta.json"), "w"), indent=1)
            summary.append((n, "does-not-apply"))
            continue
        res = {}
        try:
            for p in props:
                t0 = time.time()
                rc, out = sh("cd %s && python3 tools/check.py %s 2>&1 | grep -E '^(VIOLATION|OK|KNOWN)' | head -4" % (V, p))
                lines = out.strip().splitlines()
                res[p] = {"caught": any(l.startswith("VIOLATION") for l in lines), "lines": lines, "wall_s": round(time.time() - t0, 1)}
        finally:
            sh("git -C /repo checkout -- .")
            sh("cd %s && git checkout -- lean/Mustache/Gen 2>/dev/null" % V)
        meta["final_run"] = {"applies_to_head": True, "repo_head": sh("git -C /repo rev-parse --short HEAD")[1].strip(),
                             "how": "git -C /repo apply patch.diff; python3 tools/check.py <id>; git -C /repo checkout -- .", "checks": res}
        json.dump(meta, open(os.path.join(d, "meta.json"), "w"), indent=1)
        summary.append((n, {p: v["caught"] for p, v in res.items()}))
        print(n, {p: v["caught"] for p, v in res.items()}, flush=True)
    missed = [s for s in summary if isinstance(s[1], dict) and not any(s[1].values())]
    print("seeds:", len(summary), "missed by every check:", [m[0] for m in missed])
    return 0


if __name__ == "__main__":
    sys.exit(main())

#!/bin/bash
# usage: seedbatch.sh <worktree> <dir>:<props>[:skip] ...   (runs tools/seedtest.py for each, sequentially)
cd "$(dirname "$0")/.."
WT=$1; shift
for spec in "$@"; do
  IFS=':' read d props skip <<< "$spec"
  if [ -n "$skip" ]; then extra="--skip-confirm"; else extra=""; fi
  python3 tools/seedtest.py $d --props $props --worktree $WT $extra > $d/seedtest.log 2>&1
done
echo batch-done

#!/usr/bin/env python3
"""Confirm a seeded change (patch.diff + demo.cpp + meta.json) and run the checks against it.

  python3 tools/seedtest.py <dir with patch.diff/demo.cpp/meta.json> [--props C04,C10] [--worktree /tmp/wt_lead]

Steps (all in a scratch worktree of /repo, never in /repo itself):
  1. patch applies; library + tests build; the 50 tests pass WITH the change
  2. demo fails WITH the change, passes WITHOUT it
  3. every named check (default: the property in meta.json) is run with VERIF_REPO=<worktree>: must print VIOLATION
Prints a JSON summary (also written to <dir>/result.json).
"""
import argparse
import json
import os
import subprocess
import sys
import time


def sh(cmd, **kw):
    p = subprocess.run(cmd, shell=True, stdout=subprocess.PIPE, stderr=subprocess.STDOUT, text=True, **kw)
    return p.returncode, p.stdout


def build(wt, b):
    rc, out = sh("cmake -G Ninja -S %s -B %s -DCMAKE_BUILD_TYPE=RelWithDebInfo -DMUSTACHE_BUILD_TESTS=ON "
                 "-DFETCHCONTENT_SOURCE_DIR_GOOGLETEST=/usr/src/googletest -DFETCHCONTENT_FULLY_DISCONNECTED=ON >/dev/null && "
                 "cmake --build %s -j12 2>&1 | tail -5" % (wt, b, b))
    return rc == 0 and os.path.exists(b + "/bin/mustache_test"), out


def demo(wt, b, d):
    exe = b + "/demo"
    rc, out = sh("g++ -std=gnu++17 -O1 -g -I %s/src -I %s %s/demo.cpp %s/bin/libmustache.so -Wl,-rpath,%s/bin -lpthread -o %s 2>&1 | tail -5"
                 % (wt, b, d, b, b, exe))
    if not os.path.exists(exe):
        return None, out
    rc, out = sh("timeout 120 " + exe)
    os.unlink(exe)
    return rc, out[-400:]


def main():
    ap = argparse.ArgumentParser()
    ap.add_argument("dir")
    ap.add_argument("--props")
    ap.add_argument("--worktree", default="/tmp/wt_lead")
    ap.add_argument("--skip-confirm", action="store_true")
    a = ap.parse_args()
    d = os.path.abspath(a.dir)
    wt = a.worktree
    meta = json.load(open(os.path.join(d, "meta.json")))
    props = (a.props.split(",") if a.props else [meta["property"]])
    verif = os.path.dirname(os.path.dirname(os.path.abspath(__file__)))
    res = {"seed": d, "props": props}
    if not os.path.isdir(wt):
        sh("git -C /repo worktree add -f %s HEAD" % wt)
    sh("git -C %s checkout -q --detach $(git -C /repo rev-parse HEAD) && git -C %s checkout -- ." % (wt, wt))
    b = "/tmp/seedtest_build_%d" % os.getpid()
    try:
        if not a.skip_confirm:
            ok, out = build(wt, b)
            rc0, o0 = demo(wt, b, d) if ok else (None, out)
            res["demo_without_change_rc"] = rc0
        rc, out = sh("git -C %s apply %s/patch.diff" % (wt, d))
        res["patch_applies"] = rc == 0
        if rc != 0:
            res["error"] = out[-300:]
            return res
        if not a.skip_confirm:
            ok, out = build(wt, b)
            res["builds_with_change"] = ok
            if ok:
                rc, out = sh("timeout 600 %s/bin/mustache_test --gtest_brief=1 2>&1 | tail -3" % b)
                res["tests_pass_with_change"] = "[  PASSED  ] 50 tests" in out
                rc1, o1 = demo(wt, b, d)
                res["demo_with_change_rc"] = rc1
                res["demo_with_change_out"] = (o1 or "")[-200:]
            res["confirmed"] = bool(res.get("tests_pass_with_change") and res.get("demo_without_change_rc") == 0
                                    and res.get("demo_with_change_rc") not in (0, None))
        res["checks"] = {}
        for p in props:
            t0 = time.time()
            rc, out = sh("cd %s && VERIF_REPO=%s python3 tools/check.py %s 2>&1 | grep -E '^(VIOLATION|OK|KNOWN)' | head -4" % (verif, wt, p))
            lines = out.strip().splitlines()
            res["checks"][p] = {"caught": any(l.startswith("VIOLATION") for l in lines), "lines": lines, "wall_s": round(time.time() - t0, 1)}
            for l in lines:
                if l.startswith("VIOLATION") and "replay=" in l:
                    rp = l.split("replay=")[1].split()[0]
                    if os.path.exists(rp):
                        res["checks"][p]["replay_head"] = open(rp).read()[:600]
                    break
    finally:
        sh("git -C %s checkout -- . ; rm -rf %s" % (wt, b))
        # restore files that checks regenerate from the tree under test
        sh("cd %s && git checkout -- lean/Mustache/Gen 2>/dev/null" % verif)
    return res


if __name__ == "__main__":
    r = main()
    json.dump(r, open(os.path.join(os.path.abspath(sys.argv[1]), "result.json"), "w"), indent=1)
    print(json.dumps(r, indent=1)[:3000])

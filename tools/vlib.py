#!/usr/bin/env python3
"""Shared machinery for the /verif checks (stdlib only).

  paths, content-hashed builds of /repo + harness, Lean build / audit,
  known findings, evidence, violation reporting.

Everything is derived from this file's location so that a snapshot of /verif
(vp run) works as well as /verif itself.
"""
import fcntl
import hashlib
import json
import os
import random
import re
import shutil
import subprocess
import sys
import time
from concurrent.futures import ThreadPoolExecutor

TOOLS = os.path.dirname(os.path.abspath(__file__))
VERIF = os.path.dirname(TOOLS)
REPO = os.environ.get("VERIF_REPO", "/repo")
LEAN = os.path.join(VERIF, "lean")
HARNESS = os.path.join(VERIF, "harness")
CACHE = os.path.join(VERIF, ".cache")
EVIDENCE = os.path.join(VERIF, "evidence")
REPLAYS = os.path.join(VERIF, "replays")
KNOWN_FILE = os.path.join(VERIF, "known_findings.txt")
GUARD = "MUSTACHE_VERIF"
NPROC = os.cpu_count() or 4

ALLOWED_AXIOMS = {"propext", "Classical.choice", "Quot.sound"}

VARIANTS = {
    # name: (compile flags, link flags)
    "asan": (["-O1", "-g", "-fno-omit-frame-pointer", "-fsanitize=address,undefined",
              "-fno-sanitize-recover=all"],
             ["-fsanitize=address,undefined"]),
    "plain": (["-O1", "-g"], []),
    "tsan": (["-O1", "-g", "-fsanitize=thread"], ["-fsanitize=thread"]),
}

COMMON_FLAGS = ["-std=gnu++17", "-fPIC", "-w", "-pthread",
                "-DBUILD_WITH_EASY_PROFILER=0", "-DMUSTACHE_STATIC_DEFINE", "-D" + GUARD]


def log(*a):
    print(*a, file=sys.stderr, flush=True)


class Lock:
    """Inter-process lock (checks may run concurrently); re-entrant within one process and thread-safe."""
    _held = {}          # name -> [depth, file, owner thread id]
    _guard = __import__("threading").RLock()

    def __init__(self, name):
        os.makedirs(CACHE, exist_ok=True)
        self.name = name
        self.path = os.path.join(CACHE, name + ".lock")

    def __enter__(self):
        import threading
        me = threading.get_ident()
        with Lock._guard:
            h = Lock._held.get(self.name)
            if h is not None and h[2] == me:
                h[0] += 1
                return self
        f = open(self.path, "w")
        fcntl.flock(f, fcntl.LOCK_EX)          # other processes AND other threads of this process wait here
        with Lock._guard:
            Lock._held[self.name] = [1, f, me]
        return self

    def __exit__(self, *a):
        with Lock._guard:
            h = Lock._held[self.name]
            h[0] -= 1
            if h[0] == 0:
                del Lock._held[self.name]
                fcntl.flock(h[1], fcntl.LOCK_UN)
                h[1].close()


def run(cmd, cwd=None, timeout=None, inp=None, env=None):
    """Run a command; returns (rc, stdout, stderr) with text output."""
    e = dict(os.environ)
    if env:
        e.update(env)
    try:
        p = subprocess.run(cmd, cwd=cwd, input=inp, stdout=subprocess.PIPE, stderr=subprocess.PIPE,
                           timeout=timeout, env=e, text=True, errors="replace")
        return p.returncode, p.stdout, p.stderr
    except subprocess.TimeoutExpired as ex:
        out = ex.stdout.decode(errors="replace") if isinstance(ex.stdout, bytes) else (ex.stdout or "")
        err = ex.stderr.decode(errors="replace") if isinstance(ex.stderr, bytes) else (ex.stderr or "")
        return -999, out, err + "\nTIMEOUT"


# ----------------------------------------------------------------------------------------------
# source hashing and builds
# ----------------------------------------------------------------------------------------------

def _files_under(root, exts):
    out = []
    for d, _, fs in os.walk(root):
        for f in fs:
            if f.endswith(exts):
                out.append(os.path.join(d, f))
    return sorted(out)


def repo_sources():
    return [f for f in _files_under(os.path.join(REPO, "src"), (".cpp",))]


def src_hash():
    """Hash of the CONTENTS of /repo/src (working tree, not HEAD)."""
    h = hashlib.sha256()
    for f in _files_under(os.path.join(REPO, "src"), (".cpp", ".hpp", ".h", ".c")):
        h.update(os.path.relpath(f, REPO).encode())
        with open(f, "rb") as fh:
            h.update(hashlib.sha256(fh.read()).digest())
    return h.hexdigest()[:16]


def harness_hash(paths):
    h = hashlib.sha256()
    for f in paths:
        with open(f, "rb") as fh:
            h.update(fh.read())
    return h.hexdigest()[:12]


EXPORT_H = """#pragma once
#define MUSTACHE_EXPORT
#define MUSTACHE_NO_EXPORT
#define MUSTACHE_DEPRECATED __attribute__ ((__deprecated__))
#define MUSTACHE_DEPRECATED_EXPORT
#define MUSTACHE_DEPRECATED_NO_EXPORT
"""


def export_include():
    """Directory holding the generated mustache_export.h (what cmake's generate_export_header makes)."""
    inc = os.path.join(CACHE, "include")
    os.makedirs(inc, exist_ok=True)
    p = os.path.join(inc, "mustache_export.h")
    if not os.path.exists(p):
        with open(p + ".%d" % os.getpid(), "w") as f:
            f.write(EXPORT_H)
        os.rename(p + ".%d" % os.getpid(), p)
    return inc


def _prune_cache(keep):
    try:
        ents = [os.path.join(CACHE, d) for d in os.listdir(CACHE)
                if os.path.isdir(os.path.join(CACHE, d)) and re.fullmatch(r"[0-9a-f]{16}", d)]
    except FileNotFoundError:
        return
    ents.sort(key=lambda p: os.path.getmtime(p), reverse=True)
    for p in ents[keep:]:
        shutil.rmtree(p, ignore_errors=True)


class BuildError(Exception):
    def __init__(self, what, output):
        super().__init__(what)
        self.what = what
        self.output = output


def build_lib(variant="asan", extra_defs=()):
    """Compile every .cpp under /repo/src (current working tree) into a static archive.
    Returns (archive path, include dir). Cached by content hash."""
    h = src_hash()
    tag = variant + ("-" + hashlib.sha256(" ".join(extra_defs).encode()).hexdigest()[:6] if extra_defs else "")
    root = os.path.join(CACHE, h, tag)
    lib = os.path.join(root, "libmustache.a")
    inc = os.path.join(CACHE, h, "include")
    with Lock("build-" + h + "-" + tag):
        if os.path.exists(lib):
            os.utime(os.path.join(CACHE, h))
            return lib, inc
        os.makedirs(os.path.join(root, "obj"), exist_ok=True)
        os.makedirs(inc, exist_ok=True)
        with open(os.path.join(inc, "mustache_export.h"), "w") as f:
            f.write(EXPORT_H)
        cflags, _ = VARIANTS[variant]
        srcs = repo_sources()
        objs = []
        jobs = []
        for s in srcs:
            o = os.path.join(root, "obj", os.path.relpath(s, REPO).replace("/", "_") + ".o")
            objs.append(o)
            jobs.append(["g++"] + COMMON_FLAGS + cflags + list(extra_defs) +
                        ["-I" + os.path.join(REPO, "src"), "-I" + inc, "-c", s, "-o", o])
        t0 = time.time()
        with ThreadPoolExecutor(NPROC) as ex:
            res = list(ex.map(lambda c: run(c, timeout=900), jobs))
        for (rc, out, err), c in zip(res, jobs):
            if rc != 0:
                shutil.rmtree(root, ignore_errors=True)
                raise BuildError("library source does not compile: " + c[-3], err[-4000:])
        rc, out, err = run(["ar", "rcs", lib + ".tmp"] + objs)
        if rc != 0:
            raise BuildError("ar failed", err)
        os.rename(lib + ".tmp", lib)
        log("[build] lib %s/%s in %.1fs" % (h, tag, time.time() - t0))
        _prune_cache(10)
    return lib, inc


def build_harness(name, variant="asan", extra_defs=(), sources=None, lang_c=False):
    """Compile harness/<name>.cpp (+ extra sources) against the current /repo and link."""
    lib, inc = build_lib(variant, ())
    h = src_hash()
    srcs = [os.path.join(HARNESS, name + ".cpp")] + [os.path.join(HARNESS, s) for s in (sources or [])]
    hdrs = _files_under(HARNESS, (".hpp", ".h"))
    hh = harness_hash(srcs + hdrs) + ("-" + hashlib.sha256(" ".join(extra_defs).encode()).hexdigest()[:6] if extra_defs else "")
    out = os.path.join(CACHE, h, variant, "%s-%s" % (name, hh))
    with Lock("harness-" + h + "-" + variant + "-" + name):
        if os.path.exists(out):
            return out
        cflags, lflags = VARIANTS[variant]
        cmd = (["g++"] + COMMON_FLAGS + cflags + list(extra_defs) +
               ["-I" + os.path.join(REPO, "src"), "-I" + inc, "-I" + HARNESS] + srcs +
               [lib, "-o", out + ".tmp"] + lflags + ["-lpthread"])
        t0 = time.time()
        rc, o, e = run(cmd, timeout=900)
        if rc != 0:
            raise BuildError("harness %s does not compile against the current tree" % name, e[-6000:])
        os.rename(out + ".tmp", out)
        log("[build] harness %s (%s) in %.1fs" % (name, variant, time.time() - t0))
    return out


# ----------------------------------------------------------------------------------------------
# Lean
# ----------------------------------------------------------------------------------------------

def lean_build(targets=None):
    """lake build (whole library + driver by default). Returns (ok, output)."""
    with Lock("lake"):
        cmd = ["lake", "build"] + (targets or [])
        rc, out, err = run(cmd, cwd=LEAN, timeout=3600)
        return rc == 0, out + err


def lean_driver():
    """Path of a PRIVATE copy of the Lean driver executable (content-addressed), so that a concurrent
    `lake build` that re-links .lake/build/bin/driver cannot pull the binary away under a running check."""
    p = os.path.join(LEAN, ".lake", "build", "bin", "driver")
    with Lock("lake"):
        rc, out, err = run(["lake", "build", "driver"], cwd=LEAN, timeout=3600)
        if rc != 0 or not os.path.exists(p):
            raise BuildError("lake build driver failed", (out + err)[-6000:])
        with open(p, "rb") as f:
            h = hashlib.sha256(f.read()).hexdigest()[:16]
        priv = os.path.join(CACHE, "driver-" + h)
        if not os.path.exists(priv):
            shutil.copy2(p, priv + ".tmp%d" % os.getpid())
            os.rename(priv + ".tmp%d" % os.getpid(), priv)
            # keep the newest few copies only
            olds = sorted([os.path.join(CACHE, f) for f in os.listdir(CACHE) if f.startswith("driver-") and ".tmp" not in f],
                          key=os.path.getmtime, reverse=True)
            for o in olds[6:]:
                try:
                    os.unlink(o)
                except OSError:
                    pass
    return priv


_COMMENT_BLOCK = re.compile(r"/-.*?-/", re.S)
_COMMENT_LINE = re.compile(r"--.*?$", re.M)
FORBIDDEN = re.compile(r"\b(sorry|admit|native_decide|bv_decide|implemented_by|unsafe)\b|^\s*axiom\s|maxHeartbeats\s+0\b", re.M)


def strip_lean_comments(s):
    # nested block comments are rare in this code base; strip repeatedly
    prev = None
    while prev != s:
        prev = s
        s = _COMMENT_BLOCK.sub(" ", s)
    return _COMMENT_LINE.sub("", s)


def lean_import_closure(roots):
    """Files (paths) reachable through `import Mustache.*` from the given module names / Driver."""
    seen, todo = {}, list(roots)
    while todo:
        m = todo.pop()
        if m in seen:
            continue
        f = os.path.join(LEAN, *m.split(".")) + ".lean"
        if not os.path.exists(f):
            continue
        seen[m] = f
        for line in open(f):
            mm = re.match(r"\s*(?:public\s+)?import\s+((?:Mustache|Driver)[\w.]*)", line)
            if mm:
                todo.append(mm.group(1))
    return sorted(seen.values())


def lean_grep_forbidden(prop=None):
    """Return list of (file, token) hits outside comments: in everything the property's theorem file and the
    driver import (the whole library when no property is given)."""
    hits = []
    if prop is None:
        files = _files_under(os.path.join(LEAN, "Mustache"), (".lean",)) + [os.path.join(LEAN, "Driver.lean")]
    else:
        files = lean_import_closure(["Mustache.Props." + prop, "Driver"])
    for f in files:
        s = strip_lean_comments(open(f).read())
        for m in FORBIDDEN.finditer(s):
            hits.append((os.path.relpath(f, LEAN), m.group(0).strip()))
    return hits


def props_theorems(prop):
    """Names of the theorems in Props/<prop>.lean (fully qualified)."""
    f = os.path.join(LEAN, "Mustache", "Props", prop + ".lean")
    return _theorems_of(f)


def _theorems_of(f):
    if not os.path.exists(f):
        return []
    s = strip_lean_comments(open(f).read())
    names = []
    ns = []
    for line in s.splitlines():
        m = re.match(r"\s*namespace\s+(\S+)", line)
        if m:
            ns.append(m.group(1))
            continue
        m = re.match(r"\s*end\s+(\S+)\s*$", line)
        if m and ns and ns[-1].split(".")[-1] == m.group(1).split(".")[-1]:
            ns.pop()
            continue
        m = re.match(r"\s*(?:@\[[^\]]*\]\s*)?(?:private\s+|protected\s+)?theorem\s+([^\s:({\[]+)", line)
        if m:
            names.append(".".join(ns + [m.group(1)]))
    return names


def lean_audit(prop, leanchecker=False, extra=()):
    """Build Props/<prop>, print axioms of every theorem there, grep forbidden tokens.
    Returns dict(ok, obligations, discharged, axioms{thm:[..]}, problems[..])."""
    res = {"ok": True, "obligations": 0, "discharged": 0, "axioms": {}, "problems": [], "theorems": []}
    mod = "Mustache.Props." + prop
    extra_mods = ["Mustache.Props." + x for x in extra]
    ok, out = lean_build([mod, "driver"] + extra_mods)
    if not ok:
        res["ok"] = False
        res["problems"].append("lake build %s failed:\n%s" % (mod, out[-3000:]))
        return res
    hits = lean_grep_forbidden(prop)
    for x in extra:
        hits += [h for h in lean_grep_forbidden(x) if h not in hits]
    if hits:
        res["ok"] = False
        res["problems"].append("forbidden tokens: %r" % (hits[:10],))
    thms = props_theorems(prop)
    for x in extra:
        thms += props_theorems(x)
    res["theorems"] = thms
    res["obligations"] = len(thms)
    if not thms:
        res["ok"] = False
        res["problems"].append("no theorems in Props/%s.lean" % prop)
        return res
    src = "import %s\n" % mod + "".join("import %s\n" % m for m in extra_mods) + "".join("#print axioms %s\n" % t for t in thms)
    tmp = os.path.join(CACHE, "audit_%s_%d.lean" % (prop, os.getpid()))
    os.makedirs(CACHE, exist_ok=True)
    with open(tmp, "w") as f:
        f.write(src)
    rc, out, err = run(["lake", "env", "lean", tmp], cwd=LEAN, timeout=900)
    os.unlink(tmp)
    txt = out + err
    if rc != 0:
        res["ok"] = False
        res["problems"].append("#print axioms failed: " + txt[-2000:])
        return res
    # parse: "'name' depends on axioms: [a, b]" or "'name' does not depend on any axioms"
    flat = re.sub(r"\s+", " ", txt)
    for t in thms:
        m = re.search(r"'%s' depends on axioms: \[([^\]]*)\]" % re.escape(t), flat)
        if m:
            ax = [a.strip() for a in m.group(1).split(",") if a.strip()]
        elif re.search(r"'%s' does not depend on any axioms" % re.escape(t), flat):
            ax = []
        else:
            res["ok"] = False
            res["problems"].append("no axiom report for " + t)
            continue
        res["axioms"][t] = ax
        bad = [a for a in ax if a not in ALLOWED_AXIOMS]
        if bad:
            res["ok"] = False
            res["problems"].append("theorem %s depends on %r" % (t, bad))
        else:
            res["discharged"] += 1
    if leanchecker:
        for m in [mod] + extra_mods:
            rc, out, err = run(["lake", "env", "leanchecker", m], cwd=LEAN, timeout=1800)
            res["leanchecker"] = "ok" if rc == 0 else (out + err)[-1500:]
            if rc != 0:
                res["ok"] = False
                res["problems"].append("leanchecker rejected " + m)
    return res


# ----------------------------------------------------------------------------------------------
# known findings
# ----------------------------------------------------------------------------------------------

def known_findings(prop):
    """Entries of known_findings.txt for a property: list of dict(state, key, text)."""
    out = []
    if not os.path.exists(KNOWN_FILE):
        return out
    for line in open(KNOWN_FILE):
        line = line.strip()
        if not line or line.startswith("#"):
            continue
        m = re.match(r"(open|fixed):\s+property=(\S+)\s+(.*)$", line)
        if not m or m.group(2) != prop:
            continue
        rest = m.group(3)
        km = re.match(r"key=(\S+)\s+(.*)$", rest)
        out.append({"state": m.group(1), "key": km.group(1) if km else None,
                    "text": km.group(2) if km else rest})
    return out


# ----------------------------------------------------------------------------------------------
# check context
# ----------------------------------------------------------------------------------------------

class Ctx:
    def __init__(self, prop, tier, seed):
        self.prop = prop
        self.tier = tier
        self.seed = seed
        self.rng = random.Random(seed * 1000003 + sum(map(ord, prop)))
        self.t0 = time.time()
        self.violations = []      # (replay path, message, no_input)
        self.known_printed = []
        self.coverage = {}
        self.assumptions = []
        self.proof = None
        self.level = "proof"
        self.prep_error = None
        self._nrep = 0
        self.open_known = {k["key"]: k for k in known_findings(prop) if k["state"] == "open"}

    @property
    def thorough(self):
        return self.tier == "thorough"

    def harness(self, name, variant="asan", extra_defs=(), sources=None):
        return build_harness(name, variant, extra_defs, sources)

    def driver(self):
        return lean_driver()

    def replay_path(self, suffix="ops"):
        os.makedirs(REPLAYS, exist_ok=True)
        self._nrep += 1
        return os.path.join(REPLAYS, "%s-%d-%d.%s" % (self.prop, self.seed, self._nrep, suffix))

    def violation(self, replay_text, message, no_input=False, suffix="ops"):
        p = self.replay_path(suffix)
        with open(p, "w") as f:
            f.write(replay_text if replay_text.endswith("\n") else replay_text + "\n")
            f.write("# %s\n" % message.replace("\n", "\n# "))
        self.violations.append((p, message, no_input))
        log("[violation] %s: %s" % (self.prop, message.splitlines()[0] if message else ""))
        return p

    def known(self, key, what):
        """Report an open known finding that still reproduces."""
        if key in self.open_known:
            line = "KNOWN-FINDING: property=%s %s" % (self.prop, what)
            if line not in self.known_printed:
                self.known_printed.append(line)
            return True
        return False

    def cov(self, **kw):
        for k, v in kw.items():
            if k in ("evaluations", "distinct_nontrivial", "programs", "disagreements_checked",
                     "traces_validated_against_impl", "states", "transitions") and k in self.coverage:
                self.coverage[k] += v
            elif k == "samples" and k in self.coverage:
                self.coverage[k] = (self.coverage[k] + list(v))[:12]
            else:
                self.coverage[k] = v

    def assume(self, *a):
        for x in a:
            if x not in self.assumptions:
                self.assumptions.append(x)


def write_evidence(ctx):
    os.makedirs(EVIDENCE, exist_ok=True)
    cov = dict(ctx.coverage)
    if ctx.proof is not None:
        cov.setdefault("obligations", ctx.proof["obligations"])
        cov.setdefault("discharged", ctx.proof["discharged"])
        cov.setdefault("checker_cmd", "cd lean && lake build Mustache.Props.%s && lake env lean <#print axioms of every theorem>%s"
                       % (ctx.prop, " && lake env leanchecker Mustache.Props.%s" % ctx.prop if ctx.thorough else ""))
        cov.setdefault("theorems", ctx.proof["theorems"])
        cov.setdefault("axioms_used", sorted({a for v in ctx.proof["axioms"].values() for a in v}))
        if ctx.proof["problems"]:
            cov["proof_problems"] = ctx.proof["problems"]
    # schema guards: exhaustive is a boolean, counts are integers, samples a list
    if "exhaustive" in cov and not isinstance(cov["exhaustive"], bool):
        cov["exhaustive_scope"] = cov["exhaustive"]
        cov["exhaustive"] = True
    for k in ("evaluations", "distinct_nontrivial", "obligations", "discharged", "programs", "disagreements_checked",
              "states", "transitions", "traces_validated_against_impl"):
        if k in cov:
            cov[k] = int(cov[k])
    if "samples" in cov and not isinstance(cov["samples"], list):
        cov["samples"] = [cov["samples"]]
    if "trusted_base" in cov:
        cov["trusted_base"] = [str(x) for x in cov["trusted_base"]]
    if ctx.level == "other":
        cov.setdefault("explanation", "executable Lean model + abstract spec run against the implementation on the same op files "
                       "(correspondence tie and property oracle); the Lean theorems for this property are not finished, so the level is "
                       "not 'proof'")
    cov.setdefault("trusted_base", [])
    cov.setdefault("evaluations", 0)
    cov.setdefault("distinct_nontrivial", 0)
    cov.setdefault("samples", [])
    cov["known_findings_printed"] = ctx.known_printed
    ev = {
        "property_id": ctx.prop,
        "tier": ctx.tier,
        "seed": ctx.seed,
        "level": ctx.level,
        "coverage": cov,
        "assumptions": ctx.assumptions,
        "wall_s": round(time.time() - ctx.t0, 2),
        "violations": len(ctx.violations),
    }
    p = os.path.join(EVIDENCE, ctx.prop + ".json")
    with open(p + ".tmp", "w") as f:
        json.dump(ev, f, indent=1, sort_keys=True)
    os.rename(p + ".tmp", p)
    return p

#!/usr/bin/env python3
"""run one world op file on implementation and model, print the first difference (development aid)"""
import sys, os
sys.path.insert(0, os.path.dirname(os.path.abspath(__file__)))
import vlib
from props import world_common as wc
ctx = vlib.Ctx("C02", "quick", 1)
s = wc.Session(ctx)
for f in sys.argv[1:]:
    ops = open(f).read()
    r = s.check_file(ops)
    print(f, "->", "OK" if r is None else r)
    if r and "-v" in os.environ.get("WDIFF", ""):
        impl, note, err = wc.run_impl(s.exe, ops); print("\n".join(impl[-30:])); print(err[-1500:])
